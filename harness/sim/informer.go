// Package sim provides deterministic substitutes for the Kubernetes machinery around the
// furiko controllers: informers that deliver events only when told to, a controller context
// built on them, a virtual clock, a deterministic work queue and an API-server simulation.
package sim

import (
	"reflect"
	"sort"
	"time"

	"k8s.io/apimachinery/pkg/api/meta"
	"k8s.io/apimachinery/pkg/runtime"
	"k8s.io/client-go/tools/cache"
)

// sortedIndexer wraps a cache.Indexer so that every listing is ordered by key: listings that
// come out of Go maps would otherwise make runs irreproducible.
type sortedIndexer struct {
	cache.Indexer
}

func sortObjs(objs []interface{}) []interface{} {
	sort.SliceStable(objs, func(i, j int) bool {
		ki, _ := cache.MetaNamespaceKeyFunc(objs[i])
		kj, _ := cache.MetaNamespaceKeyFunc(objs[j])
		return ki < kj
	})
	return objs
}

func (s sortedIndexer) List() []interface{} { return sortObjs(s.Indexer.List()) }
func (s sortedIndexer) ListKeys() []string {
	k := s.Indexer.ListKeys()
	sort.Strings(k)
	return k
}
func (s sortedIndexer) Index(indexName string, obj interface{}) ([]interface{}, error) {
	o, err := s.Indexer.Index(indexName, obj)
	return sortObjs(o), err
}
func (s sortedIndexer) ByIndex(indexName, indexedValue string) ([]interface{}, error) {
	o, err := s.Indexer.ByIndex(indexName, indexedValue)
	return sortObjs(o), err
}

// FakeInformer is a cache.SharedIndexInformer whose cache and handlers are driven explicitly.
type FakeInformer struct {
	indexer  sortedIndexer
	handlers []cache.ResourceEventHandler
	queues   [][]notification // per handler: notifications not yet run (handler lag)
	noResync []bool           // per handler: registered with resync period 0 (no periodic resync)
	Synced   bool
	snap     map[string]runtime.Object // key -> copy taken at CacheSet (Drifted)

	// ReplayOnRegister makes AddEventHandler queue, for the new handler, one add notification
	// per object that is in the cache at that moment.  This is what client-go does: a handler
	// that joins a started shared informer is sent synthetic adds for everything in the
	// indexer, and a handler registered before the start receives the initial list as adds —
	// in both cases asynchronously (the handler runs them whenever its goroutine gets to it,
	// HasSynced only speaks about the store).  The notifications run on NotifyNext /
	// NotifyNextFor / Flush like any other.
	ReplayOnRegister bool

	// OnRegister, when set, runs at the end of AddEventHandler with the index of the handler that
	// has just joined.  client-go notifies a handler of every change from its registration on,
	// while the code that registered it may read the lister only later (activejobstore.Recover:
	// AddEventHandler, wait for HasSynced — a 100 ms poll —, THEN Lister().List()).  An engine
	// uses the hook to let watch events be applied to the cache (Deliver: the notification is
	// queued for the handlers registered so far) inside that window, without goroutines.  The hook
	// is taken off while it runs, so a registration made from inside it does not re-enter.
	OnRegister func(h int)
}

type notification struct {
	kind     string
	old, obj interface{}
}

func NewFakeInformer() *FakeInformer {
	return &FakeInformer{
		indexer: sortedIndexer{cache.NewIndexer(cache.DeletionHandlingMetaNamespaceKeyFunc,
			cache.Indexers{cache.NamespaceIndex: cache.MetaNamespaceIndexFunc})},
		Synced: true,
	}
}

var _ cache.SharedIndexInformer = (*FakeInformer)(nil)

func (f *FakeInformer) AddEventHandler(h cache.ResourceEventHandler) {
	f.handlers = append(f.handlers, h)
	f.queues = append(f.queues, nil)
	f.noResync = append(f.noResync, false)
	if f.ReplayOnRegister {
		f.ReplayExisting(len(f.handlers) - 1)
	}
	if hook := f.OnRegister; hook != nil {
		f.OnRegister = nil
		hook(len(f.handlers) - 1)
		f.OnRegister = hook
	}
}

// ReplayExisting queues, for handler h, an add notification for every cached object (in key
// order): the informer's notifications for the objects that exist when the handler joins.
func (f *FakeInformer) ReplayExisting(h int) {
	for _, o := range f.indexer.List() {
		f.queues[h] = append(f.queues[h], notification{"add", nil, o})
	}
}

// AddEventHandlerWithResyncPeriod: a handler registered with period 0 opts out of the periodic
// resync (client-go: "a resyncPeriod of zero means the handler does not care about resyncs");
// AddEventHandler registers with the informer's default period, which is non-zero in production
// (controllercontext.SetUpInformers, DefaultResync 10 min).  The length of a non-zero period is
// not modelled: Resync() is an explicit engine action.
func (f *FakeInformer) AddEventHandlerWithResyncPeriod(h cache.ResourceEventHandler, d time.Duration) {
	f.AddEventHandler(h)
	f.noResync[len(f.handlers)-1] = d == 0
}
func (f *FakeInformer) GetStore() cache.Store                                { return f.indexer }
func (f *FakeInformer) GetController() cache.Controller                      { return nil }
func (f *FakeInformer) Run(stopCh <-chan struct{})                           {}
func (f *FakeInformer) HasSynced() bool                                      { return f.Synced }
func (f *FakeInformer) LastSyncResourceVersion() string                      { return "" }
func (f *FakeInformer) SetWatchErrorHandler(h cache.WatchErrorHandler) error { return nil }
func (f *FakeInformer) AddIndexers(indexers cache.Indexers) error {
	return f.indexer.AddIndexers(indexers)
}
func (f *FakeInformer) GetIndexer() cache.Indexer { return f.indexer }

// NumHandlers returns the number of registered handlers (registration order is delivery order).
func (f *FakeInformer) NumHandlers() int { return len(f.handlers) }

// CacheOnly updates the cache without notifying handlers.
func (f *FakeInformer) CacheSet(obj interface{}) {
	_ = f.indexer.Update(obj)
	if ro, ok := obj.(runtime.Object); ok {
		if k, err := cache.MetaNamespaceKeyFunc(obj); err == nil {
			if f.snap == nil {
				f.snap = map[string]runtime.Object{}
			}
			f.snap[k] = ro.DeepCopyObject()
		}
	}
}
func (f *FakeInformer) CacheDel(obj interface{}) {
	_ = f.indexer.Delete(obj)
	if k, err := cache.DeletionHandlingMetaNamespaceKeyFunc(obj); err == nil {
		delete(f.snap, k)
	}
}

// Drifted returns the keys of the cached objects that no longer equal the copy taken when the cache
// received them: code under test wrote through an object it got from a lister (client-go: "objects
// returned from the lister must be treated as read-only").  An observation for the evidence, not a
// verdict: both seeded changes that the checks missed at first in wave 4 worked through such a write.
func (f *FakeInformer) Drifted() []string {
	var out []string
	for _, o := range f.indexer.List() {
		k, err := cache.MetaNamespaceKeyFunc(o)
		if err != nil {
			continue
		}
		if s, ok := f.snap[k]; ok && !reflect.DeepEqual(s, o) {
			out = append(out, k)
		}
	}
	sort.Strings(out)
	return out
}

// CacheGet returns the cached object under the key of obj.
func (f *FakeInformer) CacheGet(obj interface{}) (interface{}, bool) {
	o, ok, _ := f.indexer.Get(obj)
	return o, ok
}

// Notify calls handler h (index in registration order; -1 = all, in order) like the shared
// informer's processor would after the cache applied the event.
func (f *FakeInformer) NotifyAdd(h int, obj interface{}) {
	for i, hd := range f.handlers {
		if h < 0 || h == i {
			hd.OnAdd(obj)
		}
	}
}
func (f *FakeInformer) NotifyUpdate(h int, oldObj, newObj interface{}) {
	for i, hd := range f.handlers {
		if h < 0 || h == i {
			hd.OnUpdate(oldObj, newObj)
		}
	}
}
func (f *FakeInformer) NotifyDelete(h int, obj interface{}) {
	for i, hd := range f.handlers {
		if h < 0 || h == i {
			hd.OnDelete(obj)
		}
	}
}

// Apply applies an event to the cache and notifies all handlers at once (no handler lag).
// kind: "add" | "update" | "delete".  For update the old object is taken from the cache.
func (f *FakeInformer) Apply(kind string, obj interface{}) {
	switch kind {
	case "add":
		f.CacheSet(obj)
		f.NotifyAdd(-1, obj)
	case "update":
		old, ok := f.CacheGet(obj)
		f.CacheSet(obj)
		if ok {
			f.NotifyUpdate(-1, old, obj)
		} else {
			f.NotifyAdd(-1, obj)
		}
	case "delete":
		old, ok := f.CacheGet(obj)
		f.CacheDel(obj)
		if ok {
			f.NotifyDelete(-1, old)
		}
	}
}

// Resync queues, for every handler that asked for resyncs (every handler but those registered
// with AddEventHandlerWithResyncPeriod(h, 0)), an update(o, o) notification for every cached
// object (periodic resync); the notifications run on NotifyNext / Flush like any other.
func (f *FakeInformer) Resync() {
	for _, o := range f.indexer.List() {
		for i := range f.handlers {
			if f.noResync[i] {
				continue
			}
			f.queues[i] = append(f.queues[i], notification{"update", o, o})
		}
	}
}

// Relist replaces the cache by objs (the server's current objects of this resource) the way a
// reflector does after its watch failed (410 Gone / any watch error): DeltaFIFO.Replace pairs the
// cached and the listed object BY KEY ONLY, so every handler is sent, in key order, add for a key
// the cache did not hold, update(cachedOld, listed) for a key on both sides whose
// resourceVersion differs (the two may be different objects: other UID, other owner), nothing for
// an unchanged object, and then, in key order, delete with a cache.DeletedFinalStateUnknown
// tombstone carrying the last CACHED state for every key that is gone.  The caller drops the
// undelivered watch events of the resource (the new watch starts at the list's version).
func (f *FakeInformer) Relist(objs []interface{}) {
	objs = sortObjs(append([]interface{}(nil), objs...))
	listed := map[string]bool{}
	var notes []notification
	for _, o := range objs {
		key, _ := cache.MetaNamespaceKeyFunc(o)
		listed[key] = true
		old, ok := f.CacheGet(o)
		f.CacheSet(o)
		if !ok {
			notes = append(notes, notification{"add", nil, o})
			continue
		}
		om, _ := meta.Accessor(old)
		nm, _ := meta.Accessor(o)
		if om.GetResourceVersion() != nm.GetResourceVersion() {
			notes = append(notes, notification{"update", old, o})
		}
	}
	for _, old := range f.indexer.List() {
		key, _ := cache.MetaNamespaceKeyFunc(old)
		if listed[key] {
			continue
		}
		f.CacheDel(old)
		notes = append(notes, notification{"delete", nil, cache.DeletedFinalStateUnknown{Key: key, Obj: old}})
	}
	for i := range f.handlers {
		f.queues[i] = append(f.queues[i], notes...)
	}
}

// Keys lists cache keys (sorted).
func (f *FakeInformer) Keys() []string { return f.indexer.ListKeys() }

func accessorName(obj interface{}) string {
	if t, ok := obj.(cache.DeletedFinalStateUnknown); ok {
		obj = t.Obj
	}
	a, err := meta.Accessor(obj)
	if err != nil {
		return "?"
	}
	return a.GetNamespace() + "/" + a.GetName()
}

// Deliver applies a watch event to the cache (like the shared informer's delta FIFO handler)
// and queues one notification per registered handler; handlers run on NotifyNext / Flush.
func (f *FakeInformer) Deliver(kind string, obj interface{}) {
	var n notification
	switch kind {
	case "add", "update":
		old, ok := f.CacheGet(obj)
		f.CacheSet(obj)
		if ok {
			n = notification{"update", old, obj}
		} else {
			n = notification{"add", nil, obj}
		}
	case "delete":
		old, ok := f.CacheGet(obj)
		if !ok {
			return
		}
		f.CacheDel(obj)
		n = notification{"delete", nil, old}
	}
	for i := range f.handlers {
		f.queues[i] = append(f.queues[i], n)
	}
}

// PendingFor returns the number of notifications handler h has not run yet.
func (f *FakeInformer) PendingFor(h int) int { return len(f.queues[h]) }

// NotifyNext runs the oldest queued notification of handler h.
func (f *FakeInformer) NotifyNext(h int) bool {
	if h >= len(f.queues) || len(f.queues[h]) == 0 {
		return false
	}
	n := f.queues[h][0]
	f.queues[h] = f.queues[h][1:]
	switch n.kind {
	case "add":
		f.handlers[h].OnAdd(n.obj)
	case "update":
		f.handlers[h].OnUpdate(n.old, n.obj)
	case "delete":
		f.handlers[h].OnDelete(n.obj)
	}
	return true
}

// PendingKeysFor lists the object keys of handler h's queued notifications, oldest first.
func (f *FakeInformer) PendingKeysFor(h int) []string {
	if h >= len(f.queues) {
		return nil
	}
	var out []string
	for _, n := range f.queues[h] {
		out = append(out, accessorName(n.obj))
	}
	return out
}

// NotifyNextFor runs the oldest queued notification of handler h that concerns the object
// namespace/name `key`, leaving the notifications of other objects queued (per-object FIFO: a
// superset of client-go's per-handler FIFO, DESIGN.md 4.3).
func (f *FakeInformer) NotifyNextFor(h int, key string) bool {
	if h >= len(f.queues) {
		return false
	}
	for i, n := range f.queues[h] {
		if accessorName(n.obj) != key {
			continue
		}
		f.queues[h] = append(append([]notification(nil), f.queues[h][:i]...), f.queues[h][i+1:]...)
		switch n.kind {
		case "add":
			f.handlers[h].OnAdd(n.obj)
		case "update":
			f.handlers[h].OnUpdate(n.old, n.obj)
		case "delete":
			f.handlers[h].OnDelete(n.obj)
		}
		return true
	}
	return false
}

// Flush runs all queued notifications, handler by handler in registration order per event.
func (f *FakeInformer) Flush() {
	for {
		progressed := false
		for h := range f.handlers {
			if f.NotifyNext(h) {
				progressed = true
			}
		}
		if !progressed {
			return
		}
	}
}

// ResetHandlers forgets handlers and notifications (controller restart) but keeps the cache.
func (f *FakeInformer) ResetHandlers() {
	f.handlers = nil
	f.queues = nil
	f.noResync = nil
}

// ClearCache empties the cache.
func (f *FakeInformer) ClearCache() {
	for _, o := range f.indexer.Indexer.List() {
		_ = f.indexer.Delete(o)
	}
}
