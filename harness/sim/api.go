package sim

import (
	"encoding/json"
	"fmt"
	"reflect"
	"sort"
	"time"

	corev1 "k8s.io/api/core/v1"
	kerrors "k8s.io/apimachinery/pkg/api/errors"
	"k8s.io/apimachinery/pkg/api/meta"
	metav1 "k8s.io/apimachinery/pkg/apis/meta/v1"
	"k8s.io/apimachinery/pkg/runtime"
	"k8s.io/apimachinery/pkg/runtime/schema"
	"k8s.io/apimachinery/pkg/types"
	ktesting "k8s.io/client-go/testing"
	"k8s.io/utils/clock"

	execution "github.com/furiko-io/furiko/apis/execution/v1alpha1"
)

// SimAPI is the API-server simulation (DESIGN.md Appendix B): authoritative objects with
// resourceVersions, optimistic concurrency, status subresource separation, finalizers and
// deletion timestamps, graceful pod deletion, one FIFO of undelivered watch events per
// resource, and fault injection per call.  It is installed as reactors on the fake clientsets.
type SimAPI struct {
	Clock   clock.PassiveClock
	objs    map[string]map[string]runtime.Object // resource -> ns/name -> object
	rv      int64
	uid     int64
	Pending map[string][]Event // resource -> undelivered watch events
	// Mirror is a second, independent subscription to the same watch stream (another PROCESS
	// with its own informers, e.g. the admission webhook server): every event emitted for a
	// resource listed in MirrorOn is appended here as well and delivered through its own cursor
	// (DeliverOneMirror).  Nothing is mirrored unless MirrorOn says so.
	Mirror   map[string][]Event
	MirrorOn map[string]bool
	// Blocked[resource]: the watch of that resource is interrupted; DeliverOne delivers nothing
	// until the engine relists (DropPendingOf + FakeInformer.Relist) and clears the flag.
	Blocked map[string]bool
	// Fault decides the fate of one call; nil or "" = ok.
	Fault func(c Call) string
	// Admit, when set, is invoked on create/update of jobs and jobconfigs (webhooks).
	Admit   func(resource, verb string, old, obj runtime.Object) (runtime.Object, error)
	curVerb string
	Calls   []Call // log of mutating calls (cleared by the engine)
	// Observe, when set, is called for every controller call at the instant it was applied
	// (or refused), so that monitors can judge it against the state at that instant.
	Observe func(c Call)
	// batches of concurrent pod deletes (deleteTasks -> ConcurrentTasks): consecutive batches of
	// one sync are SEQUENTIAL (each waits for its goroutines), only the deletes inside one batch
	// race.  A new batch starts after any other controller call, when the force flag changes
	// (kill batch -> force-delete batch) and when a key repeats (pending-timeout batch -> kill
	// batch: the kill batch deletes a superset of the pending batch computed from the same list).
	delRun      int
	inDelRun    bool
	delRunForce bool
	delRunKeys  map[string]bool
	// passDeletes: every pod delete a controller issued since the last SortDeleteRuns that was not
	// refused by a fault, in arrival order, with the index of the watch event it caused (-1: none).
	// The batch each call belongs to is decided from this log AFTER the pass (SortDeleteRuns), by a
	// rule that does not depend on the order in which the goroutines of one batch were scheduled.
	passDeletes []delCall
}

type delCall struct {
	key   string
	force bool
	ev    int // index into Pending["pods"] of the event this call caused, -1 if none
}

// Call describes one API call issued by a controller.
type Call struct {
	Verb        string // create | update | delete
	Resource    string // jobs | jobconfigs | pods
	Subresource string // "" | status
	Key         string // ns/name
	Force       bool   // delete with gracePeriodSeconds=0
	Result      string // ok | exists | notfound | conflict | invalid | err
	Obj         runtime.Object
}

// Event is one watch event.
type Event struct {
	Type string // add | update | delete
	Obj  runtime.Object
	Src  string // API verb that caused it (create | update | delete | "" for external writers)
	Run  int    // pod deletes: number of the concurrent batch that caused it (see SimAPI.delRun)
}

// DebugNormalize, when set, sees every submitted update before and after normalisation.
var DebugNormalize func(in, out runtime.Object)

const (
	FaultErr        = "err"         // server error, not applied
	FaultConflict   = "conflict"    // 409, not applied
	FaultTimeout    = "timeout"     // timeout, not applied
	FaultAppliedErr = "applied-err" // applied but reported as error (outside E-ErrNotApplied)
	// 403 Forbidden, not applied: what the API server's admission chain answers for conditions that
	// pass by themselves (exhausted ResourceQuota, LimitRange race, ServiceAccount of a new namespace
	// not created yet) as well as for RBAC denials.  To a controller it is a transient failure like
	// FaultErr: the call must be retried, never taken for a final refusal (that is 422 Invalid).
	FaultForbidden = "forbidden"
)

func NewSimAPI(c clock.PassiveClock) *SimAPI {
	return &SimAPI{Clock: c, objs: map[string]map[string]runtime.Object{"jobs": {}, "jobconfigs": {}, "pods": {}},
		Pending: map[string][]Event{}, Mirror: map[string][]Event{}, MirrorOn: map[string]bool{}, Blocked: map[string]bool{}}
}

// Install hooks the simulation into the fake clientsets of ctx.
func (a *SimAPI) Install(ctx *Context) {
	ctx.MockClientsets().FurikoMock().PrependReactor("*", "jobs", a.react)
	ctx.MockClientsets().FurikoMock().PrependReactor("*", "jobconfigs", a.react)
	ctx.MockClientsets().KubernetesMock().PrependReactor("*", "pods", a.react)
	ctx.MockClientsets().KubernetesMock().PrependReactor("*", "events", func(ktesting.Action) (bool, runtime.Object, error) {
		return true, nil, nil
	})
}

func gr(resource string) schema.GroupResource {
	if resource == "pods" {
		return schema.GroupResource{Resource: "pods"}
	}
	return schema.GroupResource{Group: execution.GroupVersion.Group, Resource: resource}
}

func keyOf(obj runtime.Object) string {
	m, _ := meta.Accessor(obj)
	return m.GetNamespace() + "/" + m.GetName()
}

// normalize round-trips an object through JSON like the real API server does (second
// precision of timestamps, nil/empty normalisation).
func normalize(obj runtime.Object) runtime.Object {
	b, err := json.Marshal(obj)
	if err != nil {
		panic(err)
	}
	out := reflect.New(reflect.TypeOf(obj).Elem()).Interface().(runtime.Object)
	if err := json.Unmarshal(b, out); err != nil {
		panic(err)
	}
	return out
}

func (a *SimAPI) nextRV() string { a.rv++; return fmt.Sprint(a.rv) }

func (a *SimAPI) emit(resource, typ string, obj runtime.Object) {
	a.Pending[resource] = append(a.Pending[resource], Event{typ, obj.DeepCopyObject(), a.curVerb, a.delRun})
	if a.MirrorOn[resource] {
		a.Mirror[resource] = append(a.Mirror[resource], Event{typ, obj.DeepCopyObject(), a.curVerb, a.delRun})
	}
}

// SortDeleteRuns puts the watch events caused by the pod deletes of ONE controller pass (the events
// appended since index from) into a canonical order that does not depend on goroutine scheduling.
// The controller issues the deletes of one batch concurrently (deleteTasks -> ConcurrentTasks) and
// waits for the batch before it goes on, so batches are sequential and only the deletes inside a
// batch race: the events of a batch are ordered by object key, the batches keep their order.
//
// Which batch a call belongs to is decided here, after the pass, from the log of its delete calls —
// NOT while the calls arrive (an earlier version opened a new batch "when a key repeats", which made
// the batch of a call depend on which goroutine of the kill batch reached the server first: under
// machine load the events of the pending-timeout batch and of the kill batch were then interleaved
// differently from run to run, later single-event deliveries gave the pod cache different contents,
// and a later pass force-deleted a different pod than the model: a flaky correspondence diff).
// A pass has at most three delete batches, in this order (reconciler.go syncJobTasks; the finalizer's
// single batch runs in passes that skip syncJobTasks):
//  1. pending-timeout reaper, graceful, tasks P;
//  2. kill sweep, graceful, tasks K — computed from the SAME task list, whose copies carry no deletion
//     timestamp yet, so K ⊇ P: every key of P is deleted a second time (no event: already deleting);
//  3. force deletion, gracePeriodSeconds=0 (disjoint from 1 and 2: it needs a deletion timestamp in
//     the list copy).
//
// Hence: force calls are batch 3; among the graceful calls, if some key occurs twice, the FIRST
// occurrences of the keys that occur twice are batch 1 and all other calls batch 2; if no key occurs
// twice there is a single graceful batch.  Batches being sequential, this is independent of scheduling.
func (a *SimAPI) SortDeleteRuns(resource string, from int) {
	a.inDelRun = false // the sync is over: its last batch is closed
	calls := a.passDeletes
	a.passDeletes = nil
	if resource != "pods" {
		return
	}
	evs := a.Pending[resource]
	count := map[string]int{}
	for _, c := range calls {
		if !c.force {
			count[c.key]++
		}
	}
	repeat := false
	for _, n := range count {
		if n > 1 {
			repeat = true
		}
	}
	type item struct {
		batch int
		key   string
		ev    Event
	}
	var items []item
	var positions []int
	seen := map[string]bool{}
	for _, c := range calls {
		batch := 2
		switch {
		case c.force:
			batch = 3
		case repeat && count[c.key] > 1 && !seen[c.key]:
			batch = 1
		}
		if !c.force {
			seen[c.key] = true
		}
		if c.ev >= from && c.ev < len(evs) {
			e := evs[c.ev]
			e.Run = batch
			items = append(items, item{batch, c.key, e})
			positions = append(positions, c.ev)
		}
	}
	sort.Ints(positions)
	sort.SliceStable(items, func(x, y int) bool {
		if items[x].batch != items[y].batch {
			return items[x].batch < items[y].batch
		}
		return items[x].key < items[y].key
	})
	for i, pos := range positions {
		evs[pos] = items[i].ev
	}
}

// Get returns the authoritative object (not a copy) or nil.
func (a *SimAPI) Get(resource, key string) runtime.Object { return a.objs[resource][key] }

// Keys lists the keys of a resource, sorted.
func (a *SimAPI) Keys(resource string) []string {
	var ks []string
	for k := range a.objs[resource] {
		ks = append(ks, k)
	}
	sort.Strings(ks)
	return ks
}

func (a *SimAPI) react(action ktesting.Action) (bool, runtime.Object, error) {
	resource := action.GetResource().Resource
	ns := action.GetNamespace()
	switch action.GetVerb() {
	case "create":
		act := action.(ktesting.CreateAction)
		obj, err := a.Create(resource, act.GetObject(), true)
		return true, obj, err
	case "update":
		act := action.(ktesting.UpdateAction)
		obj, err := a.Update(resource, act.GetSubresource(), act.GetObject(), true)
		return true, obj, err
	case "delete":
		act := action.(ktesting.DeleteActionImpl)
		grace := act.DeleteOptions.GracePeriodSeconds
		err := a.Delete(resource, ns+"/"+act.GetName(), grace != nil && *grace == 0, true)
		return true, nil, err
	case "get":
		act := action.(ktesting.GetAction)
		o := a.objs[resource][ns+"/"+act.GetName()]
		if o == nil {
			return true, nil, kerrors.NewNotFound(gr(resource), act.GetName())
		}
		return true, o.DeepCopyObject(), nil
	}
	return true, nil, fmt.Errorf("simapi: unsupported action %s %s", action.GetVerb(), resource)
}

func (a *SimAPI) fault(c *Call, fromController bool) (string, error) {
	if fromController {
		if c.Verb == "delete" && c.Resource == "pods" {
			if !a.inDelRun || a.delRunForce != c.Force || a.delRunKeys[c.Key] {
				a.delRun++
				a.delRunKeys = map[string]bool{}
			}
			a.inDelRun, a.delRunForce = true, c.Force
			a.delRunKeys[c.Key] = true
		} else {
			a.inDelRun = false
		}
	}
	if !fromController || a.Fault == nil {
		return "", nil
	}
	switch f := a.Fault(*c); f {
	case FaultErr:
		c.Result = "err"
		return f, kerrors.NewInternalError(fmt.Errorf("injected"))
	case FaultTimeout:
		c.Result = "err"
		return f, kerrors.NewTimeoutError("injected", 1)
	case FaultConflict:
		c.Result = "conflict"
		return f, kerrors.NewConflict(gr(c.Resource), c.Key, fmt.Errorf("injected"))
	case FaultForbidden:
		c.Result = "err"
		_, name, _ := splitKey(c.Key)
		return f, kerrors.NewForbidden(gr(c.Resource), name, fmt.Errorf("injected: exceeded quota"))
	case FaultAppliedErr:
		return f, nil
	}
	return "", nil
}

func (a *SimAPI) log(c Call) {
	a.Calls = append(a.Calls, c)
	if a.Observe != nil {
		a.Observe(c)
	}
}

// Create adds an object. fromController=false bypasses faults and the call log (user action).
func (a *SimAPI) Create(resource string, in runtime.Object, fromController bool) (runtime.Object, error) {
	if fromController {
		a.curVerb = "create"
		defer func() { a.curVerb = "" }()
	}
	obj := normalize(in)
	m, _ := meta.Accessor(obj)
	c := Call{Verb: "create", Resource: resource, Key: keyOf(obj), Result: "ok", Obj: obj}
	f, err := a.fault(&c, fromController)
	if err != nil {
		a.log(c)
		return nil, err
	}
	if _, ok := a.objs[resource][c.Key]; ok {
		c.Result = "exists"
		if fromController {
			a.log(c)
		}
		return nil, kerrors.NewAlreadyExists(gr(resource), m.GetName())
	}
	if a.Admit != nil && resource != "pods" {
		adm, err := a.Admit(resource, "create", nil, obj)
		if err != nil {
			c.Result = "invalid"
			if fromController {
				a.log(c)
			}
			return nil, err
		}
		obj = normalize(adm)
		m, _ = meta.Accessor(obj)
	}
	if m.GetUID() == "" {
		a.uid++
		m.SetUID(types.UID(fmt.Sprintf("uid-%d", a.uid)))
	}
	m.SetCreationTimestamp(metav1.NewTime(time.Unix(a.Clock.Now().Unix(), 0)))
	m.SetResourceVersion(a.nextRV())
	a.objs[resource][c.Key] = obj
	a.emit(resource, "add", obj)
	if fromController {
		a.log(c)
	}
	if f == FaultAppliedErr {
		return nil, kerrors.NewInternalError(fmt.Errorf("injected after apply"))
	}
	return obj.DeepCopyObject(), nil
}

// Update replaces spec+metadata (subresource "") or status (subresource "status").
func (a *SimAPI) Update(resource, subresource string, in runtime.Object, fromController bool) (runtime.Object, error) {
	if fromController {
		a.curVerb = "update"
		defer func() { a.curVerb = "" }()
	}
	obj := normalize(in)
	if DebugNormalize != nil {
		DebugNormalize(in, obj)
	}
	m, _ := meta.Accessor(obj)
	c := Call{Verb: "update", Resource: resource, Subresource: subresource, Key: keyOf(obj), Result: "ok", Obj: obj}
	f, err := a.fault(&c, fromController)
	if err != nil {
		a.log(c)
		return nil, err
	}
	cur, ok := a.objs[resource][c.Key]
	if !ok {
		c.Result = "notfound"
		if fromController {
			a.log(c)
		}
		return nil, kerrors.NewNotFound(gr(resource), m.GetName())
	}
	cm, _ := meta.Accessor(cur)
	if rv := m.GetResourceVersion(); rv != "" && rv != cm.GetResourceVersion() {
		c.Result = "conflict"
		if fromController {
			a.log(c)
		}
		return nil, kerrors.NewConflict(gr(resource), m.GetName(), fmt.Errorf("object was modified"))
	}
	var next runtime.Object
	if subresource == "status" {
		next = cur.DeepCopyObject()
		copyStatus(next, obj)
	} else {
		if a.Admit != nil && resource != "pods" {
			adm, err := a.Admit(resource, "update", cur.DeepCopyObject(), obj)
			if err != nil {
				c.Result = "invalid"
				if fromController {
					a.log(c)
				}
				return nil, err
			}
			obj = normalize(adm)
			m, _ = meta.Accessor(obj)
		}
		next = obj
		copyStatus(next, cur)
		nm, _ := meta.Accessor(next)
		nm.SetUID(cm.GetUID())
		nm.SetCreationTimestamp(cm.GetCreationTimestamp())
		nm.SetDeletionTimestamp(cm.GetDeletionTimestamp())
	}
	nm, _ := meta.Accessor(next)
	// an update that changes nothing is a no-op on a real API server: no new
	// resourceVersion, no watch event
	nm.SetResourceVersion(cm.GetResourceVersion())
	if nb, err1 := json.Marshal(next); err1 == nil {
		if cb, err2 := json.Marshal(cur); err2 == nil && string(nb) == string(cb) {
			if fromController {
				a.log(c)
			}
			if f == FaultAppliedErr {
				return nil, kerrors.NewInternalError(fmt.Errorf("injected after apply"))
			}
			return cur.DeepCopyObject(), nil
		}
	}
	nm.SetResourceVersion(a.nextRV())
	if nm.GetDeletionTimestamp() != nil && len(nm.GetFinalizers()) == 0 {
		delete(a.objs[resource], c.Key)
		a.emit(resource, "delete", next)
	} else {
		a.objs[resource][c.Key] = next
		a.emit(resource, "update", next)
	}
	if fromController {
		a.log(c)
	}
	if f == FaultAppliedErr {
		return nil, kerrors.NewInternalError(fmt.Errorf("injected after apply"))
	}
	return next.DeepCopyObject(), nil
}

func copyStatus(dst, src runtime.Object) {
	switch d := dst.(type) {
	case *execution.Job:
		d.Status = *src.(*execution.Job).Status.DeepCopy()
	case *execution.JobConfig:
		d.Status = *src.(*execution.JobConfig).Status.DeepCopy()
	case *corev1.Pod:
		d.Status = *src.(*corev1.Pod).Status.DeepCopy()
	}
}

// Delete: objects with finalizers get a deletion timestamp; pods are deleted gracefully
// (deletion timestamp; the kubelet model removes them later) unless force.
func (a *SimAPI) Delete(resource, key string, force, fromController bool) error {
	if fromController {
		a.curVerb = "delete"
		defer func() { a.curVerb = "" }()
	}
	c := Call{Verb: "delete", Resource: resource, Key: key, Force: force, Result: "ok"}
	_, err := a.fault(&c, fromController)
	if err != nil {
		a.log(c)
		return err
	}
	cur, ok := a.objs[resource][key]
	if !ok {
		c.Result = "notfound"
		if fromController {
			a.log(c)
			if resource == "pods" {
				a.passDeletes = append(a.passDeletes, delCall{key: key, force: force, ev: -1})
			}
		}
		_, name, _ := splitKey(key)
		return kerrors.NewNotFound(gr(resource), name)
	}
	if fromController {
		a.log(c)
	}
	rec := -1
	if fromController && resource == "pods" {
		a.passDeletes = append(a.passDeletes, delCall{key: key, force: force, ev: -1})
		rec = len(a.passDeletes) - 1
	}
	cm, _ := meta.Accessor(cur)
	graceful := resource == "pods" && !force
	if len(cm.GetFinalizers()) > 0 || graceful {
		if cm.GetDeletionTimestamp() == nil {
			next := cur.DeepCopyObject()
			nm, _ := meta.Accessor(next)
			now := metav1.NewTime(time.Unix(a.Clock.Now().Unix(), 0))
			nm.SetDeletionTimestamp(&now)
			nm.SetResourceVersion(a.nextRV())
			a.objs[resource][key] = next
			a.emit(resource, "update", next)
			if rec >= 0 {
				a.passDeletes[rec].ev = len(a.Pending[resource]) - 1
			}
		}
		return nil
	}
	delete(a.objs[resource], key)
	a.emit(resource, "delete", cur)
	if rec >= 0 {
		a.passDeletes[rec].ev = len(a.Pending[resource]) - 1
	}
	return nil
}

// Remove deletes an object unconditionally (kubelet finished terminating a pod; GC).
func (a *SimAPI) Remove(resource, key string) {
	if cur, ok := a.objs[resource][key]; ok {
		delete(a.objs[resource], key)
		a.emit(resource, "delete", cur)
	}
}

// Mutate applies fn to the authoritative object as an external writer (kubelet, user) and
// emits an update event.
func (a *SimAPI) Mutate(resource, key string, fn func(obj runtime.Object)) bool {
	cur, ok := a.objs[resource][key]
	if !ok {
		return false
	}
	next := cur.DeepCopyObject()
	fn(next)
	next = normalize(next)
	nm, _ := meta.Accessor(next)
	nm.SetResourceVersion(a.nextRV())
	if nm.GetDeletionTimestamp() != nil && len(nm.GetFinalizers()) == 0 && resource != "pods" {
		delete(a.objs[resource], key)
		a.emit(resource, "delete", next)
		return true
	}
	a.objs[resource][key] = next
	a.emit(resource, "update", next)
	return true
}

func splitKey(key string) (string, string, bool) {
	for i := 0; i < len(key); i++ {
		if key[i] == '/' {
			return key[:i], key[i+1:], true
		}
	}
	return "", key, false
}

// DeliverOne applies the oldest undelivered watch event of a resource to the informer cache and
// queues the notification for every handler.  Returns false if nothing was pending.
func (a *SimAPI) DeliverOne(resource string, inf *FakeInformer) bool {
	q := a.Pending[resource]
	if len(q) == 0 || a.Blocked[resource] {
		return false
	}
	ev := q[0]
	a.Pending[resource] = q[1:]
	inf.Deliver(ev.Type, ev.Obj)
	return true
}

// DeliverOneMirror applies the oldest undelivered event of the mirrored stream of a resource to
// the informer of the second subscriber.  Returns false if nothing was pending.
func (a *SimAPI) DeliverOneMirror(resource string, inf *FakeInformer) bool {
	q := a.Mirror[resource]
	if len(q) == 0 {
		return false
	}
	ev := q[0]
	a.Mirror[resource] = q[1:]
	inf.Deliver(ev.Type, ev.Obj)
	return true
}

// DeliverAll delivers every pending event of every resource (jobconfigs, jobs, pods order)
// and flushes handler notifications; returns the number of events delivered.
func (a *SimAPI) DeliverAll(inf *Informers) int {
	n := 0
	for {
		progressed := false
		for _, r := range []struct {
			res string
			inf *FakeInformer
		}{{"jobconfigs", inf.JobConfigs()}, {"jobs", inf.Jobs()}, {"pods", inf.Pods()}} {
			for a.DeliverOne(r.res, r.inf) {
				r.inf.Flush()
				n++
				progressed = true
			}
		}
		if !progressed {
			inf.JobConfigs().Flush()
			inf.Jobs().Flush()
			inf.Pods().Flush()
			return n
		}
	}
}

// DropPending forgets undelivered events (process restart: the new process relists).
func (a *SimAPI) DropPending() { a.Pending = map[string][]Event{} }

// DropPendingOf forgets the undelivered events of one resource (its informer relists).
func (a *SimAPI) DropPendingOf(resource string) { delete(a.Pending, resource) }

// Snapshot returns deep copies of the current objects of a resource, in key order.
func (a *SimAPI) Snapshot(resource string) []interface{} {
	var out []interface{}
	for _, k := range a.Keys(resource) {
		out = append(out, a.objs[resource][k].DeepCopyObject())
	}
	return out
}
