package sim

import (
	"context"
	"reflect"

	corev1 "k8s.io/api/core/v1"
	"k8s.io/apimachinery/pkg/runtime"
	"k8s.io/apimachinery/pkg/runtime/schema"
	k8sinformers "k8s.io/client-go/informers"
	k8score "k8s.io/client-go/informers/core"
	k8sinternal "k8s.io/client-go/informers/internalinterfaces"
	"k8s.io/client-go/tools/cache"

	configv1alpha1 "github.com/furiko-io/furiko/apis/config/v1alpha1"
	execution "github.com/furiko-io/furiko/apis/execution/v1alpha1"
	furikoinformers "github.com/furiko-io/furiko/pkg/generated/informers/externalversions"
	furikoexec "github.com/furiko-io/furiko/pkg/generated/informers/externalversions/execution"
	furikointernal "github.com/furiko-io/furiko/pkg/generated/informers/externalversions/internalinterfaces"
	"github.com/furiko-io/furiko/pkg/runtime/controllercontext"
	"github.com/furiko-io/furiko/pkg/runtime/controllercontext/mock"
)

// informerSet hands out one FakeInformer per object type.
type informerSet struct {
	byType map[reflect.Type]*FakeInformer
}

func (s *informerSet) get(obj runtime.Object) *FakeInformer {
	t := reflect.TypeOf(obj)
	if inf, ok := s.byType[t]; ok {
		return inf
	}
	inf := NewFakeInformer()
	s.byType[t] = inf
	return inf
}

// FurikoFactory implements the generated furiko SharedInformerFactory on FakeInformers.
type FurikoFactory struct{ set *informerSet }

var _ furikoinformers.SharedInformerFactory = (*FurikoFactory)(nil)

func (f *FurikoFactory) Start(stopCh <-chan struct{}) {}
func (f *FurikoFactory) InformerFor(obj runtime.Object, _ furikointernal.NewInformerFunc) cache.SharedIndexInformer {
	return f.set.get(obj)
}
func (f *FurikoFactory) ForResource(schema.GroupVersionResource) (furikoinformers.GenericInformer, error) {
	return nil, nil
}
func (f *FurikoFactory) WaitForCacheSync(stopCh <-chan struct{}) map[reflect.Type]bool {
	return map[reflect.Type]bool{}
}
func (f *FurikoFactory) Execution() furikoexec.Interface { return furikoexec.New(f, "", nil) }

// KubeFactory implements k8s SharedInformerFactory for the Core group on FakeInformers; all
// other groups are served by an (unstarted) real factory and are never used by furiko.
type KubeFactory struct {
	k8sinformers.SharedInformerFactory
	set *informerSet
}

func (f *KubeFactory) Start(stopCh <-chan struct{}) {}
func (f *KubeFactory) InformerFor(obj runtime.Object, _ k8sinternal.NewInformerFunc) cache.SharedIndexInformer {
	return f.set.get(obj)
}
func (f *KubeFactory) Core() k8score.Interface { return k8score.New(f, "", nil) }

// Informers implements controllercontext.Informers.
type Informers struct {
	kube   *KubeFactory
	furiko *FurikoFactory
	set    *informerSet
}

var _ controllercontext.Informers = (*Informers)(nil)

func (i *Informers) Start(ctx context.Context) error                { return nil }
func (i *Informers) Kubernetes() k8sinformers.SharedInformerFactory { return i.kube }
func (i *Informers) Furiko() furikoinformers.SharedInformerFactory  { return i.furiko }

// Jobs / JobConfigs / Pods return the fake informer of that resource.
func (i *Informers) Jobs() *FakeInformer       { return i.set.get(&execution.Job{}) }
func (i *Informers) JobConfigs() *FakeInformer { return i.set.get(&execution.JobConfig{}) }
func (i *Informers) Pods() *FakeInformer       { return i.set.get(&corev1.Pod{}) }

// Context is a controllercontext.Context with fake clientsets (from the repo's mock package),
// mock dynamic configs, and the deterministic informers above.
type Context struct {
	// OnCronConfigLoad, when set, runs at every load of the cron dynamic config; used to
	// interleave an event with code that reads the config in the middle of an operation.
	OnCronConfigLoad func()

	clientsets *mock.Clientsets
	configs    *mock.Configs
	informers  *Informers
	stores     *controllercontext.ContextStores
}

var _ controllercontext.Context = (*Context)(nil)

func NewContext() *Context {
	cs := mock.NewClientsets()
	set := &informerSet{byType: map[reflect.Type]*FakeInformer{}}
	inf := &Informers{set: set}
	inf.furiko = &FurikoFactory{set: set}
	inf.kube = &KubeFactory{SharedInformerFactory: k8sinformers.NewSharedInformerFactory(cs.Kubernetes(), 0), set: set}
	cfgs := mock.NewConfigs()
	_ = cfgs.Start(context.Background())
	return &Context{
		clientsets: cs,
		configs:    cfgs,
		informers:  inf,
		stores:     controllercontext.NewContextStores(),
	}
}

func (c *Context) Start(ctx context.Context) error          { return nil }
func (c *Context) Clientsets() controllercontext.Clientsets { return c.clientsets }
func (c *Context) MockClientsets() *mock.Clientsets         { return c.clientsets }
func (c *Context) Configs() controllercontext.Configs {
	return &hookedConfigs{Configs: c.configs, ctx: c}
}
func (c *Context) MockConfigs() *mock.Configs             { return c.configs }
func (c *Context) Informers() controllercontext.Informers { return c.informers }
func (c *Context) Sim() *Informers                        { return c.informers }
func (c *Context) Stores() controllercontext.Stores       { return c.stores }

// ResetStores drops the registered stores (controller process restart).
func (c *Context) ResetStores() { c.stores = controllercontext.NewContextStores() }

type hookedConfigs struct {
	*mock.Configs
	ctx *Context
}

func (h *hookedConfigs) Cron() (*configv1alpha1.CronExecutionConfig, error) {
	if f := h.ctx.OnCronConfigLoad; f != nil {
		h.ctx.OnCronConfigLoad = nil
		f()
		defer func() { h.ctx.OnCronConfigLoad = f }()
	}
	return h.Configs.Cron()
}

// Drifted lists, per resource, the cached objects that code under test wrote through (FakeInformer.Drifted).
func (i *Informers) Drifted() []string {
	var out []string
	for _, r := range []struct {
		name string
		inf  *FakeInformer
	}{{"jobs", i.Jobs()}, {"jobconfigs", i.JobConfigs()}, {"pods", i.Pods()}} {
		for _, k := range r.inf.Drifted() {
			out = append(out, r.name+":"+k)
		}
	}
	return out
}
