package main

// Facts of the jcstatus slice (property C15):
//   * jobconfig.GetState: the ordered chain of (guard source text, returned JobConfigState value);
//   * jobconfigcontroller/informer.go: which of AddFunc/UpdateFunc/DeleteFunc are registered on the
//     JobConfig informer and on the Job informer.
// Only the rigid shapes below are recognised; anything else fails loudly.

import (
	"bytes"
	"fmt"
	"go/ast"
	"go/printer"
	"strings"
)

func srcText(n ast.Node) string {
	var b bytes.Buffer
	_ = printer.Fprint(&b, fset, n)
	return strings.Join(strings.Fields(b.String()), " ")
}

// singleReturnName: the block is exactly `return <pkg.Ident | Ident>`.
func singleReturnName(stmts []ast.Stmt) (string, bool) {
	if len(stmts) != 1 {
		return "", false
	}
	rs, ok := stmts[0].(*ast.ReturnStmt)
	if !ok || len(rs.Results) != 1 {
		return "", false
	}
	n := exprName(rs.Results[0])
	return n, n != "?"
}

// stateChain flattens the body of jobconfig.GetState into an ordered list of
// (guard, returned constant).  Recognised statement shapes:
//
//	if <cond> { return C }                          -> (cond, C)
//	if <init>; <cond> { if <c2> { return A }; return B } -> (cond && c2, A), (cond, B)
//	return C                                        -> ("true", C)           (last statement only)
func stateChain(rel, name string) [][2]string {
	fd := funcDecl(rel, "", name)
	if fd == nil || fd.Body == nil {
		return nil
	}
	var out [][2]string
	n := len(fd.Body.List)
	for i, st := range fd.Body.List {
		switch s := st.(type) {
		case *ast.IfStmt:
			if s.Else != nil {
				failf("%s: %s: statement %d: if with else is not a recognised shape", rel, name, i)
				return nil
			}
			cond := srcText(s.Cond)
			if s.Init != nil {
				// the only admitted initialiser is the alias `spec := rjc.Spec.Schedule`
				if got := srcText(s.Init); got != "spec := rjc.Spec.Schedule" {
					failf("%s: %s: statement %d: unrecognised if-initialiser %q", rel, name, i, got)
					return nil
				}
			}
			if c, ok := singleReturnName(s.Body.List); ok {
				out = append(out, [2]string{cond, c})
				continue
			}
			if len(s.Body.List) == 2 {
				inner, ok1 := s.Body.List[0].(*ast.IfStmt)
				c2, ok2 := singleReturnName(s.Body.List[1:])
				if ok1 && ok2 && inner.Else == nil && inner.Init == nil {
					if c1, ok := singleReturnName(inner.Body.List); ok {
						out = append(out, [2]string{cond + " && " + srcText(inner.Cond), c1})
						out = append(out, [2]string{cond, c2})
						continue
					}
				}
			}
			failf("%s: %s: statement %d: unrecognised if body", rel, name, i)
			return nil
		case *ast.ReturnStmt:
			c, ok := singleReturnName([]ast.Stmt{s})
			if !ok || i != n-1 {
				failf("%s: %s: statement %d: unrecognised return", rel, name, i)
				return nil
			}
			out = append(out, [2]string{"true", c})
		default:
			failf("%s: %s: statement %d: unrecognised statement %T", rel, name, i, st)
			return nil
		}
	}
	if len(out) == 0 || out[len(out)-1][0] != "true" {
		failf("%s: %s: chain does not end in an unconditional return", rel, name)
	}
	return out
}

// handlerRegistrationsByInformer: for every `<recv>.Informer().AddEventHandler(cache.ResourceEventHandlerFuncs{…})`
// call, the source text of <recv> and which of Add/Update/Delete are set.
func handlerRegistrationsByInformer(rel string) map[string][3]bool {
	f := parse(rel)
	out := map[string][3]bool{}
	if f == nil {
		return out
	}
	ast.Inspect(f, func(n ast.Node) bool {
		call, ok := n.(*ast.CallExpr)
		if !ok || len(call.Args) != 1 {
			return true
		}
		sel, ok := call.Fun.(*ast.SelectorExpr)
		if !ok || sel.Sel.Name != "AddEventHandler" {
			return true
		}
		cl, ok := call.Args[0].(*ast.CompositeLit)
		if !ok {
			failf("%s: AddEventHandler argument is not a composite literal", rel)
			return true
		}
		if t, ok := cl.Type.(*ast.SelectorExpr); !ok || t.Sel.Name != "ResourceEventHandlerFuncs" {
			failf("%s: AddEventHandler argument is not a ResourceEventHandlerFuncs literal", rel)
			return true
		}
		recv := srcText(sel.X)
		var r [3]bool
		for _, el := range cl.Elts {
			kv, ok := el.(*ast.KeyValueExpr)
			if !ok {
				failf("%s: positional handler literal", rel)
				continue
			}
			if id, ok := kv.Key.(*ast.Ident); ok {
				switch id.Name {
				case "AddFunc":
					r[0] = true
				case "UpdateFunc":
					r[1] = true
				case "DeleteFunc":
					r[2] = true
				}
			}
		}
		if _, dup := out[recv]; dup {
			failf("%s: two handler registrations on %s", rel, recv)
		}
		out[recv] = r
		return true
	})
	return out
}

// jcstatusFacts appends the C15 facts to Facts.lean (called from main before the namespace is closed).
func jcstatusFacts(b *strings.Builder) {
	const stateGo = "pkg/execution/util/jobconfig/state.go"
	const typesGo = "apis/execution/v1alpha1/jobconfig_types.go"
	const informerGo = "pkg/execution/controllers/jobconfigcontroller/informer.go"

	stateVals := typedStringConsts(typesGo, "JobConfigState")
	chain := stateChain(stateGo, "GetState")
	b.WriteString("\n/-- `jobconfig.GetState`: ordered chain of (guard as written in the source, returned `JobConfigState` value) -/\n")
	b.WriteString("def jobConfigStateChain : List (String × String) := [")
	for i, c := range chain {
		v, ok := stateVals[c[1]]
		if !ok {
			failf("%s: GetState returns %s which is not a JobConfigState constant", stateGo, c[1])
		}
		if i > 0 {
			b.WriteString(", ")
		}
		fmt.Fprintf(b, "(%s, %s)", leanStr(c[0]), leanStr(v))
	}
	b.WriteString("]\n")

	regs := handlerRegistrationsByInformer(informerGo)
	jc, ok1 := regs["w.jobconfigInformer.Informer()"]
	jb, ok2 := regs["w.jobInformer.Informer()"]
	if !ok1 || !ok2 || len(regs) != 2 {
		failf("%s: expected exactly one handler registration on w.jobconfigInformer and one on w.jobInformer, found %v", informerGo, regs)
	}
	b.WriteString("/-- jobconfigcontroller `NewInformerWorker`: (AddFunc, UpdateFunc, DeleteFunc) registered on the JobConfig informer / on the Job informer -/\n")
	fmt.Fprintf(b, "def jcInformerJobConfigHandlers : Bool × Bool × Bool := (%v, %v, %v)\n", jc[0], jc[1], jc[2])
	fmt.Fprintf(b, "def jcInformerJobHandlers : Bool × Bool × Bool := (%v, %v, %v)\n", jb[0], jb[1], jb[2])
}
