package main

// Facts of the jcstatus slice (property C15):
//   * jobconfig.GetState: the ordered chain of (guard source text, returned JobConfigState value);
//   * jobconfigcontroller/informer.go: which of AddFunc/UpdateFunc/DeleteFunc are registered on the
//     JobConfig informer and on the Job informer.
// Only the shapes below (up to the equivalences of norm.go) are recognised; anything else fails
// the section loudly.

import (
	"bytes"
	"fmt"
	"go/ast"
	"go/printer"
	"strings"
)

func srcText(n ast.Node) string {
	var b bytes.Buffer
	_ = printer.Fprint(&b, fset, n)
	return strings.Join(strings.Fields(b.String()), " ")
}

// stateChain reads the body of jobconfig.GetState as a first-match decision list (norm.go) and
// returns the ordered (guard, returned constant) pairs.  A nested guard is printed as the
// conjunction of the enclosing conditions, the final unconditional return as "true":
//
//	if <cond> { return C }                                  -> (cond, C)
//	if <init>; <cond> { if <c2> { return A }; return B }    -> (cond && c2, A), (cond, B)
//	return C                                                -> ("true", C)
//
// (`if c { return A } else { return B }`, a switch with returns … are the same list.)  The only
// admitted initialiser is the alias `spec := rjc.Spec.Schedule`.
func stateChain(rel, name string) [][2]string {
	fd := funcDecl(rel, "", name)
	if fd == nil || fd.Body == nil {
		return nil
	}
	ds, term, err := decisionList(fd.Body.List)
	if err != nil {
		failf("%s: %s: %v", rel, name, err)
		return nil
	}
	var out [][2]string
	for i, d := range ds {
		c, ok := singleResult(d)
		if !ok {
			failf("%s: %s: decision %d (%s) is not a single return of a constant", rel, name, i, pathText(d.Path))
			return nil
		}
		for _, g := range d.Path {
			if g.Init != nil {
				if got := srcText(g.Init); got != "spec := rjc.Spec.Schedule" {
					failf("%s: %s: decision %d: unrecognised if-initialiser %q", rel, name, i, got)
					return nil
				}
			}
		}
		out = append(out, [2]string{pathText(d.Path), c})
	}
	if !term || len(out) == 0 || out[len(out)-1][0] != "true" {
		failf("%s: %s: chain does not end in an unconditional return", rel, name)
	}
	return out
}

// handlerRegistrationsByInformer: for every `<recv>.Informer().AddEventHandler(cache.ResourceEventHandlerFuncs{…})`
// call, the source text of <recv> and which of Add/Update/Delete are set.
func handlerRegistrationsByInformer(rel string) map[string][3]bool {
	f := parse(rel)
	out := map[string][3]bool{}
	if f == nil {
		return out
	}
	ast.Inspect(f, func(n ast.Node) bool {
		call, ok := n.(*ast.CallExpr)
		if !ok || len(call.Args) != 1 {
			return true
		}
		sel, ok := call.Fun.(*ast.SelectorExpr)
		if !ok || sel.Sel.Name != "AddEventHandler" {
			return true
		}
		cl, ok := call.Args[0].(*ast.CompositeLit)
		if !ok {
			failf("%s: AddEventHandler argument is not a composite literal", rel)
			return true
		}
		if t, ok := cl.Type.(*ast.SelectorExpr); !ok || t.Sel.Name != "ResourceEventHandlerFuncs" {
			failf("%s: AddEventHandler argument is not a ResourceEventHandlerFuncs literal", rel)
			return true
		}
		recv := srcText(sel.X)
		var r [3]bool
		for _, el := range cl.Elts {
			kv, ok := el.(*ast.KeyValueExpr)
			if !ok {
				failf("%s: positional handler literal", rel)
				continue
			}
			if id, ok := kv.Key.(*ast.Ident); ok {
				switch id.Name {
				case "AddFunc":
					r[0] = true
				case "UpdateFunc":
					r[1] = true
				case "DeleteFunc":
					r[2] = true
				}
			}
		}
		if _, dup := out[recv]; dup {
			failf("%s: two handler registrations on %s", rel, recv)
		}
		out[recv] = r
		return true
	})
	return out
}

// jcstatusFacts appends the C15 facts to Facts.lean (called from main before the namespace is closed).
func jcstatusFacts(b *strings.Builder) {
	const stateGo = "pkg/execution/util/jobconfig/state.go"
	const typesGo = "apis/execution/v1alpha1/jobconfig_types.go"
	const informerGo = "pkg/execution/controllers/jobconfigcontroller/informer.go"

	var chain [][2]string
	section("jcstatus-state", func() {
		stateVals := typedStringConsts(typesGo, "JobConfigState")
		for _, c := range stateChain(stateGo, "GetState") {
			v, ok := stateVals[c[1]]
			if !ok {
				failf("%s: GetState returns %s which is not a JobConfigState constant", stateGo, c[1])
			}
			chain = append(chain, [2]string{c[0], v})
		}
	})
	var jc, jb [3]bool
	section("jcstatus-handlers", func() {
		regs := handlerRegistrationsByInformer(informerGo)
		var ok1, ok2 bool
		jc, ok1 = regs["w.jobconfigInformer.Informer()"]
		jb, ok2 = regs["w.jobInformer.Informer()"]
		if !ok1 || !ok2 || len(regs) != 2 {
			failf("%s: expected exactly one handler registration on w.jobconfigInformer and one on w.jobInformer, found %v", informerGo, regs)
		}
	})

	b.WriteString("\n")
	emit(b, "jcstatus-state", func(b *strings.Builder) {
		b.WriteString("/-- `jobconfig.GetState`: ordered chain of (guard as written in the source, returned `JobConfigState` value) -/\n")
		fmt.Fprintf(b, "def jobConfigStateChain : List (String × String) := %s\n", leanPairs(chain))
	})
	emit(b, "jcstatus-handlers", func(b *strings.Builder) {
		b.WriteString("/-- jobconfigcontroller `NewInformerWorker`: (AddFunc, UpdateFunc, DeleteFunc) registered on the JobConfig informer / on the Job informer -/\n")
		fmt.Fprintf(b, "def jcInformerJobConfigHandlers : Bool × Bool × Bool := (%v, %v, %v)\n", jc[0], jc[1], jc[2])
		fmt.Fprintf(b, "def jcInformerJobHandlers : Bool × Bool × Bool := (%v, %v, %v)\n", jb[0], jb[1], jb[2])
	})
}
