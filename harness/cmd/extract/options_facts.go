package main

// Facts for the `options` engine (property C18): finite tables and source shapes of
// pkg/core/options, variablecontext and podtaskexecutor/substitution.go.  Rigid syntactic shapes
// only; every unrecognised shape is a loud failure.

import (
	"fmt"
	"go/ast"
	"go/token"
	"sort"
	"strconv"
	"strings"
)

type optionsFacts struct {
	BoolFormatStrings [][3]string // format value, string for true, string for false
	BoolFormatsAll    []string
	BoolFormatCustom  string
	BoolFormatDefault string
	OptionTypesAll    []string
	OptionNameRegexp  string
	OptionVarFormat   string // fmt format of MakeOptionVariableName
	SubstPatternFmt   string // fmt format of the search string in SubstituteVariables
	SubstSortsKeys    bool   // SubstituteVariables visits the keys in sorted order (after fix F4)
	ReservedRegexFmt  string // fmt format of the regexp in SubstituteEmptyStringForPrefixes
	ContextPrefixes   []string
	PodExtraPrefixes  []string
	PodSubstSources   []string   // order of the maps appended in SubstitutePodSpec
	AdmissionMerges   [][]string // argument kinds of the MergeSubstitutions calls in mutation.go, in source order
}

const (
	typesFile    = "apis/execution/v1alpha1/jobconfig_types.go"
	optionsFile  = "pkg/core/options/options.go"
	substFile    = "pkg/core/options/substitution.go"
	optMutFile   = "pkg/core/options/mutation.go"
	providerFile = "pkg/execution/variablecontext/provider.go"
	podSubstFile = "pkg/execution/taskexecutor/podtaskexecutor/substitution.go"
	mutationFile = "pkg/execution/mutation/mutation.go"
)

func varValue(rel, name string) ast.Expr { return constExpr(rel, name) }

// callName returns "pkg.Func" / "Func" / "x.y.Func" -> last selector name, and the call.
func lastSel(e ast.Expr) string {
	switch x := e.(type) {
	case *ast.Ident:
		return x.Name
	case *ast.SelectorExpr:
		return x.Sel.Name
	}
	return ""
}

func selPath(e ast.Expr) string {
	switch x := e.(type) {
	case *ast.Ident:
		return x.Name
	case *ast.SelectorExpr:
		return selPath(x.X) + "." + x.Sel.Name
	}
	return "?"
}

// sprintfFormats returns the format literals of all fmt.Sprintf calls inside a function.
func sprintfFormats(fd *ast.FuncDecl) []string {
	var out []string
	if fd == nil {
		return nil
	}
	ast.Inspect(fd, func(n ast.Node) bool {
		c, ok := n.(*ast.CallExpr)
		if !ok || selPath(c.Fun) != "fmt.Sprintf" || len(c.Args) == 0 {
			return true
		}
		if bl, ok := c.Args[0].(*ast.BasicLit); ok && bl.Kind == token.STRING {
			s, err := strconv.Unquote(bl.Value)
			if err == nil {
				out = append(out, s)
			}
		}
		return true
	})
	return out
}

func extractOptionsFacts() optionsFacts {
	var f optionsFacts

	// --- bool formats
	section("opt-boolformats", func() {
		fmtConsts := typedStringConsts(typesFile, "BoolOptionFormat")
		if cl, ok := varValue(typesFile, "boolOptionFormatStrings").(*ast.CompositeLit); ok {
			for _, el := range cl.Elts {
				kv, ok := el.(*ast.KeyValueExpr)
				inner, ok2 := kv.Value.(*ast.CompositeLit)
				if !ok || !ok2 {
					failf("boolOptionFormatStrings: unrecognised element")
					continue
				}
				key, ok := fmtConsts[exprName(kv.Key)]
				if !ok {
					failf("boolOptionFormatStrings: key %s is not a BoolOptionFormat constant", exprName(kv.Key))
				}
				row := [3]string{key, "", ""}
				seen := 0
				for _, e2 := range inner.Elts {
					kv2, ok := e2.(*ast.KeyValueExpr)
					if !ok {
						failf("boolOptionFormatStrings[%s]: unrecognised element", key)
						continue
					}
					v := strLit(kv2.Value, "boolOptionFormatStrings value")
					switch exprName(kv2.Key) {
					case "true":
						row[1] = v
						seen |= 1
					case "false":
						row[2] = v
						seen |= 2
					default:
						failf("boolOptionFormatStrings[%s]: key %s", key, exprName(kv2.Key))
					}
				}
				if seen != 3 {
					failf("boolOptionFormatStrings[%s]: needs both true and false", key)
				}
				f.BoolFormatStrings = append(f.BoolFormatStrings, row)
			}
		} else {
			failf("%s: boolOptionFormatStrings is not a composite literal", typesFile)
		}
		if cl, ok := varValue(typesFile, "BoolOptionFormatsAll").(*ast.CompositeLit); ok {
			for _, el := range cl.Elts {
				v, ok := fmtConsts[exprName(el)]
				if !ok {
					failf("BoolOptionFormatsAll: %s is not a constant", exprName(el))
				}
				f.BoolFormatsAll = append(f.BoolFormatsAll, v)
			}
		} else {
			failf("%s: BoolOptionFormatsAll is not a composite literal", typesFile)
		}
		// FormatValue: `if c.Format == <Custom>` as first statement
		if fd := funcDecl(typesFile, "BoolOptionConfig", "FormatValue"); fd != nil {
			ok := false
			if len(fd.Body.List) == 2 {
				if is, ok1 := fd.Body.List[0].(*ast.IfStmt); ok1 {
					if be, ok2 := is.Cond.(*ast.BinaryExpr); ok2 && be.Op == token.EQL && selPath(be.X) == "c.Format" {
						if v, ok3 := fmtConsts[exprName(be.Y)]; ok3 {
							f.BoolFormatCustom = v
							ok = true
						}
					}
				}
			}
			if !ok {
				failf("%s: BoolOptionConfig.FormatValue: shape `if c.Format == <const> {…}; return c.Format.Format(value)` not recognised", typesFile)
			}
		}
		// GetDefaultingOptionBool: `newOption.Bool.Format = execution.<const>`
		if fd := funcDecl(optMutFile, "", "GetDefaultingOptionBool"); fd != nil {
			ast.Inspect(fd, func(n ast.Node) bool {
				as, ok := n.(*ast.AssignStmt)
				if !ok || len(as.Lhs) != 1 || len(as.Rhs) != 1 || selPath(as.Lhs[0]) != "newOption.Bool.Format" {
					return true
				}
				if v, ok := fmtConsts[exprName(as.Rhs[0])]; ok {
					f.BoolFormatDefault = v
				}
				return true
			})
			if f.BoolFormatDefault == "" {
				failf("%s: GetDefaultingOptionBool: default format assignment not found", optMutFile)
			}
		}
	})
	// option types
	section("opt-types", func() {
		typeConsts := typedStringConsts(typesFile, "OptionType")
		if cl, ok := varValue(typesFile, "OptionTypesAll").(*ast.CompositeLit); ok {
			for _, el := range cl.Elts {
				v, ok := typeConsts[exprName(el)]
				if !ok {
					failf("OptionTypesAll: %s is not a constant", exprName(el))
				}
				f.OptionTypesAll = append(f.OptionTypesAll, v)
			}
		} else {
			failf("%s: OptionTypesAll is not a composite literal", typesFile)
		}
	})

	// --- names
	section("opt-names", func() {
		if c, ok := varValue(optionsFile, "nameRegexp").(*ast.CallExpr); ok && selPath(c.Fun) == "regexp.MustCompile" && len(c.Args) == 1 {
			f.OptionNameRegexp = strLit(c.Args[0], "nameRegexp")
		} else {
			failf("%s: nameRegexp is not regexp.MustCompile(<literal>)", optionsFile)
		}
		if fs := sprintfFormats(funcDecl(optionsFile, "", "MakeOptionVariableName")); len(fs) == 1 {
			f.OptionVarFormat = fs[0]
		} else {
			failf("%s: MakeOptionVariableName: expected one Sprintf", optionsFile)
		}

	})

	// --- SubstituteVariables
	section("opt-subst", func() {
		if fd := funcDecl(substFile, "", "SubstituteVariables"); fd != nil {
			fs := sprintfFormats(fd)
			if len(fs) == 1 {
				f.SubstPatternFmt = fs[0]
			} else {
				failf("%s: SubstituteVariables: expected one Sprintf", substFile)
			}
			// shape A (as is): for name, value := range submap { … } ; return target
			// shape B (fixed): keys collected, sort.Strings(keys), for _, name := range keys { … }
			var ranges []*ast.RangeStmt
			sorts := 0
			ast.Inspect(fd, func(n ast.Node) bool {
				switch x := n.(type) {
				case *ast.RangeStmt:
					ranges = append(ranges, x)
				case *ast.CallExpr:
					if selPath(x.Fun) == "sort.Strings" {
						sorts++
					}
				}
				return true
			})
			param := ""
			if len(fd.Type.Params.List) == 2 && len(fd.Type.Params.List[1].Names) == 1 {
				param = fd.Type.Params.List[1].Names[0].Name
			}
			replaceInMapRange := false
			replaceInOtherRange := false
			for _, r := range ranges {
				hasReplace := false
				ast.Inspect(r.Body, func(n ast.Node) bool {
					if c, ok := n.(*ast.CallExpr); ok && selPath(c.Fun) == "strings.ReplaceAll" {
						hasReplace = true
					}
					return true
				})
				if !hasReplace {
					continue
				}
				if exprName(r.X) == param {
					replaceInMapRange = true
				} else {
					replaceInOtherRange = true
				}
			}
			switch {
			case param != "" && replaceInMapRange && !replaceInOtherRange && sorts == 0 && len(ranges) == 1:
				f.SubstSortsKeys = false
			case param != "" && !replaceInMapRange && replaceInOtherRange && sorts == 1 && len(ranges) == 2:
				f.SubstSortsKeys = true
			default:
				failf("%s: SubstituteVariables: neither `range submap {ReplaceAll}` nor `sort.Strings(keys); range keys {ReplaceAll}`", substFile)
			}
		}
		if fs := sprintfFormats(funcDecl(substFile, "", "SubstituteEmptyStringForPrefixes")); len(fs) == 1 {
			f.ReservedRegexFmt = fs[0]
		} else {
			failf("%s: SubstituteEmptyStringForPrefixes: expected one Sprintf", substFile)
		}

	})

	// --- prefixes
	section("opt-prefixes", func() {
		if fd := funcDecl(providerFile, "defaultProvider", "GetAllPrefixes"); fd != nil {
			ok := false
			if len(fd.Body.List) == 1 {
				if rs, ok1 := fd.Body.List[0].(*ast.ReturnStmt); ok1 && len(rs.Results) == 1 {
					if cl, ok2 := rs.Results[0].(*ast.CompositeLit); ok2 {
						ok = true
						for _, el := range cl.Elts {
							f.ContextPrefixes = append(f.ContextPrefixes, strLit(el, "GetAllPrefixes element"))
						}
					}
				}
			}
			if !ok {
				failf("%s: GetAllPrefixes is not a single return of a string slice literal", providerFile)
			}
		}

	})

	// --- SubstitutePodSpec: order of appended maps, extra prefixes
	section("opt-podsubst", func() {
		if fd := funcDecl(podSubstFile, "", "SubstitutePodSpec"); fd != nil {
			ast.Inspect(fd, func(n ast.Node) bool {
				as, ok := n.(*ast.AssignStmt)
				if !ok || len(as.Lhs) != 1 || len(as.Rhs) != 1 {
					return true
				}
				c, ok := as.Rhs[0].(*ast.CallExpr)
				if !ok || exprName(c.Fun) != "append" || len(c.Args) != 2 {
					return true
				}
				switch exprName(as.Lhs[0]) {
				case "subMaps":
					arg := c.Args[1]
					switch {
					case selPath(arg) == "rj.Spec.Substitutions":
						f.PodSubstSources = append(f.PodSubstSources, "substitutions")
					default:
						if cc, ok := arg.(*ast.CallExpr); ok {
							switch lastSel(cc.Fun) {
							case "MakeVariablesFromJob":
								f.PodSubstSources = append(f.PodSubstSources, "job")
							case "MakeVariablesFromTask":
								f.PodSubstSources = append(f.PodSubstSources, "task")
							case "MakeVariablesFromJobConfig":
								f.PodSubstSources = append(f.PodSubstSources, "jobconfig")
							default:
								failf("%s: SubstitutePodSpec: unknown map source %s", podSubstFile, lastSel(cc.Fun))
							}
						} else {
							failf("%s: SubstitutePodSpec: unknown map source", podSubstFile)
						}
					}
				case "removePrefixes":
					f.PodExtraPrefixes = append(f.PodExtraPrefixes, strLit(c.Args[1], "removePrefixes element"))
				}
				return true
			})
			if len(f.PodSubstSources) == 0 {
				failf("%s: SubstitutePodSpec: no `subMaps = append(subMaps, …)` found", podSubstFile)
			}
		}

	})

	// --- admission merges: MergeSubstitutions(<a>, <b>) in mutation.go, in source order
	section("opt-admission-merges", func() {
		if file := parse(mutationFile); file != nil {
			type posCall struct {
				pos  token.Pos
				args []string
			}
			var calls []posCall
			ast.Inspect(file, func(n ast.Node) bool {
				c, ok := n.(*ast.CallExpr)
				if !ok || lastSel(c.Fun) != "MergeSubstitutions" {
					return true
				}
				var kinds []string
				for _, a := range c.Args {
					switch {
					case selPath(a) == "rj.Spec.Substitutions":
						kinds = append(kinds, "explicit")
					case selPath(a) == "evaluated":
						kinds = append(kinds, "evaluated")
					default:
						if cc, ok := a.(*ast.CallExpr); ok && lastSel(cc.Fun) == "MakeVariablesFromJobConfig" {
							kinds = append(kinds, "jobconfig")
						} else {
							failf("%s: MergeSubstitutions argument not recognised", mutationFile)
							kinds = append(kinds, "?")
						}
					}
				}
				calls = append(calls, posCall{c.Pos(), kinds})
				return true
			})
			sort.Slice(calls, func(i, j int) bool { return calls[i].pos < calls[j].pos })
			for _, c := range calls {
				f.AdmissionMerges = append(f.AdmissionMerges, c.args)
			}
			if len(calls) == 0 {
				failf("%s: no MergeSubstitutions call found", mutationFile)
			}
		}
	})
	return f
}

// optionsSectionFacts extracts and emits the C18 facts.
func optionsSectionFacts(b *strings.Builder) optionsFacts {
	f := extractOptionsFacts()
	writeOptionsFacts(b, f)
	return f
}

// leanChars renders a string as a `List Char` literal (kernel-friendly, no String decoding).
func leanChars(s string) string {
	if s == "" {
		return "([] : List Char)"
	}
	var parts []string
	for _, r := range s {
		switch {
		case r == '\'':
			parts = append(parts, `'\''`)
		case r == '\\':
			parts = append(parts, `'\\'`)
		case r >= 0x20 && r < 0x7f:
			parts = append(parts, "'"+string(r)+"'")
		default:
			parts = append(parts, fmt.Sprintf("Char.ofNat %d", r))
		}
	}
	return "[" + strings.Join(parts, ", ") + "]"
}

func leanCharsList(xs []string) string {
	parts := make([]string, len(xs))
	for i, x := range xs {
		parts[i] = leanChars(x)
	}
	return "[" + strings.Join(parts, ", ") + "]"
}

func writeOptionsFacts(b *strings.Builder, f optionsFacts) {
	b.WriteString("\n/-! options engine (C18): strings are `List Char` literals -/\n")
	emit(b, "opt-boolformats", func(b *strings.Builder) {
		b.WriteString("/-- `boolOptionFormatStrings`: (format, string for true, string for false) -/\n")
		b.WriteString("def boolFormatStrings : List (List Char × List Char × List Char) := [")
		for i, r := range f.BoolFormatStrings {
			if i > 0 {
				b.WriteString(", ")
			}
			fmt.Fprintf(b, "(%s, %s, %s)", leanChars(r[0]), leanChars(r[1]), leanChars(r[2]))
		}
		b.WriteString("]\n")
		fmt.Fprintf(b, "def boolFormatsAll : List (List Char) := %s\n", leanCharsList(f.BoolFormatsAll))
		fmt.Fprintf(b, "def boolFormatCustom : List Char := %s\n", leanChars(f.BoolFormatCustom))
		fmt.Fprintf(b, "/-- format set by `GetDefaultingOptionBool` -/\ndef boolFormatDefault : List Char := %s\n", leanChars(f.BoolFormatDefault))
	})
	emit(b, "opt-types", func(b *strings.Builder) {
		fmt.Fprintf(b, "def optionTypesAll : List (List Char) := %s\n", leanCharsList(f.OptionTypesAll))
	})
	emit(b, "opt-names", func(b *strings.Builder) {
		fmt.Fprintf(b, "def optionNameRegexp : List Char := %s\n", leanChars(f.OptionNameRegexp))
		fmt.Fprintf(b, "def optionVarFormat : List Char := %s\n", leanChars(f.OptionVarFormat))
	})
	emit(b, "opt-subst", func(b *strings.Builder) {
		fmt.Fprintf(b, "def substPatternFormat : List Char := %s\n", leanChars(f.SubstPatternFmt))
		fmt.Fprintf(b, "/-- `options.SubstituteVariables` visits the keys in sorted order (false: ranges over the map) -/\ndef substSortsKeys : Bool := %v\n", f.SubstSortsKeys)
		fmt.Fprintf(b, "def reservedRegexFormat : List Char := %s\n", leanChars(f.ReservedRegexFmt))
	})
	emit(b, "opt-prefixes", func(b *strings.Builder) {
		fmt.Fprintf(b, "/-- `defaultProvider.GetAllPrefixes` -/\ndef contextPrefixes : List (List Char) := %s\n", leanCharsList(f.ContextPrefixes))
	})
	emit(b, "opt-podsubst", func(b *strings.Builder) {
		fmt.Fprintf(b, "/-- appended to the prefixes in `SubstitutePodSpec` -/\ndef podExtraPrefixes : List (List Char) := %s\n", leanCharsList(f.PodExtraPrefixes))
		fmt.Fprintf(b, "/-- order in which `SubstitutePodSpec` appends its maps (most important first) -/\ndef podSubstSources : List (List Char) := %s\n", leanCharsList(f.PodSubstSources))
	})
	emit(b, "opt-admission-merges", func(b *strings.Builder) {
		b.WriteString("/-- argument kinds of the `MergeSubstitutions` calls of mutation.go in source order (lowest priority first) -/\n")
		b.WriteString("def admissionMerges : List (List (List Char)) := [")
		for i, m := range f.AdmissionMerges {
			if i > 0 {
				b.WriteString(", ")
			}
			b.WriteString(leanCharsList(m))
		}
		b.WriteString("]\n")
	})
}
