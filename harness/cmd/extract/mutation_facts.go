package main

// Facts for the `admission` slice (C16): rigid syntactic shapes of pkg/execution/mutation.
// Called from main() through mutationFacts(&b).
//
//   JobPatcher.patchCreate / patchUpdate, JobConfigPatcher.patchCreate / patchUpdate
//       `result := webhook.NewResult()`, then only `result.Merge(p.mutator.<Name>(…))`
//       statements, then `return result`; the ordered <Name> lists are the facts
//   Mutator.MutateCreateJob
//       the order of its five phases, recognised by their key calls (top-level statements):
//       ContainsFinalizer (if) · evaluateConfigName · ValidateLookupJobOwner (errs ⇒ return) ·
//       evaluateOptionValues · MergeSubstitutions(MakeVariablesFromJobConfig, …) (if rjc != nil)
//   Mutator.evaluateConfigName
//       the order of its assignments to rj.* (what is merged / overwritten, in which order)
//   defaults: `rj.Spec.Type = v1alpha1.<JobType>`, `spec.MaxAttempts = pointer.Int64(N)`,
//       `spec.CompletionStrategy = v1alpha1.<const>`, `spec.Spec.RestartPolicy = corev1.<const>`,
//       the bool passed to MutateJobTemplateSpec by MutateJob / MutateJobConfig
//   label / annotation keys, finalizer, kind, apiVersion of the controller reference

import (
	"fmt"
	"go/ast"
	"go/token"
	"strings"
)

const (
	mutFile        = "pkg/execution/mutation/mutation.go"
	jobPatcherFile = "pkg/execution/mutation/patcher_jobs.go"
	jcPatcherFile  = "pkg/execution/mutation/patcher_jobconfigs.go"
	jcLabelsFile   = "pkg/execution/util/jobconfig/labels.go"
	gvInfoFile     = "apis/execution/v1alpha1/groupversion_info.go"
)

var admCallNames = map[string]bool{
	"MutateCreateJob": true, "MutateJob": true,
	"MutateCreateJobConfig": true, "MutateJobConfig": true, "MutateUpdateJobConfig": true,
}

// corev1.RestartPolicy constant names -> values (k8s.io/api is not parsed; stable API names)
var restartPolicyValues = map[string]string{
	"RestartPolicyNever": "Never", "RestartPolicyAlways": "Always", "RestartPolicyOnFailure": "OnFailure",
}

// patcherCalls: the body is `result := …NewResult()`; (`result.Merge(p.mutator.X(…))`)*; `return result`.
func patcherCalls(rel, recv, name string) []string {
	fd := funcDecl(rel, recv, name)
	if fd == nil || fd.Body == nil {
		return nil
	}
	stmts := fd.Body.List
	what := rel + ": " + recv + "." + name
	if len(stmts) < 2 {
		failf("%s: body too short", what)
		return nil
	}
	if as, ok := stmts[0].(*ast.AssignStmt); !ok || as.Tok != token.DEFINE || len(as.Lhs) != 1 || exprName(as.Lhs[0]) != "result" {
		failf("%s: first statement is not `result := …`", what)
		return nil
	}
	if rs, ok := stmts[len(stmts)-1].(*ast.ReturnStmt); !ok || len(rs.Results) != 1 || exprName(rs.Results[0]) != "result" {
		failf("%s: last statement is not `return result`", what)
		return nil
	}
	var out []string
	for _, st := range stmts[1 : len(stmts)-1] {
		es, ok := st.(*ast.ExprStmt)
		var inner *ast.CallExpr
		if ok {
			if ce, ok2 := es.X.(*ast.CallExpr); ok2 && selPath(ce.Fun) == "result.Merge" && len(ce.Args) == 1 {
				inner, _ = ce.Args[0].(*ast.CallExpr)
			}
		}
		if inner == nil || !strings.HasPrefix(selPath(inner.Fun), "p.mutator.") {
			failf("%s: statement is not `result.Merge(p.mutator.X(…))`", what)
			continue
		}
		n := lastSel(inner.Fun)
		if !admCallNames[n] {
			failf("%s: unknown mutator method %s", what, n)
			continue
		}
		out = append(out, n)
	}
	if len(out) == 0 {
		failf("%s: no mutator call", what)
	}
	return out
}

// containsCall reports whether the node contains a call whose last selector is name.
func containsCall(n ast.Node, name string) bool {
	found := false
	ast.Inspect(n, func(x ast.Node) bool {
		if c, ok := x.(*ast.CallExpr); ok && lastSel(c.Fun) == name {
			found = true
		}
		return !found
	})
	return found
}

// createJobSteps: classify every top-level statement of MutateCreateJob.
func createJobSteps() []string {
	fd := funcDecl(mutFile, "Mutator", "MutateCreateJob")
	if fd == nil || fd.Body == nil {
		return nil
	}
	var out []string
	stmts := fd.Body.List
	for i, st := range stmts {
		switch {
		case i == 0:
			if as, ok := st.(*ast.AssignStmt); !ok || exprName(as.Lhs[0]) != "result" {
				failf("MutateCreateJob: first statement is not `result := …`")
			}
		case i == len(stmts)-1:
			if rs, ok := st.(*ast.ReturnStmt); !ok || len(rs.Results) != 1 || exprName(rs.Results[0]) != "result" {
				failf("MutateCreateJob: last statement is not `return result`")
			}
		case containsCall(st, "ContainsFinalizer"):
			is, ok := st.(*ast.IfStmt)
			if !ok || !containsCall(is.Body, "MergeFinalizers") || is.Else != nil {
				failf("MutateCreateJob: finalizer step is not `if !ContainsFinalizer(…) { … MergeFinalizers … }`")
			}
			if ue, ok2 := is.Cond.(*ast.UnaryExpr); !ok2 || ue.Op != token.NOT {
				failf("MutateCreateJob: finalizer condition is not a negation")
			}
			out = append(out, "addFinalizer")
		case containsCall(st, "evaluateConfigName"):
			if _, ok := st.(*ast.ExprStmt); !ok {
				failf("MutateCreateJob: evaluateConfigName is not merged by a plain statement")
			}
			out = append(out, "evaluateConfigName")
		case containsCall(st, "ValidateLookupJobOwner"):
			out = append(out, "lookupOwner")
			// must be followed by `if errs != nil { …; return result }`
			ok := false
			if i+1 < len(stmts) {
				if is, ok2 := stmts[i+1].(*ast.IfStmt); ok2 && srcHas(is.Cond, "errs", "nil") && len(is.Body.List) > 0 {
					if _, ok3 := is.Body.List[len(is.Body.List)-1].(*ast.ReturnStmt); ok3 {
						ok = true
					}
				}
			}
			if !ok {
				failf("MutateCreateJob: owner lookup is not followed by `if errs != nil { …; return result }`")
			}
		case containsCall(st, "evaluateOptionValues"):
			if _, ok := st.(*ast.ExprStmt); !ok {
				failf("MutateCreateJob: evaluateOptionValues is not merged by a plain statement")
			}
			out = append(out, "evaluateOptionValues")
		case containsCall(st, "MakeVariablesFromJobConfig"):
			is, ok := st.(*ast.IfStmt)
			if !ok || !srcHas(is.Cond, "rjc", "nil") || !containsCall(is.Body, "MergeSubstitutions") {
				failf("MutateCreateJob: context merge is not `if rjc != nil { … MergeSubstitutions … }`")
			}
			out = append(out, "mergeContext")
		default:
			if is, ok := st.(*ast.IfStmt); ok && srcHas(is.Cond, "errs", "nil") {
				continue // the early return of the owner lookup (checked above)
			}
			failf("MutateCreateJob: unrecognised statement #%d", i)
		}
	}
	return out
}

// srcHas: the expression is a `a != b` comparison of the two named operands.
func srcHas(e ast.Expr, a, b string) bool {
	be, ok := e.(*ast.BinaryExpr)
	return ok && be.Op == token.NEQ && exprName(be.X) == a && exprName(be.Y) == b
}

// configNameWrites: the ordered targets `rj.<path>` assigned at the top level of
// evaluateConfigName after the base Job was built (including the startPolicy ifs).
func configNameWrites() []string {
	fd := funcDecl(mutFile, "Mutator", "evaluateConfigName")
	if fd == nil || fd.Body == nil {
		return nil
	}
	var out []string
	var visit func(stmts []ast.Stmt)
	visit = func(stmts []ast.Stmt) {
		for _, st := range stmts {
			switch s := st.(type) {
			case *ast.AssignStmt:
				for _, l := range s.Lhs {
					p := selPath(l)
					if ix, ok := l.(*ast.IndexExpr); ok {
						p = selPath(ix.X) + "[" + selPath(ix.Index) + "]"
					}
					if strings.HasPrefix(p, "rj.") {
						out = append(out, strings.TrimPrefix(p, "rj."))
					}
				}
			case *ast.IfStmt:
				// only the startPolicy ifs may write rj.*; error-return ifs write nothing
				visit(s.Body.List)
			}
		}
	}
	visit(fd.Body.List)
	return out
}

// assignedIdent: the name of the constant assigned to lhsPath inside the function.
func assignedRHS(rel, recv, fn, lhsPath string) ast.Expr {
	fd := funcDecl(rel, recv, fn)
	if fd == nil {
		return nil
	}
	var found ast.Expr
	n := 0
	ast.Inspect(fd, func(x ast.Node) bool {
		as, ok := x.(*ast.AssignStmt)
		if !ok || len(as.Lhs) != 1 || len(as.Rhs) != 1 {
			return true
		}
		if selPath(as.Lhs[0]) == lhsPath {
			found = as.Rhs[0]
			n++
		}
		return true
	})
	if n != 1 {
		failf("%s: %s: expected exactly one assignment to %s, found %d", rel, fn, lhsPath, n)
		return nil
	}
	return found
}

// templateFlag: the constant bool passed as 2nd argument of MutateJobTemplateSpec inside fn.
func templateFlag(fn string) bool {
	fd := funcDecl(mutFile, "Mutator", fn)
	if fd == nil {
		return false
	}
	val, n := false, 0
	ast.Inspect(fd, func(x ast.Node) bool {
		c, ok := x.(*ast.CallExpr)
		if !ok || lastSel(c.Fun) != "MutateJobTemplateSpec" || len(c.Args) != 3 {
			return true
		}
		switch exprName(c.Args[1]) {
		case "true":
			val = true
			n++
		case "false":
			n++
		default:
			failf("%s: MutateJobTemplateSpec flag is not a literal bool", fn)
		}
		return true
	})
	if n != 1 {
		failf("%s: expected exactly one MutateJobTemplateSpec call, found %d", fn, n)
	}
	return val
}

func leanCtorList(xs []string) string {
	parts := make([]string, len(xs))
	for i, x := range xs {
		parts[i] = "." + x
	}
	return "[" + strings.Join(parts, ", ") + "]"
}

func mutationFacts(b *strings.Builder) {
	val := func(m map[string]string, e ast.Expr, what string) string {
		if e == nil {
			return ""
		}
		v, ok := m[exprName(e)]
		if !ok {
			failf("%s: constant %s has no known string value", what, exprName(e))
		}
		return v
	}

	var jobCreate, jobUpdate, jcCreate, jcUpdate []string
	section("adm-patchers", func() {
		jobCreate = patcherCalls(jobPatcherFile, "JobPatcher", "patchCreate")
		jobUpdate = patcherCalls(jobPatcherFile, "JobPatcher", "patchUpdate")
		jcCreate = patcherCalls(jcPatcherFile, "JobConfigPatcher", "patchCreate")
		jcUpdate = patcherCalls(jcPatcherFile, "JobConfigPatcher", "patchUpdate")
	})
	var steps []string
	section("adm-create-steps", func() { steps = createJobSteps() })
	var writes []string
	section("adm-config-writes", func() {
		writes = configNameWrites()
		wantWrites := []string{"Labels", "Annotations", "Finalizers", "OwnerReferences", "Labels[jobconfig.LabelKeyJobConfigUID]",
			"Spec.Template", "Spec.StartPolicy", "Spec.StartPolicy.ConcurrencyPolicy", "Spec.ConfigName"}
		if strings.Join(writes, ",") != strings.Join(wantWrites, ",") {
			failf("evaluateConfigName: assignments to rj.* are %v, the model mirrors %v", writes, wantWrites)
		}
	})
	finalizer, labelUID, annSchedule, annHash, kind, apiVersion, scheduledType := "", "", "", "", "", "", ""
	section("adm-names", func() {
		group := strLit(constExpr("apis/execution/register.go", "GroupName"), "GroupName")
		version := strLit(constExpr(gvInfoFile, "Version"), "Version")
		apiVersion = group + "/" + version
		kind = strLit(constExpr(gvInfoFile, "KindJobConfig"), "KindJobConfig")
		checkAddGroupToLabel()
		annSchedule = groupLabel(jcLabelsFile, "AnnotationKeyScheduleTime", group)
		annHash = groupLabel(jcLabelsFile, "AnnotationKeyOptionSpecHash", group)
		labelUID = groupLabel(jcLabelsFile, "LabelKeyJobConfigUID", group)
		finalizer = groupPlusLit("apis/execution/finalizers.go", "DeleteDependentsFinalizer", group)
		jobTypes := typedStringConsts("apis/execution/v1alpha1/job_types.go", "JobType")
		var ok bool
		scheduledType, ok = jobTypes["JobTypeScheduled"]
		if !ok {
			failf("JobTypeScheduled not found")
		}
	})
	defType, defStrategy, defRestart := "", "", ""
	var defMaxAttempts int64
	jobFlag, jcFlag := false, false
	section("adm-defaults", func() {
		jobTypes := typedStringConsts("apis/execution/v1alpha1/job_types.go", "JobType")
		strategies := typedStringConsts("apis/execution/v1alpha1/job_types.go", "ParallelCompletionStrategy")
		defType = val(jobTypes, assignedRHS(mutFile, "Mutator", "MutateJob", "rj.Spec.Type"), "default job type")
		defStrategy = val(strategies, assignedRHS(mutFile, "Mutator", "MutateParallelismSpec", "spec.CompletionStrategy"), "default completion strategy")
		defRestart = val(restartPolicyValues, assignedRHS(mutFile, "Mutator", "MutatePodTemplateSpec", "spec.Spec.RestartPolicy"), "default restart policy")
		if ce, ok := assignedRHS(mutFile, "Mutator", "MutateJobTemplateSpec", "spec.MaxAttempts").(*ast.CallExpr); ok && exprName(ce.Fun) == "Int64" && len(ce.Args) == 1 {
			defMaxAttempts = intLit(ce.Args[0], "default maxAttempts")
		} else {
			failf("MutateJobTemplateSpec: spec.MaxAttempts is not assigned pointer.Int64(N)")
		}
		jobFlag = templateFlag("MutateJob")
		jcFlag = templateFlag("MutateJobConfig")
	})

	b.WriteString("\n/-! admission mutation (C16): strings are `List Char` literals -/\n")
	b.WriteString("/-- methods of `mutation.Mutator` called by the patchers -/\n")
	b.WriteString("inductive AdmCall where\n  | MutateCreateJob | MutateJob | MutateCreateJobConfig | MutateJobConfig | MutateUpdateJobConfig\nderiving DecidableEq, Repr\n")
	b.WriteString("/-- phases of `Mutator.MutateCreateJob` -/\n")
	b.WriteString("inductive AdmCreateStep where\n  | addFinalizer | evaluateConfigName | lookupOwner | evaluateOptionValues | mergeContext\nderiving DecidableEq, Repr\n")
	emit(b, "adm-patchers", func(b *strings.Builder) {
		fmt.Fprintf(b, "/-- `JobPatcher.patchCreate`: mutator methods merged, in source order -/\ndef admJobPatchCreate : List AdmCall := %s\n", leanCtorList(jobCreate))
		fmt.Fprintf(b, "/-- `JobPatcher.patchUpdate` -/\ndef admJobPatchUpdate : List AdmCall := %s\n", leanCtorList(jobUpdate))
		fmt.Fprintf(b, "/-- `JobConfigPatcher.patchCreate` -/\ndef admJobConfigPatchCreate : List AdmCall := %s\n", leanCtorList(jcCreate))
		fmt.Fprintf(b, "/-- `JobConfigPatcher.patchUpdate` -/\ndef admJobConfigPatchUpdate : List AdmCall := %s\n", leanCtorList(jcUpdate))
	})
	emit(b, "adm-create-steps", func(b *strings.Builder) {
		fmt.Fprintf(b, "/-- top-level phases of `Mutator.MutateCreateJob`, in source order (a failed owner lookup returns early) -/\ndef admCreateJobSteps : List AdmCreateStep := %s\n", leanCtorList(steps))
	})
	emit(b, "adm-config-writes", func(b *strings.Builder) {
		fmt.Fprintf(b, "/-- assignments to `rj.*` in `evaluateConfigName`, in source order (the model mirrors exactly this list) -/\ndef admConfigNameWrites : List (List Char) := %s\n", leanCharsList(writes))
	})
	emit(b, "adm-names", func(b *strings.Builder) {
		fmt.Fprintf(b, "def admFinalizer : List Char := %s\n", leanChars(finalizer))
		fmt.Fprintf(b, "def admLabelUID : List Char := %s\n", leanChars(labelUID))
		fmt.Fprintf(b, "def admAnnScheduleTime : List Char := %s\n", leanChars(annSchedule))
		fmt.Fprintf(b, "def admAnnOptionSpecHash : List Char := %s\n", leanChars(annHash))
		fmt.Fprintf(b, "def admKindJobConfig : List Char := %s\n", leanChars(kind))
		fmt.Fprintf(b, "/-- `GroupVersion.String()` of the controller reference -/\ndef admAPIVersion : List Char := %s\n", leanChars(apiVersion))
		fmt.Fprintf(b, "def admJobTypeScheduled : List Char := %s\n", leanChars(scheduledType))
	})
	emit(b, "adm-defaults", func(b *strings.Builder) {
		fmt.Fprintf(b, "/-- `MutateJob`: `rj.Spec.Type` when empty -/\ndef admDefaultJobType : List Char := %s\n", leanChars(defType))
		fmt.Fprintf(b, "/-- `MutateJobTemplateSpec`: `spec.MaxAttempts` when nil -/\ndef admDefaultMaxAttempts : Int := %d\n", defMaxAttempts)
		fmt.Fprintf(b, "/-- `MutateParallelismSpec`: `CompletionStrategy` when empty -/\ndef admDefaultCompletionStrategy : List Char := %s\n", leanChars(defStrategy))
		fmt.Fprintf(b, "/-- `MutatePodTemplateSpec`: `RestartPolicy` when empty -/\ndef admDefaultRestartPolicy : List Char := %s\n", leanChars(defRestart))
		fmt.Fprintf(b, "/-- `mutateTaskTemplate` argument of `MutateJobTemplateSpec` in `MutateJob` / `MutateJobConfig` -/\n")
		fmt.Fprintf(b, "def admJobMutatesTaskTemplate : Bool := %v\ndef admJobConfigMutatesTaskTemplate : Bool := %v\n", jobFlag, jcFlag)
	})
}
