package main

// Facts consumed by Model/Cron.lean (properties C03/C04, finding F24): does the cron
// controller remember which JobConfigs CronWorker.Init loaded, and do the informer handlers
// consult that record?  The informer notifies a handler of the objects that exist at boot with
// add events too; an add for a JobConfig that Init loaded (with its catch-up schedule) must not
// flush it.  Three shapes are recognised, each either present in exactly this form (true),
// absent altogether (false: the tree before the repair), or present in another form (the
// extraction fails: the model no longer knows what the code does).
//
//	cronInitRecordsLoaded          CronWorker.Init locks loadedConfigsMu (unlock deferred) before it
//	                               sets scheduleInitialized, and after cronschedule.New(X, …) assigns
//	                               w.loadedConfigs = make(…) and w.loadedConfigs[key] = v.GetUID()
//	                               in a range over the same X
//	cronHandleAddTakesLoaded       InformerWorker.handleAdd: `if … scheduleInitialized … == 0 { return }`,
//	                               then `if … w.takeLoadedConfig(…) { return }`, then w.enqueueFlush(obj);
//	                               Context.takeLoadedConfig looks the key up in c.loadedConfigs,
//	                               deletes it and returns `ok && uid == ….GetUID()`
//	cronHandleDeleteForgetsLoaded  the DeleteFunc is w.handleDelete, which calls w.takeLoadedConfig(…)
//	                               before w.enqueueFlush(obj)

import (
	"fmt"
	"go/ast"
	"go/token"
	"strings"
)

func cronLoadedFacts(b *strings.Builder) {
	const dir = "pkg/execution/controllers/croncontroller/"
	takes, forgets, records := false, false, false
	section("cron-loaded", func() { takes, forgets, records = cronLoadedShapes(dir) })
	emit(b, "cron-loaded", func(b *strings.Builder) {
		fmt.Fprintf(b, "/-- F24: `CronWorker.Init` records the JobConfigs it loaded (key ↦ UID, under the mutex it holds for the\nwhole of Init); `handleAdd` ignores the add of a recorded JobConfig with that UID (and forgets the record);\n`handleDelete` forgets the record before it flushes -/\n")
		fmt.Fprintf(b, "def cronInitRecordsLoaded : Bool := %v\ndef cronHandleAddTakesLoaded : Bool := %v\ndef cronHandleDeleteForgetsLoaded : Bool := %v\n", records, takes, forgets)
	})
}

func cronLoadedShapes(dir string) (takes, forgets, records bool) {
	mentions := func(n ast.Node, name string) bool {
		found := false
		if n == nil {
			return false
		}
		ast.Inspect(n, func(x ast.Node) bool {
			switch t := x.(type) {
			case *ast.Ident:
				found = found || t.Name == name
			case *ast.SelectorExpr:
				found = found || t.Sel.Name == name
			}
			return !found
		})
		return found
	}
	calls := func(n ast.Node, name string) bool { // n contains a call …name(…)
		found := false
		if n == nil {
			return false
		}
		ast.Inspect(n, func(x ast.Node) bool {
			if ce, ok := x.(*ast.CallExpr); ok {
				switch f := ce.Fun.(type) {
				case *ast.SelectorExpr:
					found = found || f.Sel.Name == name
				case *ast.Ident:
					found = found || f.Name == name
				}
			}
			return !found
		})
		return found
	}
	endsInReturn := func(bl *ast.BlockStmt) bool {
		if bl == nil || len(bl.List) == 0 {
			return false
		}
		_, ok := bl.List[len(bl.List)-1].(*ast.ReturnStmt)
		return ok
	}
	// index of the first top-level statement of fd satisfying p (-1: none)
	stmtIdx := func(fd *ast.FuncDecl, p func(ast.Stmt) bool) int {
		for i, st := range fd.Body.List {
			if p(st) {
				return i
			}
		}
		return -1
	}
	isCallStmt := func(st ast.Stmt, name string) bool {
		es, ok := st.(*ast.ExprStmt)
		return ok && calls(es.X, name)
	}

	// --- handleAdd
	if fd := funcDecl(dir+"informer.go", "InformerWorker", "handleAdd"); fd != nil && fd.Body != nil {
		if mentions(fd.Body, "takeLoadedConfig") {
			guard := stmtIdx(fd, func(st ast.Stmt) bool {
				is, ok := st.(*ast.IfStmt)
				return ok && mentions(is.Cond, "scheduleInitialized") && endsInReturn(is.Body) && is.Else == nil
			})
			take := stmtIdx(fd, func(st ast.Stmt) bool {
				is, ok := st.(*ast.IfStmt)
				return ok && calls(is.Cond, "takeLoadedConfig") && endsInReturn(is.Body) && len(is.Body.List) == 1 && is.Else == nil
			})
			flush := stmtIdx(fd, func(st ast.Stmt) bool { return isCallStmt(st, "enqueueFlush") })
			if guard >= 0 && guard < take && take < flush && flush == len(fd.Body.List)-1 {
				takes = true
			} else {
				failf("%sinformer.go: handleAdd mentions takeLoadedConfig but not as `initialized guard; if …takeLoadedConfig(…) { return }; enqueueFlush(obj)`", dir)
			}
		}
	}
	if takes {
		// Context.takeLoadedConfig: lookup, delete, `return ok && uid == ….GetUID()`
		fd := funcDecl(dir+"controller.go", "Context", "takeLoadedConfig")
		ok := fd != nil && fd.Body != nil && len(fd.Body.List) > 0
		if ok {
			lookup := stmtIdx(fd, func(st ast.Stmt) bool {
				as, isA := st.(*ast.AssignStmt)
				if !isA || len(as.Lhs) != 2 || len(as.Rhs) != 1 {
					return false
				}
				ix, isIx := as.Rhs[0].(*ast.IndexExpr)
				return isIx && mentions(ix.X, "loadedConfigs")
			})
			del := stmtIdx(fd, func(st ast.Stmt) bool {
				es, isE := st.(*ast.ExprStmt)
				if !isE {
					return false
				}
				ce, isC := es.X.(*ast.CallExpr)
				id, isI := func() (*ast.Ident, bool) {
					if !isC {
						return nil, false
					}
					i, k := ce.Fun.(*ast.Ident)
					return i, k
				}()
				return isC && isI && id.Name == "delete" && len(ce.Args) == 2 && mentions(ce.Args[0], "loadedConfigs")
			})
			rs, isR := fd.Body.List[len(fd.Body.List)-1].(*ast.ReturnStmt)
			ok = lookup >= 0 && lookup < del && isR && len(rs.Results) == 1
			if ok {
				be, isB := rs.Results[0].(*ast.BinaryExpr)
				ok = isB && be.Op == token.LAND
				if ok {
					cmp, isCmp := be.Y.(*ast.BinaryExpr)
					ok = isCmp && cmp.Op == token.EQL && (calls(cmp.X, "GetUID") || calls(cmp.Y, "GetUID"))
				}
			}
		}
		if !ok {
			failf("%scontroller.go: takeLoadedConfig is not `uid, ok := c.loadedConfigs[key]; delete(c.loadedConfigs, key); return ok && uid == obj.GetUID()`", dir)
		}
	}

	// --- handleDelete
	if f := parse(dir + "informer.go"); f != nil {
		deleteIsMethod := false
		ast.Inspect(f, func(n ast.Node) bool {
			kv, ok := n.(*ast.KeyValueExpr)
			if !ok {
				return true
			}
			if id, ok := kv.Key.(*ast.Ident); ok && id.Name == "DeleteFunc" {
				if sel, ok := kv.Value.(*ast.SelectorExpr); ok && sel.Sel.Name == "handleDelete" {
					deleteIsMethod = true
				}
			}
			return true
		})
		if deleteIsMethod {
			fd := funcDecl(dir+"informer.go", "InformerWorker", "handleDelete")
			if fd == nil || fd.Body == nil {
				failf("%sinformer.go: DeleteFunc is w.handleDelete but the method was not found", dir)
			} else if mentions(fd.Body, "takeLoadedConfig") {
				take := stmtIdx(fd, func(st ast.Stmt) bool { return calls(st, "takeLoadedConfig") })
				flush := stmtIdx(fd, func(st ast.Stmt) bool { return isCallStmt(st, "enqueueFlush") })
				if take >= 0 && take < flush && flush == len(fd.Body.List)-1 {
					forgets = true
				} else {
					failf("%sinformer.go: handleDelete mentions takeLoadedConfig but not as `…takeLoadedConfig(…); enqueueFlush(obj)`", dir)
				}
			}
		}
	}

	// --- CronWorker.Init
	if fd := funcDecl(dir+"cron_worker.go", "CronWorker", "Init"); fd != nil && fd.Body != nil && mentions(fd.Body, "loadedConfigs") {
		lock := stmtIdx(fd, func(st ast.Stmt) bool {
			es, ok := st.(*ast.ExprStmt)
			return ok && calls(es.X, "Lock") && mentions(es.X, "loadedConfigsMu")
		})
		unlock := stmtIdx(fd, func(st ast.Stmt) bool {
			ds, ok := st.(*ast.DeferStmt)
			return ok && calls(ds.Call, "Unlock") && mentions(ds.Call, "loadedConfigsMu")
		})
		flag := stmtIdx(fd, func(st ast.Stmt) bool {
			es, ok := st.(*ast.ExprStmt)
			return ok && mentions(es.X, "scheduleInitialized")
		})
		listed := ""
		newIdx := stmtIdx(fd, func(st ast.Stmt) bool {
			as, ok := st.(*ast.AssignStmt)
			if !ok || len(as.Rhs) != 1 {
				return false
			}
			ce, ok := as.Rhs[0].(*ast.CallExpr)
			if !ok {
				return false
			}
			sel, ok := ce.Fun.(*ast.SelectorExpr)
			if !ok || sel.Sel.Name != "New" || !mentions(sel.X, "cronschedule") || len(ce.Args) == 0 {
				return false
			}
			if id, ok := ce.Args[0].(*ast.Ident); ok {
				listed = id.Name
			}
			return true
		})
		mk := stmtIdx(fd, func(st ast.Stmt) bool {
			as, ok := st.(*ast.AssignStmt)
			if !ok || len(as.Lhs) != 1 || len(as.Rhs) != 1 {
				return false
			}
			sel, ok := as.Lhs[0].(*ast.SelectorExpr)
			return ok && sel.Sel.Name == "loadedConfigs" && calls(as.Rhs[0], "make")
		})
		fill := stmtIdx(fd, func(st ast.Stmt) bool {
			rs, ok := st.(*ast.RangeStmt)
			if !ok {
				return false
			}
			id, ok := rs.X.(*ast.Ident)
			if !ok || id.Name != listed || listed == "" {
				return false
			}
			stores := false
			ast.Inspect(rs.Body, func(x ast.Node) bool {
				if as, ok := x.(*ast.AssignStmt); ok && len(as.Lhs) == 1 && len(as.Rhs) == 1 {
					if ix, ok := as.Lhs[0].(*ast.IndexExpr); ok && mentions(ix.X, "loadedConfigs") && calls(as.Rhs[0], "GetUID") {
						stores = true
					}
				}
				return true
			})
			return stores
		})
		if lock >= 0 && lock < unlock && unlock < flag && flag < newIdx && newIdx < mk && mk < fill {
			records = true
		} else {
			failf("%scron_worker.go: Init mentions loadedConfigs but not as `loadedConfigsMu.Lock(); defer …Unlock(); set scheduleInitialized; …; cronschedule.New(X, …); w.loadedConfigs = make(…); for … range X { w.loadedConfigs[key] = ….GetUID() }`", dir)
		}
	}
	if takes != records || (forgets && !takes) {
		failf("%s: inconsistent use of loadedConfigs (Init records: %v, handleAdd consults: %v, handleDelete forgets: %v)", dir, records, takes, forgets)
	}

	return takes, forgets, records
}
