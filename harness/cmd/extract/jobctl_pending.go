package main

// Facts consumed by Props/C12Plan.lean (property C12, finding F32): by which TaskRef does the
// pending-timeout step judge a task, and does the pod → task mapping count a container that is
// waiting to be restarted as started?  Two shapes are recognised, each either present in exactly
// this form (true), absent altogether (false: the tree before the repair), or present in another
// form (the extraction fails: the model no longer knows what the code does).
//
//	pendingConsultsRecordedRef     Reconciler.handlePendingTasks: the body of `for _, task := range tasks`
//	                               starts with `ref := task.GetTaskRef()` followed by
//	                               `if recorded := jobutil.FindTaskRef(rj, task); recorded != nil { ref = *recorded }`
//	                               before any other statement (Model/JobCtl.lean: `pendRef`)
//	startTimeReadsLastTermination  podtaskexecutor.GetContainerStartTime: the body of the range over the
//	                               container statuses has, after the ifs on `container.State.Running` and
//	                               `container.State.Terminated`, an
//	                               `if status := container.LastTerminationState.Terminated; status != nil && !ktime.IsUnixZero(&status.StartedAt) { t = *ktime.TimeMax(&status.StartedAt, &t) }`
//	                               (Model/Task.lean: `containerStartTime`)

import (
	"fmt"
	"go/ast"
	"go/token"
	"strings"
)

func pendingRefFacts(b *strings.Builder) {
	consults, lastTerm := false, false
	section("jobctl-pending-ref", func() { consults, lastTerm = pendingRefShapes() })
	emit(b, "jobctl-pending-ref", func(b *strings.Builder) {
		fmt.Fprintf(b, "/-- F32: `handlePendingTasks` judges a task by the TaskRef recorded in the Job's status\n(`jobutil.FindTaskRef(rj, task)`), falling back on the task's own `GetTaskRef()`; `GetContainerStartTime` also\nreads `LastTerminationState.Terminated.StartedAt` -/\n")
		fmt.Fprintf(b, "def pendingConsultsRecordedRef : Bool := %v\ndef startTimeReadsLastTermination : Bool := %v\n", consults, lastTerm)
	})
}

func pendingRefShapes() (consults, lastTerm bool) {
	mentions := func(n ast.Node, name string) bool {
		found := false
		if n == nil {
			return false
		}
		ast.Inspect(n, func(x ast.Node) bool {
			switch t := x.(type) {
			case *ast.Ident:
				found = found || t.Name == name
			case *ast.SelectorExpr:
				found = found || t.Sel.Name == name
			}
			return !found
		})
		return found
	}
	callOf := func(e ast.Expr, name string) *ast.CallExpr { // e is a call …name(…)
		ce, ok := e.(*ast.CallExpr)
		if !ok {
			return nil
		}
		switch f := ce.Fun.(type) {
		case *ast.SelectorExpr:
			if f.Sel.Name == name {
				return ce
			}
		case *ast.Ident:
			if f.Name == name {
				return ce
			}
		}
		return nil
	}
	isIdent := func(e ast.Expr, name string) bool {
		id, ok := e.(*ast.Ident)
		return ok && id.Name == name
	}

	// --- handlePendingTasks
	const rec = "pkg/execution/controllers/jobcontroller/reconciler.go"
	if fd := funcDecl(rec, "Reconciler", "handlePendingTasks"); fd != nil && fd.Body != nil {
		var loop *ast.RangeStmt
		for _, st := range fd.Body.List {
			if rs, ok := st.(*ast.RangeStmt); ok && isIdent(rs.X, "tasks") {
				loop = rs
				break
			}
		}
		if loop == nil || len(loop.Body.List) < 2 {
			failf("%s: handlePendingTasks has no `for … range tasks` loop", rec)
		} else {
			// first statement: ref := task.GetTaskRef()
			as, ok := loop.Body.List[0].(*ast.AssignStmt)
			first := ok && as.Tok == token.DEFINE && len(as.Lhs) == 1 && len(as.Rhs) == 1 && isIdent(as.Lhs[0], "ref") &&
				callOf(as.Rhs[0], "GetTaskRef") != nil
			if !first {
				failf("%s: the loop of handlePendingTasks does not start with `ref := task.GetTaskRef()`", rec)
			} else if mentions(loop.Body, "FindTaskRef") {
				is, ok := loop.Body.List[1].(*ast.IfStmt)
				good := ok && is.Else == nil && is.Init != nil && len(is.Body.List) == 1
				if good {
					ia, ok := is.Init.(*ast.AssignStmt)
					good = ok && ia.Tok == token.DEFINE && len(ia.Lhs) == 1 && len(ia.Rhs) == 1 && isIdent(ia.Lhs[0], "recorded")
					if good {
						ce := callOf(ia.Rhs[0], "FindTaskRef")
						good = ce != nil && len(ce.Args) == 2 && isIdent(ce.Args[0], "rj") && isIdent(ce.Args[1], "task")
					}
				}
				if good {
					be, ok := is.Cond.(*ast.BinaryExpr)
					good = ok && be.Op == token.NEQ && isIdent(be.X, "recorded") && isIdent(be.Y, "nil")
				}
				if good {
					ba, ok := is.Body.List[0].(*ast.AssignStmt)
					good = ok && ba.Tok == token.ASSIGN && len(ba.Lhs) == 1 && len(ba.Rhs) == 1 && isIdent(ba.Lhs[0], "ref")
					if good {
						se, ok := ba.Rhs[0].(*ast.StarExpr)
						good = ok && isIdent(se.X, "recorded")
					}
				}
				// FindTaskRef must not be consulted anywhere else in the loop
				for _, st := range loop.Body.List[2:] {
					good = good && !mentions(st, "FindTaskRef")
				}
				if good {
					consults = true
				} else {
					failf("%s: handlePendingTasks mentions FindTaskRef but not as `ref := task.GetTaskRef(); if recorded := jobutil.FindTaskRef(rj, task); recorded != nil { ref = *recorded }` at the head of the loop", rec)
				}
			}
		}
	}
	if consults {
		// jobutil.FindTaskRef: the first ref whose Name equals task.GetName()
		const ts = "pkg/execution/util/job/task_status.go"
		fd := funcDecl(ts, "", "FindTaskRef")
		ok := fd != nil && fd.Body != nil && len(fd.Body.List) == 2
		if ok {
			rs, isR := fd.Body.List[0].(*ast.RangeStmt)
			ok = isR && mentions(rs.X, "Tasks") && len(rs.Body.List) == 1
			if ok {
				is, isI := rs.Body.List[0].(*ast.IfStmt)
				ok = isI && is.Else == nil && len(is.Body.List) == 1
				if ok {
					be, isB := is.Cond.(*ast.BinaryExpr)
					ok = isB && be.Op == token.EQL && mentions(be.X, "Name") && callOf(be.Y, "GetName") != nil
					_, isRet := is.Body.List[0].(*ast.ReturnStmt)
					ok = ok && isRet
				}
			}
		}
		if !ok {
			failf("%s: FindTaskRef is not `for … range rj.Status.Tasks { if taskRef.Name == task.GetName() { return &taskRef } }; return nil`", ts)
			consults = false
		}
	}

	// --- GetContainerStartTime
	const ut = "pkg/execution/taskexecutor/podtaskexecutor/util.go"
	if fd := funcDecl(ut, "", "GetContainerStartTime"); fd != nil && fd.Body != nil {
		var loop *ast.RangeStmt
		for _, st := range fd.Body.List {
			if rs, ok := st.(*ast.RangeStmt); ok && mentions(rs.X, "ContainerStatuses") {
				loop = rs
				break
			}
		}
		if loop == nil {
			failf("%s: GetContainerStartTime has no range over the container statuses", ut)
		} else {
			// every statement: if status := container.<path>; status != nil && !ktime.IsUnixZero(&status.StartedAt) { t = *ktime.TimeMax(&status.StartedAt, &t) }
			var paths []string
			good := true
			for _, st := range loop.Body.List {
				is, ok := st.(*ast.IfStmt)
				if !ok || is.Else != nil || is.Init == nil || len(is.Body.List) != 1 {
					good = false
					break
				}
				ia, ok := is.Init.(*ast.AssignStmt)
				if !ok || len(ia.Rhs) != 1 || len(ia.Lhs) != 1 || !isIdent(ia.Lhs[0], "status") {
					good = false
					break
				}
				path := ""
				var walk func(e ast.Expr) bool
				walk = func(e ast.Expr) bool {
					switch t := e.(type) {
					case *ast.Ident:
						return t.Name == "container"
					case *ast.SelectorExpr:
						if !walk(t.X) {
							return false
						}
						path += "." + t.Sel.Name
						return true
					}
					return false
				}
				if !walk(ia.Rhs[0]) {
					good = false
					break
				}
				ba, ok := is.Body.List[0].(*ast.AssignStmt)
				if !ok || len(ba.Lhs) != 1 || !isIdent(ba.Lhs[0], "t") || !mentions(ba.Rhs[0], "TimeMax") || !mentions(ba.Rhs[0], "StartedAt") ||
					!mentions(is.Cond, "IsUnixZero") || !mentions(is.Cond, "StartedAt") {
					good = false
					break
				}
				paths = append(paths, path)
			}
			got := strings.Join(paths, " ")
			switch {
			case good && got == ".State.Running .State.Terminated":
				lastTerm = false
			case good && got == ".State.Running .State.Terminated .LastTerminationState.Terminated":
				lastTerm = true
			default:
				failf("%s: GetContainerStartTime's loop is not the sequence of `if status := container.X; status != nil && !IsUnixZero(&status.StartedAt) { t = *TimeMax(&status.StartedAt, &t) }` over State.Running, State.Terminated[, LastTerminationState.Terminated] (found %q)", ut, got)
			}
		}
	}
	return
}
