package main

// Facts for the retry slice (C20), called from main() through retryFacts(&b):
//
//   allMaxRequeues     every `func (…) MaxRequeues() int` found in a non-test Go file under pkg/
//                      (receiver type @ file ↦ the integer literal it returns): a reconciler added
//                      later cannot be missed; each body must be a single `return <int literal>`
//   retryRequeueGuard  the condition of the `if` whose body is `w.queue.AddRateLimited(key)` in
//                      reconciler.Controller.syncItem, printed with go/printer
//   retryWorkShape     the skeleton of reconciler.Controller.work (see workShape):
//                      Get / defer Done / syncItem / on error: handleError, return true /
//                      on success: Forget, return true
//   retrySplitEarly    syncItem returns the split error before calling the handler

import (
	"bytes"
	"fmt"
	"go/ast"
	"go/parser"
	"go/printer"
	"go/token"
	"os"
	"path/filepath"
	"sort"
	"strings"
)

const reconcilerFile = "pkg/runtime/reconciler/controller.go"

func printNode(n ast.Node) string {
	var buf bytes.Buffer
	_ = printer.Fprint(&buf, fset, n)
	return strings.Join(strings.Fields(buf.String()), " ")
}

func recvName(fd *ast.FuncDecl) string {
	if fd.Recv == nil || len(fd.Recv.List) != 1 {
		return ""
	}
	switch t := fd.Recv.List[0].Type.(type) {
	case *ast.StarExpr:
		if id, ok := t.X.(*ast.Ident); ok {
			return id.Name
		}
	case *ast.Ident:
		return t.Name
	}
	return ""
}

// workShape is the skeleton of reconciler.Controller.work.  The head (Get / quit check / defer
// Done / syncItem) is matched statement by statement up to the names of the locals; the tail is
// reduced to what happens on the two paths `err != nil` and `err == nil`, so that
//
//	if err != nil { w.handleError(err, item); return true }; w.queue.Forget(item); return true
//	if err != nil { w.handleError(err, item) } else { w.queue.Forget(item) }; return true
//
// are the same skeleton: "on-error-return" = on error handleError is called, Forget is NOT
// called and work returns true; "forget" = on success Forget is called and work returns true.
// Any other sequence of effects on a path is printed into the skeleton (which then differs).
func workShape(fd *ast.FuncDecl) []string {
	recv := recvVar(fd)
	ctx := paramVar(fd, 0)
	item, quit, errv := "", "", ""
	var shape []string
	isCall := func(e ast.Expr, fun string, args ...string) bool {
		ce, ok := e.(*ast.CallExpr)
		if !ok || printNode(ce.Fun) != fun || len(ce.Args) != len(args) || ce.Ellipsis.IsValid() {
			return false
		}
		for i, a := range args {
			if a == "" || !isIdentNamed(a)(ce.Args[i]) {
				return false
			}
		}
		return true
	}
	// define1/2: `<a>[, <b>] := <call>`; returns the defined names
	define := func(st ast.Stmt, n int) ([]string, ast.Expr) {
		as, ok := st.(*ast.AssignStmt)
		if !ok || as.Tok != token.DEFINE || len(as.Lhs) != n || len(as.Rhs) != 1 {
			return nil, nil
		}
		var names []string
		for _, l := range as.Lhs {
			id, ok := l.(*ast.Ident)
			if !ok {
				return nil, nil
			}
			names = append(names, id.Name)
		}
		return names, as.Rhs[0]
	}
	stmts := fd.Body.List
	tail := -1
	for i := 0; i < len(stmts) && tail < 0; i++ {
		st := stmts[i]
		if names, rhs := define(st, 2); names != nil && item == "" && isCall(rhs, recv+".queue.Get") {
			item, quit = names[0], names[1]
			shape = append(shape, "get")
			continue
		}
		if is, ok := st.(*ast.IfStmt); ok && quit != "" && is.Init == nil && is.Else == nil && isIdentNamed(quit)(stripParens(is.Cond)) &&
			len(is.Body.List) == 1 && printNode(is.Body.List[0]) == "return false" {
			continue
		}
		if ds, ok := st.(*ast.DeferStmt); ok && isCall(ds.Call, recv+".queue.Done", item) {
			shape = append(shape, "defer-done")
			continue
		}
		if names, rhs := define(st, 1); names != nil && isCall(rhs, recv+".syncItem", ctx, item) {
			errv = names[0]
			shape = append(shape, "sync")
			tail = i + 1
			continue
		}
		// `if err := w.syncItem(ctx, item); err != nil {…} else {…}`: the same assignment as initialiser
		if is, ok := st.(*ast.IfStmt); ok && is.Init != nil {
			if names, rhs := define(is.Init, 1); names != nil && isCall(rhs, recv+".syncItem", ctx, item) {
				errv = names[0]
				shape = append(shape, "sync")
				cp := *is
				cp.Init = nil
				stmts = append(append(append([]ast.Stmt{}, stmts[:i+1]...), &cp), stmts[i+1:]...)
				tail = i + 1
				continue
			}
		}
		shape = append(shape, "?"+printNode(st))
	}
	if tail < 0 {
		return shape
	}
	// effects of the tail on the path where err != nil is `failed`
	var walk func(stmts []ast.Stmt, failed bool) ([]string, bool)
	walk = func(stmts []ast.Stmt, failed bool) ([]string, bool) {
		var eff []string
		for _, st := range stmts {
			switch s := st.(type) {
			case *ast.IfStmt:
				be, ok := stripParens(s.Cond).(*ast.BinaryExpr)
				if s.Init != nil || !ok || (be.Op != token.NEQ && be.Op != token.EQL) ||
					!isIdentNamed(errv)(stripParens(be.X)) || !isIdentNamed("nil")(stripParens(be.Y)) {
					eff = append(eff, "?"+printNode(st))
					continue
				}
				taken := failed == (be.Op == token.NEQ)
				var branch []ast.Stmt
				switch {
				case taken:
					branch = s.Body.List
				case s.Else == nil:
				default:
					if blk, ok := s.Else.(*ast.BlockStmt); ok {
						branch = blk.List
					} else {
						branch = []ast.Stmt{s.Else}
					}
				}
				e, ret := walk(branch, failed)
				eff = append(eff, e...)
				if ret {
					return eff, true
				}
			case *ast.ExprStmt:
				switch {
				case isCall(s.X, recv+".handleError", errv, item):
					eff = append(eff, "handleError")
				case isCall(s.X, recv+".queue.Forget", item):
					eff = append(eff, "forget")
				default:
					eff = append(eff, "?"+printNode(st))
				}
			case *ast.ReturnStmt:
				return append(eff, printNode(s)), true
			default:
				eff = append(eff, "?"+printNode(st))
			}
		}
		return eff, false
	}
	onErr, _ := walk(stmts[tail:], true)
	onOK, _ := walk(stmts[tail:], false)
	if strings.Join(onErr, ";") == "handleError;return true" {
		shape = append(shape, "on-error-return")
	} else {
		shape = append(shape, "?on-error: "+strings.Join(onErr, "; "))
	}
	if strings.Join(onOK, ";") == "forget;return true" {
		shape = append(shape, "forget")
	} else {
		shape = append(shape, "?on-success: "+strings.Join(onOK, "; "))
	}
	return shape
}

func retryFacts(b *strings.Builder) {
	// ---- every MaxRequeues() under pkg/
	type mr struct {
		key string
		val int64
	}
	var all []mr
	section("retry-maxrequeues", func() {
		root := filepath.Join(repo, "pkg")
		_ = filepath.Walk(root, func(path string, info os.FileInfo, err error) error {
			if err != nil || info.IsDir() || !strings.HasSuffix(path, ".go") || strings.HasSuffix(path, "_test.go") {
				return nil
			}
			src, err := os.ReadFile(path)
			if err != nil || !bytes.Contains(src, []byte("MaxRequeues()")) {
				return nil
			}
			f, err := parser.ParseFile(fset, path, src, 0)
			if err != nil {
				failf("cannot parse %s: %v", path, err)
				return nil
			}
			rel, _ := filepath.Rel(repo, path)
			for _, d := range f.Decls {
				fd, ok := d.(*ast.FuncDecl)
				if !ok || fd.Name.Name != "MaxRequeues" || fd.Recv == nil {
					continue
				}
				if fd.Body == nil || len(fd.Body.List) != 1 {
					failf("%s: %s.MaxRequeues is not a single return", rel, recvName(fd))
					continue
				}
				rs, ok := fd.Body.List[0].(*ast.ReturnStmt)
				if !ok || len(rs.Results) != 1 {
					failf("%s: %s.MaxRequeues is not a single return", rel, recvName(fd))
					continue
				}
				all = append(all, mr{recvName(fd) + "@" + filepath.ToSlash(rel), intLit(rs.Results[0], rel+":MaxRequeues")})
			}
			return nil
		})
		sort.Slice(all, func(i, j int) bool { return all[i].key < all[j].key })
		if len(all) == 0 {
			failf("no MaxRequeues() method found under pkg/")
		}
	})

	// ---- syncItem: the guard of AddRateLimited, the early return of the split error
	guard := ""
	splitEarly := false
	section("retry-syncitem", func() {
		if fd := funcDecl(reconcilerFile, "Controller", "syncItem"); fd != nil && fd.Body != nil {
			sawSplit, sawHandler := false, false
			for _, st := range fd.Body.List {
				s := printNode(st)
				switch {
				case strings.HasPrefix(s, "namespace, name, err := w.SplitMetaNamespaceKey(key)"):
					sawSplit = true
				case sawSplit && !sawHandler && s == "if err != nil { return err }":
					splitEarly = true
				case strings.Contains(s, "w.handler.SyncOne("):
					sawHandler = true
				}
				if is, ok := st.(*ast.IfStmt); ok && is.Else == nil && len(is.Body.List) == 1 && printNode(is.Body.List[0]) == "w.queue.AddRateLimited(key)" {
					if !sawHandler {
						failf("syncItem: AddRateLimited before the handler is called")
					}
					guard = printNode(is.Cond)
				}
			}
			if strings.Count(printNode(fd.Body), "AddRateLimited") != 1 {
				failf("syncItem: expected exactly one AddRateLimited call")
			}
			if strings.Contains(printNode(fd.Body), "Forget") {
				failf("syncItem: unexpected Forget")
			}
		}
		if guard == "" {
			failf("syncItem: `if <guard> { w.queue.AddRateLimited(key) }` not found")
		}
	})

	// ---- work: statement skeleton
	var shape []string
	section("retry-work", func() {
		if fd := funcDecl(reconcilerFile, "Controller", "work"); fd != nil && fd.Body != nil {
			shape = workShape(fd)
		} else {
			failf("reconciler.Controller.work not found")
		}
	})

	emit(b, "retry-maxrequeues", func(b *strings.Builder) {
		b.WriteString("/-- every `MaxRequeues()` method under pkg/ (receiver@file ↦ returned literal) -/\ndef allMaxRequeues : List (String × Int) := [")
		for i, m := range all {
			if i > 0 {
				b.WriteString(", ")
			}
			fmt.Fprintf(b, "(%s, %d)", leanStr(m.key), m.val)
		}
		b.WriteString("]\n")
	})
	emit(b, "retry-syncitem", func(b *strings.Builder) {
		fmt.Fprintf(b, "/-- `syncItem`: the condition under which a failed key is re-queued -/\ndef retryRequeueGuard : String := %s\n", leanStr(guard))
		fmt.Fprintf(b, "/-- `syncItem` returns the key-splitting error before the handler runs (no requeue) -/\ndef retrySplitEarly : Bool := %v\n", splitEarly)
	})
	emit(b, "retry-work", func(b *strings.Builder) {
		fmt.Fprintf(b, "/-- statement skeleton of `reconciler.Controller.work` -/\ndef retryWorkShape : List String := %s\n", leanStrList(shape))
	})
}
