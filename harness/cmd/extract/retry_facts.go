package main

// Facts for the retry slice (C20), called from main() through retryFacts(&b):
//
//   allMaxRequeues     every `func (…) MaxRequeues() int` found in a non-test Go file under pkg/
//                      (receiver type @ file ↦ the integer literal it returns): a reconciler added
//                      later cannot be missed; each body must be a single `return <int literal>`
//   retryRequeueGuard  the condition of the `if` whose body is `w.queue.AddRateLimited(key)` in
//                      reconciler.Controller.syncItem, printed with go/printer
//   retryWorkShape     the statement skeleton of reconciler.Controller.work:
//                      Get / defer Done / syncItem / if err != nil {…; return} / Forget
//   retrySplitEarly    syncItem returns the split error before calling the handler

import (
	"bytes"
	"fmt"
	"go/ast"
	"go/parser"
	"go/printer"
	"os"
	"path/filepath"
	"sort"
	"strings"
)

const reconcilerFile = "pkg/runtime/reconciler/controller.go"

func printNode(n ast.Node) string {
	var buf bytes.Buffer
	_ = printer.Fprint(&buf, fset, n)
	return strings.Join(strings.Fields(buf.String()), " ")
}

func recvName(fd *ast.FuncDecl) string {
	if fd.Recv == nil || len(fd.Recv.List) != 1 {
		return ""
	}
	switch t := fd.Recv.List[0].Type.(type) {
	case *ast.StarExpr:
		if id, ok := t.X.(*ast.Ident); ok {
			return id.Name
		}
	case *ast.Ident:
		return t.Name
	}
	return ""
}

func retryFacts(b *strings.Builder) {
	// ---- every MaxRequeues() under pkg/
	type mr struct {
		key string
		val int64
	}
	var all []mr
	root := filepath.Join(repo, "pkg")
	_ = filepath.Walk(root, func(path string, info os.FileInfo, err error) error {
		if err != nil || info.IsDir() || !strings.HasSuffix(path, ".go") || strings.HasSuffix(path, "_test.go") {
			return nil
		}
		src, err := os.ReadFile(path)
		if err != nil || !bytes.Contains(src, []byte("MaxRequeues()")) {
			return nil
		}
		f, err := parser.ParseFile(fset, path, src, 0)
		if err != nil {
			failf("cannot parse %s: %v", path, err)
			return nil
		}
		rel, _ := filepath.Rel(repo, path)
		for _, d := range f.Decls {
			fd, ok := d.(*ast.FuncDecl)
			if !ok || fd.Name.Name != "MaxRequeues" || fd.Recv == nil {
				continue
			}
			if fd.Body == nil || len(fd.Body.List) != 1 {
				failf("%s: %s.MaxRequeues is not a single return", rel, recvName(fd))
				continue
			}
			rs, ok := fd.Body.List[0].(*ast.ReturnStmt)
			if !ok || len(rs.Results) != 1 {
				failf("%s: %s.MaxRequeues is not a single return", rel, recvName(fd))
				continue
			}
			all = append(all, mr{recvName(fd) + "@" + filepath.ToSlash(rel), intLit(rs.Results[0], rel+":MaxRequeues")})
		}
		return nil
	})
	sort.Slice(all, func(i, j int) bool { return all[i].key < all[j].key })
	if len(all) == 0 {
		failf("no MaxRequeues() method found under pkg/")
	}
	b.WriteString("/-- every `MaxRequeues()` method under pkg/ (receiver@file ↦ returned literal) -/\ndef allMaxRequeues : List (String × Int) := [")
	for i, m := range all {
		if i > 0 {
			b.WriteString(", ")
		}
		fmt.Fprintf(b, "(%s, %d)", leanStr(m.key), m.val)
	}
	b.WriteString("]\n")

	// ---- syncItem: the guard of AddRateLimited, the early return of the split error
	guard := ""
	splitEarly := false
	if fd := funcDecl(reconcilerFile, "Controller", "syncItem"); fd != nil && fd.Body != nil {
		sawSplit, sawHandler := false, false
		for _, st := range fd.Body.List {
			s := printNode(st)
			switch {
			case strings.HasPrefix(s, "namespace, name, err := w.SplitMetaNamespaceKey(key)"):
				sawSplit = true
			case sawSplit && !sawHandler && s == "if err != nil { return err }":
				splitEarly = true
			case strings.Contains(s, "w.handler.SyncOne("):
				sawHandler = true
			}
			if is, ok := st.(*ast.IfStmt); ok && is.Else == nil && len(is.Body.List) == 1 && printNode(is.Body.List[0]) == "w.queue.AddRateLimited(key)" {
				if !sawHandler {
					failf("syncItem: AddRateLimited before the handler is called")
				}
				guard = printNode(is.Cond)
			}
		}
		if strings.Count(printNode(fd.Body), "AddRateLimited") != 1 {
			failf("syncItem: expected exactly one AddRateLimited call")
		}
		if strings.Contains(printNode(fd.Body), "Forget") {
			failf("syncItem: unexpected Forget")
		}
	}
	if guard == "" {
		failf("syncItem: `if <guard> { w.queue.AddRateLimited(key) }` not found")
	}
	fmt.Fprintf(b, "/-- `syncItem`: the condition under which a failed key is re-queued -/\ndef retryRequeueGuard : String := %s\n", leanStr(guard))
	fmt.Fprintf(b, "/-- `syncItem` returns the key-splitting error before the handler runs (no requeue) -/\ndef retrySplitEarly : Bool := %v\n", splitEarly)

	// ---- work: statement skeleton
	var shape []string
	if fd := funcDecl(reconcilerFile, "Controller", "work"); fd != nil && fd.Body != nil {
		for _, st := range fd.Body.List {
			s := printNode(st)
			switch {
			case s == "item, quit := w.queue.Get()":
				shape = append(shape, "get")
			case s == "if quit { return false }":
			case s == "defer w.queue.Done(item)":
				shape = append(shape, "defer-done")
			case s == "err := w.syncItem(ctx, item)":
				shape = append(shape, "sync")
			case s == "if err != nil { w.handleError(err, item) return true }":
				shape = append(shape, "on-error-return")
			case s == "w.queue.Forget(item)":
				shape = append(shape, "forget")
			case s == "return true":
			default:
				shape = append(shape, "?"+s)
			}
		}
	} else {
		failf("reconciler.Controller.work not found")
	}
	fmt.Fprintf(b, "/-- statement skeleton of `reconciler.Controller.work` -/\ndef retryWorkShape : List String := %s\n", leanStrList(shape))
}
