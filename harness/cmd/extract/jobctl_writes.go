package main

// Fact consumed by Props/C09Hist.lean (property C09, finding F31): with which resourceVersion does
// a pass of the Job controller submit its status write?  One shape is recognised, either present in
// exactly this form (true), absent altogether (false: the tree before the repair, where SyncOne
// called UpdateJob and then UpdateJobStatus with the object it had read from the cache), or present
// in another form (the extraction fails: the model no longer knows what the code does).
//
//	syncOneWritesStatusOnUpdatedObject
//	    Reconciler.SyncOne issues its writes through exactly one call
//	    `w.client.UpdateJobAndStatus(ctx, rj, newRj)` (and calls neither UpdateJob nor UpdateJobStatus);
//	    ExecutionControl.UpdateJobAndStatus is
//	        updatedRj, err := c.updateJob(ctx, rj, newRj)
//	        if err != nil { return err }
//	        if updatedRj != nil { newRj = newRj.DeepCopy(); newRj.ResourceVersion = updatedRj.ResourceVersion }
//	        _, err = c.UpdateJobStatus(ctx, rj, newRj)
//	        return err
//	    and ExecutionControl.updateJob returns the object `c.client.Jobs(…).Update(ctx, newRj, …)`
//	    returned (`return updatedRj, nil` as its last statement) and `nil` on every other path
//	    (Model/JobCtl.lean: `syncOne`, `statusBase`, `updatedRv`)

import (
	"fmt"
	"go/ast"
	"go/token"
	"strings"
)

func statusWriteFacts(b *strings.Builder) {
	onUpdated := false
	section("jobctl-status-write", func() { onUpdated = statusWriteShape() })
	emit(b, "jobctl-status-write", func(b *strings.Builder) {
		fmt.Fprintf(b, "/-- F31: `Reconciler.SyncOne` writes through `ExecutionControl.UpdateJobAndStatus`, which submits the status\nwrite with the resourceVersion of the object `Update` returned (the cached one when there was nothing to update) -/\n")
		fmt.Fprintf(b, "def syncOneWritesStatusOnUpdatedObject : Bool := %v\n", onUpdated)
	})
}

// hasMethod: does the file declare a method of that name (on any receiver)?  Unlike funcDecl, absence is
// not an extraction failure.
func hasMethod(rel, name string) bool {
	f := parse(rel)
	if f == nil {
		return false
	}
	for _, d := range f.Decls {
		if fd, ok := d.(*ast.FuncDecl); ok && fd.Recv != nil && fd.Name.Name == name {
			return true
		}
	}
	return false
}

func statusWriteShape() bool {
	const rec = "pkg/execution/controllers/jobcontroller/reconciler.go"
	const ctl = "pkg/execution/controllers/jobcontroller/control.go"
	isIdent := func(e ast.Expr, name string) bool {
		id, ok := e.(*ast.Ident)
		return ok && id.Name == name
	}
	selCall := func(e ast.Expr, name string) *ast.CallExpr { // e is a call ….name(…)
		ce, ok := e.(*ast.CallExpr)
		if !ok {
			return nil
		}
		if f, ok := ce.Fun.(*ast.SelectorExpr); ok && f.Sel.Name == name {
			return ce
		}
		return nil
	}
	args3 := func(ce *ast.CallExpr) bool { // (ctx, rj, newRj)
		return ce != nil && len(ce.Args) == 3 && isIdent(ce.Args[0], "ctx") && isIdent(ce.Args[1], "rj") && isIdent(ce.Args[2], "newRj")
	}
	isSel := func(e ast.Expr, x, sel string) bool { // x.sel
		se, ok := e.(*ast.SelectorExpr)
		return ok && isIdent(se.X, x) && se.Sel.Name == sel
	}
	errNotNil := func(e ast.Expr) bool {
		be, ok := e.(*ast.BinaryExpr)
		return ok && be.Op == token.NEQ && isIdent(be.X, "err") && isIdent(be.Y, "nil")
	}

	// --- SyncOne: which write functions of the client does it call?
	so := funcDecl(rec, "Reconciler", "SyncOne")
	if so == nil || so.Body == nil {
		failf("%s: Reconciler.SyncOne not found", rec)
		return false
	}
	var both, upd, st []*ast.CallExpr
	ast.Inspect(so.Body, func(n ast.Node) bool {
		if ce, ok := n.(*ast.CallExpr); ok {
			if f, ok := ce.Fun.(*ast.SelectorExpr); ok {
				switch f.Sel.Name {
				case "UpdateJobAndStatus":
					both = append(both, ce)
				case "UpdateJob":
					upd = append(upd, ce)
				case "UpdateJobStatus":
					st = append(st, ce)
				}
			}
		}
		return true
	})
	switch {
	case len(both) == 0 && len(upd) == 1 && len(st) == 1 && args3(upd[0]) && args3(st[0]) && upd[0].Pos() < st[0].Pos():
		// the tree before the repair: UpdateJob(ctx, rj, newRj), then UpdateJobStatus(ctx, rj, newRj)
		if hasMethod(ctl, "UpdateJobAndStatus") {
			failf("%s: ExecutionControl.UpdateJobAndStatus exists but Reconciler.SyncOne does not call it", ctl)
		}
		return false
	case len(both) == 1 && len(upd) == 0 && len(st) == 0 && args3(both[0]):
	default:
		failf("%s: Reconciler.SyncOne writes neither through one `UpdateJobAndStatus(ctx, rj, newRj)` nor through `UpdateJob(ctx, rj, newRj)` then `UpdateJobStatus(ctx, rj, newRj)` (%d/%d/%d calls)", rec, len(both), len(upd), len(st))
		return false
	}

	// --- UpdateJobAndStatus
	fd := funcDecl(ctl, "ExecutionControl", "UpdateJobAndStatus")
	if fd == nil || fd.Body == nil || len(fd.Body.List) != 5 {
		failf("%s: ExecutionControl.UpdateJobAndStatus is not the five statements of the repair", ctl)
		return false
	}
	l := fd.Body.List
	good := true
	// updatedRj, err := c.updateJob(ctx, rj, newRj)
	a0, ok := l[0].(*ast.AssignStmt)
	good = good && ok && a0.Tok == token.DEFINE && len(a0.Lhs) == 2 && len(a0.Rhs) == 1 && isIdent(a0.Lhs[0], "updatedRj") && isIdent(a0.Lhs[1], "err") &&
		args3(selCall(a0.Rhs[0], "updateJob"))
	// if err != nil { return err }
	i1, ok := l[1].(*ast.IfStmt)
	good = good && ok && i1.Init == nil && i1.Else == nil && errNotNil(i1.Cond) && len(i1.Body.List) == 1
	if good {
		r, ok := i1.Body.List[0].(*ast.ReturnStmt)
		good = ok && len(r.Results) == 1 && isIdent(r.Results[0], "err")
	}
	// if updatedRj != nil { newRj = newRj.DeepCopy(); newRj.ResourceVersion = updatedRj.ResourceVersion }
	i2, ok := l[2].(*ast.IfStmt)
	good = good && ok && i2.Init == nil && i2.Else == nil && len(i2.Body.List) == 2
	if good {
		be, ok := i2.Cond.(*ast.BinaryExpr)
		good = ok && be.Op == token.NEQ && isIdent(be.X, "updatedRj") && isIdent(be.Y, "nil")
	}
	if good {
		c0, ok := i2.Body.List[0].(*ast.AssignStmt)
		good = ok && c0.Tok == token.ASSIGN && len(c0.Lhs) == 1 && len(c0.Rhs) == 1 && isIdent(c0.Lhs[0], "newRj")
		if good {
			ce := selCall(c0.Rhs[0], "DeepCopy")
			good = ce != nil && len(ce.Args) == 0 && isSel(ce.Fun, "newRj", "DeepCopy")
		}
	}
	if good {
		c1, ok := i2.Body.List[1].(*ast.AssignStmt)
		good = ok && c1.Tok == token.ASSIGN && len(c1.Lhs) == 1 && len(c1.Rhs) == 1 &&
			isSel(c1.Lhs[0], "newRj", "ResourceVersion") && isSel(c1.Rhs[0], "updatedRj", "ResourceVersion")
	}
	// _, err = c.UpdateJobStatus(ctx, rj, newRj)
	a3, ok := l[3].(*ast.AssignStmt)
	good = good && ok && a3.Tok == token.ASSIGN && len(a3.Lhs) == 2 && len(a3.Rhs) == 1 && isIdent(a3.Lhs[0], "_") && isIdent(a3.Lhs[1], "err") &&
		args3(selCall(a3.Rhs[0], "UpdateJobStatus"))
	// return err
	r4, ok := l[4].(*ast.ReturnStmt)
	good = good && ok && len(r4.Results) == 1 && isIdent(r4.Results[0], "err")
	if !good {
		failf("%s: ExecutionControl.UpdateJobAndStatus is not `updatedRj, err := c.updateJob(ctx, rj, newRj); if err != nil { return err }; if updatedRj != nil { newRj = newRj.DeepCopy(); newRj.ResourceVersion = updatedRj.ResourceVersion }; _, err = c.UpdateJobStatus(ctx, rj, newRj); return err`", ctl)
		return false
	}

	// --- updateJob: returns what Update returned, nil on every other path
	uj := funcDecl(ctl, "ExecutionControl", "updateJob")
	if uj == nil || uj.Body == nil || len(uj.Body.List) == 0 {
		failf("%s: ExecutionControl.updateJob not found", ctl)
		return false
	}
	fromUpdate := false
	ast.Inspect(uj.Body, func(n ast.Node) bool {
		as, ok := n.(*ast.AssignStmt)
		if !ok || len(as.Lhs) != 2 || len(as.Rhs) != 1 || !isIdent(as.Lhs[0], "updatedRj") {
			return true
		}
		ce := selCall(as.Rhs[0], "Update")
		if ce != nil && as.Tok == token.DEFINE && isIdent(as.Lhs[1], "err") && len(ce.Args) == 3 && isIdent(ce.Args[0], "ctx") && isIdent(ce.Args[1], "newRj") {
			if inner := selCall(ce.Fun.(*ast.SelectorExpr).X, "Jobs"); inner != nil {
				fromUpdate = true
				return true
			}
		}
		fromUpdate = false // assigned in another way
		return true
	})
	last, ok := uj.Body.List[len(uj.Body.List)-1].(*ast.ReturnStmt)
	good = fromUpdate && ok && len(last.Results) == 2 && isIdent(last.Results[0], "updatedRj") && isIdent(last.Results[1], "nil")
	nRet := 0
	ast.Inspect(uj.Body, func(n ast.Node) bool {
		if _, isLit := n.(*ast.FuncLit); isLit {
			return false
		}
		if r, ok := n.(*ast.ReturnStmt); ok && r != last {
			nRet++
			good = good && len(r.Results) == 2 && isIdent(r.Results[0], "nil")
		}
		return true
	})
	if !good || nRet == 0 {
		failf("%s: ExecutionControl.updateJob does not return the object `c.client.Jobs(…).Update(ctx, newRj, …)` returned as its last statement and nil on every other path", ctl)
		return false
	}
	return true
}
