package main

// sections.go: scoped failure.  Every fact belongs to a named section.  A shape that is not
// recognised (failf) or a panic while a section is being extracted or emitted is a failure of
// THAT section only: the extractor still writes a type-correct Facts.lean (the defs of a failed
// section carry placeholder values) and reports, in the status file, which defs belong to which
// section and which sections failed.  bin/check turns a failed section into broken[facts] for
// exactly the properties whose Lean closure mentions one of its defs.

import (
	"encoding/json"
	"fmt"
	"os"
	"regexp"
	"strings"
)

var (
	curSec   = ""
	secOrder []string
	secSeen  = map[string]bool{}
	secFails = map[string][]string{}
	secDefs  = map[string][]string{}
)

// globalSection collects failures raised outside every section; its defs are "*" (= all).
const globalSection = "(global)"

// sec sets the current-section marker: failures and `def` lines are attributed to it.
func sec(name string) {
	curSec = name
	if name != "" && !secSeen[name] {
		secSeen[name] = true
		secOrder = append(secOrder, name)
	}
}

func failf(format string, a ...interface{}) {
	s := curSec
	if s == "" {
		s = globalSection
		sec(s)
		curSec = ""
		secDefs[s] = []string{"*"}
	}
	msg := fmt.Sprintf(format, a...)
	for _, m := range secFails[s] {
		if m == msg {
			return
		}
	}
	secFails[s] = append(secFails[s], msg)
}

// section runs the extraction code of a section; a panic (typically a nil dereference after a
// failed recognition) becomes a failure of the section.
func section(name string, fn func()) {
	sec(name)
	defer func() {
		if r := recover(); r != nil {
			sec(name)
			failf("panic while extracting: %v", r)
		}
		curSec = ""
	}()
	fn()
}

var defLine = regexp.MustCompile(`(?m)^def\s+([A-Za-z_][A-Za-z0-9_'!?]*)`)

// emit runs the emission code of a section against a scratch buffer.  The `def NAME` lines it
// wrote are the defs of the section.  A panic discards the scratch buffer (Facts.lean stays
// well-formed) and fails the section with defs "*": which defs are missing is then unknown.
func emit(b *strings.Builder, name string, fn func(b *strings.Builder)) {
	sec(name)
	var tmp strings.Builder
	defer func() {
		if r := recover(); r != nil {
			sec(name)
			failf("panic while emitting: %v", r)
			secDefs[name] = append(secDefs[name], "*")
			curSec = ""
			return
		}
		for _, m := range defLine.FindAllStringSubmatch(tmp.String(), -1) {
			secDefs[name] = append(secDefs[name], m[1])
		}
		b.WriteString(tmp.String())
		curSec = ""
	}()
	fn(&tmp)
}

// natLit renders a value for a `Nat` def: a negative value (a failed recognition, or a source
// constant the model cannot represent) fails the section and is emitted as 0.
func natLit(v int64, what string) string {
	if v < 0 {
		failf("%s: negative value %d for a Nat fact", what, v)
		return "0"
	}
	return fmt.Sprint(v)
}

type failedSection struct {
	Section string   `json:"section"`
	Msgs    []string `json:"msgs"`
	Defs    []string `json:"defs"`
}

type statusDoc struct {
	Sections map[string][]string `json:"sections"`
	Failed   []failedSection     `json:"failed"`
}

func buildStatus() statusDoc {
	st := statusDoc{Sections: map[string][]string{}, Failed: []failedSection{}}
	for _, s := range secOrder {
		defs := secDefs[s]
		if defs == nil {
			defs = []string{}
		}
		st.Sections[s] = defs
		if len(secFails[s]) > 0 {
			if len(defs) == 0 {
				defs = []string{"*"} // nothing was emitted for it: what depends on it is unknown
				st.Sections[s] = defs
			}
			st.Failed = append(st.Failed, failedSection{Section: s, Msgs: secFails[s], Defs: defs})
		}
	}
	return st
}

func writeStatus(path string, st statusDoc) error {
	js, err := json.MarshalIndent(st, "", " ")
	if err != nil {
		return err
	}
	return os.WriteFile(path, append(js, '\n'), 0o644)
}
