package main

// Fact consumed by Props/ValueSem.lean (properties C14, C16): the Lean model is purely functional —
// `newJobFromJobConfig`, `newPod`/`substSingle`, `mutateUpdateJobConfig` RETURN new values — which
// is faithful to the Go code only as long as the Go functions copy what they are about to rewrite
// (the inputs are objects from an informer cache or a template shared by all tasks of a Job).
// Both seeded changes that were missed at first in wave 4 removed such a copy.  The number of
// `.DeepCopy()` calls per function is regenerated here; the theorem demands AT LEAST the copies
// the model relies on (an added copy is harmless and does not break it).
//
//	deepCopyCounts = [(<package>.<Func>, number of x.DeepCopy() calls in its body)]

import (
	"fmt"
	"go/ast"
	"strings"
)

var copySites = []struct{ file, recv, name, label string }{
	{"pkg/execution/util/jobconfig/job.go", "", "NewJobFromJobConfig", "jobconfig.NewJobFromJobConfig"},
	{"pkg/execution/taskexecutor/podtaskexecutor/substitution.go", "", "SubstitutePodSpec", "podtaskexecutor.SubstitutePodSpec"},
	{"pkg/execution/mutation/mutation.go", "Mutator", "MutateUpdateJobConfig", "mutation.MutateUpdateJobConfig"},
}

func copiesFacts(b *strings.Builder) {
	counts := map[string]int{}
	section("value-semantics-copies", func() {
		for _, s := range copySites {
			fd := funcDecl(s.file, s.recv, s.name)
			if fd == nil || fd.Body == nil {
				failf("%s: %s not found", s.file, s.name)
				continue
			}
			n := 0
			ast.Inspect(fd.Body, func(nd ast.Node) bool {
				if ce, ok := nd.(*ast.CallExpr); ok {
					if se, ok := ce.Fun.(*ast.SelectorExpr); ok && se.Sel.Name == "DeepCopy" && len(ce.Args) == 0 {
						n++
					}
				}
				return true
			})
			counts[s.label] = n
		}
	})
	emit(b, "value-semantics-copies", func(b *strings.Builder) {
		fmt.Fprintf(b, "/-- number of `.DeepCopy()` calls in the functions whose model relies on value semantics -/\n")
		fmt.Fprintf(b, "def deepCopyCounts : List (String × Nat) := [")
		for i, s := range copySites {
			if i > 0 {
				b.WriteString(", ")
			}
			fmt.Fprintf(b, "(%q, %d)", s.label, counts[s.label])
		}
		fmt.Fprintf(b, "]\n")
	})
}
