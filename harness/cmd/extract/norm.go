package main

// norm.go: the small syntactic normaliser of the extractor.  The recognisers are strict about
// what the anchored code DOES (which label maps to which result / increment, in which order,
// with or without a default) and tolerant about how a multi-way branch is WRITTEN.  Only these
// equivalences are used, nothing is evaluated symbolically:
//
//	switch T { case A, B: body … default: body }
//	switch { case T == A, T == B: body … default: body }
//	if T == A || T == B { body } else if … { body } else { body }
//	    -> the same chain of arms (disjuncts, body, else flag); a tagged switch contributes the
//	       synthesised disjuncts `T == A`, `T == B`; `fallthrough` is resolved textually; the
//	       default arm is moved to the end; `else { if c {…} … }` is `else if c {…} …`
//
//	if c { return a }; return b   ==   if c { return a } else { return b }
//	    -> a function body (or a statement list) made of such chains whose arms end in returns,
//	       followed by a final return, is a first-match decision list (path of guards ↦ return)
//	       ending in an unconditional default
//
// Comments, blank lines and redundant parentheses never matter (the AST is compared, and guards
// are printed with go/printer after stripping outer parentheses).

import (
	"fmt"
	"go/ast"
	"go/token"
	"strings"
)

// arm is one alternative of a normalised multi-way branch.
type arm struct {
	Disj []ast.Expr // the arm is taken when one of these holds; nil for the else arm
	Else bool       // `else { … }` / `default:`
	Init ast.Stmt   // initialiser of the `if` introducing the arm (nil for switch arms)
	Body []ast.Stmt
}

// chain is a normalised if / else-if / else statement or expression switch: the first arm whose
// guard holds is executed, the else arm (always last) when none does.
type chain struct {
	Init ast.Stmt // initialiser of a switch statement
	Arms []arm
}

func stripParens(e ast.Expr) ast.Expr {
	for {
		p, ok := e.(*ast.ParenExpr)
		if !ok {
			return e
		}
		e = p.X
	}
}

// flattenOr splits `a || (b || c)` into [a, b, c] (left to right, parentheses stripped).
func flattenOr(e ast.Expr) []ast.Expr {
	e = stripParens(e)
	if be, ok := e.(*ast.BinaryExpr); ok && be.Op == token.LOR {
		return append(flattenOr(be.X), flattenOr(be.Y)...)
	}
	return []ast.Expr{e}
}

// normChain normalises an if statement or an expression switch.
func normChain(st ast.Stmt) (*chain, error) {
	switch s := st.(type) {
	case *ast.IfStmt:
		ch := &chain{}
		for cur := s; ; {
			ch.Arms = append(ch.Arms, arm{Disj: flattenOr(cur.Cond), Init: cur.Init, Body: cur.Body.List})
			switch e := cur.Else.(type) {
			case nil:
				return ch, nil
			case *ast.IfStmt:
				cur = e
				continue
			case *ast.BlockStmt:
				// `else { if c {…} … }` is `else if c {…} …`
				if len(e.List) == 1 {
					if inner, ok := e.List[0].(*ast.IfStmt); ok && inner.Init == nil {
						cur = inner
						continue
					}
				}
				ch.Arms = append(ch.Arms, arm{Else: true, Body: e.List})
				return ch, nil
			default:
				return nil, fmt.Errorf("unrecognised else branch %T", cur.Else)
			}
		}
	case *ast.SwitchStmt:
		ch := &chain{Init: s.Init}
		n := len(s.Body.List)
		arms := make([]arm, n)
		falls := make([]bool, n)
		for i, cs := range s.Body.List {
			cc, ok := cs.(*ast.CaseClause)
			if !ok {
				return nil, fmt.Errorf("switch body element %T", cs)
			}
			a := arm{Else: cc.List == nil}
			for _, l := range cc.List {
				if s.Tag != nil {
					a.Disj = append(a.Disj, &ast.BinaryExpr{X: s.Tag, Op: token.EQL, Y: stripParens(l)})
				} else {
					a.Disj = append(a.Disj, flattenOr(l)...)
				}
			}
			body := cc.Body
			if k := len(body); k > 0 {
				if br, ok := body[k-1].(*ast.BranchStmt); ok && br.Tok == token.FALLTHROUGH {
					falls[i] = true
					body = body[:k-1]
				}
			}
			a.Body = body
			arms[i] = a
		}
		// resolve fallthrough textually, last clause first
		for i := n - 1; i >= 0; i-- {
			if falls[i] {
				if i == n-1 {
					return nil, fmt.Errorf("fallthrough in the last clause")
				}
				arms[i].Body = append(append([]ast.Stmt{}, arms[i].Body...), arms[i+1].Body...)
			}
		}
		// the default arm is evaluated last wherever it is written
		var dflt *arm
		for i := range arms {
			if arms[i].Else {
				if dflt != nil {
					return nil, fmt.Errorf("two default clauses")
				}
				d := arms[i]
				dflt = &d
				continue
			}
			ch.Arms = append(ch.Arms, arms[i])
		}
		if dflt != nil {
			ch.Arms = append(ch.Arms, *dflt)
		}
		return ch, nil
	}
	return nil, fmt.Errorf("statement %T is neither an if nor an expression switch", st)
}

// eqLabel: `T == L` or `L == T` with isTag(T); returns the tag and the label expression.
func eqLabel(e ast.Expr, isTag func(ast.Expr) bool) (tag, label ast.Expr, ok bool) {
	be, isBin := stripParens(e).(*ast.BinaryExpr)
	if !isBin || be.Op != token.EQL {
		return nil, nil, false
	}
	x, y := stripParens(be.X), stripParens(be.Y)
	switch {
	case isTag(x):
		return x, y, true
	case isTag(y):
		return y, x, true
	}
	return nil, nil, false
}

// taggedArm is an arm of a chain all of whose guards compare one tag expression with labels.
type taggedArm struct {
	Labels []ast.Expr
	Else   bool
	Body   []ast.Stmt
}

// taggedArms reads a chain as `switch <tag> { case <labels>: body … }`: every disjunct of every
// arm must be `<tag> == <label>` with isTag(tag), the same printed tag throughout, no
// initialisers, no label twice.  Returns the printed tag.
func taggedArms(ch *chain, isTag func(ast.Expr) bool) (string, []taggedArm, error) {
	if ch.Init != nil {
		return "", nil, fmt.Errorf("switch with an initialiser")
	}
	tagText := ""
	seen := map[string]bool{}
	var out []taggedArm
	for _, a := range ch.Arms {
		if a.Init != nil {
			return "", nil, fmt.Errorf("if with an initialiser")
		}
		ta := taggedArm{Else: a.Else, Body: a.Body}
		for _, d := range a.Disj {
			tag, label, ok := eqLabel(d, isTag)
			if !ok {
				return "", nil, fmt.Errorf("guard `%s` is not a comparison of the expected tag with a label", printNode(d))
			}
			t := printNode(tag)
			if tagText == "" {
				tagText = t
			} else if t != tagText {
				return "", nil, fmt.Errorf("guards compare different expressions (%s, %s)", tagText, t)
			}
			l := printNode(label)
			if seen[l] {
				return "", nil, fmt.Errorf("label %s occurs twice", l)
			}
			seen[l] = true
			ta.Labels = append(ta.Labels, label)
		}
		out = append(out, ta)
	}
	return tagText, out, nil
}

// guard is one element of the path of a decision: a disjunction, plus the initialiser of the
// `if` it was written in.
type guard struct {
	Disj []ast.Expr
	Init ast.Stmt
}

// decision: when every guard of Path holds (and no earlier decision of the list applied), the
// function returns Ret.  Ret == nil records an arm with an empty body (control continues after
// the chain; only admitted for the last arm of a chain).
type decision struct {
	Path []guard
	Ret  *ast.ReturnStmt
}

// decisionList normalises a statement list made of if / switch chains whose arms end in returns
// (possibly nested) and a final return into a first-match decision list.  terminates reports
// that the list ends in an unconditional return, i.e. that its last decision has the enclosing
// path only (the empty path at the top level) and is the default.
func decisionList(stmts []ast.Stmt) (ds []decision, terminates bool, err error) {
	terminates, err = decisionsInto(stmts, nil, &ds)
	return
}

func decisionsInto(stmts []ast.Stmt, path []guard, out *[]decision) (bool, error) {
	for i, st := range stmts {
		last := i == len(stmts)-1
		switch s := st.(type) {
		case *ast.ReturnStmt:
			if !last {
				return false, fmt.Errorf("statements after `%s`", printNode(s))
			}
			*out = append(*out, decision{Path: path, Ret: s})
			return true, nil
		case *ast.IfStmt, *ast.SwitchStmt:
			ch, err := normChain(s)
			if err != nil {
				return false, err
			}
			if ch.Init != nil {
				return false, fmt.Errorf("switch with an initialiser")
			}
			allTerminate := true
			for k, a := range ch.Arms {
				p := path
				if !a.Else {
					p = append(append([]guard{}, path...), guard{Disj: a.Disj, Init: a.Init})
				}
				t := false
				if len(a.Body) == 0 {
					*out = append(*out, decision{Path: p})
				} else {
					t, err = decisionsInto(a.Body, p, out)
					if err != nil {
						return false, err
					}
				}
				if !t {
					// a later arm is only reached when the earlier guards failed; an arm that can
					// run to its end is therefore only admitted last
					if k != len(ch.Arms)-1 {
						return false, fmt.Errorf("arm `%s` of a chain does not end in a return and is not the last arm", guardText(guard{Disj: a.Disj}))
					}
					allTerminate = false
				}
			}
			hasElse := len(ch.Arms) > 0 && ch.Arms[len(ch.Arms)-1].Else
			if hasElse && allTerminate {
				if !last {
					return false, fmt.Errorf("statements after a chain all of whose arms return")
				}
				return true, nil
			}
		default:
			return false, fmt.Errorf("unrecognised statement `%s`", clip(printNode(st), 80))
		}
	}
	return false, nil
}

func clip(s string, n int) string {
	if len(s) > n {
		return s[:n] + "…"
	}
	return s
}

// guardText prints a guard as Go source: the disjuncts joined with ||.
func guardText(g guard) string {
	parts := make([]string, len(g.Disj))
	for i, d := range g.Disj {
		parts[i] = printNode(d)
	}
	return strings.Join(parts, " || ")
}

// pathText prints a path as a conjunction ("true" for the empty path).
func pathText(p []guard) string {
	if len(p) == 0 {
		return "true"
	}
	parts := make([]string, len(p))
	for i, g := range p {
		parts[i] = guardText(g)
		if len(g.Disj) > 1 && len(p) > 1 {
			parts[i] = "(" + parts[i] + ")"
		}
	}
	return strings.Join(parts, " && ")
}

// singleResult: the name of the single returned identifier / selector / literal of a decision.
func singleResult(d decision) (string, bool) {
	if d.Ret == nil || len(d.Ret.Results) != 1 {
		return "", false
	}
	n := exprName(stripParens(d.Ret.Results[0]))
	return n, n != "?"
}

// findChain returns the statement list and index of the first if / switch statement (source
// order, descending into arms, loops and blocks) whose normalised chain satisfies pred.
func findChain(stmts []ast.Stmt, pred func(*chain) bool) ([]ast.Stmt, int) {
	for i, st := range stmts {
		switch s := st.(type) {
		case *ast.IfStmt, *ast.SwitchStmt:
			ch, err := normChain(s)
			if err != nil {
				continue
			}
			if pred(ch) {
				return stmts, i
			}
			for _, a := range ch.Arms {
				if l, k := findChain(a.Body, pred); l != nil {
					return l, k
				}
			}
		case *ast.ForStmt:
			if l, k := findChain(s.Body.List, pred); l != nil {
				return l, k
			}
		case *ast.RangeStmt:
			if l, k := findChain(s.Body.List, pred); l != nil {
				return l, k
			}
		case *ast.BlockStmt:
			if l, k := findChain(s.List, pred); l != nil {
				return l, k
			}
		}
	}
	return nil, 0
}

func isIdentNamed(name string) func(ast.Expr) bool {
	return func(e ast.Expr) bool {
		id, ok := e.(*ast.Ident)
		return ok && name != "" && id.Name == name
	}
}

// recvVar / paramVar: the name of the receiver / of the i-th parameter of a function.
func recvVar(fd *ast.FuncDecl) string {
	if fd.Recv == nil || len(fd.Recv.List) != 1 || len(fd.Recv.List[0].Names) != 1 {
		return ""
	}
	return fd.Recv.List[0].Names[0].Name
}

func paramVar(fd *ast.FuncDecl, i int) string {
	k := 0
	for _, f := range fd.Type.Params.List {
		for _, n := range f.Names {
			if k == i {
				return n.Name
			}
			k++
		}
	}
	return ""
}
