package main

// Fact consumed by Props/C14Hash.lean (property C14): the encoding half of parallel.HashIndex as
// written.  The three expressions are printed as they stand in the source; Model/HashEnc.lean
// models exactly these (decimal rendering, base32 StdEncoding, the first six characters,
// lower-cased) and `C14Hash.source_encodes_as_modelled` compares them with the expected text, so
// another radix, encoding, slice bound or case mapping breaks a proof obligation.
//
//	hashIndexShape = [ <rhs of `hashInt, err := …`>, <rhs of `hash := …`>, <first result of the final return> ]

import (
	"fmt"
	"go/ast"
	"strings"
)

func hashIndexFacts(b *strings.Builder) {
	var shape []string
	section("indexes-hash-encoding", func() { shape = hashIndexShape() })
	emit(b, "indexes-hash-encoding", func(b *strings.Builder) {
		fmt.Fprintf(b, "/-- `parallel.HashIndex`: the structure hash, its encoding, the returned value — as written -/\n")
		fmt.Fprintf(b, "def hashIndexShape : List String := [")
		for i, s := range shape {
			if i > 0 {
				b.WriteString(", ")
			}
			fmt.Fprintf(b, "%q", s)
		}
		fmt.Fprintf(b, "]\n")
	})
}

func hashIndexShape() []string {
	const f = "pkg/execution/util/parallel/indexes.go"
	fd := funcDecl(f, "", "HashIndex")
	if fd == nil || fd.Body == nil {
		failf("%s: HashIndex not found", f)
		return nil
	}
	var out []string
	var assigns, rets int
	for _, st := range fd.Body.List {
		switch s := st.(type) {
		case *ast.AssignStmt:
			if len(s.Rhs) != 1 {
				failf("%s: HashIndex: assignment with %d right-hand sides", f, len(s.Rhs))
				return nil
			}
			assigns++
			out = append(out, srcText(s.Lhs[0])+" := "+srcText(s.Rhs[0]))
		case *ast.IfStmt:
			// the error check of the library call: `if err != nil { return "", … }`
			if srcText(s.Cond) != "err != nil" || s.Else != nil {
				failf("%s: HashIndex: unexpected branch `if %s`", f, srcText(s.Cond))
				return nil
			}
		case *ast.ReturnStmt:
			if len(s.Results) != 2 || srcText(s.Results[1]) != "nil" {
				failf("%s: HashIndex: final return is not `return <value>, nil`", f)
				return nil
			}
			rets++
			out = append(out, "return "+srcText(s.Results[0]))
		default:
			failf("%s: HashIndex: unexpected statement %q", f, srcText(st))
			return nil
		}
	}
	if assigns != 2 || rets != 1 {
		failf("%s: HashIndex is not two assignments and one return (found %d, %d)", f, assigns, rets)
		return nil
	}
	return out
}
