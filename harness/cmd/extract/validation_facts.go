package main

// Facts for the `validate` slice (C17): finite tables read off rigid syntactic shapes of the
// admission validators.  Called from main() through validationFacts(&b).
//
//   maxJobConfigNameLen / maxJobNameLen   `apimachineryvalidation.DNS1035LabelMaxLength - N`
//   ValidateJobConfig / ValidateJobMetadata  which limit constant the `ValidateMaxLength` call uses
//   core/validation/generic.go            for ValidateGTE/GT/LTE/LT: the operator of the rejecting
//                                         `if value <op> bound`; ValidateMaxLength: `len(val) > maxLen`
//   ValidateMaxRetryAttempts              the `validation.Validate<OP>(attempts, N, fldPath)` calls in order
//   ValidateConcurrencySpec               the `validation.Validate<OP>(*spec.MaxConcurrency, N, fldPath)` call
//   ValidateJobSpecUpdate                 the `apivalidation.ValidateImmutableField(spec.F, oldSpec.F,
//                                         fldPath.Child("f"))` calls in order (new value first, the same
//                                         field on both sides) and the two delegating calls
//   ValidateJobTemplateSpecImmutable      the same shape on template / oldTemplate
//   ValidateJobMetadataUpdate             one ValidateImmutableField on Labels[<const>] of both objects
//   ValidateJobUpdate                     guard of the startPolicy check: `!<obj>.Status.StartTime.IsZero()`
//   ValidateKillTimestampUpdate           the rejecting condition, as written
//   ValidateCronScheduleExpression        the hash id literal passed to parser.Parse
//   ValidateJobConfig                     whether it re-parses the schedule the way the scheduler will
//                                         (`if len(allErrs) == 0 { … v.validateCronScheduleForJobConfig(rjc, …) }`,
//                                         fix d9dad79); of validateCronScheduleForJobConfig: the early-return
//                                         guard as written, and the hash id handed to
//                                         cron.NewExpressionFromCronSchedule (must be cache.MetaNamespaceKeyFunc(rjc))
//   cronschedule.parseCronAndTimezone     the early-return guard, as written
//   cron.NewParserFromConfig              defaults of the three pointer.BoolDeref calls

import (
	"bytes"
	"fmt"
	"go/ast"
	"go/printer"
	"go/token"
	"strings"
)

const (
	validationFile = "pkg/execution/validation/validation.go"
	genericValFile = "pkg/core/validation/generic.go"
	scheduleFile   = "pkg/execution/util/cronschedule/schedule.go"
	cronParserFile = "pkg/execution/util/cron/parser.go"

	// k8s.io/apimachinery/pkg/util/validation.DNS1035LabelMaxLength (stable API; k8s is not parsed)
	dns1035LabelMaxLength = 63
)

func render(e ast.Node) string {
	var buf bytes.Buffer
	if err := printer.Fprint(&buf, fset, e); err != nil {
		return "?"
	}
	return strings.Join(strings.Fields(buf.String()), " ")
}

// callsIn returns all call expressions inside fd whose function renders as one of names, in source order.
func callsIn(fd *ast.FuncDecl, names ...string) []*ast.CallExpr {
	var out []*ast.CallExpr
	if fd == nil {
		return nil
	}
	ast.Inspect(fd, func(n ast.Node) bool {
		c, ok := n.(*ast.CallExpr)
		if !ok {
			return true
		}
		fn := selPath(c.Fun)
		for _, nm := range names {
			if fn == nm {
				out = append(out, c)
			}
		}
		return true
	})
	return out
}

// childName: `fldPath.Child("x")` -> "x"
func childName(e ast.Expr, what string) string {
	c, ok := e.(*ast.CallExpr)
	if !ok || len(c.Args) != 1 {
		failf("%s: path argument is not fldPath.Child(\"…\")", what)
		return ""
	}
	sel, ok := c.Fun.(*ast.SelectorExpr)
	if !ok || sel.Sel.Name != "Child" || exprName(sel.X) != "fldPath" {
		failf("%s: path argument is not fldPath.Child(\"…\")", what)
		return ""
	}
	return strLit(c.Args[0], what+" path")
}

// immutableCalls: every `apivalidation.ValidateImmutableField(<newObj>.F, <oldObj>.F, fldPath.Child("f"))`
// in fd; returns (Go field, json path) pairs.
func immutableCalls(fd *ast.FuncDecl, fn, newObj, oldObj string) [][2]string {
	var out [][2]string
	for _, c := range callsIn(fd, "apivalidation.ValidateImmutableField") {
		if len(c.Args) != 3 {
			failf("%s: ValidateImmutableField with %d arguments", fn, len(c.Args))
			continue
		}
		a, ok1 := c.Args[0].(*ast.SelectorExpr)
		b, ok2 := c.Args[1].(*ast.SelectorExpr)
		if !ok1 || !ok2 || exprName(a.X) != newObj || exprName(b.X) != oldObj {
			failf("%s: ValidateImmutableField arguments are not (%s.F, %s.F, …): %s", fn, newObj, oldObj, render(c))
			continue
		}
		if a.Sel.Name != b.Sel.Name {
			failf("%s: ValidateImmutableField compares different fields: %s", fn, render(c))
			continue
		}
		out = append(out, [2]string{a.Sel.Name, childName(c.Args[2], fn)})
	}
	if len(out) == 0 {
		failf("%s: no ValidateImmutableField call recognised", fn)
	}
	return out
}

// boundCalls: `validation.Validate<OP>(<first arg rendering>, N, fldPath)` calls in fd
func boundCalls(fd *ast.FuncDecl, fn, firstArg string) [][2]string {
	var out [][2]string
	for _, c := range callsIn(fd, "validation.ValidateGT", "validation.ValidateGTE", "validation.ValidateLT", "validation.ValidateLTE") {
		if len(c.Args) != 3 || render(c.Args[0]) != firstArg {
			continue
		}
		op := strings.TrimPrefix(selPath(c.Fun), "validation.Validate")
		out = append(out, [2]string{op, fmt.Sprint(intLit(c.Args[1], fn+" bound"))})
	}
	if len(out) == 0 {
		failf("%s: no validation.Validate<OP>(%s, N, …) call found", fn, firstArg)
	}
	return out
}

// firstIfCond returns the condition of the first `if` statement of fd, as written.
func firstIfCond(fd *ast.FuncDecl, fn string) ast.Expr {
	if fd == nil || fd.Body == nil {
		return nil
	}
	var cond ast.Expr
	ast.Inspect(fd.Body, func(n ast.Node) bool {
		if is, ok := n.(*ast.IfStmt); ok && cond == nil {
			cond = is.Cond
		}
		return cond == nil
	})
	if cond == nil {
		failf("%s: no if statement", fn)
	}
	return cond
}

func validationFacts(b *strings.Builder) {
	var jcNameLimit, jobNameLimit int64
	var ops, attempts, maxConc, specImm, tmplImm, delegates, derefs [][2]string
	maxLenOp, startGuardObj, killGuard := "", "", ""
	hashID := "?"
	recheck, recheckGuard, recheckHash, schedGuard := false, "", "", ""

	section("val-limits", func() {
		// ---- name length limits
		limit := func(name string) int64 {
			be, ok := constExpr(validationFile, name).(*ast.BinaryExpr)
			if !ok || be.Op != token.SUB || selPath(be.X) != "apimachineryvalidation.DNS1035LabelMaxLength" {
				failf("%s is not `apimachineryvalidation.DNS1035LabelMaxLength - N`", name)
				return 0
			}
			return dns1035LabelMaxLength - intLit(be.Y, name)
		}
		limits := map[string]int64{"maxJobConfigNameLen": limit("maxJobConfigNameLen"), "maxJobNameLen": limit("maxJobNameLen")}
		usedLimit := func(fn, arg0 string) int64 {
			fd := funcDecl(validationFile, "Validator", fn)
			for _, c := range callsIn(fd, "validation.ValidateMaxLength") {
				if len(c.Args) == 3 && render(c.Args[0]) == arg0 {
					if v, ok := limits[exprName(c.Args[1])]; ok {
						return v
					}
				}
			}
			failf("%s: no validation.ValidateMaxLength(%s, <limit const>, …) call found", fn, arg0)
			return 0
		}
		jcNameLimit = usedLimit("ValidateJobConfig", "rjc.Name")
		jobNameLimit = usedLimit("ValidateJobMetadata", "metadata.Name")

		// ---- generic bound validators: operator of the rejecting comparison
		for _, fn := range []string{"GTE", "GT", "LTE", "LT"} {
			fd := funcDecl(genericValFile, "", "Validate"+fn)
			be, ok := firstIfCond(fd, "Validate"+fn).(*ast.BinaryExpr)
			if !ok || exprName(be.X) != "value" || (exprName(be.Y) != "minimum" && exprName(be.Y) != "maximum") {
				failf("Validate%s: condition is not `value <op> minimum|maximum`", fn)
				continue
			}
			ops = append(ops, [2]string{fn, be.Op.String()})
		}
		if be, ok := firstIfCond(funcDecl(genericValFile, "", "ValidateMaxLength"), "ValidateMaxLength").(*ast.BinaryExpr); ok &&
			render(be.X) == "len(val)" && exprName(be.Y) == "maxLen" {
			maxLenOp = be.Op.String()
		} else {
			failf("ValidateMaxLength: condition is not `len(val) <op> maxLen`")
		}

	})

	section("val-bounds", func() {
		// ---- numeric bounds
		attempts = boundCalls(funcDecl(validationFile, "Validator", "ValidateMaxRetryAttempts"), "ValidateMaxRetryAttempts", "attempts")
		maxConc = boundCalls(funcDecl(validationFile, "Validator", "ValidateConcurrencySpec"), "ValidateConcurrencySpec", "*spec.MaxConcurrency")

	})

	section("val-immutable", func() {
		// ---- immutability
		specUpd := funcDecl(validationFile, "Validator", "ValidateJobSpecUpdate")
		specImm = immutableCalls(specUpd, "ValidateJobSpecUpdate", "spec", "oldSpec")
		tmplImm = immutableCalls(funcDecl(validationFile, "Validator", "ValidateJobTemplateSpecImmutable"),
			"ValidateJobTemplateSpecImmutable", "template", "oldTemplate")
		for _, want := range [][3]string{
			{"v.ValidateJobTemplateSpecImmutable", "oldSpec.Template", "spec.Template"},
			{"v.ValidateKillTimestampUpdate", "oldSpec.KillTimestamp", "spec.KillTimestamp"},
		} {
			cs := callsIn(specUpd, want[0])
			if len(cs) != 1 || len(cs[0].Args) != 3 || render(cs[0].Args[0]) != want[1] || render(cs[0].Args[1]) != want[2] {
				failf("ValidateJobSpecUpdate: call %s(%s, %s, fldPath.Child(…)) not found", want[0], want[1], want[2])
				continue
			}
			delegates = append(delegates, [2]string{strings.TrimPrefix(want[0], "v."), childName(cs[0].Args[2], "ValidateJobSpecUpdate")})
		}
		// metadata: the uid label
		labelConst := ""
		if cs := callsIn(funcDecl(validationFile, "Validator", "ValidateJobMetadataUpdate"), "apivalidation.ValidateImmutableField"); len(cs) == 1 && len(cs[0].Args) == 3 {
			a, b2 := render(cs[0].Args[0]), render(cs[0].Args[1])
			const pfxNew, pfxOld = "metadata.Labels[", "oldMetadata.Labels["
			if strings.HasPrefix(a, pfxNew) && strings.HasPrefix(b2, pfxOld) && strings.TrimPrefix(a, pfxNew) == strings.TrimPrefix(b2, pfxOld) {
				labelConst = strings.TrimSuffix(strings.TrimPrefix(a, pfxNew), "]")
			} else {
				failf("ValidateJobMetadataUpdate: ValidateImmutableField is not on (metadata.Labels[K], oldMetadata.Labels[K]): %s", render(cs[0]))
			}
		} else {
			failf("ValidateJobMetadataUpdate: expected exactly one ValidateImmutableField call")
		}
		if labelConst != "jobconfig.LabelKeyJobConfigUID" {
			failf("ValidateJobMetadataUpdate: immutable label is %q, expected jobconfig.LabelKeyJobConfigUID", labelConst)
		}
		// ValidateJobUpdate: callers and the startPolicy guard
		jobUpd := funcDecl(validationFile, "Validator", "ValidateJobUpdate")
		for _, want := range []string{"v.ValidateJobMetadataUpdate", "v.ValidateJobSpecUpdate"} {
			if len(callsIn(jobUpd, want)) != 1 {
				failf("ValidateJobUpdate: call to %s not found", want)
			}
		}
		startGuard := ""
		if jobUpd != nil {
			ast.Inspect(jobUpd, func(n ast.Node) bool {
				is, ok := n.(*ast.IfStmt)
				if !ok {
					return true
				}
				inner := callsIn(&ast.FuncDecl{Body: is.Body, Name: jobUpd.Name, Type: jobUpd.Type}, "validation.ValidateImmutableField")
				if len(inner) == 1 && len(inner[0].Args) == 4 &&
					render(inner[0].Args[0]) == "rj.Spec.StartPolicy" && render(inner[0].Args[1]) == "oldRj.Spec.StartPolicy" {
					startGuard = render(is.Cond)
				}
				return true
			})
		}
		switch startGuard {
		case "!rj.Status.StartTime.IsZero()":
			startGuardObj = "new"
		case "!oldRj.Status.StartTime.IsZero()":
			startGuardObj = "old"
		case "":
			failf("ValidateJobUpdate: guarded ValidateImmutableField(rj.Spec.StartPolicy, oldRj.Spec.StartPolicy, …) not found")
		default:
			failf("ValidateJobUpdate: startPolicy guard not recognised: %s", startGuard)
		}
	})

	section("val-kill", func() {
		if c := firstIfCond(funcDecl(validationFile, "Validator", "ValidateKillTimestampUpdate"), "ValidateKillTimestampUpdate"); c != nil {
			killGuard = render(c)
		}

	})

	section("val-cron", func() {
		// ---- cron: validator's hash id, scheduler's guard, parser defaults
		if cs := callsIn(funcDecl(validationFile, "Validator", "ValidateCronScheduleExpression"), "parser.Parse"); len(cs) == 1 && len(cs[0].Args) == 2 {
			hashID = strLit(cs[0].Args[1], "ValidateCronScheduleExpression hash id")
		} else {
			failf("ValidateCronScheduleExpression: parser.Parse(cronSchedule, \"…\") not found")
		}
		// the scheduler-style re-parse inside ValidateJobConfig (absent before fix d9dad79: recorded, not an error)
		if fd := funcDecl(validationFile, "Validator", "ValidateJobConfig"); fd != nil {
			ast.Inspect(fd, func(n ast.Node) bool {
				is, ok := n.(*ast.IfStmt)
				if !ok {
					return true
				}
				inner := callsIn(&ast.FuncDecl{Body: is.Body, Name: fd.Name, Type: fd.Type}, "v.validateCronScheduleForJobConfig")
				if len(inner) == 1 {
					if render(is.Cond) != "len(allErrs) == 0" || len(inner[0].Args) != 2 || render(inner[0].Args[0]) != "rjc" ||
						render(inner[0].Args[1]) != `field.NewPath("spec", "schedule", "cron")` {
						failf("ValidateJobConfig: the call of validateCronScheduleForJobConfig has an unrecognised shape: if %s { %s }", render(is.Cond), render(inner[0]))
					}
					recheck = true
				}
				return true
			})
		}
		if recheck {
			var fd *ast.FuncDecl
			if f := parse(validationFile); f != nil {
				for _, d := range f.Decls {
					if x, ok := d.(*ast.FuncDecl); ok && x.Name.Name == "validateCronScheduleForJobConfig" {
						fd = x
					}
				}
			}
			if fd == nil {
				failf("validateCronScheduleForJobConfig is called but not declared")
			} else {
				if c := firstIfCond(fd, "validateCronScheduleForJobConfig"); c != nil {
					recheckGuard = render(c)
				}
				cs := callsIn(fd, "cron.NewExpressionFromCronSchedule")
				if len(cs) != 1 || len(cs[0].Args) != 3 || render(cs[0].Args[0]) != "schedule.Cron" ||
					render(cs[0].Args[1]) != "cron.NewParserFromConfig(cfg)" {
					failf("validateCronScheduleForJobConfig: cron.NewExpressionFromCronSchedule(schedule.Cron, cron.NewParserFromConfig(cfg), <id>) not found")
				} else {
					id := exprName(cs[0].Args[2])
					// resolve `<id>, err := <call>`
					ast.Inspect(fd, func(n ast.Node) bool {
						as, ok := n.(*ast.AssignStmt)
						if ok && len(as.Lhs) >= 1 && len(as.Rhs) == 1 && exprName(as.Lhs[0]) == id {
							recheckHash = render(as.Rhs[0])
						}
						return true
					})
					if recheckHash != "cache.MetaNamespaceKeyFunc(rjc)" {
						failf("validateCronScheduleForJobConfig: hash id %q is %q, expected cache.MetaNamespaceKeyFunc(rjc)", id, recheckHash)
					}
				}
			}
		}
		if c := firstIfCond(funcDecl(scheduleFile, "Schedule", "parseCronAndTimezone"), "parseCronAndTimezone"); c != nil {
			schedGuard = render(c)
		}
		for _, c := range callsIn(funcDecl(cronParserFile, "", "NewParserFromConfig"), "pointer.BoolDeref") {
			if len(c.Args) != 2 {
				continue
			}
			sel, ok := c.Args[0].(*ast.SelectorExpr)
			if !ok || exprName(sel.X) != "cfg" {
				failf("NewParserFromConfig: BoolDeref argument is not cfg.F")
				continue
			}
			derefs = append(derefs, [2]string{sel.Sel.Name, exprName(c.Args[1])})
		}
		if len(derefs) != 3 {
			failf("NewParserFromConfig: expected 3 pointer.BoolDeref calls, found %d", len(derefs))
		}
	})

	b.WriteString("\n-- ---- validate slice (C17)\n")
	emit(b, "val-limits", func(b *strings.Builder) {
		fmt.Fprintf(b, "/-- limit used by `ValidateJobConfig` on metadata.name / by `ValidateJobMetadata` -/\n")
		fmt.Fprintf(b, "def valJobConfigNameMaxLen : Nat := %s\ndef valJobNameMaxLen : Nat := %s\n", natLit(jcNameLimit, "valJobConfigNameMaxLen"), natLit(jobNameLimit, "valJobNameMaxLen"))
		fmt.Fprintf(b, "/-- `ValidateMaxLength` rejects when `len(val) <op> maxLen` -/\ndef valMaxLengthRejectOp : String := %s\n", leanStr(maxLenOp))
		fmt.Fprintf(b, "/-- `core/validation.Validate<K>` rejects when `value <op> bound` -/\ndef valBoundRejectOp : List (String × String) := %s\n", leanPairs(ops))
	})
	intPairs := func(ps [][2]string) string {
		parts := make([]string, len(ps))
		for i, p := range ps {
			parts[i] = fmt.Sprintf("(%s, %s)", leanStr(p[0]), p[1])
		}
		return "[" + strings.Join(parts, ", ") + "]"
	}
	emit(b, "val-bounds", func(b *strings.Builder) {
		fmt.Fprintf(b, "/-- `ValidateMaxRetryAttempts`: bound checks in order -/\ndef valMaxAttemptsChecks : List (String × Int) := %s\n", intPairs(attempts))
		fmt.Fprintf(b, "/-- `ValidateConcurrencySpec`: bound checks on maxConcurrency -/\ndef valMaxConcurrencyChecks : List (String × Int) := %s\n", intPairs(maxConc))
	})
	emit(b, "val-immutable", func(b *strings.Builder) {
		fmt.Fprintf(b, "/-- `ValidateJobSpecUpdate`: (Go field, path) of the ValidateImmutableField calls, in order -/\ndef valJobSpecImmutable : List (String × String) := %s\n", leanPairs(specImm))
		fmt.Fprintf(b, "/-- `ValidateJobSpecUpdate`: delegating calls (function, path) -/\ndef valJobSpecUpdateDelegates : List (String × String) := %s\n", leanPairs(delegates))
		fmt.Fprintf(b, "/-- `ValidateJobTemplateSpecImmutable`: (Go field, path) of the ValidateImmutableField calls, in order -/\ndef valJobTemplateImmutable : List (String × String) := %s\n", leanPairs(tmplImm))
		fmt.Fprintf(b, "/-- `ValidateJobUpdate`: the startPolicy check is guarded by the start time of this object (\"new\" = rj, \"old\" = oldRj) -/\ndef valStartPolicyGuardObject : String := %s\n", leanStr(startGuardObj))
	})
	emit(b, "val-kill", func(b *strings.Builder) {
		fmt.Fprintf(b, "/-- `ValidateKillTimestampUpdate`: the rejecting condition as written -/\ndef valKillTimestampGuard : String := %s\n", leanStr(killGuard))
	})
	emit(b, "val-cron", func(b *strings.Builder) {
		fmt.Fprintf(b, "/-- hash id that `ValidateCronScheduleExpression` passes to `parser.Parse` -/\ndef valCronHashID : String := %s\n", leanStr(hashID))
		fmt.Fprintf(b, "/-- `ValidateJobConfig` re-parses the schedule with the scheduler's hash id when nothing else was rejected (fix d9dad79) -/\ndef valJobConfigScheduleRecheck : Bool := %v\n", recheck)
		fmt.Fprintf(b, "/-- `validateCronScheduleForJobConfig`: guard of the early return as written; the hash id it parses with -/\ndef valScheduleRecheckSkipGuard : String := %s\ndef valScheduleRecheckHashID : String := %s\n", leanStr(recheckGuard), leanStr(recheckHash))
		fmt.Fprintf(b, "/-- `Schedule.parseCronAndTimezone`: guard of the early `return nil, nil, nil` as written -/\ndef schedSkipGuard : String := %s\n", leanStr(schedGuard))
		fmt.Fprintf(b, "/-- `cron.NewParserFromConfig`: defaults of the pointer.BoolDeref calls (config field, default) -/\ndef cronParserBoolDefaults : List (String × String) := %s\n", leanPairs(derefs))
	})
}
