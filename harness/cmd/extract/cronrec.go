package main

// Facts consumed by Model/CronRec.lean (property C02): separators of the work-item key and of
// the generated Job name, reserved label / annotation / finalizer strings, defaults.
// Rigid shapes only; anything else fails the section the fact belongs to (sections.go).

import (
	"fmt"
	"go/ast"
	"go/token"
	"regexp"
	"strings"
)

var sepFormat = regexp.MustCompile(`^%v(.)%v$`)

// sprintfSep: the function contains exactly one fmt.Sprintf whose format literal is
// `%v<c>%v` with exactly two further arguments; returns c.
func sprintfSep(rel, fn string) string {
	fd := funcDecl(rel, "", fn)
	if fd == nil {
		return ""
	}
	var seps []string
	ast.Inspect(fd, func(n ast.Node) bool {
		ce, ok := n.(*ast.CallExpr)
		if !ok {
			return true
		}
		sel, ok := ce.Fun.(*ast.SelectorExpr)
		if !ok || sel.Sel.Name != "Sprintf" {
			return true
		}
		if len(ce.Args) != 3 {
			failf("%s: %s: Sprintf with %d arguments (expected format + 2)", rel, fn, len(ce.Args))
			return true
		}
		m := sepFormat.FindStringSubmatch(strLit(ce.Args[0], rel+":"+fn+" format"))
		if m == nil {
			failf("%s: %s: format is not `%%v<c>%%v`", rel, fn)
			return true
		}
		seps = append(seps, m[1])
		return true
	})
	if len(seps) != 1 {
		failf("%s: %s: expected exactly one fmt.Sprintf, found %d", rel, fn, len(seps))
		return ""
	}
	return seps[0]
}

// callStringArg: every call `<pkg>.<name>(…, "lit")` inside fn: the string literal at argIdx.
func callStringArg(rel, fn, name string, argIdx int) []string {
	fd := funcDecl(rel, "", fn)
	if fd == nil {
		return nil
	}
	var out []string
	ast.Inspect(fd, func(n ast.Node) bool {
		ce, ok := n.(*ast.CallExpr)
		if !ok {
			return true
		}
		sel, ok := ce.Fun.(*ast.SelectorExpr)
		if !ok || sel.Sel.Name != name || len(ce.Args) <= argIdx {
			return true
		}
		out = append(out, strLit(ce.Args[argIdx], rel+":"+fn+":"+name))
		return true
	})
	if len(out) == 0 {
		failf("%s: %s: no call of %s found", rel, fn, name)
	}
	return out
}

// lenLessThan: fn contains `if len(<ident>) < N`; returns N.
func lenLessThan(rel, fn, ident string) int64 {
	fd := funcDecl(rel, "", fn)
	if fd == nil {
		return 0
	}
	var v int64 = -1
	ast.Inspect(fd, func(n ast.Node) bool {
		is, ok := n.(*ast.IfStmt)
		if !ok {
			return true
		}
		be, ok := is.Cond.(*ast.BinaryExpr)
		if !ok || be.Op != token.LSS {
			return true
		}
		ce, ok := be.X.(*ast.CallExpr)
		if !ok || exprName(ce.Fun) != "len" || len(ce.Args) != 1 || exprName(ce.Args[0]) != ident {
			return true
		}
		v = intLit(be.Y, rel+":"+fn+" token count")
		return true
	})
	if v < 0 {
		failf("%s: %s: `if len(%s) < N` not found", rel, fn, ident)
	}
	return v
}

// groupLabel: `name = <pkg>.AddGroupToLabel("x")` in rel ↦ GroupName + "/" + x, after checking
// that AddGroupToLabel is `return GroupName + "/" + label`.
func groupLabel(rel, name, group string) string {
	e := constExpr(rel, name)
	ce, ok := e.(*ast.CallExpr)
	if !ok || exprName(ce.Fun) != "AddGroupToLabel" || len(ce.Args) != 1 {
		failf("%s: %s is not AddGroupToLabel(\"…\")", rel, name)
		return ""
	}
	return group + "/" + strLit(ce.Args[0], name)
}

func checkAddGroupToLabel() {
	fd := funcDecl("apis/execution/register.go", "", "AddGroupToLabel")
	if fd == nil || fd.Body == nil || len(fd.Body.List) != 1 {
		failf("AddGroupToLabel: not a single return")
		return
	}
	rs, ok := fd.Body.List[0].(*ast.ReturnStmt)
	if !ok || len(rs.Results) != 1 {
		failf("AddGroupToLabel: not a single return")
		return
	}
	// GroupName + "/" + label
	outer, ok := rs.Results[0].(*ast.BinaryExpr)
	if !ok || outer.Op != token.ADD || exprName(outer.Y) != "label" {
		failf("AddGroupToLabel: unexpected shape")
		return
	}
	inner, ok := outer.X.(*ast.BinaryExpr)
	if !ok || inner.Op != token.ADD || exprName(inner.X) != "GroupName" || strLit(inner.Y, "AddGroupToLabel separator") != "/" {
		failf("AddGroupToLabel: unexpected shape")
	}
}

// groupPlusLit: `name = GroupName + "lit"`.
func groupPlusLit(rel, name, group string) string {
	be, ok := constExpr(rel, name).(*ast.BinaryExpr)
	if !ok || be.Op != token.ADD || exprName(be.X) != "GroupName" {
		failf("%s: %s is not GroupName + \"…\"", rel, name)
		return ""
	}
	return group + strLit(be.Y, name)
}

// lastReturnInt: the last statement of the function is `return <int literal>`.
func lastReturnInt(rel, recv, name string) int64 {
	fd := funcDecl(rel, recv, name)
	if fd == nil || fd.Body == nil || len(fd.Body.List) == 0 {
		return 0
	}
	rs, ok := fd.Body.List[len(fd.Body.List)-1].(*ast.ReturnStmt)
	if !ok || len(rs.Results) != 1 {
		failf("%s: %s.%s does not end in a single-value return", rel, recv, name)
		return 0
	}
	return intLit(rs.Results[0], rel+":"+name)
}

// structFieldPointerInt: in `varName = &T{ …, field: pointer.Int64(N), … }` returns N.
func structFieldPointerInt(rel, varName, field string) int64 {
	e := constExpr(rel, varName)
	if ue, ok := e.(*ast.UnaryExpr); ok {
		e = ue.X
	}
	cl, ok := e.(*ast.CompositeLit)
	if !ok {
		failf("%s: %s is not a composite literal", rel, varName)
		return 0
	}
	for _, el := range cl.Elts {
		kv, ok := el.(*ast.KeyValueExpr)
		if !ok || exprName(kv.Key) != field {
			continue
		}
		ce, ok := kv.Value.(*ast.CallExpr)
		if !ok || exprName(ce.Fun) != "Int64" || len(ce.Args) != 1 {
			failf("%s: %s.%s is not pointer.Int64(N)", rel, varName, field)
			return 0
		}
		return intLit(ce.Args[0], varName+"."+field)
	}
	failf("%s: %s has no field %s", rel, varName, field)
	return 0
}

func leanChar(s string) string {
	if len(s) != 1 || s[0] < 0x21 || s[0] > 0x7e || s[0] == '\'' || s[0] == '\\' {
		failf("separator %q is not a single printable ASCII character", s)
		return "'?'"
	}
	return "'" + s + "'"
}

// cronrecFacts appends the C02 facts to Facts.lean.
func cronrecFacts(b *strings.Builder) {
	const util = "pkg/execution/controllers/croncontroller/util.go"
	const name = "pkg/execution/util/jobconfig/name.go"
	const labels = "pkg/execution/util/jobconfig/labels.go"

	keySep, splitSep, joinSep := "", "?", "?"
	var minTokens int64
	section("cronrec-key", func() {
		keySep = sprintfSep(util, "JoinJobConfigKeyName")
		splitSeps := callStringArg(util, "SplitJobConfigKeyName", "Split", 1)
		joinSeps := callStringArg(util, "SplitJobConfigKeyName", "Join", 1)
		if len(splitSeps) != 1 || len(joinSeps) != 1 {
			failf("%s: SplitJobConfigKeyName: expected one strings.Split and one strings.Join", util)
		} else {
			splitSep, joinSep = splitSeps[0], joinSeps[0]
		}
		minTokens = lenLessThan(util, "SplitJobConfigKeyName", "tokens")
	})

	nameSep, annSchedule, labelUID, finalizer, kind := "", "", "", "", ""
	section("cronrec-names", func() {
		nameSep = sprintfSep(name, "GenerateName")
		group := strLit(constExpr("apis/execution/register.go", "GroupName"), "GroupName")
		checkAddGroupToLabel()
		annSchedule = groupLabel(labels, "AnnotationKeyScheduleTime", group)
		labelUID = groupLabel(labels, "LabelKeyJobConfigUID", group)
		finalizer = groupPlusLit("apis/execution/finalizers.go", "DeleteDependentsFinalizer", group)
		kind = strLit(constExpr("apis/execution/v1alpha1/groupversion_info.go", "KindJobConfig"), "KindJobConfig")
	})

	var defMaxConc, defMaxEnq int64
	section("cronrec-defaults", func() {
		defMaxConc = lastReturnInt("apis/execution/v1alpha1/jobconfig_types.go", "ConcurrencySpec", "GetMaxConcurrency")
		defMaxEnq = structFieldPointerInt("pkg/config/defaults.go", "DefaultJobConfigExecutionConfig", "MaxEnqueuedJobs")
	})

	enum := map[string]string{}
	section("cronrec-enums", func() {
		jobTypes := typedStringConsts("apis/execution/v1alpha1/job_types.go", "JobType")
		policies := typedStringConsts("apis/execution/v1alpha1/jobconfig_types.go", "ConcurrencyPolicy")
		need := func(m map[string]string, k string) {
			v, ok := m[k]
			if !ok {
				failf("constant %s not found", k)
			}
			enum[k] = v
		}
		need(jobTypes, "JobTypeScheduled")
		need(jobTypes, "JobTypeAdhoc")
		need(policies, "ConcurrencyPolicyAllow")
		need(policies, "ConcurrencyPolicyForbid")
		need(policies, "ConcurrencyPolicyEnqueue")
	})

	b.WriteString("\n/-! C02 (cron reconciler key codec, Job naming, NewJobFromJobConfig) -/\n")
	emit(b, "cronrec-key", func(b *strings.Builder) {
		fmt.Fprintf(b, "/-- `JoinJobConfigKeyName`: `fmt.Sprintf(\"%%v<sep>%%v\", key, ts.Unix())` -/\ndef cronKeyJoinSep : Char := %s\n", leanChar(keySep))
		fmt.Fprintf(b, "/-- `SplitJobConfigKeyName`: `strings.Split(key, sep)`, `len(tokens) < N` ⇒ error, `strings.Join(…, sep)` -/\n")
		fmt.Fprintf(b, "def cronKeySplitSep : Char := %s\ndef cronKeyRejoinSep : Char := %s\ndef cronKeyMinTokens : Nat := %s\n", leanChar(splitSep), leanChar(joinSep), natLit(minTokens, "cronKeyMinTokens"))
	})
	emit(b, "cronrec-names", func(b *strings.Builder) {
		fmt.Fprintf(b, "/-- `GenerateName`: `fmt.Sprintf(\"%%v<sep>%%v\", jobConfigName, ts)` -/\ndef jobNameSep : Char := %s\n", leanChar(nameSep))
		fmt.Fprintf(b, "def annotationKeyScheduleTime : String := %s\n", leanStr(annSchedule))
		fmt.Fprintf(b, "def labelKeyJobConfigUID : String := %s\n", leanStr(labelUID))
		fmt.Fprintf(b, "def deleteDependentsFinalizer : String := %s\n", leanStr(finalizer))
		fmt.Fprintf(b, "def kindJobConfig : String := %s\n", leanStr(kind))
	})
	emit(b, "cronrec-defaults", func(b *strings.Builder) {
		fmt.Fprintf(b, "/-- `ConcurrencySpec.GetMaxConcurrency` when unset -/\ndef defaultMaxConcurrency : Int := %d\n", defMaxConc)
		fmt.Fprintf(b, "/-- `DefaultJobConfigExecutionConfig.MaxEnqueuedJobs` -/\ndef defaultMaxEnqueuedJobs : Int := %d\n", defMaxEnq)
	})
	emit(b, "cronrec-enums", func(b *strings.Builder) {
		fmt.Fprintf(b, "def jobTypeScheduled : String := %s\ndef jobTypeAdhoc : String := %s\n",
			leanStr(enum["JobTypeScheduled"]), leanStr(enum["JobTypeAdhoc"]))
		fmt.Fprintf(b, "def policyAllow : String := %s\ndef policyForbid : String := %s\ndef policyEnqueue : String := %s\n",
			leanStr(enum["ConcurrencyPolicyAllow"]), leanStr(enum["ConcurrencyPolicyForbid"]), leanStr(enum["ConcurrencyPolicyEnqueue"]))
	})
}
