package main

// Facts for the `taskfn` slice (C08/C10/C11/C12): finite tables read off rigid syntactic
// shapes of the job-controller's pure helpers.  Called from main() through taskfnFacts(&b).
//
//   getJobStateFromCondition   tagless switch, every case `condition.<Member> != nil` with a
//                              single `return execution.<JobState const>`; trailing return = default
//   GetParallelStatusCounters  `switch index.State` / `switch index.Result`: per case the list of
//                              `status.<Field>++` statements
//   PodTask.GetState           `switch p.Status.Phase`: per case a single return of a TaskState const
//   PodTask.GetResult          `switch p.Status.Phase`: per case a single return (or empty body)

import (
	"fmt"
	"go/ast"
	"go/token"
	"strings"
)

const (
	jobTypesFile = "apis/execution/v1alpha1/job_types.go"
	jcUtilFile   = "pkg/execution/controllers/jobcontroller/util.go"
	statusFile   = "pkg/execution/util/parallel/status.go"
	podTaskFile  = "pkg/execution/taskexecutor/podtaskexecutor/pod_task.go"
)

func allSwitches(fd *ast.FuncDecl) []*ast.SwitchStmt {
	var out []*ast.SwitchStmt
	ast.Inspect(fd, func(n ast.Node) bool {
		if s, ok := n.(*ast.SwitchStmt); ok {
			out = append(out, s)
		}
		return true
	})
	return out
}

func leanPairs(ps [][2]string) string {
	parts := make([]string, len(ps))
	for i, p := range ps {
		parts[i] = fmt.Sprintf("(%s, %s)", leanStr(p[0]), leanStr(p[1]))
	}
	return "[" + strings.Join(parts, ", ") + "]"
}

func leanStrList(xs []string) string {
	parts := make([]string, len(xs))
	for i, x := range xs {
		parts[i] = leanStr(x)
	}
	return "[" + strings.Join(parts, ", ") + "]"
}

// corev1 PodPhase constant names -> values (k8s.io/api is not parsed; the names are stable API)
var podPhaseValues = map[string]string{
	"PodPending": "Pending", "PodRunning": "Running", "PodSucceeded": "Succeeded", "PodFailed": "Failed", "PodUnknown": "Unknown",
}

func taskfnFacts(b *strings.Builder) {
	jobStates := typedStringConsts(jobTypesFile, "JobState")
	indexStates := typedStringConsts(jobTypesFile, "IndexState")
	taskStates := typedStringConsts(jobTypesFile, "TaskState")
	taskResults := typedStringConsts(jobTypesFile, "TaskResult")
	val := func(m map[string]string, name, what string) string {
		v, ok := m[name]
		if !ok {
			failf("%s: constant %s has no known string value", what, name)
		}
		return v
	}

	// ---- getJobStateFromCondition
	var stateCases [][2]string
	stateDefault := ""
	if fd := funcDecl(jcUtilFile, "", "getJobStateFromCondition"); fd != nil && fd.Body != nil {
		stmts := fd.Body.List
		if len(stmts) != 2 {
			failf("getJobStateFromCondition: expected `switch {…}; return …`, found %d statements", len(stmts))
		} else {
			sw, ok := stmts[0].(*ast.SwitchStmt)
			if !ok || sw.Tag != nil || sw.Init != nil {
				failf("getJobStateFromCondition: first statement is not a tagless switch")
			} else {
				for _, st := range sw.Body.List {
					cc := st.(*ast.CaseClause)
					if len(cc.List) != 1 || len(cc.Body) != 1 {
						failf("getJobStateFromCondition: case shape not recognised")
						continue
					}
					be, ok := cc.List[0].(*ast.BinaryExpr)
					if !ok || be.Op != token.NEQ || exprName(be.Y) != "nil" {
						failf("getJobStateFromCondition: case is not `condition.X != nil`")
						continue
					}
					sel, ok := be.X.(*ast.SelectorExpr)
					if !ok || exprName(sel.X) != "condition" {
						failf("getJobStateFromCondition: case is not on `condition.X`")
						continue
					}
					rs, ok := cc.Body[0].(*ast.ReturnStmt)
					if !ok || len(rs.Results) != 1 {
						failf("getJobStateFromCondition: case body is not a single return")
						continue
					}
					stateCases = append(stateCases, [2]string{sel.Sel.Name, val(jobStates, exprName(rs.Results[0]), "getJobStateFromCondition")})
				}
			}
			rs, ok := stmts[1].(*ast.ReturnStmt)
			if !ok || len(rs.Results) != 1 {
				failf("getJobStateFromCondition: trailing statement is not a single return")
			} else {
				stateDefault = val(jobStates, exprName(rs.Results[0]), "getJobStateFromCondition default")
			}
		}
	}

	// ---- GetParallelStatusCounters
	var stateIncr, resultIncr []string // rendered lean pairs (value, [fields])
	if fd := funcDecl(statusFile, "", "GetParallelStatusCounters"); fd != nil {
		sws := allSwitches(fd)
		if len(sws) != 2 {
			failf("GetParallelStatusCounters: expected 2 switches, found %d", len(sws))
		} else {
			render := func(sw *ast.SwitchStmt, tag string, consts map[string]string) []string {
				var out []string
				if sel, ok := sw.Tag.(*ast.SelectorExpr); !ok || sel.Sel.Name != tag || exprName(sel.X) != "index" {
					failf("GetParallelStatusCounters: switch is not on index.%s", tag)
					return nil
				}
				for _, st := range sw.Body.List {
					cc := st.(*ast.CaseClause)
					if cc.List == nil {
						failf("GetParallelStatusCounters: unexpected default case in switch on %s", tag)
						continue
					}
					var fields []string
					for _, bs := range cc.Body {
						inc, ok := bs.(*ast.IncDecStmt)
						if !ok || inc.Tok != token.INC {
							failf("GetParallelStatusCounters: case body statement is not `status.F++`")
							continue
						}
						sel, ok := inc.X.(*ast.SelectorExpr)
						if !ok || exprName(sel.X) != "status" {
							failf("GetParallelStatusCounters: increment is not on status.F")
							continue
						}
						fields = append(fields, sel.Sel.Name)
					}
					for _, l := range cc.List {
						out = append(out, fmt.Sprintf("(%s, %s)", leanStr(val(consts, exprName(l), "GetParallelStatusCounters")), leanStrList(fields)))
					}
				}
				return out
			}
			stateIncr = render(sws[0], "State", indexStates)
			resultIncr = render(sws[1], "Result", taskResults)
		}
	}

	// ---- PodTask.GetState / GetResult: switch on p.Status.Phase
	phaseSwitch := func(fn string, consts map[string]string) (cases [][2]string, dflt string, hasDefault bool) {
		fd := funcDecl(podTaskFile, "PodTask", fn)
		if fd == nil {
			return
		}
		var sw *ast.SwitchStmt
		for _, s := range allSwitches(fd) {
			if sel, ok := s.Tag.(*ast.SelectorExpr); ok && sel.Sel.Name == "Phase" {
				sw = s
			}
		}
		if sw == nil {
			failf("PodTask.%s: no switch on p.Status.Phase", fn)
			return
		}
		for _, st := range sw.Body.List {
			cc := st.(*ast.CaseClause)
			res := ""
			switch len(cc.Body) {
			case 0:
			case 1:
				rs, ok := cc.Body[0].(*ast.ReturnStmt)
				if !ok || len(rs.Results) != 1 {
					failf("PodTask.%s: case body is not a single return", fn)
					continue
				}
				res = val(consts, exprName(rs.Results[0]), "PodTask."+fn)
			default:
				failf("PodTask.%s: case body has %d statements", fn, len(cc.Body))
				continue
			}
			if cc.List == nil {
				dflt, hasDefault = res, true
				continue
			}
			for _, l := range cc.List {
				cases = append(cases, [2]string{val(podPhaseValues, exprName(l), "PodTask."+fn), res})
			}
		}
		return
	}
	podState, podStateDefault, okd := phaseSwitch("GetState", taskStates)
	if !okd {
		failf("PodTask.GetState: default case of the phase switch not found")
	}
	podResult, _, _ := phaseSwitch("GetResult", taskResults)

	b.WriteString("\n-- ---- taskfn slice (C08 C10 C11 C12)\n")
	b.WriteString("/-- `getJobStateFromCondition`: (condition member tested `!= nil`, returned JobState) in case order -/\n")
	fmt.Fprintf(b, "def jobStateCases : List (String × String) := %s\n", leanPairs(stateCases))
	fmt.Fprintf(b, "def jobStateDefault : String := %s\n", leanStr(stateDefault))
	b.WriteString("/-- `GetParallelStatusCounters`: IndexState value ↦ counter fields incremented -/\n")
	fmt.Fprintf(b, "def counterIncrByState : List (String × List String) := [%s]\n", strings.Join(stateIncr, ", "))
	b.WriteString("/-- `GetParallelStatusCounters`: index Result value ↦ counter fields incremented -/\n")
	fmt.Fprintf(b, "def counterIncrByResult : List (String × List String) := [%s]\n", strings.Join(resultIncr, ", "))
	b.WriteString("/-- `PodTask.GetState`: pod phase ↦ task state (below the Killing guard) -/\n")
	fmt.Fprintf(b, "def podStateByPhase : List (String × String) := %s\n", leanPairs(podState))
	fmt.Fprintf(b, "def podStateDefault : String := %s\n", leanStr(podStateDefault))
	b.WriteString("/-- `PodTask.GetResult`: pod phase ↦ task result (below the OOMKilled guard; no match ↦ \"\") -/\n")
	fmt.Fprintf(b, "def podResultByPhase : List (String × String) := %s\n", leanPairs(podResult))
}
