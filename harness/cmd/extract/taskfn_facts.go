package main

// Facts for the `taskfn` slice (C08/C10/C11/C12): finite tables read off the job-controller's
// pure helpers.  Called from main() through taskfnFacts(&b).  A "switch" below is any chain that
// norm.go normalises to it (tagged / tagless switch, if / else-if chain, early returns).
//
//   getJobStateFromCondition   decision list, every guard `<param>.<Member> != nil` with a
//                              single `return execution.<JobState const>`; trailing return = default
//   GetParallelStatusCounters  in the range loop, `switch index.State` then `switch index.Result`:
//                              per case the list of `status.<Field>++` statements, no default
//   PodTask.GetState           `switch p.Status.Phase`: per case a single return of a TaskState const
//   PodTask.GetResult          `switch p.Status.Phase`: per case a single return (or empty body),
//                              final `return ""`

import (
	"fmt"
	"go/ast"
	"go/token"
	"strings"
)

const (
	jobTypesFile = "apis/execution/v1alpha1/job_types.go"
	jcUtilFile   = "pkg/execution/controllers/jobcontroller/util.go"
	statusFile   = "pkg/execution/util/parallel/status.go"
	podTaskFile  = "pkg/execution/taskexecutor/podtaskexecutor/pod_task.go"
)

func leanPairs(ps [][2]string) string {
	parts := make([]string, len(ps))
	for i, p := range ps {
		parts[i] = fmt.Sprintf("(%s, %s)", leanStr(p[0]), leanStr(p[1]))
	}
	return "[" + strings.Join(parts, ", ") + "]"
}

func leanStrList(xs []string) string {
	parts := make([]string, len(xs))
	for i, x := range xs {
		parts[i] = leanStr(x)
	}
	return "[" + strings.Join(parts, ", ") + "]"
}

// corev1 PodPhase constant names -> values (k8s.io/api is not parsed; the names are stable API)
var podPhaseValues = map[string]string{
	"PodPending": "Pending", "PodRunning": "Running", "PodSucceeded": "Succeeded", "PodFailed": "Failed", "PodUnknown": "Unknown",
}

func taskfnFacts(b *strings.Builder) {
	val := func(m map[string]string, name, what string) string {
		v, ok := m[name]
		if !ok {
			failf("%s: constant %s has no known string value", what, name)
		}
		return v
	}

	// ---- getJobStateFromCondition: decision list `<param>.<Member> != nil` ↦ JobState, default
	var stateCases [][2]string
	stateDefault := ""
	section("taskfn-jobstate", func() {
		jobStates := typedStringConsts(jobTypesFile, "JobState")
		fd := funcDecl(jcUtilFile, "", "getJobStateFromCondition")
		if fd == nil || fd.Body == nil {
			return
		}
		const fn = "getJobStateFromCondition"
		param := paramVar(fd, 0)
		ds, term, err := decisionList(fd.Body.List)
		if err != nil {
			failf("%s: %v", fn, err)
			return
		}
		if !term {
			failf("%s: does not end in an unconditional return", fn)
			return
		}
		for i, d := range ds {
			res, ok := singleResult(d)
			if !ok {
				failf("%s: case body is not a single return", fn)
				continue
			}
			if len(d.Path) == 0 {
				if i != len(ds)-1 {
					failf("%s: unconditional return before the end", fn)
				}
				stateDefault = val(jobStates, res, fn+" default")
				continue
			}
			if len(d.Path) != 1 || d.Path[0].Init != nil {
				failf("%s: case shape not recognised: %s", fn, pathText(d.Path))
				continue
			}
			for _, g := range d.Path[0].Disj {
				be, ok := stripParens(g).(*ast.BinaryExpr)
				if !ok || be.Op != token.NEQ || exprName(be.Y) != "nil" {
					failf("%s: case is not `%s.X != nil`", fn, param)
					continue
				}
				sel, ok := be.X.(*ast.SelectorExpr)
				if !ok || !isIdentNamed(param)(sel.X) {
					failf("%s: case is not on `%s.X`", fn, param)
					continue
				}
				stateCases = append(stateCases, [2]string{sel.Sel.Name, val(jobStates, res, fn)})
			}
		}
	})

	// ---- GetParallelStatusCounters:
	//   var <status> T; for _, <index> := range <param> { <chain on index.State>; <chain on index.Result> }; return <status>
	// every arm body is a list of `<status>.<Field>++`, no default arm
	var stateIncr, resultIncr []string // rendered lean pairs (value, [fields])
	section("taskfn-counters", func() {
		indexStates := typedStringConsts(jobTypesFile, "IndexState")
		taskResults := typedStringConsts(jobTypesFile, "TaskResult")
		fd := funcDecl(statusFile, "", "GetParallelStatusCounters")
		if fd == nil || fd.Body == nil {
			return
		}
		const fn = "GetParallelStatusCounters"
		stmts := fd.Body.List
		if len(stmts) != 3 {
			failf("%s: expected `var status …; for … range … {…}; return status`, found %d statements", fn, len(stmts))
			return
		}
		statusVar := ""
		if ds, ok := stmts[0].(*ast.DeclStmt); ok {
			if gd, ok := ds.Decl.(*ast.GenDecl); ok && gd.Tok == token.VAR && len(gd.Specs) == 1 {
				if vs, ok := gd.Specs[0].(*ast.ValueSpec); ok && len(vs.Names) == 1 && len(vs.Values) == 0 {
					statusVar = vs.Names[0].Name
				}
			}
		}
		rs, okRet := stmts[2].(*ast.ReturnStmt)
		if statusVar == "" || !okRet || len(rs.Results) != 1 || !isIdentNamed(statusVar)(rs.Results[0]) {
			failf("%s: the counters are not a zero-valued local that is returned", fn)
			return
		}
		loop, ok := stmts[1].(*ast.RangeStmt)
		if !ok || loop.Value == nil || !isIdentNamed(paramVar(fd, 0))(loop.X) {
			failf("%s: second statement is not `for _, index := range <parameter>`", fn)
			return
		}
		if k, isIdent := loop.Key.(*ast.Ident); loop.Key != nil && (!isIdent || k.Name != "_") {
			failf("%s: the loop uses the slice index", fn)
			return
		}
		indexVar := exprName(loop.Value)
		if len(loop.Body.List) != 2 {
			failf("%s: expected 2 switches in the loop body, found %d statements", fn, len(loop.Body.List))
			return
		}
		render := func(st ast.Stmt, tag string, consts map[string]string) []string {
			ch, err := normChain(st)
			if err != nil {
				failf("%s: branch on %s.%s: %v", fn, indexVar, tag, err)
				return nil
			}
			_, arms, err := taggedArms(ch, func(e ast.Expr) bool {
				sel, ok := e.(*ast.SelectorExpr)
				return ok && sel.Sel.Name == tag && isIdentNamed(indexVar)(sel.X)
			})
			if err != nil {
				failf("%s: switch is not on %s.%s: %v", fn, indexVar, tag, err)
				return nil
			}
			var out []string
			for _, a := range arms {
				if a.Else {
					failf("%s: unexpected default case in switch on %s", fn, tag)
					continue
				}
				var fields []string
				for _, bs := range a.Body {
					inc, ok := bs.(*ast.IncDecStmt)
					if !ok || inc.Tok != token.INC {
						failf("%s: case body statement is not `%s.F++`", fn, statusVar)
						continue
					}
					sel, ok := inc.X.(*ast.SelectorExpr)
					if !ok || !isIdentNamed(statusVar)(sel.X) {
						failf("%s: increment is not on %s.F", fn, statusVar)
						continue
					}
					fields = append(fields, sel.Sel.Name)
				}
				for _, l := range a.Labels {
					out = append(out, fmt.Sprintf("(%s, %s)", leanStr(val(consts, exprName(l), fn)), leanStrList(fields)))
				}
			}
			return out
		}
		stateIncr = render(loop.Body.List[0], "State", indexStates)
		resultIncr = render(loop.Body.List[1], "Result", taskResults)
	})

	// ---- PodTask.GetState / GetResult: decision list; leading guards that do not look at the pod
	// phase are skipped (modelled by hand, checked by the engines), then only comparisons of
	// <recv>.Status.Phase with PodPhase constants, then the default
	var podState, podResult [][2]string
	podStateDefault := ""
	section("taskfn-podphase", func() {
		taskStates := typedStringConsts(jobTypesFile, "TaskState")
		taskResults := typedStringConsts(jobTypesFile, "TaskResult")
		phaseDecisions := func(fn string, consts map[string]string) (cases [][2]string, dflt string, hasDefault bool) {
			fd := funcDecl(podTaskFile, "PodTask", fn)
			if fd == nil || fd.Body == nil {
				return
			}
			what := "PodTask." + fn
			phaseText := recvVar(fd) + ".Status.Phase"
			isPhase := func(e ast.Expr) bool { return printNode(e) == phaseText }
			ds, term, err := decisionList(fd.Body.List)
			if err != nil {
				failf("%s: %v", what, err)
				return
			}
			if !term {
				failf("%s: does not end in an unconditional return", what)
				return
			}
			sawPhase, sawEmpty := false, false
			for i, d := range ds {
				if len(d.Path) == 0 {
					if i != len(ds)-1 {
						failf("%s: unconditional return before the end", what)
						continue
					}
					res, ok := singleResult(d)
					if !ok {
						failf("%s: default is not a single return", what)
						continue
					}
					dflt, hasDefault = res, true
					continue
				}
				onPhase := false
				if len(d.Path) == 1 {
					for _, g := range d.Path[0].Disj {
						if _, _, ok := eqLabel(g, isPhase); ok {
							onPhase = true
						}
					}
				}
				if !onPhase {
					if sawPhase {
						failf("%s: guard `%s` after the switch on the pod phase", what, pathText(d.Path))
					}
					continue
				}
				sawPhase = true
				if d.Path[0].Init != nil {
					failf("%s: phase guard with an initialiser", what)
					continue
				}
				if sawEmpty {
					failf("%s: a case follows a case with an empty body", what)
				}
				res := ""
				if d.Ret == nil {
					sawEmpty = true // control continues after the switch: the default applies
				} else {
					r, ok := singleResult(d)
					if !ok {
						failf("%s: case body is not a single return", what)
						continue
					}
					res = val(consts, r, what)
				}
				for _, g := range d.Path[0].Disj {
					_, label, ok := eqLabel(g, isPhase)
					if !ok {
						failf("%s: guard `%s` is not a comparison of %s with a constant", what, printNode(g), phaseText)
						continue
					}
					cases = append(cases, [2]string{val(podPhaseValues, exprName(label), what), res})
				}
			}
			if !sawPhase {
				failf("%s: no switch on %s", what, phaseText)
			}
			return
		}
		var dflt string
		var okd bool
		podState, dflt, okd = phaseDecisions("GetState", taskStates)
		if !okd {
			failf("PodTask.GetState: default case of the phase switch not found")
		} else {
			podStateDefault = val(taskStates, dflt, "PodTask.GetState")
		}
		// GetResult: a phase without a result falls out of the switch to the final `return ""`
		podResult, dflt, okd = phaseDecisions("GetResult", taskResults)
		if okd && dflt != `""` {
			failf("PodTask.GetResult: the final return is %s, the model assumes \"\"", dflt)
		}
	})

	b.WriteString("\n-- ---- taskfn slice (C08 C10 C11 C12)\n")
	emit(b, "taskfn-jobstate", func(b *strings.Builder) {
		b.WriteString("/-- `getJobStateFromCondition`: (condition member tested `!= nil`, returned JobState) in case order -/\n")
		fmt.Fprintf(b, "def jobStateCases : List (String × String) := %s\n", leanPairs(stateCases))
		fmt.Fprintf(b, "def jobStateDefault : String := %s\n", leanStr(stateDefault))
	})
	emit(b, "taskfn-counters", func(b *strings.Builder) {
		b.WriteString("/-- `GetParallelStatusCounters`: IndexState value ↦ counter fields incremented -/\n")
		fmt.Fprintf(b, "def counterIncrByState : List (String × List String) := [%s]\n", strings.Join(stateIncr, ", "))
		b.WriteString("/-- `GetParallelStatusCounters`: index Result value ↦ counter fields incremented -/\n")
		fmt.Fprintf(b, "def counterIncrByResult : List (String × List String) := [%s]\n", strings.Join(resultIncr, ", "))
	})
	emit(b, "taskfn-podphase", func(b *strings.Builder) {
		b.WriteString("/-- `PodTask.GetState`: pod phase ↦ task state (below the Killing guard) -/\n")
		fmt.Fprintf(b, "def podStateByPhase : List (String × String) := %s\n", leanPairs(podState))
		fmt.Fprintf(b, "def podStateDefault : String := %s\n", leanStr(podStateDefault))
		b.WriteString("/-- `PodTask.GetResult`: pod phase ↦ task result (below the OOMKilled guard; no match ↦ \"\") -/\n")
		fmt.Fprintf(b, "def podResultByPhase : List (String × String) := %s\n", leanPairs(podResult))
	})
}
