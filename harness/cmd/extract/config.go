package main

// Facts of the dynamic-configuration machinery (property C19): loader registration order,
// informer callbacks registered by the ConfigMap/Secret loaders, mergo options of loadConfig,
// config names, the reader methods of ContextConfigs, the fields (json key, Go type) of the
// three config kinds and the built-in defaults as they come out of DefaultsLoader.marshal.
// Rigid syntactic shapes only; anything else is a failure.

import (
	"encoding/json"
	"fmt"
	"go/ast"
	"go/token"
	"reflect"
	"sort"
	"strconv"
	"strings"
)

type configField struct {
	Key       string // json key ("TypeMeta" for the embedded struct: mapstructure does not know ",inline")
	GoName    string
	GoType    string // "*int64", "int64", "*bool", "string", "*string", "struct"
	OmitEmpty bool
}

type configFacts struct {
	LoaderOrder  []string
	Handlers     [3]bool
	MergeOptions []string
	Names        map[string]string        // const name -> config name
	Readers      [][3]string              // method, config name, struct type
	Fields       map[string][]configField // config name -> fields
	Defaults     map[string][][2]string   // config name -> (json key, value token)
	ConfigOrder  []string                 // config names in the order of the reader methods
}

const (
	cfgDir        = "pkg/runtime/configloader/"
	cfgManager    = cfgDir + "manager.go"
	cfgCMLoader   = cfgDir + "configmap_loader.go"
	cfgSecLoader  = cfgDir + "secret_loader.go"
	cfgDefLoader  = cfgDir + "defaults_loader.go"
	cfgContext    = "pkg/runtime/controllercontext/context_configs.go"
	cfgDefaults   = "pkg/config/defaults.go"
	cfgTypes      = "apis/config/v1alpha1/dynamicconfig_types.go"
	cfgNamesTypes = "apis/config/v1alpha1/configurationname_types.go"
)

// qTok is the harness' Q encoding (eng.Q) so that tokens compare equal to the run-time ones.
func qTok(s string) string {
	if s == "" {
		return "%-"
	}
	var b strings.Builder
	for i := 0; i < len(s); i++ {
		ch := s[i]
		if ch >= 'a' && ch <= 'z' || ch >= 'A' && ch <= 'Z' || ch >= '0' && ch <= '9' ||
			ch == '_' || ch == '.' || ch == '/' || ch == ':' || ch == '-' || ch == '+' || ch == ',' || ch == '=' {
			b.WriteByte(ch)
		} else {
			fmt.Fprintf(&b, "%%%02X", ch)
		}
	}
	return b.String()
}

// loaderName: the string returned by `func (x *T) Name() string { return "..." }`.
func loaderName(typ string) string {
	for _, rel := range []string{cfgDefLoader, cfgCMLoader, cfgSecLoader} {
		f := parse(rel)
		if f == nil {
			continue
		}
		for _, d := range f.Decls {
			fd, ok := d.(*ast.FuncDecl)
			if !ok || fd.Name.Name != "Name" || fd.Recv == nil || len(fd.Recv.List) != 1 {
				continue
			}
			st, ok := fd.Recv.List[0].Type.(*ast.StarExpr)
			if !ok {
				continue
			}
			if id, ok := st.X.(*ast.Ident); !ok || id.Name != typ {
				continue
			}
			if len(fd.Body.List) == 1 {
				if rs, ok := fd.Body.List[0].(*ast.ReturnStmt); ok && len(rs.Results) == 1 {
					return strLit(rs.Results[0], typ+".Name()")
				}
			}
			failf("%s: %s.Name() is not a single return of a string literal", rel, typ)
			return ""
		}
	}
	failf("configloader: method Name() of %s not found", typ)
	return ""
}

// evalDefault evaluates a field initialiser of pkg/config/defaults.go:
// literal | true/false | constant of the same file | pointer.Int64/Bool/String(<those>).
// Returns the Go value (int64, bool, string) and whether it was wrapped in pointer.X.
func evalDefault(e ast.Expr, what string) (interface{}, bool) {
	switch x := e.(type) {
	case *ast.BasicLit:
		switch x.Kind {
		case token.INT:
			return intLit(x, what), false
		case token.STRING:
			return strLit(x, what), false
		}
	case *ast.Ident:
		switch x.Name {
		case "true":
			return true, false
		case "false":
			return false, false
		}
		c := constExpr(cfgDefaults, x.Name)
		if c == nil {
			return nil, false
		}
		v, _ := evalDefault(c, what+"->"+x.Name)
		return v, false
	case *ast.CallExpr:
		if sel, ok := x.Fun.(*ast.SelectorExpr); ok && len(x.Args) == 1 {
			if pk, ok := sel.X.(*ast.Ident); ok && pk.Name == "pointer" {
				switch sel.Sel.Name {
				case "Int64", "Bool", "String":
					v, _ := evalDefault(x.Args[0], what)
					return v, true
				}
			}
		}
	}
	failf("%s: unrecognised default value expression %T", what, e)
	return nil, false
}

func valueToken(v interface{}) string {
	js, _ := json.Marshal(v)
	empty := reflect.ValueOf(v).IsZero()
	e := "0"
	if empty {
		e = "1"
	}
	return "a" + e + ":" + qTok(string(js))
}

func structFields(typ string) []configField {
	f := parse(cfgTypes)
	if f == nil {
		return nil
	}
	var out []configField
	found := false
	ast.Inspect(f, func(n ast.Node) bool {
		ts, ok := n.(*ast.TypeSpec)
		if !ok || ts.Name.Name != typ {
			return true
		}
		st, ok := ts.Type.(*ast.StructType)
		if !ok {
			failf("%s: %s is not a struct", cfgTypes, typ)
			return false
		}
		found = true
		for _, fl := range st.Fields.List {
			tag := ""
			if fl.Tag != nil {
				raw, _ := strconv.Unquote(fl.Tag.Value)
				tag = reflect.StructTag(raw).Get("json")
			}
			if len(fl.Names) == 0 {
				sel, ok := fl.Type.(*ast.SelectorExpr)
				if !ok || sel.Sel.Name != "TypeMeta" || tag != ",inline" {
					failf("%s: %s: unrecognised embedded field", cfgTypes, typ)
					continue
				}
				// mapstructure (TagName json) does not squash ",inline": the field is looked up as "TypeMeta"
				out = append(out, configField{Key: "TypeMeta", GoName: "TypeMeta", GoType: "struct"})
				continue
			}
			if len(fl.Names) != 1 {
				failf("%s: %s: multi-name field", cfgTypes, typ)
				continue
			}
			gt := ""
			switch t := fl.Type.(type) {
			case *ast.Ident:
				gt = t.Name
			case *ast.StarExpr:
				if id, ok := t.X.(*ast.Ident); ok {
					gt = "*" + id.Name
				}
			}
			switch gt {
			case "int64", "*int64", "bool", "*bool", "string", "*string":
			default:
				failf("%s: %s.%s: unsupported field type", cfgTypes, typ, fl.Names[0].Name)
				continue
			}
			parts := strings.Split(tag, ",")
			if parts[0] == "" {
				failf("%s: %s.%s: no json name", cfgTypes, typ, fl.Names[0].Name)
				continue
			}
			cf := configField{Key: parts[0], GoName: fl.Names[0].Name, GoType: gt}
			for _, p := range parts[1:] {
				if p == "omitempty" {
					cf.OmitEmpty = true
				} else {
					failf("%s: %s.%s: unsupported json tag option %q", cfgTypes, typ, fl.Names[0].Name, p)
				}
			}
			out = append(out, cf)
		}
		return false
	})
	if !found {
		failf("%s: struct %s not found", cfgTypes, typ)
	}
	return out
}

func selName(e ast.Expr, pkg string) string {
	if sel, ok := e.(*ast.SelectorExpr); ok {
		if id, ok := sel.X.(*ast.Ident); ok && id.Name == pkg {
			return sel.Sel.Name
		}
	}
	return ""
}

func extractConfig() *configFacts {
	cf := &configFacts{Fields: map[string][]configField{}, Defaults: map[string][][2]string{}}

	// (1) loader order: the single AddConfigLoaders(...) call in SetUpConfigManager
	section("config-loaders", func() {
		if fd := funcDecl(cfgContext, "", "SetUpConfigManager"); fd != nil {
			n := 0
			ast.Inspect(fd, func(nd ast.Node) bool {
				call, ok := nd.(*ast.CallExpr)
				if !ok {
					return true
				}
				sel, ok := call.Fun.(*ast.SelectorExpr)
				if !ok || sel.Sel.Name != "AddConfigLoaders" {
					return true
				}
				n++
				for _, a := range call.Args {
					ac, ok := a.(*ast.CallExpr)
					ctor := ""
					if ok {
						ctor = selName(ac.Fun, "configloader")
					}
					if !strings.HasPrefix(ctor, "New") {
						failf("%s: AddConfigLoaders argument is not configloader.New<Loader>(...)", cfgContext)
						continue
					}
					cf.LoaderOrder = append(cf.LoaderOrder, loaderName(strings.TrimPrefix(ctor, "New")))
				}
				return true
			})
			if n != 1 {
				failf("%s: expected exactly one AddConfigLoaders call in SetUpConfigManager, found %d", cfgContext, n)
			}
		}

	})

	section("config-handlers", func() {
		// (2) informer callbacks: one literal in configmap_loader.go (startInformer), shared by the
		// Secret loader (which must not register its own)
		if regs := handlerRegistrations(cfgCMLoader); len(regs) == 1 {
			cf.Handlers = regs[0]
		} else if regs != nil {
			failf("%s: expected exactly one handler registration, found %d", cfgCMLoader, len(regs))
		}
		if f := parse(cfgSecLoader); f != nil {
			ast.Inspect(f, func(n ast.Node) bool {
				if cl, ok := n.(*ast.CompositeLit); ok {
					if sel, ok := cl.Type.(*ast.SelectorExpr); ok && sel.Sel.Name == "ResourceEventHandlerFuncs" {
						failf("%s: unexpected own handler registration", cfgSecLoader)
					}
				}
				return true
			})
		}
		// the callbacks must pass the (new) object to eventHandler
		if fd := funcDecl(cfgCMLoader, "ConfigMapLoader", "startInformer"); fd != nil {
			ast.Inspect(fd, func(n ast.Node) bool {
				cl, ok := n.(*ast.CompositeLit)
				if !ok {
					return true
				}
				if sel, ok := cl.Type.(*ast.SelectorExpr); !ok || sel.Sel.Name != "ResourceEventHandlerFuncs" {
					return true
				}
				for _, el := range cl.Elts {
					kv := el.(*ast.KeyValueExpr)
					key := kv.Key.(*ast.Ident).Name
					okShape := false
					switch v := kv.Value.(type) {
					case *ast.Ident:
						okShape = key == "AddFunc" && v.Name == "eventHandler"
					case *ast.FuncLit:
						if key == "UpdateFunc" && len(v.Body.List) == 1 && len(v.Type.Params.List) >= 1 {
							var params []string
							for _, p := range v.Type.Params.List {
								for _, nm := range p.Names {
									params = append(params, nm.Name)
								}
							}
							if es, ok := v.Body.List[0].(*ast.ExprStmt); ok && len(params) == 2 {
								if call, ok := es.X.(*ast.CallExpr); ok && len(call.Args) == 1 {
									fn, _ := call.Fun.(*ast.Ident)
									arg, _ := call.Args[0].(*ast.Ident)
									okShape = fn != nil && arg != nil && fn.Name == "eventHandler" && arg.Name == params[1]
								}
							}
						}
					}
					if !okShape {
						failf("%s: startInformer: callback %s does not have the modelled shape", cfgCMLoader, key)
					}
				}
				return true
			})
		}

	})

	section("config-merge", func() {
		// (3) mergo options of loadConfig
		if fd := funcDecl(cfgManager, "ConfigManager", "loadConfig"); fd != nil {
			n := 0
			ast.Inspect(fd, func(nd ast.Node) bool {
				call, ok := nd.(*ast.CallExpr)
				if !ok || selName(call.Fun, "mergo") == "" {
					return true
				}
				if selName(call.Fun, "mergo") != "Merge" || len(call.Args) < 2 {
					failf("%s: loadConfig: unrecognised mergo call", cfgManager)
					return true
				}
				n++
				cf.MergeOptions = []string{}
				for _, a := range call.Args[2:] {
					o := selName(a, "mergo")
					if o == "" {
						failf("%s: loadConfig: unrecognised mergo option", cfgManager)
					}
					cf.MergeOptions = append(cf.MergeOptions, o)
				}
				return true
			})
			if n != 1 {
				failf("%s: loadConfig: expected exactly one mergo.Merge call, found %d", cfgManager, n)
			}
		}

	})

	section("config-schema", func() {
		// (4) names, readers, fields, defaults
		cf.Names = typedStringConsts(cfgNamesTypes, "ConfigName")
		for _, m := range []string{"Jobs", "JobConfigs", "Cron"} {
			fd := funcDecl(cfgContext, "ContextConfigs", m)
			if fd == nil {
				continue
			}
			typ, nameConst := "", ""
			ast.Inspect(fd.Body, func(nd ast.Node) bool {
				switch x := nd.(type) {
				case *ast.ValueSpec:
					if len(x.Names) == 1 && x.Names[0].Name == "config" {
						typ = selName(x.Type, "configv1alpha1")
					}
				case *ast.CallExpr:
					if sel, ok := x.Fun.(*ast.SelectorExpr); ok && sel.Sel.Name == "LoadAndUnmarshalConfig" && len(x.Args) == 2 {
						nameConst = selName(x.Args[0], "configv1alpha1")
					}
				}
				return true
			})
			name, ok := cf.Names[nameConst]
			if typ == "" || !ok {
				failf("%s: %s(): shape not recognised", cfgContext, m)
				continue
			}
			cf.Readers = append(cf.Readers, [3]string{m, name, typ})
			cf.ConfigOrder = append(cf.ConfigOrder, name)
			cf.Fields[name] = structFields(typ)
		}
		// NewDefaultsLoader: config name const -> config.<Var>
		defVar := map[string]string{}
		if fd := funcDecl(cfgDefLoader, "", "NewDefaultsLoader"); fd != nil {
			ast.Inspect(fd, func(nd ast.Node) bool {
				kv, ok := nd.(*ast.KeyValueExpr)
				if !ok {
					return true
				}
				k := selName(kv.Key, "configv1alpha1")
				v := selName(kv.Value, "config")
				if k != "" && v != "" {
					if name, ok := cf.Names[k]; ok {
						defVar[name] = v
					} else {
						failf("%s: NewDefaultsLoader: unknown config name constant %s", cfgDefLoader, k)
					}
				}
				return true
			})
		}
		for _, r := range cf.Readers {
			name, typ := r[1], r[2]
			v, ok := defVar[name]
			if !ok {
				failf("%s: NewDefaultsLoader has no default for %s", cfgDefLoader, name)
				continue
			}
			e := constExpr(cfgDefaults, v)
			ue, ok := e.(*ast.UnaryExpr)
			var cl *ast.CompositeLit
			if ok && ue.Op == token.AND {
				cl, _ = ue.X.(*ast.CompositeLit)
			}
			if cl == nil || selName(cl.Type, "configv1alpha1") != typ {
				failf("%s: %s is not &configv1alpha1.%s{...}", cfgDefaults, v, typ)
				continue
			}
			byGo := map[string]configField{}
			for _, fl := range cf.Fields[name] {
				byGo[fl.GoName] = fl
			}
			vals := map[string]string{}
			for _, el := range cl.Elts {
				kv, ok := el.(*ast.KeyValueExpr)
				if !ok {
					failf("%s: %s: positional field", cfgDefaults, v)
					continue
				}
				fn := kv.Key.(*ast.Ident).Name
				fl, ok := byGo[fn]
				if !ok {
					failf("%s: %s: unknown field %s", cfgDefaults, v, fn)
					continue
				}
				val, ptr := evalDefault(kv.Value, v+"."+fn)
				if val == nil {
					continue
				}
				if ptr != strings.HasPrefix(fl.GoType, "*") {
					failf("%s: %s.%s: pointer-ness of the initialiser does not match the field type", cfgDefaults, v, fn)
					continue
				}
				want := strings.TrimPrefix(fl.GoType, "*")
				got := map[reflect.Kind]string{reflect.Int64: "int64", reflect.Bool: "bool", reflect.String: "string"}[reflect.ValueOf(val).Kind()]
				if want != got {
					failf("%s: %s.%s: initialiser type %s does not match field type %s", cfgDefaults, v, fn, got, want)
					continue
				}
				// json.Marshal: omitempty drops zero values of non-pointer fields; a non-nil pointer is kept
				if !ptr && fl.OmitEmpty && reflect.ValueOf(val).IsZero() {
					continue
				}
				vals[fl.Key] = valueToken(val)
			}
			// fields without omitempty are always marshalled (zero value when not initialised)
			for _, fl := range cf.Fields[name] {
				if _, ok := vals[fl.Key]; !ok && !fl.OmitEmpty && fl.GoType != "struct" {
					failf("%s: %s.%s: field without omitempty is not modelled", cfgDefaults, v, fl.GoName)
				}
			}
			keys := make([]string, 0, len(vals))
			for k := range vals {
				keys = append(keys, k)
			}
			sort.Strings(keys)
			for _, k := range keys {
				cf.Defaults[name] = append(cf.Defaults[name], [2]string{k, vals[k]})
			}
		}
	})
	return cf
}

// configSectionFacts extracts and emits the C19 facts.
func configSectionFacts(b *strings.Builder) *configFacts {
	cf := extractConfig()
	cf.emit(b)
	return cf
}

func (cf *configFacts) emit(b *strings.Builder) {
	ls := func(xs []string) string {
		q := make([]string, len(xs))
		for i, x := range xs {
			q[i] = leanStr(x)
		}
		return "[" + strings.Join(q, ", ") + "]"
	}
	b.WriteString("\n/-! dynamic configuration (C19) -/\n")
	emit(b, "config-loaders", func(b *strings.Builder) {
		fmt.Fprintf(b, "/-- `Name()` of the loaders in the order of `AddConfigLoaders(...)` in `SetUpConfigManager` (lowest priority first) -/\ndef configLoaderOrder : List String := %s\n", ls(cf.LoaderOrder))
	})
	emit(b, "config-handlers", func(b *strings.Builder) {
		fmt.Fprintf(b, "/-- `ConfigMapLoader.startInformer` (shared by `SecretLoader`) registers AddFunc / UpdateFunc / DeleteFunc -/\n")
		fmt.Fprintf(b, "def configLoaderHandlerAdd : Bool := %v\ndef configLoaderHandlerUpdate : Bool := %v\ndef configLoaderHandlerDelete : Bool := %v\n", cf.Handlers[0], cf.Handlers[1], cf.Handlers[2])
	})
	emit(b, "config-merge", func(b *strings.Builder) {
		fmt.Fprintf(b, "/-- options passed to `mergo.Merge` in `ConfigManager.loadConfig` -/\ndef configMergeOptions : List String := %s\n", ls(cf.MergeOptions))
	})
	emit(b, "config-schema", func(b *strings.Builder) {
		b.WriteString("/-- reader method of `ContextConfigs` ↦ config name -/\ndef configReaders : List (String × String) := [")
		for i, r := range cf.Readers {
			if i > 0 {
				b.WriteString(", ")
			}
			fmt.Fprintf(b, "(%s, %s)", leanStr(r[0]), leanStr(r[1]))
		}
		b.WriteString("]\n")
		pairs := func(ps [][2]string) string {
			q := make([]string, len(ps))
			for i, p := range ps {
				q[i] = fmt.Sprintf("(%s, %s)", leanStr(p[0]), leanStr(p[1]))
			}
			return "[" + strings.Join(q, ", ") + "]"
		}
		b.WriteString("/-- config name ↦ fields as mapstructure sees them: (key, Go type) in declaration order -/\ndef configFields : List (String × List (String × String)) := [")
		for i, n := range cf.ConfigOrder {
			if i > 0 {
				b.WriteString(",\n  ")
			}
			var ps [][2]string
			for _, fl := range cf.Fields[n] {
				ps = append(ps, [2]string{fl.Key, fl.GoType})
			}
			fmt.Fprintf(b, "(%s, %s)", leanStr(n), pairs(ps))
		}
		b.WriteString("]\n")
		b.WriteString("/-- config name ↦ built-in defaults as `DefaultsLoader.marshal` renders them: (json key, value token) sorted by key -/\ndef configDefaults : List (String × List (String × String)) := [")
		for i, n := range cf.ConfigOrder {
			if i > 0 {
				b.WriteString(",\n  ")
			}
			fmt.Fprintf(b, "(%s, %s)", leanStr(n), pairs(cf.Defaults[n]))
		}
		b.WriteString("]\n")
	})
}
