package main

// Fact consumed by Props/C08Plan.lean (property C08, finding F30): which finish time does
// PodTask.GetTaskRef record for a finished Pod that cannot tell when it finished?  One shape is
// recognised, either present in exactly this form (true), absent altogether (false: the tree before
// the repair, where the value of GetFinishTimestamp — for such a Pod its start / creation time — was
// recorded as it came), or present in another form (the extraction fails: the model no longer knows
// what the code does).
//
//	taskRefRecordsObservationTime
//	    PodTask.GetTaskRef ends its field assignments with
//	        if t := p.GetFinishTimestamp(); !t.IsZero() {
//	            if !p.hasFinishTimestamp() { t = *ktime.Now() }
//	            task.FinishTimestamp = &t
//	        }
//	    and PodTask.hasFinishTimestamp is
//	        if t := GetContainerTerminateTime(p.Pod); !t.IsZero() { return true }
//	        return <the condition of the DeadlineExceeded branch of GetFinishTimestamp>
//	    (Model/Task.lean: `Pod.hasFinishTimestamp`, `Pod.recordedFinish`, `Pod.taskRef`)

import (
	"fmt"
	"go/ast"
	"strings"
)

func finishTimeFacts(b *strings.Builder) {
	records := false
	section("jobctl-finish-time", func() { records = finishTimeShape() })
	emit(b, "jobctl-finish-time", func(b *strings.Builder) {
		fmt.Fprintf(b, "/-- F30: `PodTask.GetTaskRef` records `ktime.Now()` as the finish time of a finished Pod that cannot tell when\nit finished (no container termination time, not the DeadlineExceeded computation) -/\n")
		fmt.Fprintf(b, "def taskRefRecordsObservationTime : Bool := %v\n", records)
	})
}

func finishTimeShape() bool {
	const pt = "pkg/execution/taskexecutor/podtaskexecutor/pod_task.go"
	fd := funcDecl(pt, "PodTask", "GetTaskRef")
	if fd == nil || fd.Body == nil {
		return false
	}
	// the statement `if t := p.GetFinishTimestamp(); !t.IsZero() { … }`
	var fin *ast.IfStmt
	for _, st := range fd.Body.List {
		is, ok := st.(*ast.IfStmt)
		if !ok || is.Init == nil {
			continue
		}
		if srcText(is.Init) == "t := p.GetFinishTimestamp()" {
			if fin != nil {
				failf("%s: GetTaskRef reads GetFinishTimestamp more than once", pt)
				return false
			}
			fin = is
		}
	}
	if fin == nil || fin.Else != nil || srcText(fin.Cond) != "!t.IsZero()" {
		failf("%s: GetTaskRef has no `if t := p.GetFinishTimestamp(); !t.IsZero() { … }` without else", pt)
		return false
	}
	var body []string
	for _, st := range fin.Body.List {
		body = append(body, srcText(st))
	}
	const assign = "task.FinishTimestamp = &t"
	switch {
	case len(body) == 1 && body[0] == assign:
		// the tree before the repair: nothing named hasFinishTimestamp may exist either
		if hasMethod(pt, "hasFinishTimestamp") {
			failf("%s: hasFinishTimestamp exists but GetTaskRef does not consult it", pt)
		}
		return false
	case len(body) == 2 && body[0] == "if !p.hasFinishTimestamp() { t = *ktime.Now() }" && body[1] == assign:
	default:
		failf("%s: the finish-time branch of GetTaskRef is neither `task.FinishTimestamp = &t` nor `if !p.hasFinishTimestamp() { t = *ktime.Now() }; task.FinishTimestamp = &t` (found %q)", pt, strings.Join(body, "; "))
		return false
	}
	// hasFinishTimestamp
	hf := funcDecl(pt, "PodTask", "hasFinishTimestamp")
	if hf == nil || hf.Body == nil || len(hf.Body.List) != 2 {
		failf("%s: hasFinishTimestamp is not two statements", pt)
		return false
	}
	if got := srcText(hf.Body.List[0]); got != "if t := GetContainerTerminateTime(p.Pod); !t.IsZero() { return true }" {
		failf("%s: hasFinishTimestamp does not start with `if t := GetContainerTerminateTime(p.Pod); !t.IsZero() { return true }` (found %q)", pt, got)
		return false
	}
	ret, ok := hf.Body.List[1].(*ast.ReturnStmt)
	if !ok || len(ret.Results) != 1 {
		failf("%s: hasFinishTimestamp does not end with a single-value return", pt)
		return false
	}
	// the DeadlineExceeded branch of GetFinishTimestamp: the if whose body computes from ActiveDeadlineSeconds
	gf := funcDecl(pt, "PodTask", "GetFinishTimestamp")
	if gf == nil || gf.Body == nil {
		return false
	}
	deadline := ""
	for _, st := range gf.Body.List {
		if is, ok := st.(*ast.IfStmt); ok && is.Init == nil && strings.Contains(srcText(is.Body), "ActiveDeadlineSeconds") {
			deadline = srcText(is.Cond)
		}
	}
	if deadline == "" {
		failf("%s: GetFinishTimestamp has no DeadlineExceeded branch", pt)
		return false
	}
	if got := srcText(ret.Results[0]); got != deadline {
		failf("%s: hasFinishTimestamp returns %q, the DeadlineExceeded branch of GetFinishTimestamp tests %q", pt, got, deadline)
		return false
	}
	return true
}
