// extract is the translator part of the model/source tie: it parses the anchored Go files of
// /repo with go/parser and regenerates FurikoModel/Generated/Facts.lean (finite tables and
// constants the Lean model and theorems consume).  It recognises only rigid syntactic shapes
// and fails loudly when one is no longer found.
package main

import (
	"encoding/json"
	"flag"
	"fmt"
	"go/ast"
	"go/parser"
	"go/token"
	"os"
	"path/filepath"
	"sort"
	"strconv"
	"strings"
)

var (
	repo  string
	fails []string
	fset  = token.NewFileSet()
	files = map[string]*ast.File{}
)

func failf(format string, a ...interface{}) { fails = append(fails, fmt.Sprintf(format, a...)) }

func parse(rel string) *ast.File {
	if f, ok := files[rel]; ok {
		return f
	}
	f, err := parser.ParseFile(fset, filepath.Join(repo, rel), nil, parser.ParseComments)
	if err != nil {
		failf("cannot parse %s: %v", rel, err)
		files[rel] = nil
		return nil
	}
	files[rel] = f
	return f
}

// constInt finds `name = <int literal | time.Second | a * b>` in const/var decls of a file.
func constExpr(rel, name string) ast.Expr {
	f := parse(rel)
	if f == nil {
		return nil
	}
	var found ast.Expr
	ast.Inspect(f, func(n ast.Node) bool {
		vs, ok := n.(*ast.ValueSpec)
		if !ok {
			return true
		}
		for i, id := range vs.Names {
			if id.Name == name && i < len(vs.Values) {
				found = vs.Values[i]
			}
		}
		return true
	})
	if found == nil {
		failf("%s: constant %s not found", rel, name)
	}
	return found
}

func intLit(e ast.Expr, what string) int64 {
	switch x := e.(type) {
	case *ast.BasicLit:
		if x.Kind == token.INT {
			v, err := strconv.ParseInt(strings.ReplaceAll(x.Value, "_", ""), 0, 64)
			if err == nil {
				return v
			}
		}
	case *ast.UnaryExpr:
		if x.Op == token.SUB {
			return -intLit(x.X, what)
		}
	case *ast.ParenExpr:
		return intLit(x.X, what)
	}
	failf("%s: not an integer literal", what)
	return 0
}

func strLit(e ast.Expr, what string) string {
	if x, ok := e.(*ast.BasicLit); ok && x.Kind == token.STRING {
		s, err := strconv.Unquote(x.Value)
		if err == nil {
			return s
		}
	}
	failf("%s: not a string literal", what)
	return ""
}

func funcDecl(rel, recv, name string) *ast.FuncDecl {
	f := parse(rel)
	if f == nil {
		return nil
	}
	for _, d := range f.Decls {
		fd, ok := d.(*ast.FuncDecl)
		if !ok || fd.Name.Name != name {
			continue
		}
		r := ""
		if fd.Recv != nil && len(fd.Recv.List) == 1 {
			switch t := fd.Recv.List[0].Type.(type) {
			case *ast.StarExpr:
				if id, ok := t.X.(*ast.Ident); ok {
					r = id.Name
				}
			case *ast.Ident:
				r = t.Name
			}
		}
		if r == recv {
			return fd
		}
	}
	failf("%s: func (%s) %s not found", rel, recv, name)
	return nil
}

// handlerRegistrations returns, for every cache.ResourceEventHandlerFuncs literal in the
// file (in source order), which of AddFunc/UpdateFunc/DeleteFunc are set.
func handlerRegistrations(rel string) [][3]bool {
	f := parse(rel)
	if f == nil {
		return nil
	}
	var out [][3]bool
	ast.Inspect(f, func(n ast.Node) bool {
		cl, ok := n.(*ast.CompositeLit)
		if !ok {
			return true
		}
		sel, ok := cl.Type.(*ast.SelectorExpr)
		if !ok || sel.Sel.Name != "ResourceEventHandlerFuncs" {
			return true
		}
		var r [3]bool
		for _, el := range cl.Elts {
			kv, ok := el.(*ast.KeyValueExpr)
			if !ok {
				continue
			}
			if id, ok := kv.Key.(*ast.Ident); ok {
				switch id.Name {
				case "AddFunc":
					r[0] = true
				case "UpdateFunc":
					r[1] = true
				case "DeleteFunc":
					r[2] = true
				}
			}
		}
		out = append(out, r)
		return true
	})
	if len(out) == 0 {
		failf("%s: no cache.ResourceEventHandlerFuncs literal found", rel)
	}
	return out
}

// returnInt: the function body is exactly `return <int>`.
func returnInt(rel, recv, name string) int64 {
	fd := funcDecl(rel, recv, name)
	if fd == nil || fd.Body == nil || len(fd.Body.List) != 1 {
		failf("%s: %s.%s is not a single return", rel, recv, name)
		return 0
	}
	rs, ok := fd.Body.List[0].(*ast.ReturnStmt)
	if !ok || len(rs.Results) != 1 {
		failf("%s: %s.%s is not a single return", rel, recv, name)
		return 0
	}
	return intLit(rs.Results[0], rel+":"+name)
}

// switchCases: for a func whose body contains a switch on an expression, returns for each
// case clause the list of case identifiers and the returned identifier/literal (if the clause
// body is a single return) or "fallthrough"/"".
type caseClause struct {
	Labels []string
	Result string
}

func exprName(e ast.Expr) string {
	switch x := e.(type) {
	case *ast.Ident:
		return x.Name
	case *ast.SelectorExpr:
		return x.Sel.Name
	case *ast.BasicLit:
		return x.Value
	}
	return "?"
}

func firstSwitch(fd *ast.FuncDecl) *ast.SwitchStmt {
	var sw *ast.SwitchStmt
	ast.Inspect(fd, func(n ast.Node) bool {
		if s, ok := n.(*ast.SwitchStmt); ok && sw == nil {
			sw = s
		}
		return sw == nil
	})
	return sw
}

func switchCases(rel, recv, name string) []caseClause {
	fd := funcDecl(rel, recv, name)
	if fd == nil {
		return nil
	}
	sw := firstSwitch(fd)
	if sw == nil {
		failf("%s: no switch in %s", rel, name)
		return nil
	}
	var out []caseClause
	for _, st := range sw.Body.List {
		cc := st.(*ast.CaseClause)
		c := caseClause{}
		if cc.List == nil {
			c.Labels = []string{"default"}
		}
		for _, l := range cc.List {
			c.Labels = append(c.Labels, exprName(l))
		}
		if len(cc.Body) == 1 {
			switch b := cc.Body[0].(type) {
			case *ast.ReturnStmt:
				if len(b.Results) == 1 {
					c.Result = exprName(b.Results[0])
				}
			case *ast.BranchStmt:
				c.Result = "fallthrough"
			}
		}
		out = append(out, c)
	}
	return out
}

// stringConsts returns name -> value for all string constants of the given type in a file.
func typedStringConsts(rel, typ string) map[string]string {
	f := parse(rel)
	out := map[string]string{}
	if f == nil {
		return out
	}
	ast.Inspect(f, func(n ast.Node) bool {
		vs, ok := n.(*ast.ValueSpec)
		if !ok {
			return true
		}
		if id, ok := vs.Type.(*ast.Ident); ok && id.Name == typ {
			for i, nm := range vs.Names {
				if i < len(vs.Values) {
					if bl, ok := vs.Values[i].(*ast.BasicLit); ok && bl.Kind == token.STRING {
						s, _ := strconv.Unquote(bl.Value)
						out[nm.Name] = s
					}
				}
			}
		}
		return true
	})
	if len(out) == 0 {
		failf("%s: no constants of type %s", rel, typ)
	}
	return out
}

// forCondLimit finds `for <ident> < N` in a function and returns N.
func forCondLimit(rel, recv, name, ident string) int64 {
	fd := funcDecl(rel, recv, name)
	if fd == nil {
		return 0
	}
	var v int64 = -1
	ast.Inspect(fd, func(n ast.Node) bool {
		fs, ok := n.(*ast.ForStmt)
		if !ok || fs.Cond == nil {
			return true
		}
		be, ok := fs.Cond.(*ast.BinaryExpr)
		if !ok || be.Op != token.LSS {
			return true
		}
		if id, ok := be.X.(*ast.Ident); ok && id.Name == ident {
			v = intLit(be.Y, rel+":"+name+" loop bound")
		}
		return true
	})
	if v < 0 {
		failf("%s: %s: loop `for %s < N` not found", rel, name, ident)
	}
	return v
}

type facts struct {
	DefaultCronTimezone           string
	DefaultCronMaxDowntimeSeconds int64
	DefaultCronMaxMissedSchedules int64
	CronFlushLimit                int64
	CronUpdatedConfigsBuffer      int64
	CronHandlers                  [3]bool // add, update, delete on the JobConfig informer
	MaxRequeues                   map[string]int64
	TerminalPhases                []string
	NonTerminalPhases             []string
	PhaseValues                   map[string]string
	ResultToPhase                 [][2]string // result const -> phase const (GetPhase head switch)
	ResultDefaultPhase            string
	ResultValues                  map[string]string
	Config                        *configFacts
	Options                       optionsFacts
}

func leanStr(s string) string { return strconv.Quote(s) }

func main() {
	leanOut := flag.String("lean", "", "output Facts.lean")
	jsonOut := flag.String("json", "", "output facts.json")
	flag.StringVar(&repo, "repo", "/repo", "repository root")
	flag.Parse()

	var f facts
	f.DefaultCronTimezone = strLit(constExpr("pkg/config/defaults.go", "DefaultCronTimezone"), "DefaultCronTimezone")
	f.DefaultCronMaxDowntimeSeconds = intLit(constExpr("pkg/config/defaults.go", "DefaultCronMaxDowntimeThresholdSeconds"), "DefaultCronMaxDowntimeThresholdSeconds")
	f.DefaultCronMaxMissedSchedules = intLit(constExpr("pkg/config/defaults.go", "DefaultCronMaxMissedSchedules"), "DefaultCronMaxMissedSchedules")
	f.CronFlushLimit = forCondLimit("pkg/execution/controllers/croncontroller/cron_worker.go", "CronWorker", "refreshUpdatedJobConfigs", "flushes")
	f.CronUpdatedConfigsBuffer = intLit(constExpr("pkg/execution/controllers/croncontroller/controller.go", "updatedConfigsBufferSize"), "updatedConfigsBufferSize")
	if regs := handlerRegistrations("pkg/execution/controllers/croncontroller/informer.go"); len(regs) == 1 {
		f.CronHandlers = regs[0]
	} else if regs != nil {
		failf("croncontroller/informer.go: expected exactly one handler registration, found %d", len(regs))
	}
	f.MaxRequeues = map[string]int64{
		"cron":        returnInt("pkg/execution/controllers/croncontroller/reconciler.go", "Reconciler", "MaxRequeues"),
		"job":         returnInt("pkg/execution/controllers/jobcontroller/reconciler.go", "Reconciler", "MaxRequeues"),
		"jobconfig":   returnInt("pkg/execution/controllers/jobconfigcontroller/reconciler.go", "Reconciler", "MaxRequeues"),
		"queueConfig": returnInt("pkg/execution/controllers/jobqueuecontroller/reconciler_perjobconfig.go", "PerConfigReconciler", "MaxRequeues"),
		"queueIndep":  returnInt("pkg/execution/controllers/jobqueuecontroller/reconciler_independent.go", "IndependentReconciler", "MaxRequeues"),
	}
	// JobPhase.IsTerminal
	f.PhaseValues = typedStringConsts("apis/execution/v1alpha1/job_types.go", "JobPhase")
	f.ResultValues = typedStringConsts("apis/execution/v1alpha1/job_types.go", "JobResult")
	cases := switchCases("apis/execution/v1alpha1/job_types.go", "JobPhase", "IsTerminal")
	pendingFallthrough := []string{}
	for _, c := range cases {
		switch c.Result {
		case "true":
			f.TerminalPhases = append(f.TerminalPhases, c.Labels...)
		case "false":
			for _, l := range append(pendingFallthrough, c.Labels...) {
				if l != "default" {
					f.NonTerminalPhases = append(f.NonTerminalPhases, l)
				}
			}
			pendingFallthrough = nil
		case "fallthrough":
			pendingFallthrough = append(pendingFallthrough, c.Labels...)
		default:
			failf("JobPhase.IsTerminal: unrecognised case body for %v", c.Labels)
		}
	}
	// GetPhase: the switch on Finished.Result
	for _, c := range switchCases("pkg/execution/util/job/phase.go", "", "GetPhase") {
		if len(c.Labels) == 1 && c.Labels[0] == "default" {
			f.ResultDefaultPhase = c.Result
			continue
		}
		for _, l := range c.Labels {
			f.ResultToPhase = append(f.ResultToPhase, [2]string{l, c.Result})
		}
	}
	if f.ResultDefaultPhase == "" {
		failf("GetPhase: default case of the result switch not found")
	}

	f.Config = extractConfig()
	f.Options = extractOptionsFacts()

	if len(fails) > 0 {
		for _, m := range fails {
			fmt.Fprintln(os.Stderr, "extract:", m)
		}
		os.Exit(1)
	}

	var b strings.Builder
	b.WriteString("/- GENERATED by harness/cmd/extract from /repo's working tree on every run. Do not edit. -/\n")
	b.WriteString("namespace Furiko.Facts\n\n")
	fmt.Fprintf(&b, "def defaultCronTimezone : String := %s\n", leanStr(f.DefaultCronTimezone))
	fmt.Fprintf(&b, "def defaultCronMaxDowntimeSeconds : Int := %d\n", f.DefaultCronMaxDowntimeSeconds)
	fmt.Fprintf(&b, "def defaultCronMaxMissedSchedules : Int := %d\n", f.DefaultCronMaxMissedSchedules)
	fmt.Fprintf(&b, "def cronFlushLimit : Nat := %d\n", f.CronFlushLimit)
	fmt.Fprintf(&b, "def cronUpdatedConfigsBuffer : Nat := %d\n", f.CronUpdatedConfigsBuffer)
	fmt.Fprintf(&b, "/-- croncontroller InformerWorker.Init registers AddFunc / UpdateFunc / DeleteFunc -/\n")
	fmt.Fprintf(&b, "def cronHandlerAdd : Bool := %v\ndef cronHandlerUpdate : Bool := %v\ndef cronHandlerDelete : Bool := %v\n", f.CronHandlers[0], f.CronHandlers[1], f.CronHandlers[2])
	keys := make([]string, 0)
	for k := range f.MaxRequeues {
		keys = append(keys, k)
	}
	sort.Strings(keys)
	b.WriteString("/-- `MaxRequeues()` of every reconciler -/\ndef maxRequeues : List (String × Int) := [")
	for i, k := range keys {
		if i > 0 {
			b.WriteString(", ")
		}
		fmt.Fprintf(&b, "(%s, %d)", leanStr(k), f.MaxRequeues[k])
	}
	b.WriteString("]\n")
	ls := func(xs []string, vals map[string]string) string {
		var parts []string
		for _, x := range xs {
			v, ok := vals[x]
			if !ok {
				failf("constant %s has no string value", x)
			}
			parts = append(parts, leanStr(v))
		}
		return "[" + strings.Join(parts, ", ") + "]"
	}
	fmt.Fprintf(&b, "/-- `JobPhase.IsTerminal` returns true exactly for these phase values -/\ndef terminalPhases : List String := %s\n", ls(f.TerminalPhases, f.PhaseValues))
	fmt.Fprintf(&b, "def nonTerminalPhases : List String := %s\n", ls(f.NonTerminalPhases, f.PhaseValues))
	var allPhases []string
	for k := range f.PhaseValues {
		allPhases = append(allPhases, k)
	}
	sort.Strings(allPhases)
	fmt.Fprintf(&b, "def allPhases : List String := %s\n", ls(allPhases, f.PhaseValues))
	b.WriteString("/-- head switch of `job.GetPhase`: finished result value ↦ phase value -/\ndef resultToPhase : List (String × String) := [")
	for i, p := range f.ResultToPhase {
		if i > 0 {
			b.WriteString(", ")
		}
		fmt.Fprintf(&b, "(%s, %s)", leanStr(f.ResultValues[p[0]]), leanStr(f.PhaseValues[p[1]]))
	}
	b.WriteString("]\n")
	fmt.Fprintf(&b, "def resultDefaultPhase : String := %s\n", leanStr(f.PhaseValues[f.ResultDefaultPhase]))
	var allResults []string
	for k := range f.ResultValues {
		allResults = append(allResults, k)
	}
	sort.Strings(allResults)
	fmt.Fprintf(&b, "def allResults : List String := %s\n", ls(allResults, f.ResultValues))
	cronrecFacts(&b) // C02 facts (cronrec.go)
	jcstatusFacts(&b) // C15 facts (jcstatus.go)
	taskfnFacts(&b)
	retryFacts(&b) // C20 facts (retry_facts.go)
	validationFacts(&b) // C17 facts (validation_facts.go)
	mutationFacts(&b) // C16 facts (mutation_facts.go)
	f.Config.emit(&b)
	writeOptionsFacts(&b, f.Options)
	b.WriteString("\nend Furiko.Facts\n")
	if len(fails) > 0 {
		for _, m := range fails {
			fmt.Fprintln(os.Stderr, "extract:", m)
		}
		os.Exit(1)
	}
	if *leanOut != "" {
		if err := os.WriteFile(*leanOut, []byte(b.String()), 0o644); err != nil {
			fmt.Fprintln(os.Stderr, err)
			os.Exit(1)
		}
	}
	if *jsonOut != "" {
		js, _ := json.MarshalIndent(f, "", " ")
		_ = os.WriteFile(*jsonOut, js, 0o644)
	}
}
