// extract is the translator part of the model/source tie: it parses the anchored Go files of
// /repo with go/parser and regenerates FurikoModel/Generated/Facts.lean (finite tables and
// constants the Lean model and theorems consume).  It is strict about what the recognised code
// does and tolerant about how it is written (norm.go); a shape that is no longer recognised is a
// loud failure of the named section the fact belongs to (sections.go), reported in the status
// file; the process exits non-zero only for I/O errors.
package main

import (
	"encoding/json"
	"flag"
	"fmt"
	"go/ast"
	"go/parser"
	"go/token"
	"os"
	"path/filepath"
	"sort"
	"strconv"
	"strings"
)

var (
	repo      string
	fset      = token.NewFileSet()
	files     = map[string]*ast.File{}
	parseErrs = map[string]error{}
)

// parse is cached; a file that does not parse fails every section that reads it.
func parse(rel string) *ast.File {
	if f, ok := files[rel]; ok {
		if f == nil {
			failf("cannot parse %s: %v", rel, parseErrs[rel])
		}
		return f
	}
	f, err := parser.ParseFile(fset, filepath.Join(repo, rel), nil, parser.ParseComments)
	if err != nil {
		failf("cannot parse %s: %v", rel, err)
		files[rel] = nil
		parseErrs[rel] = err
		return nil
	}
	files[rel] = f
	return f
}

// constInt finds `name = <int literal | time.Second | a * b>` in const/var decls of a file.
func constExpr(rel, name string) ast.Expr {
	f := parse(rel)
	if f == nil {
		return nil
	}
	var found ast.Expr
	ast.Inspect(f, func(n ast.Node) bool {
		vs, ok := n.(*ast.ValueSpec)
		if !ok {
			return true
		}
		for i, id := range vs.Names {
			if id.Name == name && i < len(vs.Values) {
				found = vs.Values[i]
			}
		}
		return true
	})
	if found == nil {
		failf("%s: constant %s not found", rel, name)
	}
	return found
}

func intLit(e ast.Expr, what string) int64 {
	switch x := e.(type) {
	case *ast.BasicLit:
		if x.Kind == token.INT {
			v, err := strconv.ParseInt(strings.ReplaceAll(x.Value, "_", ""), 0, 64)
			if err == nil {
				return v
			}
		}
	case *ast.UnaryExpr:
		if x.Op == token.SUB {
			return -intLit(x.X, what)
		}
	case *ast.ParenExpr:
		return intLit(x.X, what)
	}
	failf("%s: not an integer literal", what)
	return 0
}

func strLit(e ast.Expr, what string) string {
	if x, ok := e.(*ast.BasicLit); ok && x.Kind == token.STRING {
		s, err := strconv.Unquote(x.Value)
		if err == nil {
			return s
		}
	}
	failf("%s: not a string literal", what)
	return ""
}

func funcDecl(rel, recv, name string) *ast.FuncDecl {
	f := parse(rel)
	if f == nil {
		return nil
	}
	for _, d := range f.Decls {
		fd, ok := d.(*ast.FuncDecl)
		if !ok || fd.Name.Name != name {
			continue
		}
		r := ""
		if fd.Recv != nil && len(fd.Recv.List) == 1 {
			switch t := fd.Recv.List[0].Type.(type) {
			case *ast.StarExpr:
				if id, ok := t.X.(*ast.Ident); ok {
					r = id.Name
				}
			case *ast.Ident:
				r = t.Name
			}
		}
		if r == recv {
			return fd
		}
	}
	failf("%s: func (%s) %s not found", rel, recv, name)
	return nil
}

// handlerRegistrations returns, for every cache.ResourceEventHandlerFuncs literal in the
// file (in source order), which of AddFunc/UpdateFunc/DeleteFunc are set.
func handlerRegistrations(rel string) [][3]bool {
	f := parse(rel)
	if f == nil {
		return nil
	}
	var out [][3]bool
	ast.Inspect(f, func(n ast.Node) bool {
		cl, ok := n.(*ast.CompositeLit)
		if !ok {
			return true
		}
		sel, ok := cl.Type.(*ast.SelectorExpr)
		if !ok || sel.Sel.Name != "ResourceEventHandlerFuncs" {
			return true
		}
		var r [3]bool
		for _, el := range cl.Elts {
			kv, ok := el.(*ast.KeyValueExpr)
			if !ok {
				continue
			}
			if id, ok := kv.Key.(*ast.Ident); ok {
				switch id.Name {
				case "AddFunc":
					r[0] = true
				case "UpdateFunc":
					r[1] = true
				case "DeleteFunc":
					r[2] = true
				}
			}
		}
		out = append(out, r)
		return true
	})
	if len(out) == 0 {
		failf("%s: no cache.ResourceEventHandlerFuncs literal found", rel)
	}
	return out
}

// returnInt: the function body is exactly `return <int>`.
func returnInt(rel, recv, name string) int64 {
	fd := funcDecl(rel, recv, name)
	if fd == nil || fd.Body == nil || len(fd.Body.List) != 1 {
		failf("%s: %s.%s is not a single return", rel, recv, name)
		return 0
	}
	rs, ok := fd.Body.List[0].(*ast.ReturnStmt)
	if !ok || len(rs.Results) != 1 {
		failf("%s: %s.%s is not a single return", rel, recv, name)
		return 0
	}
	return intLit(rs.Results[0], rel+":"+name)
}

func exprName(e ast.Expr) string {
	switch x := e.(type) {
	case *ast.Ident:
		return x.Name
	case *ast.SelectorExpr:
		return x.Sel.Name
	case *ast.BasicLit:
		return x.Value
	}
	return "?"
}

// stringConsts returns name -> value for all string constants of the given type in a file.
func typedStringConsts(rel, typ string) map[string]string {
	f := parse(rel)
	out := map[string]string{}
	if f == nil {
		return out
	}
	ast.Inspect(f, func(n ast.Node) bool {
		vs, ok := n.(*ast.ValueSpec)
		if !ok {
			return true
		}
		if id, ok := vs.Type.(*ast.Ident); ok && id.Name == typ {
			for i, nm := range vs.Names {
				if i < len(vs.Values) {
					if bl, ok := vs.Values[i].(*ast.BasicLit); ok && bl.Kind == token.STRING {
						s, _ := strconv.Unquote(bl.Value)
						out[nm.Name] = s
					}
				}
			}
		}
		return true
	})
	if len(out) == 0 {
		failf("%s: no constants of type %s", rel, typ)
	}
	return out
}

// forCondLimit finds `for <ident> < N` in a function and returns N.
func forCondLimit(rel, recv, name, ident string) int64 {
	fd := funcDecl(rel, recv, name)
	if fd == nil {
		return 0
	}
	var v int64 = -1
	ast.Inspect(fd, func(n ast.Node) bool {
		fs, ok := n.(*ast.ForStmt)
		if !ok || fs.Cond == nil {
			return true
		}
		be, ok := fs.Cond.(*ast.BinaryExpr)
		if !ok || be.Op != token.LSS {
			return true
		}
		if id, ok := be.X.(*ast.Ident); ok && id.Name == ident {
			v = intLit(be.Y, rel+":"+name+" loop bound")
		}
		return true
	})
	if v < 0 {
		failf("%s: %s: loop `for %s < N` not found", rel, name, ident)
	}
	return v
}

type facts struct {
	DefaultCronTimezone           string
	DefaultCronMaxDowntimeSeconds int64
	DefaultCronMaxMissedSchedules int64
	CronFlushLimit                int64
	CronUpdatedConfigsBuffer      int64
	CronHandlers                  [3]bool // add, update, delete on the JobConfig informer
	MaxRequeues                   map[string]int64
	TerminalPhases                []string
	NonTerminalPhases             []string
	PhaseValues                   map[string]string
	ResultToPhase                 [][2]string // result const -> phase const (GetPhase head switch)
	ResultDefaultPhase            string
	ResultValues                  map[string]string
	Config                        *configFacts
	Options                       optionsFacts
}

func leanStr(s string) string { return strconv.Quote(s) }

const phaseFile = "pkg/execution/util/job/phase.go"

// isTerminalFacts: JobPhase.IsTerminal as a decision list on the receiver: which phase
// constants return true, which are listed explicitly as returning false; everything else (the
// default) must return false.
func isTerminalFacts(f *facts) {
	fd := funcDecl(jobTypesFile, "JobPhase", "IsTerminal")
	if fd == nil || fd.Body == nil {
		return
	}
	ds, term, err := decisionList(fd.Body.List)
	if err != nil {
		failf("JobPhase.IsTerminal: %v", err)
		return
	}
	if !term {
		failf("JobPhase.IsTerminal: does not end in an unconditional return")
		return
	}
	isRecv := isIdentNamed(recvVar(fd))
	for i, d := range ds {
		res, ok := singleResult(d)
		if !ok || (res != "true" && res != "false") {
			failf("JobPhase.IsTerminal: unrecognised case body for %s", pathText(d.Path))
			continue
		}
		if len(d.Path) == 0 {
			if i != len(ds)-1 || res != "false" {
				failf("JobPhase.IsTerminal: the default does not return false")
			}
			continue
		}
		if len(d.Path) != 1 || d.Path[0].Init != nil {
			failf("JobPhase.IsTerminal: nested guard %s", pathText(d.Path))
			continue
		}
		for _, g := range d.Path[0].Disj {
			_, label, ok := eqLabel(g, isRecv)
			if !ok {
				failf("JobPhase.IsTerminal: guard `%s` is not a comparison of the receiver with a phase constant", printNode(g))
				continue
			}
			if res == "true" {
				f.TerminalPhases = append(f.TerminalPhases, exprName(label))
			} else {
				f.NonTerminalPhases = append(f.NonTerminalPhases, exprName(label))
			}
		}
	}
}

// resultToPhaseFacts: the head of job.GetPhase, a chain on `<…>.Finished.Result` whose arms
// return phase constants, with a default.
func resultToPhaseFacts(f *facts) {
	fd := funcDecl(phaseFile, "", "GetPhase")
	if fd == nil || fd.Body == nil {
		return
	}
	isResultTag := func(e ast.Expr) bool {
		sel, ok := e.(*ast.SelectorExpr)
		if !ok || sel.Sel.Name != "Result" {
			return false
		}
		inner, ok := sel.X.(*ast.SelectorExpr)
		return ok && inner.Sel.Name == "Finished"
	}
	list, idx := findChain(fd.Body.List, func(ch *chain) bool {
		if len(ch.Arms) == 0 || len(ch.Arms[0].Disj) == 0 {
			return false
		}
		_, _, ok := eqLabel(ch.Arms[0].Disj[0], isResultTag)
		return ok
	})
	if list == nil {
		failf("%s: no switch / if chain on Finished.Result in GetPhase", phaseFile)
		return
	}
	ds, term, err := decisionList(list[idx:])
	if err != nil {
		failf("GetPhase: result chain: %v", err)
		return
	}
	if !term {
		failf("GetPhase: default case of the result switch not found")
		return
	}
	tagText := ""
	for i, d := range ds {
		res, ok := singleResult(d)
		if !ok {
			failf("GetPhase: result chain: arm %s is not a single return of a constant", pathText(d.Path))
			continue
		}
		if len(d.Path) == 0 {
			if i != len(ds)-1 {
				failf("GetPhase: result chain: default is not last")
			}
			f.ResultDefaultPhase = res
			continue
		}
		if len(d.Path) != 1 || d.Path[0].Init != nil {
			failf("GetPhase: result chain: nested guard %s", pathText(d.Path))
			continue
		}
		for _, g := range d.Path[0].Disj {
			tag, label, ok := eqLabel(g, isResultTag)
			if !ok {
				failf("GetPhase: result chain: guard `%s` is not on Finished.Result", printNode(g))
				continue
			}
			if t := printNode(tag); tagText == "" {
				tagText = t
			} else if t != tagText {
				failf("GetPhase: result chain compares different expressions (%s, %s)", tagText, t)
			}
			f.ResultToPhase = append(f.ResultToPhase, [2]string{exprName(label), res})
		}
	}
	if f.ResultDefaultPhase == "" {
		failf("GetPhase: default case of the result switch not found")
	}
}

func coreFacts(b *strings.Builder, f *facts) {
	section("cron-constants", func() {
		f.DefaultCronTimezone = strLit(constExpr("pkg/config/defaults.go", "DefaultCronTimezone"), "DefaultCronTimezone")
		f.DefaultCronMaxDowntimeSeconds = intLit(constExpr("pkg/config/defaults.go", "DefaultCronMaxDowntimeThresholdSeconds"), "DefaultCronMaxDowntimeThresholdSeconds")
		f.DefaultCronMaxMissedSchedules = intLit(constExpr("pkg/config/defaults.go", "DefaultCronMaxMissedSchedules"), "DefaultCronMaxMissedSchedules")
		f.CronFlushLimit = forCondLimit("pkg/execution/controllers/croncontroller/cron_worker.go", "CronWorker", "refreshUpdatedJobConfigs", "flushes")
		f.CronUpdatedConfigsBuffer = intLit(constExpr("pkg/execution/controllers/croncontroller/controller.go", "updatedConfigsBufferSize"), "updatedConfigsBufferSize")
	})
	section("cron-handlers", func() {
		if regs := handlerRegistrations("pkg/execution/controllers/croncontroller/informer.go"); len(regs) == 1 {
			f.CronHandlers = regs[0]
		} else if regs != nil {
			failf("croncontroller/informer.go: expected exactly one handler registration, found %d", len(regs))
		}
	})
	f.MaxRequeues = map[string]int64{}
	section("max-requeues", func() {
		for _, r := range [][3]string{
			{"cron", "pkg/execution/controllers/croncontroller/reconciler.go", "Reconciler"},
			{"job", "pkg/execution/controllers/jobcontroller/reconciler.go", "Reconciler"},
			{"jobconfig", "pkg/execution/controllers/jobconfigcontroller/reconciler.go", "Reconciler"},
			{"queueConfig", "pkg/execution/controllers/jobqueuecontroller/reconciler_perjobconfig.go", "PerConfigReconciler"},
			{"queueIndep", "pkg/execution/controllers/jobqueuecontroller/reconciler_independent.go", "IndependentReconciler"},
		} {
			f.MaxRequeues[r[0]] = returnInt(r[1], r[2], "MaxRequeues")
		}
	})
	section("phases", func() {
		f.PhaseValues = typedStringConsts(jobTypesFile, "JobPhase")
		isTerminalFacts(f)
	})
	var resPhaseValues map[string]string
	section("result-to-phase", func() {
		resPhaseValues = typedStringConsts(jobTypesFile, "JobPhase")
		f.ResultValues = typedStringConsts(jobTypesFile, "JobResult")
		resultToPhaseFacts(f)
	})

	emit(b, "cron-constants", func(b *strings.Builder) {
		fmt.Fprintf(b, "def defaultCronTimezone : String := %s\n", leanStr(f.DefaultCronTimezone))
		fmt.Fprintf(b, "def defaultCronMaxDowntimeSeconds : Int := %d\n", f.DefaultCronMaxDowntimeSeconds)
		fmt.Fprintf(b, "def defaultCronMaxMissedSchedules : Int := %d\n", f.DefaultCronMaxMissedSchedules)
		fmt.Fprintf(b, "def cronFlushLimit : Nat := %s\n", natLit(f.CronFlushLimit, "cronFlushLimit"))
		fmt.Fprintf(b, "def cronUpdatedConfigsBuffer : Nat := %s\n", natLit(f.CronUpdatedConfigsBuffer, "cronUpdatedConfigsBuffer"))
	})
	emit(b, "cron-handlers", func(b *strings.Builder) {
		fmt.Fprintf(b, "/-- croncontroller InformerWorker.Init registers AddFunc / UpdateFunc / DeleteFunc -/\n")
		fmt.Fprintf(b, "def cronHandlerAdd : Bool := %v\ndef cronHandlerUpdate : Bool := %v\ndef cronHandlerDelete : Bool := %v\n", f.CronHandlers[0], f.CronHandlers[1], f.CronHandlers[2])
	})
	emit(b, "max-requeues", func(b *strings.Builder) {
		keys := make([]string, 0)
		for k := range f.MaxRequeues {
			keys = append(keys, k)
		}
		sort.Strings(keys)
		b.WriteString("/-- `MaxRequeues()` of every reconciler -/\ndef maxRequeues : List (String × Int) := [")
		for i, k := range keys {
			if i > 0 {
				b.WriteString(", ")
			}
			fmt.Fprintf(b, "(%s, %d)", leanStr(k), f.MaxRequeues[k])
		}
		b.WriteString("]\n")
	})
	need := func(vals map[string]string, x string) string {
		v, ok := vals[x]
		if !ok {
			failf("constant %s has no string value", x)
		}
		return v
	}
	ls := func(xs []string, vals map[string]string) string {
		var parts []string
		for _, x := range xs {
			parts = append(parts, leanStr(need(vals, x)))
		}
		return "[" + strings.Join(parts, ", ") + "]"
	}
	sortedKeys := func(m map[string]string) []string {
		var ks []string
		for k := range m {
			ks = append(ks, k)
		}
		sort.Strings(ks)
		return ks
	}
	emit(b, "phases", func(b *strings.Builder) {
		fmt.Fprintf(b, "/-- `JobPhase.IsTerminal` returns true exactly for these phase values -/\ndef terminalPhases : List String := %s\n", ls(f.TerminalPhases, f.PhaseValues))
		fmt.Fprintf(b, "def nonTerminalPhases : List String := %s\n", ls(f.NonTerminalPhases, f.PhaseValues))
		fmt.Fprintf(b, "def allPhases : List String := %s\n", ls(sortedKeys(f.PhaseValues), f.PhaseValues))
	})
	emit(b, "result-to-phase", func(b *strings.Builder) {
		b.WriteString("/-- head switch of `job.GetPhase`: finished result value ↦ phase value -/\ndef resultToPhase : List (String × String) := [")
		for i, p := range f.ResultToPhase {
			if i > 0 {
				b.WriteString(", ")
			}
			fmt.Fprintf(b, "(%s, %s)", leanStr(need(f.ResultValues, p[0])), leanStr(need(resPhaseValues, p[1])))
		}
		b.WriteString("]\n")
		dflt := ""
		if f.ResultDefaultPhase != "" {
			dflt = need(resPhaseValues, f.ResultDefaultPhase)
		}
		fmt.Fprintf(b, "def resultDefaultPhase : String := %s\n", leanStr(dflt))
		fmt.Fprintf(b, "def allResults : List String := %s\n", ls(sortedKeys(f.ResultValues), f.ResultValues))
	})
}

func main() {
	leanOut := flag.String("lean", "", "output Facts.lean")
	jsonOut := flag.String("json", "", "output facts.json")
	statusOut := flag.String("status", "", "output status JSON: sections, their defs, failed sections")
	flag.StringVar(&repo, "repo", "/repo", "repository root")
	flag.Parse()

	var f facts
	var b strings.Builder
	b.WriteString("/- GENERATED by harness/cmd/extract from /repo's working tree on every run. Do not edit. -/\n")
	b.WriteString("namespace Furiko.Facts\n\n")
	coreFacts(&b, &f)
	cronrecFacts(&b)     // C02 facts (cronrec.go)
	cronLoadedFacts(&b)  // F24 facts (cron_loaded.go)
	pendingRefFacts(&b)  // F32 facts (jobctl_pending.go)
	statusWriteFacts(&b) // F31 fact (jobctl_writes.go)
	finishTimeFacts(&b)  // F30 fact (jobctl_finish.go)
	hashIndexFacts(&b)   // C14 fact (hash_facts.go)
	copiesFacts(&b)      // C14 C16 fact (copies_facts.go)
	jcstatusFacts(&b)    // C15 facts (jcstatus.go)
	taskfnFacts(&b)      // C08 C10 C11 C12 facts (taskfn_facts.go)
	retryFacts(&b)       // C20 facts (retry_facts.go)
	validationFacts(&b)  // C17 facts (validation_facts.go)
	mutationFacts(&b)    // C16 facts (mutation_facts.go)
	f.Config = configSectionFacts(&b)
	f.Options = optionsSectionFacts(&b)
	b.WriteString("\nend Furiko.Facts\n")

	st := buildStatus()
	for _, fs := range st.Failed {
		for _, m := range fs.Msgs {
			fmt.Fprintf(os.Stderr, "extract: [%s] %s\n", fs.Section, m)
		}
	}
	ioErr := false
	if *leanOut != "" {
		if err := os.WriteFile(*leanOut, []byte(b.String()), 0o644); err != nil {
			fmt.Fprintln(os.Stderr, err)
			ioErr = true
		}
	}
	if *jsonOut != "" {
		js, _ := json.MarshalIndent(f, "", " ")
		if err := os.WriteFile(*jsonOut, js, 0o644); err != nil {
			fmt.Fprintln(os.Stderr, err)
			ioErr = true
		}
	}
	if *statusOut != "" {
		if err := writeStatus(*statusOut, st); err != nil {
			fmt.Fprintln(os.Stderr, err)
			ioErr = true
		}
	}
	if ioErr {
		os.Exit(1)
	}
}
