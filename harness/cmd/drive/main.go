// drive runs one correspondence engine against the real furiko code and writes
// <out>/<engine>.ops, <out>/<engine>.impl and <out>/<engine>.stats.json.
package main

import (
	"flag"
	"fmt"
	"io"
	"os"

	"k8s.io/klog/v2"

	"verifharness/eng"
)

func main() {
	engine := flag.String("engine", "", "engine name")
	seed := flag.Int64("seed", 1, "PRNG seed")
	n := flag.Int("n", 100, "generated cases")
	tier := flag.String("tier", "quick", "quick|thorough")
	out := flag.String("out", "", "output directory")
	only := flag.Int("case", -1, "run only this case index")
	scenario := flag.String("scenario", "", "run only this corpus scenario")
	flag.Parse()
	kfs := flag.NewFlagSet("klog", flag.ContinueOnError)
	klog.InitFlags(kfs)
	_ = kfs.Set("logtostderr", "false")
	_ = kfs.Set("alsologtostderr", "false")
	_ = kfs.Set("stderrthreshold", "FATAL")
	klog.SetOutput(io.Discard)
	e, ok := eng.Engines[*engine]
	if !ok {
		fmt.Fprintf(os.Stderr, "unknown engine %q\n", *engine)
		os.Exit(2)
	}
	c, err := eng.NewCtx(*engine, *seed, *n, *tier, *out)
	if err != nil {
		fmt.Fprintln(os.Stderr, err)
		os.Exit(2)
	}
	c.OnlyCase = *only
	c.Scenario = *scenario
	e(c)
	if err := c.Close(*out); err != nil {
		fmt.Fprintln(os.Stderr, err)
		os.Exit(2)
	}
}
