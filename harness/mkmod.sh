#!/bin/sh
# Regenerate go.mod/go.sum of the harness from /repo's (same dependency pins and replaces).
set -e
cd "$(dirname "$0")"
REPO=${VERIF_REPO:-/repo}
{
  echo "module verifharness"
  echo
  sed -n '/^go /p' "$REPO/go.mod"
  echo
  echo "require github.com/furiko-io/furiko v0.0.0"
  echo
  awk '/^require \(/,/^\)/' "$REPO/go.mod"
  echo
  awk '/^replace \(/,/^\)/' "$REPO/go.mod"
  echo
  echo "replace github.com/furiko-io/furiko => $REPO"
} > go.mod
cp "$REPO/go.sum" go.sum
