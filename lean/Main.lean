import FurikoModel.Driver.HeapD
import FurikoModel.Driver.CronD
import FurikoModel.Driver.QueueD
import FurikoModel.Driver.CronRecD
import FurikoModel.Driver.ConfigD
import FurikoModel.Driver.OptionsD
import FurikoModel.Driver.IndexesD
import FurikoModel.Driver.JcStatusD
import FurikoModel.Driver.TaskfnD
import FurikoModel.Driver.JobCtlD
import FurikoModel.Driver.MutationD
import FurikoModel.Driver.ValidationD
import FurikoModel.Driver.RetryD
open Furiko Furiko.Driver

structure DState where
  heap : Heap.PQ := default
  cron : CronDS := {}
  queue : QueueDS := {}
  cronrec : CronRecDS := {}
  config : ConfigDS := {}
  idx : IdxDS := {}
  jcstatus : JcDS := {}
  taskfn : TaskfnDS := {}
  jobctl : Furiko.JobCtl.Sys := {}
  val : ValDS := {}
  retry : RetryDS := {}

def step (s : DState) (line : String) : DState × String :=
  let t := toks line
  match t with
  | [] => (s, "bad-op")
  | op :: _ =>
    if op.startsWith "heap." then
      let (h, o) := heapStep s.heap t
      ({ s with heap := h }, o)
    else if op.startsWith "cron." then
      let (c, o) := cronStep s.cron t
      ({ s with cron := c }, o)
    else if op.startsWith "q." then
      let (c, o) := queueStep s.queue t
      ({ s with queue := c }, o)
    else if op.startsWith "cronrec." then
      let (c, o) := cronRecStep s.cronrec t
      ({ s with cronrec := c }, o)
    else if op.startsWith "cfg." then
      let (c, o) := configStep s.config t
      ({ s with config := c }, o)
    else if op.startsWith "opt." then (s, optionsStep t)
    else if op.startsWith "adm." then (s, mutationStep t)
    else if op.startsWith "val." then
      let (c, o) := validationStep s.val t
      ({ s with val := c }, o)
    else if op.startsWith "idx." then
      let (c, o) := idxStep s.idx t
      ({ s with idx := c }, o)
    else if op.startsWith "jcstatus." then
      let (c, o) := jcStatusStep s.jcstatus t
      ({ s with jcstatus := c }, o)
    else if op.startsWith "taskfn." then
      let (c, o) := taskfnStep s.taskfn t
      ({ s with taskfn := c }, o)
    else if op.startsWith "jc." then
      let (c, o) := Furiko.Driver.JC.jcStep s.jobctl t
      ({ s with jobctl := c }, o)
    else if op.startsWith "retry." then
      let (c, o) := retryStep s.retry t
      ({ s with retry := c }, o)
    else (s, "bad-op")

partial def loop (hin : IO.FS.Stream) (hout : IO.FS.Stream) (s : DState) : IO Unit := do
  let line ← hin.getLine
  if line.isEmpty then return ()
  let l := if line.endsWith "\n" then (line.dropEnd 1).toString else line
  let (s', out) := step s l
  hout.putStrLn out
  loop hin hout s'

def main : IO Unit := do
  let hin ← IO.getStdin
  let hout ← IO.getStdout
  loop hin hout {}
