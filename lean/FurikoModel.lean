import FurikoModel.Model.Heap
import FurikoModel.Model.Cron
