/- Specification side of C19's last-known-good clause: what "the most recent successfully decoded
value" means for an operation sequence, stated on the evolution of the sources only. -/
import FurikoModel.Model.Config

namespace Furiko.Config

/-- how the sources evolve; reads are invisible here -/
def srcStep {T} (m : Mgr T) : Op → Mgr T
  | .ev s k t es => m.applyEv s k t es
  | .read _ => m

/-- Specification of "the most recent successfully decoded value of `name`": scan the operation
sequence; at every read of `name` whose layered result decodes, remember the decoded value.
Defined on the evolution of the sources only — the manager's cache plays no part in it. -/
def lastGood {T} (decode : String → CMap → Option T) (name : String) : Mgr T → Option T → List Op → Option T
  | _, best, [] => best
  | m, best, .ev s k t es :: ops => lastGood decode name (m.applyEv s k t es) best ops
  | m, best, .read n :: ops =>
    lastGood decode name m
      (if n = name then
        match m.loadAndDecode decode name with
        | some t => some t
        | none => best
      else best) ops

end Furiko.Config
