/-
Model of `pkg/execution/util/job/task_status.go` (GetTaskRef, GenerateTaskRefs,
UpdateJobTaskRefs, UpdateTaskRefDeletedStatusIfNotSet, SortTaskRefs) and of the Pod → Task
mapping in `pkg/execution/taskexecutor/podtaskexecutor/{pod_task.go,util.go}`.
Core Lean only; one definition per Go function, same case order.
-/
import FurikoModel.Model.JobTypes
namespace Furiko

-- ---------------------------------------------------------------- the Task view

/-- What `GenerateTaskRefs` / the reconciler read from a live `tasks.Task`:
`GetName()`, `GetTaskRef()`, `GetDeletionTimestamp()`. -/
structure Task where
  name : String
  ref : TaskRef
  deletionTimestamp : Option Time := none
  deriving DecidableEq, Repr, Inhabited

-- ---------------------------------------------------------------- task_status.go

/-- `job.isFinalTaskState` -/
def isFinalTaskState (st : TaskState) : Bool :=
  st == .terminated || st == .deletedFinalStateUnknown

/-- `job.GetTaskRef(existing, task)`.
* `DeletedStatus` is taken from `existing` (when there is one);
* a running / finish timestamp recorded in `existing` is retained only when the task itself
  reports none;
* when the *task* reports a finish time (`finishTime` is read before the retention), `Status`
  is copied into `DeletedStatus`, overwriting whatever marker was there (Appendix A item 8);
* when `existing` is finished with a final state (Terminated / DeletedFinalStateUnknown) and the
  task reports a finish time too, the recorded status, finish time and deleted status win
  (fix 6ab84c2: first terminal observation is kept). -/
def getTaskRef (existing : Option TaskRef) (task : Task) : TaskRef :=
  let taskRef := task.ref
  let finishTime := taskRef.finishTimestamp
  let newTaskRef := taskRef
  let newTaskRef :=
    match existing with
    | some ex =>
      let r := { newTaskRef with deletedStatus := ex.deletedStatus }
      let r := if r.runningTimestamp.isNone then { r with runningTimestamp := ex.runningTimestamp } else r
      let r := if r.finishTimestamp.isNone then { r with finishTimestamp := ex.finishTimestamp } else r
      r
    | none => newTaskRef
  let newTaskRef :=
    if finishTime.isSome then { newTaskRef with deletedStatus := some newTaskRef.status } else newTaskRef
  -- once a final status has been recorded for a task it is kept (`isFinalTaskState`)
  match existing with
  | some ex =>
    if ex.finishTimestamp.isSome && finishTime.isSome && isFinalTaskState ex.status.state then
      { newTaskRef with status := ex.status, finishTimestamp := ex.finishTimestamp,
                        deletedStatus := ex.deletedStatus }
    else newTaskRef
  | none => newTaskRef

/-- order of `SortTaskRefs`: creation timestamp ascending (zero time first), then name -/
def refLt (a b : TaskRef) : Bool :=
  if a.creationTimestamp.getD zeroTime ≠ b.creationTimestamp.getD zeroTime then
    decide (a.creationTimestamp.getD zeroTime < b.creationTimestamp.getD zeroTime)
  else decide (a.name < b.name)

/-- stable insertion (after all elements that are not greater) -/
def insertRef (x : TaskRef) : List TaskRef → List TaskRef
  | [] => [x]
  | y :: ys => if refLt x y then x :: y :: ys else y :: insertRef x ys

/-- `job.SortTaskRefs` (`sort.Slice`; elements equal in both keys keep their order here —
Go's `sort.Slice` is not stable, the generators keep such full ties identical or short). -/
def sortTaskRefs (l : List TaskRef) : List TaskRef :=
  l.foldl (fun acc x => insertRef x acc) []

/-- `existingRefs[name]` of `GenerateTaskRefs`: the map is filled in list order, so the *last*
ref of a name wins. -/
def lookupRef (existing : List TaskRef) (name : String) : Option TaskRef :=
  existing.reverse.find? (fun r => r.name == name)

/-- what `GenerateTaskRefs` records for an existing ref whose task is no longer listed -/
def lostRef (now : Time) (ex : TaskRef) : TaskRef :=
  let r := if ex.finishTimestamp.isNone then { ex with finishTimestamp := some now } else ex
  match ex.deletedStatus with
  | some ds => { r with status := ds }
  | none => { r with status := { r.status with state := .deletedFinalStateUnknown } }

/-- `job.GenerateTaskRefs(existing, tasks)` with `ktime.Now() = now`. -/
def generateTaskRefs (now : Time) (existing : List TaskRef) (tasks : List Task) : List TaskRef :=
  let newRefs := tasks.map (fun t => getTaskRef (lookupRef existing t.name) t)
  let newRefNames := tasks.map (·.name)
  let lost := (existing.filter (fun ex => !newRefNames.contains ex.name)).map (lostRef now)
  sortTaskRefs (newRefs ++ lost)

/-- the filter of `UpdateJobTaskRefs`: running and not finished -/
def refIsRunning (r : TaskRef) : Bool := r.runningTimestamp.isSome && r.finishTimestamp.isNone

/-- `job.UpdateJobTaskRefs(rj, tasks)` -/
def updateJobTaskRefs (now : Time) (rj : Job) (tasks : List Task) : Job :=
  let newRefs := generateTaskRefs now rj.status.tasks tasks
  { rj with status := { rj.status with
      tasks := newRefs
      createdTasks := newRefs.length
      runningTasks := (newRefs.filter refIsRunning).length } }

/-- `job.UpdateTaskRefDeletedStatusIfNotSet(rj, taskName, status)` -/
def updateTaskRefDeletedStatusIfNotSet (rj : Job) (taskName : String) (st : TaskStatus) : Job :=
  { rj with status := { rj.status with
      tasks := rj.status.tasks.map (fun r =>
        if r.name == taskName && r.deletedStatus.isNone then { r with deletedStatus := some st } else r) } }

/-- `job.FindTaskRef` -/
def findTaskRef (rj : Job) (name : String) : Option TaskRef :=
  rj.status.tasks.find? (fun r => r.name == name)

-- ---------------------------------------------------------------- pods

/-- `corev1.PodPhase` (`other` = `""` or any unknown value) -/
inductive PodPhase where
  | pending | running | succeeded | failed | unknown | other
  deriving DecidableEq, Repr, Inhabited

/-- `corev1.ContainerStateTerminated` (what is read) -/
structure Terminated where
  startedAt : Option Time := none
  finishedAt : Option Time := none
  reason : String := ""
  deriving DecidableEq, Repr, Inhabited

/-- `corev1.ContainerStatus`: `State.Running` (its `StartedAt`), `State.Terminated`,
`LastTerminationState.Terminated`; the Go code tests each member independently. -/
structure Container where
  running : Option (Option Time) := none
  terminated : Option Terminated := none
  lastTerminated : Option Terminated := none
  deriving DecidableEq, Repr, Inhabited

/-- the Pod fields `PodTask` reads. `retryIndex` / `parallelIndex` are the results of
`GetRetryIndex()` / `GetParallelIndex()` (label / annotation parsing is not modelled: absent or
unparsable ↦ `none`); `scheduled` = `IsPodConditionScheduled`; `reason` = first component of
`GetReasonMessage()` (oracle, presentation only). -/
structure Pod where
  name : String
  creationTimestamp : Option Time := none
  deletionTimestamp : Option Time := none
  phase : PodPhase := .other
  startTime : Option Time := none
  statusReason : String := ""
  activeDeadlineSeconds : Option Int := none
  retryIndex : Option Int := none
  parallelIndex : Option PIndex := none
  scheduled : Bool := false
  containers : List Container := []
  reason : String := ""
  deriving DecidableEq, Repr, Inhabited

def reasonOOMKilled : String := "OOMKilled"
def reasonDeadlineExceeded : String := "DeadlineExceeded"

/-- `GetTerminationStatus` -/
def terminationStatus (c : Container) : Option Terminated :=
  match c.terminated with
  | some t => some t
  | none => c.lastTerminated

/-- `GetContainerStartTime` -/
def containerStartTime (p : Pod) : Option Time :=
  p.containers.foldl (fun t c =>
    let t := match c.running with
      | some st => if !isUnixZero st then timeMax st t else t
      | none => t
    let t := match c.terminated with
      | some tm => if !isUnixZero tm.startedAt then timeMax tm.startedAt t else t
      | none => t
    -- a container that is waiting to be restarted has started before
    match c.lastTerminated with
    | some tm => if !isUnixZero tm.startedAt then timeMax tm.startedAt t else t
    | none => t) none

/-- `GetContainerTerminateTime` -/
def containerTerminateTime (p : Pod) : Option Time :=
  p.containers.foldl (fun t c =>
    match terminationStatus c with
    | some tm => if !isUnixZero tm.finishedAt then timeMax tm.finishedAt t else t
    | none => t) none

/-- `PodTask.IsFinished` -/
def Pod.isFinished (p : Pod) : Bool := p.phase == .succeeded || p.phase == .failed

/-- `PodTask.IsOOMKilled` -/
def Pod.isOOMKilled (p : Pod) : Bool :=
  p.containers.any (fun c =>
    match terminationStatus c with
    | some tm => tm.reason == reasonOOMKilled
    | none => false)

/-- `PodTask.GetState` -/
def Pod.state (p : Pod) : TaskState :=
  if p.deletionTimestamp.isSome && !p.isFinished then .killing
  else match p.phase with
    | .running => .running
    | .succeeded | .failed => .terminated
    | _ => .starting

/-- `PodTask.GetResult` -/
def Pod.result (p : Pod) : TaskResult :=
  if p.isOOMKilled then .failed
  else match p.phase with
    | .succeeded => .succeeded
    | .failed => .failed
    | _ => .none

/-- `PodTask.GetRunningTimestamp` -/
def Pod.runningTimestamp (p : Pod) : Option Time := containerStartTime p

/-- `PodTask.GetFinishTimestamp`; outer `none` = nil-pointer panic
(`p.Status.StartTime.Add` with `StartTime == nil` in the DeadlineExceeded branch). -/
def Pod.finishTimestamp (p : Pod) : Option (Option Time) :=
  if !p.isFinished then some none
  else match containerTerminateTime p with
    | some t => some (some t)
    | none =>
      if p.statusReason == reasonDeadlineExceeded && p.activeDeadlineSeconds.isSome then
        match p.startTime with
        | some st => some (some (st + secs (p.activeDeadlineSeconds.getD 0)))
        | none => none
      else match p.startTime with
        | some st => some (some st)
        | none => some p.creationTimestamp

/-- `PodTask.RequiresKillWithDeletion` -/
def Pod.requiresKillWithDeletion (p : Pod) : Bool :=
  p.phase == .pending && !p.scheduled && p.startTime.isNone

/-- `PodTask.hasFinishTimestamp`: the time the Pod finished can be told from the Pod — a container
termination time, or the DeadlineExceeded computation of `GetFinishTimestamp` -/
def Pod.hasFinishTimestamp (p : Pod) : Bool :=
  (containerTerminateTime p).isSome ||
    (p.statusReason == reasonDeadlineExceeded && p.activeDeadlineSeconds.isSome)

/-- the finish time `PodTask.GetTaskRef` records, `fin` being the (non-panicking) result of
`GetFinishTimestamp` and `ktime.Now() = now`: a finished Pod that cannot tell when it finished
(`GetFinishTimestamp` fell back to its start / creation time) is recorded with the time of the
observation (fix of F30) -/
def Pod.recordedFinish (now : Time) (p : Pod) (fin : Option Time) : Option Time :=
  if fin.isSome && !p.hasFinishTimestamp then some now else fin

/-- `PodTask.GetTaskRef` with `ktime.Now() = now` (`none` = panic) -/
def Pod.taskRef (now : Time) (p : Pod) : Option TaskRef :=
  match p.finishTimestamp with
  | none => none
  | some fin => some {
      name := p.name
      creationTimestamp := p.creationTimestamp
      status := { state := p.state, result := p.result, reason := p.reason }
      retryIndex := p.retryIndex.getD 0
      parallelIndex := p.parallelIndex
      runningTimestamp := p.runningTimestamp
      finishTimestamp := p.recordedFinish now fin }

/-- a Pod seen through the `tasks.Task` interface (`NewPodTask`) at time `now` -/
def Pod.task (now : Time) (p : Pod) : Option Task :=
  match p.taskRef now with
  | none => none
  | some r => some { name := p.name, ref := r, deletionTimestamp := p.deletionTimestamp }

end Furiko
