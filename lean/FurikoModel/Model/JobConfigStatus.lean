/-
Model of the JobConfig status reconciliation (property C15).  Core Lean only.

Mirrors, one for one:
  pkg/execution/controllers/jobconfigcontroller/reconciler.go   Reconciler.SyncOne, listJobsForJobConfig
  pkg/execution/controllers/jobconfigcontroller/util.go         FilterJobs, ToJobReferences, IsJobConfigStatusEqual
  pkg/execution/controllers/jobconfigcontroller/differ.go       jobListDiffer.GetDiff (finished / removed; only these feed events)
  pkg/execution/controllers/jobconfigcontroller/informer.go     enqueueObject, handleJob
  pkg/execution/util/jobconfig/state.go                         GetState   (case order REGENERATED: Facts.jobConfigStateChain)
  pkg/execution/util/jobconfig/job_utils.go                     GetLastScheduleTime, GetLabelScheduleTime, GetLastStartTime,
                                                                LookupJobOwner / ValidateLookupJobOwner
  pkg/execution/util/job/active.go                              IsStarted, IsQueued, IsActive
  pkg/utils/ktime/ktime.go                                      TimeMax
  apis/execution/v1alpha1/job_types.go                          JobPhase.IsTerminal (REGENERATED: Facts.terminalPhases)

Data conventions: all timestamps are whole Unix seconds (`Int`); Go's zero `time.Time` is the
second `zeroUnix`; a nil `*metav1.Time` is `none`, so `some zeroUnix` is "pointer to the zero
time".  The Kubernetes API server is modelled by `writeStatus` (status subresource: only the
status is replaced, resourceVersion bumps, optimistic concurrency on resourceVersion when
`occ = true`).
-/
import FurikoModel.Generated.Facts

namespace Furiko.JcStatus

/-- Unix seconds of Go's zero `time.Time` (0001-01-01T00:00:00Z). -/
def zeroUnix : Int := -62135596800

/-- `(*metav1.Time).IsZero`: nil or the zero instant. -/
def tIsZero : Option Int → Bool
  | none => true
  | some t => t == zeroUnix

/-- the controller owner reference of a Job (`metav1.GetControllerOf`) -/
structure Owner where
  kind : String
  name : String
  uid : String
deriving DecidableEq, Repr, Inhabited

/-- The projection of an `execution.Job` that the JobConfig controller reads. -/
structure Job where
  ns : String
  name : String
  uid : String
  /-- `metadata.creationTimestamp` -/
  created : Int
  /-- label `execution.furiko.io/job-config-uid` (absent = none) -/
  labelUid : Option String
  /-- controller owner reference, if any -/
  owner : Option Owner
  /-- `status.startTime` -/
  startTime : Option Int
  /-- `status.phase` -/
  phase : String
  /-- `metadata.deletionTimestamp` (carried; the reconciler never reads it: `deletion_ignored`) -/
  deletion : Option Int
  /-- annotation `execution.furiko.io/schedule-time`, raw string, possibly malformed -/
  schedAnn : Option String
deriving DecidableEq, Repr, Inhabited

/-- `execution.JobReference` -/
structure JobRef where
  uid : String
  name : String
  created : Int
  phase : String
  startTime : Option Int
deriving DecidableEq, Repr, Inhabited

/-- `execution.JobConfigStatus` (JSON view: nil and empty slices coincide) -/
structure Status where
  state : String := ""
  queued : Int := 0
  queuedJobs : List JobRef := []
  active : Int := 0
  activeJobs : List JobRef := []
  lastScheduled : Option Int := none
  lastExecuted : Option Int := none
deriving DecidableEq, Repr, Inhabited

/-- what `GetState` reads of `spec.schedule` -/
structure Sched where
  /-- `spec.schedule != nil` -/
  hasSchedule : Bool := false
  /-- `spec.schedule.cron != nil` -/
  hasCron : Bool := false
  /-- `spec.schedule.disabled` -/
  disabled : Bool := false
deriving DecidableEq, Repr, Inhabited

structure JobConfig where
  ns : String
  name : String
  uid : String
  sched : Sched := {}
  /-- `metadata.resourceVersion` -/
  rv : Nat := 0
  status : Status := {}
deriving DecidableEq, Repr, Inhabited

/-! ### job/active.go -/

/-- `JobPhase.IsTerminal` (table regenerated from the source) -/
def isTerminal (phase : String) : Bool := Facts.terminalPhases.contains phase

/-- `job.IsStarted`: `!rj.Status.StartTime.IsZero()` -/
def isStarted (j : Job) : Bool := !tIsZero j.startTime

/-- `job.IsQueued`: `!IsStarted(rj) && !rj.Status.Phase.IsTerminal()` -/
def isQueued (j : Job) : Bool := !isStarted j && !isTerminal j.phase

/-- `job.IsActive`: `IsStarted(rj) && !rj.Status.Phase.IsTerminal()` -/
def isActive (j : Job) : Bool := isStarted j && !isTerminal j.phase

/-! ### reconciler.go `listJobsForJobConfig` -/

/-- `jobInformer.Lister().Jobs(rjc.Namespace).List(SelectorFromSet{job-config-uid: rjc.UID})`:
namespace and label only; owner references are NOT consulted.  Order = cache order. -/
def listJobs (cache : List Job) (jc : JobConfig) : List Job :=
  cache.filter fun j => j.ns == jc.ns && j.labelUid == some jc.uid

/-! ### util.go -/

/-- the `JobReference` built in `ToJobReferences` (start time copied only when non-zero) -/
def toRef (j : Job) : JobRef :=
  { uid := j.uid, name := j.name, created := j.created, phase := j.phase,
    startTime := if tIsZero j.startTime then none else j.startTime }

/-- insertion into a list sorted by creation time; an element is placed before the first
element that is not strictly earlier (stable) -/
def insertRef (r : JobRef) : List JobRef → List JobRef
  | [] => [r]
  | x :: xs => if x.created < r.created then x :: insertRef r xs else r :: x :: xs

/-- `sort.Slice(refs, CreationTimestamp.Before)`.  Go's sort is unstable: the model's result is
THE result only when creation timestamps are pairwise distinct; otherwise it is one admissible
order (`status_lists_exact` is stated up to permutation + sortedness for that reason). -/
def sortRefs : List JobRef → List JobRef
  | [] => []
  | r :: rs => insertRef r (sortRefs rs)

/-- `ToJobReferences(FilterJobs(rjs, f))` -/
def toJobReferences (items : List Job) : List JobRef := sortRefs (items.map toRef)

/-! ### jobconfig/job_utils.go -/

/-- `strconv.Atoi` on 64-bit: optional sign, at least one ASCII digit, nothing else, value in
the int64 range. -/
def atoi (s : String) : Option Int :=
  let cs := s.toList
  let (neg, ds) : Bool × List Char :=
    match cs with
    | '-' :: r => (true, r)
    | '+' :: r => (false, r)
    | _ => (false, cs)
  if ds.isEmpty || !(ds.all Char.isDigit) then none
  else
    let n : Int := ds.foldl (fun a c => a * 10 + ((c.toNat : Int) - 48)) 0
    let v := if neg then -n else n
    if v < -9223372036854775808 || v > 9223372036854775807 then none else some v

/-- `GetLabelScheduleTime`: annotation present and `Atoi` succeeds ⇒ `time.Unix(ts, 0)` -/
def labelScheduleTime (j : Job) : Option Int :=
  match j.schedAnn with
  | some v => atoi v
  | none => none

/-- running maximum as both Go loops compute it: `if acc.Before(t) { acc = t }` -/
def maxFrom (init : Int) (ts : List Int) : Int :=
  ts.foldl (fun acc t => if acc < t then t else acc) init

/-- `GetLastScheduleTime`: starts from the zero time, keeps strictly later schedule times,
returns nil if the result is still the zero time. -/
def getLastScheduleTime (jobs : List Job) : Option Int :=
  let m := maxFrom zeroUnix (jobs.filterMap labelScheduleTime)
  if m == zeroUnix then none else some m

/-- the start time that `GetLastStartTime` takes into account for one Job
(`!IsStarted(rj) || rj.Status.StartTime.IsZero()` ⇒ skipped) -/
def countedStartTime (j : Job) : Option Int :=
  if !isStarted j || tIsZero j.startTime then none else j.startTime

/-- `GetLastStartTime` -/
def getLastStartTime (jobs : List Job) : Option Int :=
  let m := maxFrom zeroUnix (jobs.filterMap countedStartTime)
  if m == zeroUnix then none else some m

/-- `ktime.TimeMax(ts1, ts2)`: nil-aware; `ts1.Before(ts2) ? ts2 : ts1` -/
def timeMax (ts1 ts2 : Option Int) : Option Int :=
  match ts1, ts2 with
  | none, b => b
  | a, none => a
  | some x, some y => if x < y then some y else some x

/-! ### jobconfig/state.go -/

/-- meaning of the guards that occur in `Facts.jobConfigStateChain` (source text ↦ predicate;
`activePos` = `rjc.Status.Active > 0`, `queuedPos` = `rjc.Status.Queued > 0`); an unknown guard
never holds and makes `getState` fall through, which breaks `state_table` and the
correspondence — the tie is then reported as broken. -/
def guardHolds (g : String) (activePos queuedPos : Bool) (s : Sched) : Bool :=
  if g == "rjc.Status.Active > 0" then activePos
  else if g == "rjc.Status.Queued > 0" then queuedPos
  else if g == "spec != nil && spec.Cron != nil && spec.Disabled" then s.hasSchedule && s.hasCron && s.disabled
  else if g == "spec != nil && spec.Cron != nil" then s.hasSchedule && s.hasCron
  else if g == "true" then true
  else false

def firstHolding (chain : List (String × String)) (activePos queuedPos : Bool) (s : Sched) : String :=
  match chain with
  | [] => "?"
  | (g, r) :: rest => if guardHolds g activePos queuedPos s then r else firstHolding rest activePos queuedPos s

/-- the chain of `jobconfig.GetState` on the truth values of its two numeric guards -/
def getStateB (activePos queuedPos : Bool) (s : Sched) : String :=
  firstHolding Facts.jobConfigStateChain activePos queuedPos s

/-- `jobconfig.GetState`: first guard of the regenerated chain that holds -/
def getState (active queued : Int) (s : Sched) : String :=
  getStateB (decide (active > 0)) (decide (queued > 0)) s

/-! ### reconciler.go `SyncOne`: the new status -/

/-- the status `SyncOne` computes from the cached JobConfig `jc` and the Jobs `rjs` it listed -/
def computeStatus (jc : JobConfig) (rjs : List Job) : Status :=
  let activeJobs := toJobReferences (rjs.filter isActive)
  let active : Int := activeJobs.length
  let queuedJobs := toJobReferences (rjs.filter isQueued)
  let queued : Int := queuedJobs.length
  let lastScheduled :=
    match getLastScheduleTime rjs with
    | some t => timeMax (some t) jc.status.lastScheduled
    | none => jc.status.lastScheduled
  let lastExecuted :=
    match getLastStartTime rjs with
    | some t => timeMax (some t) jc.status.lastExecuted
    | none => jc.status.lastExecuted
  { state := getState active queued jc.sched,
    queued := queued, queuedJobs := queuedJobs,
    active := active, activeJobs := activeJobs,
    lastScheduled := lastScheduled, lastExecuted := lastExecuted }

/-! ### differ.go -/

/-- `jobListDiffer.GetDiff(prevActive)`: the `finished` and `removed` name lists (in the order
of `prevActive`); `newJobs` is only logged and comes out of a Go map, it is not modelled. -/
def diffEvents (rjs : List Job) (prevActive : List JobRef) : List String :=
  let finished := prevActive.filterMap fun r =>
    if rjs.any (fun j => j.name == r.name && isActive j) then none
    else if rjs.any (fun j => j.name == r.name) then some ("F:" ++ r.name) else none
  let removed := prevActive.filterMap fun r =>
    if rjs.any (fun j => j.name == r.name && isActive j) then none
    else if rjs.any (fun j => j.name == r.name) then none else some ("D:" ++ r.name)
  finished ++ removed

/-! ### the API server's part of a status write -/

inductive Outcome where
  /-- JobConfig not in the cache: `return nil` -/
  | cacheMiss
  /-- computed status JSON-equal to the cached one: no call -/
  | noop
  /-- `UpdateStatus` accepted -/
  | updated
  /-- `UpdateStatus` rejected: resourceVersion of the object read ≠ current one -/
  | conflict
  /-- `UpdateStatus` rejected: object no longer on the server -/
  | gone
deriving DecidableEq, Repr, Inhabited

/-- `UpdateStatus(newRjc)` against the authoritative object `api`.  `newRv` is the
resourceVersion the server assigns on success.  With `occ = false` the resourceVersion of the
submitted object is not checked (what the default fake clientset does). -/
def writeStatus (occ : Bool) (api : Option JobConfig) (read : JobConfig) (st : Status) (newRv : Nat) :
    Option JobConfig × Outcome :=
  match api with
  | none => (none, .gone)
  | some cur =>
    if occ && read.rv != cur.rv then (some cur, .conflict)
    else (some { cur with status := st, rv := newRv }, .updated)

/-- One `SyncOne` on the cached JobConfig `read` with the cached Jobs `cache`, against the
authoritative object `api`: returns the authoritative object afterwards, the outcome and the
events recorded (events are only reached when no error was returned). -/
def syncCore (occ : Bool) (api : Option JobConfig) (read : JobConfig) (cache : List Job) (newRv : Nat) :
    Option JobConfig × Outcome × List String :=
  let rjs := listJobs cache read
  let st := computeStatus read rjs
  let evs := diffEvents rjs read.status.activeJobs
  if st = read.status then (api, .noop, evs)
  else
    match writeStatus occ api read st newRv with
    | (api', .updated) => (api', .updated, evs)
    | (api', o) => (api', o, [])

/-! ### informer.go -/

def keyOf (ns name : String) : String := ns ++ "/" ++ name

/-- `jobconfig.LookupJobOwner` followed by `enqueueObject(rjc)`: the key put on the work queue
by a Job event, given the JobConfig cache. -/
def handleJob (jcCache : List JobConfig) (j : Job) : Option String :=
  match j.owner with
  | none => none
  | some ref =>
    if ref.kind != "JobConfig" then none
    else
      match jcCache.find? (fun c => c.ns == j.ns && c.name == ref.name) with
      | none => none                                     -- NotFound error: logged, nothing enqueued
      | some rjc =>
        if rjc.uid != ref.uid then none                  -- Duplicate (uid mismatch) error
        else if j.labelUid.getD "" != rjc.uid then none  -- label missing or different
        else some (keyOf rjc.ns rjc.name)

inductive EvKind where
  | add | update | delete
deriving DecidableEq, Repr, Inhabited

def handlerRegistered (h : Bool × Bool × Bool) : EvKind → Bool
  | .add => h.1
  | .update => h.2.1
  | .delete => h.2.2

/-- key enqueued by a Job event of kind `k` (registrations regenerated from informer.go) -/
def onJobEvent (k : EvKind) (jcCache : List JobConfig) (j : Job) : Option String :=
  if handlerRegistered Facts.jcInformerJobHandlers k then handleJob jcCache j else none

/-- key enqueued by a JobConfig event of kind `k` -/
def onJobConfigEvent (k : EvKind) (jc : JobConfig) : Option String :=
  if handlerRegistered Facts.jcInformerJobConfigHandlers k then some (keyOf jc.ns jc.name) else none

end Furiko.JcStatus
