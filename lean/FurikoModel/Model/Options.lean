/-
Model of `pkg/core/options/{options,default,validation,mutation}.go`: the five option evaluators,
the default evaluators, `EvaluateOptions`, `MakeDefaultOptions`, option validation (as an error
count) and Bool defaulting.  Core Lean only.

Strings are `List Char` (`Str`) and every string function used by the code is modelled exactly on
valid UTF-8 text (`strings.TrimSpace`, `strings.Join`, `len(s)==0`, `ContainsString`).
Behind parameters (external libraries): `time.Parse(time.RFC3339, ·)` and goment formatting
(`DateOracle`); the dynamic Go type of a submitted value is the sum type `Value`.
-/
import FurikoModel.Generated.Facts

namespace Furiko.Options

abbrev Str := List Char

/-! ### strings -/

/-- Go `unicode.IsSpace`: Latin-1 `\t \n \v \f \r ' ' U+0085 U+00A0`, otherwise the White_Space
property (`U+1680 U+2000–U+200A U+2028 U+2029 U+202F U+205F U+3000`). -/
def isSpace (c : Char) : Bool :=
  let n := c.toNat
  n == 0x09 || n == 0x0A || n == 0x0B || n == 0x0C || n == 0x0D || n == 0x20 || n == 0x85 || n == 0xA0 ||
  n == 0x1680 || (0x2000 ≤ n && n ≤ 0x200A) || n == 0x2028 || n == 0x2029 || n == 0x202F ||
  n == 0x205F || n == 0x3000

/-- `strings.TrimRightFunc(s, unicode.IsSpace)` -/
def trimRight : Str → Str
  | [] => []
  | c :: cs =>
    match trimRight cs with
    | [] => if isSpace c then [] else [c]
    | r => c :: r

/-- `strings.TrimSpace` -/
def trimSpace (s : Str) : Str := trimRight (s.dropWhile isSpace)

/-- `strings.Join(xs, sep)` -/
def join (sep : Str) : List Str → Str
  | [] => []
  | [x] => x
  | x :: y :: rest => x ++ sep ++ join sep (y :: rest)

/-- `stringsutils.ContainsString` -/
def containsString (xs : List Str) (x : Str) : Bool := xs.contains x

/-! ### submitted values -/

/-- an instant as far as the evaluators can see it: `IsZero()` and an opaque identity that the
formatting oracle is keyed by -/
structure TimeV where
  zero : Bool
  tag : Str
deriving DecidableEq, Repr

def TimeV.zeroTime : TimeV := { zero := true, tag := [] }

/-- dynamic type of a submitted option value (`interface{}`) -/
inductive Value where
  | null                                  -- nil interface: JSON null, or key missing
  | bool (b : Bool)
  | str (s : Str)
  | list (xs : List (Option Str))         -- []interface{}; `none` = an element that is not a string
  | strs (xs : List Str)                  -- []string (Go callers)
  | time (t : TimeV)                      -- time.Time
  | timePtr (t : Option TimeV)            -- *time.Time (typed nil pointer = none)
  | other                                 -- float64, int, map, … (anything else)
deriving DecidableEq, Repr

/-- external libraries used by `EvaluateOptionDate` -/
structure DateOracle where
  /-- `time.Parse(time.RFC3339, s)`; `none` = error -/
  parse : Str → Option TimeV
  /-- `FormatAsMoment(t, format)`; `none` = error -/
  format : TimeV → Str → Option Str

inductive EvalErr where
  | invalid | required | notSupported
deriving DecidableEq, Repr

/-! ### option configuration (`apis/execution/v1alpha1/jobconfig_types.go`) -/

inductive OptType where
  | bool | string | select | multi | date
  | unknown (isEmpty : Bool)              -- any other string; `isEmpty` = the empty string
deriving DecidableEq, Repr

structure BoolCfg where
  default : Bool := false
  format : Str := []
  trueVal : Str := []
  falseVal : Str := []
deriving DecidableEq, Repr

structure StringCfg where
  default : Str := []
  trimSpaces : Bool := false
deriving DecidableEq, Repr

structure SelectCfg where
  default : Str := []
  values : List Str := []
  allowCustom : Bool := false
deriving DecidableEq, Repr

structure MultiCfg where
  default : List Str := []
  delimiter : Str := []
  values : List Str := []
  allowCustom : Bool := false
deriving DecidableEq, Repr

structure DateCfg where
  format : Str := []
deriving DecidableEq, Repr

structure Opt where
  type : OptType
  name : Str
  label : Str := []
  required : Bool := false
  bool : Option BoolCfg := none
  string : Option StringCfg := none
  select : Option SelectCfg := none
  multi : Option MultiCfg := none
  date : Option DateCfg := none
deriving DecidableEq, Repr

/-- `BoolOptionFormat.Format` + `BoolOptionConfig.FormatValue`; the table `boolOptionFormatStrings`
and the name of the custom format are regenerated from the source (`Facts`). `none` = error. -/
def formatValue (cfg : BoolCfg) (v : Bool) : Option Str :=
  if cfg.format = Facts.boolFormatCustom then
    some (if v then cfg.trueVal else cfg.falseVal)
  else
    match Facts.boolFormatStrings.find? (fun e => e.1 = cfg.format) with
    | some (_, t, f) => some (if v then t else f)
    | none => none

/-- `MakeOptionVariableName` -/
def optionVariableName (o : Opt) : Str := "option.".toList ++ o.name

/-! ### evaluators (`options.go`) -/

/-- `EvaluateOptionBool` -/
def evaluateBool (value : Value) (cfg : Option BoolCfg) : Except EvalErr Str :=
  let cfg := cfg.getD {}
  let value := match value with
    | .null => Value.bool cfg.default
    | v => v
  match value with
  | .bool v =>
    match formatValue cfg v with
    | some r => .ok r
    | none => .error .invalid
  | _ => .error .invalid

/-- `EvaluateOptionString` -/
def evaluateString (value : Value) (o : Opt) (cfg : Option StringCfg) : Except EvalErr Str :=
  let cfg := cfg.getD {}
  let value := match value with
    | .null => Value.str cfg.default
    | v => v
  match value with
  | .str v =>
    let v := if cfg.trimSpaces then trimSpace v else v
    if o.required && v.isEmpty then .error .required else .ok v
  | _ => .error .invalid

/-- `EvaluateOptionSelect` -/
def evaluateSelect (value : Value) (o : Opt) (cfg : Option SelectCfg) : Except EvalErr Str :=
  let cfg := cfg.getD {}
  let value := match value with
    | .null => Value.str cfg.default
    | v => v
  match value with
  | .str v =>
    if !v.isEmpty && !cfg.allowCustom && !containsString cfg.values v then .error .notSupported
    else if v.isEmpty && o.required then .error .required
    else .ok v
  | _ => .error .invalid

/-- the `for _, val := range v` loop of `EvaluateOptionMulti` (first failing element wins;
`len(v) > 0` is true inside the loop) -/
def multiCheck (cfg : MultiCfg) : List Str → Option EvalErr
  | [] => none
  | val :: rest =>
    if !cfg.allowCustom && !containsString cfg.values val then some .notSupported
    else if val.isEmpty then some .required
    else multiCheck cfg rest

/-- the `[]interface{}` → `[]string` conversion: `none` if some element is not a string -/
def convertList : List (Option Str) → Option (List Str)
  | [] => some []
  | none :: _ => none
  | some s :: rest => (convertList rest).map (s :: ·)

/-- `EvaluateOptionMulti` -/
def evaluateMulti (value : Value) (o : Opt) (cfg : Option MultiCfg) : Except EvalErr Str :=
  let cfg := cfg.getD {}
  let value := match value with
    | .null => Value.strs []
    | v => v
  match value with
  | .list xs =>
    match convertList xs with
    | none => .error .invalid
    | some v => finish cfg v
  | .strs v => finish cfg v
  | _ => .error .invalid
where
  finish (cfg : MultiCfg) (v : List Str) : Except EvalErr Str :=
    let v := if v.isEmpty then cfg.default else v
    if v.isEmpty && o.required then .error .required
    else match multiCheck cfg v with
      | some e => .error e
      | none => .ok (join cfg.delimiter v)

/-- `EvaluateOptionDate` -/
def evaluateDate (D : DateOracle) (value : Value) (o : Opt) (cfg : Option DateCfg) : Except EvalErr Str :=
  let cfg := cfg.getD {}
  let value := match value with
    | .null => Value.str []
    | v => v
  let t : Except EvalErr TimeV := match value with
    | .timePtr (some t) => .ok t
    | .timePtr none => .ok TimeV.zeroTime
    | .time t => .ok t
    | .str v =>
      if !v.isEmpty then
        match D.parse v with
        | some t => .ok t
        | none => .error .invalid
      else .ok TimeV.zeroTime
    | _ => .error .invalid
  match t with
  | .error e => .error e
  | .ok t =>
    if t.zero then
      if o.required then .error .required else .ok []
    else
      match D.format t cfg.format with
      | some s => .ok s
      | none => .error .invalid

/-- `EvaluateOption` -/
def evaluateOption (D : DateOracle) (value : Value) (o : Opt) : Except EvalErr Str :=
  match o.type with
  | .bool => evaluateBool value o.bool
  | .string => evaluateString value o o.string
  | .select => evaluateSelect value o o.select
  | .multi => evaluateMulti value o o.multi
  | .date => evaluateDate D value o o.date
  | .unknown _ => .error .invalid

/-- Go `m[k] = v` on an association list (first occurrence is replaced, else appended) -/
def mapInsert (m : List (Str × Str)) (k v : Str) : List (Str × Str) :=
  match m with
  | [] => [(k, v)]
  | (k', v') :: rest => if k' = k then (k, v) :: rest else (k', v') :: mapInsert rest k v

def lookupS {β : Type} (k : Str) : List (Str × β) → Option β
  | [] => none
  | (k', v) :: rest => if k' = k then some v else lookupS k rest

/-- `EvaluateOptions`: the evaluated map and the error list (in option order).  `cfg = none` is a
nil `*OptionSpec`.  A key missing from `vals` evaluates as `nil`. -/
def evaluateOptions (D : DateOracle) (vals : List (Str × Value)) (cfg : Option (List Opt)) :
    List (Str × Str) × List EvalErr :=
  match cfg with
  | none => ([], [])
  | some opts =>
    opts.foldl (fun (acc : List (Str × Str) × List EvalErr) o =>
      let optionValue := (lookupS o.name vals).getD Value.null
      match evaluateOption D optionValue o with
      | .error e => (acc.1, acc.2 ++ [e])
      | .ok s => (mapInsert acc.1 (optionVariableName o) s, acc.2)) ([], [])

/-! ### defaults (`default.go`) -/

/-- `EvaluateOptionDefaultBool`; `none` = error -/
def evaluateDefaultBool (cfg : Option BoolCfg) : Option Str :=
  let cfg := cfg.getD {}
  formatValue cfg cfg.default

/-- `GetOptionDefaultStringValue` -/
def defaultStringValue (cfg : Option StringCfg) : Str :=
  let cfg := cfg.getD {}
  if cfg.trimSpaces then trimSpace cfg.default else cfg.default

/-- `EvaluateOptionDefaultString` (trims a second time, as the code does) -/
def evaluateDefaultString (cfg : Option StringCfg) : Option Str :=
  let value := defaultStringValue cfg
  let cfg := cfg.getD {}
  some (if cfg.trimSpaces then trimSpace value else value)

/-- `EvaluateOptionDefaultSelect` -/
def evaluateDefaultSelect (cfg : Option SelectCfg) : Option Str :=
  some (cfg.getD {}).default

/-- `EvaluateOptionDefaultMulti` -/
def evaluateDefaultMulti (cfg : Option MultiCfg) : Option Str :=
  let cfg := cfg.getD {}
  some (join cfg.delimiter cfg.default)

/-- `EvaluateOptionDefault`; `none` = error -/
def evaluateOptionDefault (o : Opt) : Option Str :=
  match o.type with
  | .bool => evaluateDefaultBool o.bool
  | .string => evaluateDefaultString o.string
  | .select => evaluateDefaultSelect o.select
  | .multi => evaluateDefaultMulti o.multi
  | .date => some []
  | .unknown _ => none

/-- `MakeDefaultOptions`; `none` = error (the first failing option aborts) -/
def makeDefaultOptions (cfg : Option (List Opt)) : Option (List (Str × Str)) :=
  match cfg with
  | none => some []
  | some opts =>
    opts.foldl (fun (acc : Option (List (Str × Str))) o =>
      match acc with
      | none => none
      | some m =>
        match evaluateOptionDefault o with
        | none => none
        | some v => some (mapInsert m (optionVariableName o) v)) (some [])

/-! ### validation (`validation.go`), as the number of errors appended -/

def b2n (b : Bool) : Nat := if b then 1 else 0

/-- `nameRegexp = ^[a-zA-Z_0-9.-]+$` -/
def nameChar (c : Char) : Bool :=
  ('a' ≤ c && c ≤ 'z') || ('A' ≤ c && c ≤ 'Z') || c == '_' || ('0' ≤ c && c ≤ '9') || c == '.' || c == '-'

/-- `ValidateOptionName` -/
def validateOptionName (name : Str) : Nat := b2n (!(!name.isEmpty && name.all nameChar))

/-- `ValidateOptionType` -/
def validateOptionType : OptType → Nat
  | .unknown true => 2     -- Required + NotSupported
  | .unknown false => 1
  | _ => 0

/-- `!reflect.DeepEqual(Option{}, sanitized)` after `ZeroForNonConfig` and niling the own
config: some *other* config pointer is set -/
def foreignConfig (o : Opt) (own : OptType) : Bool :=
  (own != .bool && o.bool.isSome) || (own != .string && o.string.isSome) ||
  (own != .select && o.select.isSome) || (own != .multi && o.multi.isSome) ||
  (own != .date && o.date.isSome)

/-- `ValidateBoolOptionConfig` -/
def validateBoolCfg (cfg : Option BoolCfg) : Nat :=
  let cfg := cfg.getD {}
  if cfg.format.isEmpty then 1
  else if !(Facts.boolFormatsAll.contains cfg.format) then 1
  else 0

/-- `ValidateSelectOptionConfig` -/
def validateSelectCfg (cfg : Option SelectCfg) : Nat :=
  let cfg := cfg.getD {}
  b2n cfg.values.isEmpty +
  b2n (!cfg.default.isEmpty && !containsString cfg.values cfg.default) +
  (cfg.values.filter (·.isEmpty)).length

/-- `ValidateMultiOptionConfig` -/
def validateMultiCfg (cfg : Option MultiCfg) : Nat :=
  let cfg := cfg.getD {}
  b2n cfg.values.isEmpty +
  (cfg.default.filter (fun d => !containsString cfg.values d)).length +
  (cfg.values.filter (·.isEmpty)).length +
  (cfg.default.filter (·.isEmpty)).length

/-- `ValidateOption` -/
def validateOption (o : Opt) : Nat :=
  validateOptionType o.type + validateOptionName o.name +
  match o.type with
  | .bool => b2n (foreignConfig o .bool) + validateBoolCfg o.bool + b2n o.required
  | .string => b2n (foreignConfig o .string)
  | .select => b2n (foreignConfig o .select) + validateSelectCfg o.select
  | .multi => b2n (foreignConfig o .multi) + validateMultiCfg o.multi
  | .date => b2n (foreignConfig o .date)
  | .unknown _ => 0

/-- `ValidateOptionSpec`: a duplicate name costs one error and skips `ValidateOption` -/
def validateOptionSpecGo (seen : List Str) : List Opt → Nat
  | [] => 0
  | o :: rest =>
    if seen.contains o.name then 1 + validateOptionSpecGo seen rest
    else validateOption o + validateOptionSpecGo (o.name :: seen) rest

def validateOptionSpec (cfg : Option (List Opt)) : Nat :=
  match cfg with
  | none => 0
  | some opts => validateOptionSpecGo [] opts

/-- an option that `ValidateOption` accepts -/
def accepted (o : Opt) : Bool := validateOption o == 0

/-! ### defaulting (`mutation.go`) -/

/-- `GetDefaultingOption` -/
def defaultingOption (o : Opt) : Opt :=
  match o.type with
  | .bool =>
    let b := o.bool.getD {}
    let b := if b.format.isEmpty then { b with format := Facts.boolFormatDefault } else b
    { o with bool := some b }
  | _ => o

end Furiko.Options
