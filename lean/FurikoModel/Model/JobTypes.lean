/-
Data types of `apis/execution/v1alpha1/job_types.go` as far as the job controller's pure
function layer reads them, plus the small methods defined on those types
(`Job.GetMaxAttempts`, `Job.GetRetryDelay`, `ParallelismSpec.GetCompletionStrategy`,
`JobPhase.IsTerminal`).  Core Lean only.

Conventions (DESIGN.md §4.1):
* a time is an `Int` number of nanoseconds since the Unix epoch; a nil `*metav1.Time` and a zero
  `metav1.Time`/`time.Time` are both `none` (the Go code only ever asks `IsZero()`);
  `zeroTime` is the value Go's zero `time.Time` has on that axis (year 1), needed because
  `ComputeMissingIndexesForCreation` does arithmetic on it (Appendix A item 5).
* a `ParallelIndex` is opaque: the model carries its `parallel.HashIndex` value (transmitted by
  the Go side, hashstructure is external) and an opaque rendering `val`.
* `GenerateIndexes(spec)` is an oracle list carried by `ParSpec.indexes` (modelled by the
  `parallel` slice); `GetDefaultIndex()` is the explicit parameter `d` of the functions below.
* free-text `Message` fields are dropped; `Reason` strings are kept (opaque, copied around).
-/
namespace Furiko

abbrev Time := Int

def nsPerSec : Int := 1000000000
/-- `time.Duration(s) * time.Second` -/
def secs (s : Int) : Int := s * nsPerSec
/-- Go's zero `time.Time` (0001-01-01T00:00:00Z) in Unix nanoseconds -/
def zeroTime : Time := secs (-62135596800)

/-- `ktime.TimeMax` (nil ↦ the other one; `ts1.Before(ts2)` ↦ `ts2`; else `ts1`). -/
def timeMax : Option Time → Option Time → Option Time
  | none, b => b
  | a, none => a
  | some a, some b => if a < b then some b else some a

/-- `ktime.IsTimeSetAndEarlierOrEqual(ts)` with `Clock.Now() = now`. -/
def isTimeSetAndEarlierOrEqual (now : Time) : Option Time → Bool
  | none => false
  | some t => decide (t < now) || decide (t = now)

/-- `ktime.IsUnixZero`: zero time, or `Unix() == 0` (any instant within the epoch second). -/
def isUnixZero : Option Time → Bool
  | none => true
  | some t => t / nsPerSec == 0

-- ---------------------------------------------------------------- tasks

/-- `execution.TaskState` (`empty` = the Go zero value `""`). -/
inductive TaskState where
  | empty | starting | running | killing | terminated | deletedFinalStateUnknown
  deriving DecidableEq, Repr, Inhabited

/-- `execution.TaskResult` (`none` = `""`). -/
inductive TaskResult where
  | none | succeeded | failed | killed
  deriving DecidableEq, Repr, Inhabited

structure TaskStatus where
  state : TaskState := .empty
  result : TaskResult := .none
  reason : String := ""
  deriving DecidableEq, Repr, Inhabited

/-- `execution.ParallelIndex` with its `parallel.HashIndex` value. -/
structure PIndex where
  hash : String
  val : String := ""
  deriving DecidableEq, Repr, Inhabited

/-- `execution.TaskRef` (NodeName, ContainerStates, Message dropped). -/
structure TaskRef where
  name : String
  creationTimestamp : Option Time := none
  runningTimestamp : Option Time := none
  finishTimestamp : Option Time := none
  retryIndex : Int := 0
  parallelIndex : Option PIndex := none
  status : TaskStatus := {}
  deletedStatus : Option TaskStatus := none
  deriving DecidableEq, Repr, Inhabited

/-- the index a ref counts for: `GetDefaultIndex()` when `ParallelIndex == nil` -/
def TaskRef.index (d : PIndex) (t : TaskRef) : PIndex := t.parallelIndex.getD d
/-- `HashIndex` of that index -/
def TaskRef.hash (d : PIndex) (t : TaskRef) : String := (t.index d).hash

-- ---------------------------------------------------------------- parallel status

/-- `execution.IndexState` (`empty` = `""`, what `getIndexStatus` leaves when no case matches). -/
inductive IndexState where
  | empty | notCreated | retryBackoff | starting | running | terminated
  deriving DecidableEq, Repr, Inhabited

structure IndexStatus where
  index : PIndex
  hash : String
  createdTasks : Int := 0
  state : IndexState := .empty
  result : TaskResult := .none
  deriving DecidableEq, Repr, Inhabited

/-- `execution.ParallelStatusSummary` -/
structure Summary where
  complete : Bool := false
  successful : Option Bool := none
  deriving DecidableEq, Repr, Inhabited

/-- `execution.ParallelStatus` -/
structure ParallelStatus where
  summary : Summary := {}
  indexes : List IndexStatus := []
  deriving DecidableEq, Repr, Inhabited

/-- `execution.ParallelStatusCounters` -/
structure Counters where
  created : Int := 0
  starting : Int := 0
  running : Int := 0
  retryBackoff : Int := 0
  terminated : Int := 0
  succeeded : Int := 0
  failed : Int := 0
  deriving DecidableEq, Repr, Inhabited

-- ---------------------------------------------------------------- conditions

/-- `Reason` of `JobConditionQueueing` as `GetCondition` sets it -/
inductive QueueReason where
  | none | notYetDue | queued
  deriving DecidableEq, Repr, Inhabited

/-- `Reason` of `JobConditionWaiting` as `GetCondition` sets it -/
inductive WaitReason where
  | none | deletingTasks | pendingCreation | retryBackoff | waitingForTasks
  deriving DecidableEq, Repr, Inhabited

structure CondRunning where
  latestCreationTimestamp : Option Time := none
  latestRunningTimestamp : Option Time := none
  terminatingTasks : Int := 0
  deriving DecidableEq, Repr, Inhabited

/-- `execution.JobResult` (`other` = any other string, e.g. `""`) -/
inductive JobResult where
  | success | failed | admissionError | killed | finalStateUnknown | other
  deriving DecidableEq, Repr, Inhabited

/-- the Go constant values -/
def JobResult.str : JobResult → String
  | .success => "Success"
  | .failed => "Failed"
  | .admissionError => "AdmissionError"
  | .killed => "Killed"
  | .finalStateUnknown => "FinalStateUnknown"
  | .other => ""

structure CondFinished where
  latestCreationTimestamp : Option Time := none
  latestRunningTimestamp : Option Time := none
  finishTimestamp : Option Time := none
  result : JobResult := .other
  deriving DecidableEq, Repr, Inhabited

/-- `execution.JobCondition`: four optional members -/
structure Condition where
  queueing : Option QueueReason := none
  waiting : Option WaitReason := none
  running : Option CondRunning := none
  finished : Option CondFinished := none
  deriving DecidableEq, Repr, Inhabited

/-- number of members of a JobCondition that are set -/
def Condition.count (c : Condition) : Nat :=
  c.queueing.isSome.toNat + c.waiting.isSome.toNat + c.running.isSome.toNat + c.finished.isSome.toNat

/-- `execution.JobState` (`empty` = `""`) -/
inductive JobState where
  | empty | queued | waiting | running | finished
  deriving DecidableEq, Repr, Inhabited

-- ---------------------------------------------------------------- job

/-- `ParallelismSpec.CompletionStrategy` (`empty` = `""`, `other` = unknown string) -/
inductive Strategy where
  | empty | allSuccessful | anySuccessful | other
  deriving DecidableEq, Repr, Inhabited

/-- `ParallelismSpec.GetCompletionStrategy` -/
def Strategy.get : Strategy → Strategy
  | .empty => .allSuccessful
  | s => s

/-- `execution.ParallelismSpec`; `indexes` is the oracle for `parallel.GenerateIndexes(spec)` -/
structure ParSpec where
  strategy : Strategy := .empty
  indexes : List PIndex := []
  deriving DecidableEq, Repr, Inhabited

/-- `execution.JobTemplate` (task template dropped) -/
structure Template where
  parallelism : Option ParSpec := none
  maxAttempts : Option Int := none
  retryDelaySeconds : Option Int := none
  taskPendingTimeoutSeconds : Option Int := none
  forbidTaskForceDeletion : Bool := false
  deriving DecidableEq, Repr, Inhabited

/-- `execution.StartPolicySpec` as far as `GetCondition` reads it -/
structure StartPolicy where
  startAfter : Option Time := none
  concurrencyEnqueue : Bool := false
  deriving DecidableEq, Repr, Inhabited

structure JobStatus where
  phase : String := ""
  state : JobState := .empty
  condition : Condition := {}
  startTime : Option Time := none
  createdTasks : Int := 0
  runningTasks : Int := 0
  tasks : List TaskRef := []
  parallelStatus : Option ParallelStatus := none
  deriving DecidableEq, Repr, Inhabited

/-- `execution.Job`: the fields the pure layer reads. `admissionError` = the
`AdmissionErrorMessage` annotation is present (`jobutil.GetAdmissionErrorMessage`). -/
structure Job where
  template : Option Template := none
  killTimestamp : Option Time := none
  ttlSecondsAfterFinished : Option Int := none
  startPolicy : Option StartPolicy := none
  admissionError : Bool := false
  deletionTimestamp : Option Time := none
  status : JobStatus := {}
  deriving DecidableEq, Repr, Inhabited

/-- `Job.GetMaxAttempts` -/
def Job.maxAttempts (j : Job) : Int :=
  match j.template with
  | some t => match t.maxAttempts with
    | some m => m
    | none => 1
  | none => 1

/-- `Job.GetRetryDelay` (nanoseconds) -/
def Job.retryDelay (j : Job) : Int :=
  match j.template with
  | some t => match t.retryDelaySeconds with
    | some s => secs s
    | none => 0
  | none => 0

/-- `template.Parallelism` after the two nil-defaults at the head of `GetParallelStatus` /
`GetParallelTaskSummary` / `GetCondition` -/
def Job.parallelism (j : Job) : Option ParSpec :=
  match j.template with
  | some t => t.parallelism
  | none => none

/-- `parallel.GenerateIndexes(template.Parallelism)`: nil spec ↦ the default index alone;
otherwise the transmitted oracle list. -/
def Job.indexes (d : PIndex) (j : Job) : List PIndex :=
  match j.parallelism with
  | some p => p.indexes
  | none => [d]

/-- `spec.GetCompletionStrategy()` after the nil-defaults -/
def Job.strategy (j : Job) : Strategy :=
  match j.parallelism with
  | some p => p.strategy.get
  | none => .allSuccessful

end Furiko
