/-
Model of /repo/pkg/execution/util/cronschedule/schedule.go (Schedule: New/Pop/Bump/Delete,
getInitialTimeForScheduling, getNext), /repo/pkg/execution/util/cron/expression.go
(multiExpression.Next) and /repo/pkg/execution/controllers/croncontroller/{cron_worker,informer}.go
(Work, refreshUpdatedJobConfigs, syncOne, handleAdd, handleUpdate, handleDelete, enqueueFlush) and the
`loadedConfigs` record of controller.go (`takeLoadedConfig`).  Core Lean only.

Clock readings are Int nanoseconds; heap priorities, schedule times and API timestamps are Int
seconds.  The cron library (`cronexpr`, tzdata) sits behind `nxt : Int → Option Int` on seconds:
`expr.Next(t)` = least matching whole second strictly after `floorSec t`.
-/
import FurikoModel.Model.Heap

namespace Furiko.Cron
open Furiko

def nsPerSec : Int := 1000000000

/-- floor of a nanosecond reading to whole seconds -/
def floorSec (ns : Int) : Int := ns / 1000000000

/-- "first element of a sorted list strictly greater than s": the executable instance of `nxt`. -/
def nextInList : List Int → Int → Option Int
  | [], _ => none
  | m :: ms, s => if s < m then some m else nextInList ms s

/-- `timeutil.MinNonZero(a, b)` on optional (zero = none) times -/
def minNonZero : Option Int → Option Int → Option Int
  | none, b => b
  | a, none => a
  | some a, some b => some (if b < a then b else a)

/-- `multiExpression.Next`: fold of MinNonZero over the member expressions' Next. -/
def multiNext (exprs : List (Int → Option Int)) (s : Int) : Option Int :=
  exprs.foldl (fun earliest e =>
    match e s with
    | none => earliest
    | some n => minNonZero (some n) earliest) none

/-- What the scheduler reads of one JobConfig version. -/
structure Sched where
  /-- `schedule != nil && !schedule.Disabled && schedule.Cron != nil` -/
  enabled     : Bool
  /-- cron expression or timezone does not parse (only looked at when `enabled`) -/
  parseErr    : Bool
  /-- per cron expression of the set: its sorted match seconds in the effective timezone
  (oracle for `cronexpr.Expression.Next`); the in-repo `multiExpression` fold combines them -/
  exprs       : List (List Int)
  notBefore   : Option Int
  notAfter    : Option Int
  lastUpdated : Option Int
  /-- identity of the JSON serialisation of the ScheduleSpec (for `IsScheduleEqual`) -/
  specId      : Nat
  deriving Repr, Inhabited

structure JC where
  key           : String
  sched         : Sched
  lastScheduled : Option Int
  /-- `metadata.uid` (compared only; "" = an object without UID) -/
  uid           : String := ""
  deriving Repr, Inhabited

/-- the lower bound applied at the head of `getNext`: a reference time before `notBefore` is
replaced by `notBefore − 1ns` (so that a match exactly on `notBefore` is included). -/
def applyNotBefore (notBefore : Option Int) (fromNs : Int) : Int :=
  match notBefore with
  | some nbf => if fromNs < nbf * 1000000000 then nbf * 1000000000 - 1 else fromNs
  | none => fromNs

/-- `getNext`: `notBefore` lower bound, `expr.Next(fromTime)`, cut by `notAfter`
(`next.After(naf)` ⇒ zero). -/
def getNext (nxt : Int → Option Int) (notBefore notAfter : Option Int) (fromNs : Int) : Option Int :=
  match nxt (floorSec (applyNotBefore notBefore fromNs)) with
  | none => none
  | some n =>
    match notAfter with
    | some naf => if n > naf then none else some n
    | none => some n

/-- `NewExpressionFromCronSchedule(...).Next`: the multiExpression over the parsed expressions -/
def JC.nxt (jc : JC) : Int → Option Int := multiNext (jc.sched.exprs.map nextInList)

/-- `getInitialTimeForScheduling(jobConfig, cfg, now, now)` in nanoseconds. -/
def initialTime (jc : JC) (cfgDowntime defaultDowntime : Int) (now : Int) : Int :=
  let d : Int := (if cfgDowntime > 0 then cfgDowntime else defaultDowntime) * 1000000000
  let from0 : Int :=
    match jc.lastScheduled with
    | some ls => if now - ls * 1000000000 > d then now - d else ls * 1000000000
    | none => now
  let from1 : Int :=
    match jc.sched.lastUpdated with
    | some lu => if lu * 1000000000 > from0 then lu * 1000000000 else from0
    | none => from0
  match jc.sched.notBefore with
  | some nbf => if from1 < nbf * 1000000000 then nbf * 1000000000 - 1 else from1
  | none => from1

inductive NewResult where
  | error
  | ok (pq : Heap.PQ)

/-- `Schedule.newItem` -/
def newItem (jc : JC) (cfgDowntime defaultDowntime now : Int) : Except Unit (Option (String × Int)) :=
  if !jc.sched.enabled then .ok none
  else if jc.sched.parseErr then .error ()
  else
    let from_ := initialTime jc cfgDowntime defaultDowntime now
    match getNext jc.nxt jc.sched.notBefore jc.sched.notAfter from_ with
    | none => .ok none
    | some n => .ok (some (jc.key, n))

/-- items of `cronschedule.New` (error on the first JobConfig that does not parse) -/
def newItems (jcs : List JC) (cfgDowntime defaultDowntime now : Int) : Option (List (String × Int)) :=
  match jcs with
  | [] => some []
  | jc :: rest =>
    match newItem jc cfgDowntime defaultDowntime now with
    | .error _ => none
    | .ok it =>
      match newItems rest cfgDowntime defaultDowntime now with
      | none => none
      | some its => some (match it with | none => its | some i => i :: its)

def schedNew (jcs : List JC) (cfgDowntime defaultDowntime now : Int) : Option Heap.PQ :=
  (newItems jcs cfgDowntime defaultDowntime now).map Heap.new

/-- `Schedule.Pop(fromTime)`: `next := time.Unix(prio, 0); if next.After(fromTime) ⇒ nothing`. -/
def schedPop (pq : Heap.PQ) (nowNs : Int) : Option (Heap.PQ × String × Int) :=
  match Heap.peek pq with
  | none => none
  | some item =>
    if item.prio * 1000000000 > nowNs then none
    else
      match Heap.pop pq with
      | none => none
      | some (pq', _) => some (pq', item.name, item.prio)

def schedDelete (pq : Heap.PQ) (key : String) : Heap.PQ := (Heap.delete pq key).1

/-- `Schedule.Bump(jobConfig, fromTime)`; second component: `true` = returned an error. -/
def schedBump (pq : Heap.PQ) (jc : JC) (fromNs : Int) : Heap.PQ × Bool :=
  if !jc.sched.enabled then (schedDelete pq jc.key, false)
  else if jc.sched.parseErr then (pq, true)
  else
    match getNext jc.nxt jc.sched.notBefore jc.sched.notAfter fromNs with
    | none => (schedDelete pq jc.key, false)
    | some n =>
      if !(n * 1000000000 > fromNs) then (pq, true)
      else
        match Heap.search pq jc.key with
        | some _ => ((Heap.update pq jc.key n).1, false)
        | none => (Heap.push pq jc.key n, false)

/-! ### CronWorker -/

structure Worker where
  heap   : Heap.PQ
  lister : List (String × JC)
  /-- `updatedConfigs` channel (FIFO, head = oldest) -/
  chan   : List JC
  deriving Inhabited

def lookup (l : List (String × JC)) (k : String) : Option JC :=
  match l with
  | [] => none
  | (k', v) :: rest => if k' = k then some v else lookup rest k

def listerSet (l : List (String × JC)) (k : String) (v : JC) : List (String × JC) :=
  match l with
  | [] => [(k, v)]
  | (k', v') :: rest => if k' = k then (k, v) :: rest else (k', v') :: listerSet rest k v

def listerDel (l : List (String × JC)) (k : String) : List (String × JC) :=
  l.filter (fun p => p.1 ≠ k)

def getCount (c : List (String × Nat)) (k : String) : Nat :=
  match c with
  | [] => 0
  | (k', n) :: rest => if k' = k then n else getCount rest k

def incCount (c : List (String × Nat)) (k : String) : List (String × Nat) :=
  match c with
  | [] => [(k, 1)]
  | (k', n) :: rest => if k' = k then (k', n + 1) :: rest else (k', n) :: incCount rest k

/-- `refreshUpdatedJobConfigs(now)`: at most `limit` (=1000) flushes; each is Delete, then
Bump(now) of the version the lister currently holds (nothing is added back for a JobConfig that
is no longer in the cache). -/
def refresh (heap : Heap.PQ) (lister : List (String × JC)) (chan : List JC) (now : Int) :
    Nat → Heap.PQ × List JC
  | 0 => (heap, chan)
  | limit + 1 =>
    match chan with
    | [] => (heap, [])
    | jc :: rest =>
      let h1 := schedDelete heap jc.key
      let h2 := match lookup lister jc.key with
        | none => h1
        | some cur => (schedBump h1 cur now).1
      refresh h2 lister rest now limit

/-- outcome of `syncOne` on the heap, counters and emitted request -/
def syncOne (heap : Heap.PQ) (lister : List (String × JC)) (now : Int) (key : String) (ts : Int)
    (counts : List (String × Nat)) (maxCount : Int) :
    Heap.PQ × List (String × Nat) × Option (String × Int) :=
  match lookup lister key with
  | none => (heap, counts, none)                     -- lister miss: error, entry dropped
  | some jc =>
    if (getCount counts key : Int) ≥ maxCount then
      ((schedBump heap jc now).1, counts, none)      -- cap reached: bump from the tick's `now`
    else
      let counts' := incCount counts key
      ((schedBump heap jc (ts * 1000000000)).1, counts', some (key, ts))

/-- the pop loop of `Work`: every `Pop` uses the tick's reference time `now`. -/
def workLoop (lister : List (String × JC)) (now : Int) (maxCount : Int) :
    Nat → Heap.PQ → List (String × Nat) → List (String × Int) →
    Heap.PQ × List (String × Int) × Bool
  | 0, heap, _, acc => (heap, acc.reverse, false)   -- fuel exhausted (reported)
  | fuel + 1, heap, counts, acc =>
    match schedPop heap now with
    | none => (heap, acc.reverse, true)
    | some (h1, key, ts) =>
      let r := syncOne h1 lister now key ts counts maxCount
      workLoop lister now maxCount fuel r.1 r.2.1
        (match r.2.2 with | none => acc | some e => e :: acc)

/-- `CronWorker.Work()` with the tick's `now`, cap `maxCount`, flush limit. -/
def work (w : Worker) (now : Int) (maxCount : Int) (flushLimit fuel : Nat) :
    Worker × List (String × Int) × Bool :=
  let (h1, chan1) := refresh w.heap w.lister w.chan now flushLimit
  let (h2, fired, done) := workLoop w.lister now maxCount fuel h1 [] []
  ({ w with heap := h2, chan := chan1 }, fired, done)

/-- the pop loop as it was before the fix "pop due cron schedules using the tick's reference
time": the i-th `Pop` read the clock again (`clk i`).  Kept for the livelock witness. -/
def workLoopDrifting (lister : List (String × JC)) (now : Int) (clk : Nat → Int) (maxCount : Int) :
    Nat → Nat → Heap.PQ → List (String × Nat) → List (String × Int) →
    Heap.PQ × List (String × Int) × Bool
  | 0, _, heap, _, acc => (heap, acc.reverse, false)
  | fuel + 1, i, heap, counts, acc =>
    match schedPop heap (clk i) with
    | none => (heap, acc.reverse, true)
    | some (h1, key, ts) =>
      let r := syncOne h1 lister now key ts counts maxCount
      workLoopDrifting lister now clk maxCount fuel (i + 1) r.1 r.2.1
        (match r.2.2 with | none => acc | some e => e :: acc)

/-- Informer `UpdateFunc`: cache applied, then `handleUpdate` flushes iff the schedule specs differ. -/
def onUpdate (w : Worker) (old new : JC) (updateRegistered : Bool) : Worker :=
  let w1 := { w with lister := listerSet w.lister new.key new }
  if updateRegistered && old.sched.specId != new.sched.specId then { w1 with chan := w1.chan ++ [new] } else w1

/-- Informer add event: cache applied; handler only if registered. -/
def onAdd (w : Worker) (jc : JC) (addRegistered : Bool) : Worker :=
  let w1 := { w with lister := listerSet w.lister jc.key jc }
  if addRegistered then { w1 with chan := w1.chan ++ [jc] } else w1

/-- Informer delete event: the handler flushes (`enqueueFlush`) with the last known object. -/
def onDelete (w : Worker) (jc : JC) (deleteRegistered : Bool) : Worker :=
  let w1 := { w with lister := listerDel w.lister jc.key }
  if deleteRegistered then { w1 with chan := w1.chan ++ [jc] } else w1

/-! ### The controller `Context` next to the worker: `loadedConfigs` (F24)

The informer notifies a handler of the objects that EXIST when it joins with add events too
(client-go: synthetic adds for everything in the indexer / the initial list), and the handler runs
them whenever it gets to it — typically after `CronWorker.Init` loaded those JobConfigs with their
catch-up schedule.  `Init` therefore records what it loaded (namespaced key ↦ UID, under a mutex it
holds for the whole of `Init`, so a handler that sees `scheduleInitialized = 1` sees the complete
record), `handleAdd` ignores the add of a recorded JobConfig with the recorded UID and forgets the
record, `handleDelete` forgets it before it flushes.  The three `Bool` parameters (`records`,
`takes`, `forgets`) say whether the source has these shapes; they come from `Generated/Facts.lean`
(`cronInitRecordsLoaded`, `cronHandleAddTakesLoaded`, `cronHandleDeleteForgetsLoaded`; all `false`
on the tree before the repair, where every add flushes). -/

structure Ctl where
  worker : Worker
  /-- `Context.loadedConfigs`: key ↦ UID of the JobConfigs `Init` loaded and no add/delete consumed -/
  loaded : List (String × String)
  deriving Inhabited

def lookupUid (l : List (String × String)) (k : String) : Option String :=
  match l with
  | [] => none
  | (k', u) :: rest => if k' = k then some u else lookupUid rest k

/-- `delete(c.loadedConfigs, key)` -/
def forget (l : List (String × String)) (k : String) : List (String × String) :=
  l.filter (fun p => p.1 ≠ k)

/-- `Context.takeLoadedConfig(rjc)`: `uid, ok := loadedConfigs[key]; delete(loadedConfigs, key);
return ok && uid == rjc.GetUID()` -/
def takeLoaded (l : List (String × String)) (jc : JC) : List (String × String) × Bool :=
  (forget l jc.key, lookupUid l jc.key == some jc.uid)

/-- what `CronWorker.Init` records: `loadedConfigs[key] = uid` for every listed JobConfig (a Go map:
a later duplicate key would overwrite; the lister's keys are distinct) -/
def recordLoaded : List JC → List (String × String)
  | [] => []
  | jc :: rest => (jc.key, jc.uid) :: forget (recordLoaded rest) jc.key

/-- `CronWorker.Init` on the listed JobConfigs (`none` = `cronschedule.New` failed: no schedule,
nothing recorded). -/
def ctlInit (jcs : List JC) (cfgDowntime defaultDowntime now : Int) (records : Bool) : Option Ctl :=
  (schedNew jcs cfgDowntime defaultDowntime now).map fun pq =>
    { worker := { heap := pq, lister := jcs.map (fun jc => (jc.key, jc)), chan := [] },
      loaded := if records then recordLoaded jcs else [] }

/-- `InformerWorker.handleAdd` once `scheduleInitialized = 1` (before that it returns at once; the
driver models that by not having a `Ctl` yet).  The cache is NOT touched here. -/
def handleAdd (c : Ctl) (jc : JC) (addRegistered takes : Bool) : Ctl :=
  if !addRegistered then c
  else if takes then
    let r := takeLoaded c.loaded jc
    if r.2 then { c with loaded := r.1 }
    else { worker := { c.worker with chan := c.worker.chan ++ [jc] }, loaded := r.1 }
  else { c with worker := { c.worker with chan := c.worker.chan ++ [jc] } }

/-- the informer's add notification for a JobConfig that existed when the handler joined: the cache
holds the object already, only the handler runs. -/
def ctlInitialAdd (c : Ctl) (jc : JC) (addRegistered takes : Bool) : Ctl :=
  handleAdd c jc addRegistered takes

/-- a runtime add event: cache applied, then `handleAdd`. -/
def ctlAdd (c : Ctl) (jc : JC) (addRegistered takes : Bool) : Ctl :=
  handleAdd { c with worker := { c.worker with lister := listerSet c.worker.lister jc.key jc } }
    jc addRegistered takes

/-- a delete event: cache applied, then `handleDelete` (forget the record, flush). -/
def ctlDelete (c : Ctl) (jc : JC) (deleteRegistered forgets : Bool) : Ctl :=
  { worker := onDelete c.worker jc deleteRegistered,
    loaded := if deleteRegistered && forgets then forget c.loaded jc.key else c.loaded }

/-- an update event (`handleUpdate` does not look at the record). -/
def ctlUpdate (c : Ctl) (old new : JC) (updateRegistered : Bool) : Ctl :=
  { c with worker := onUpdate c.worker old new updateRegistered }

/-- a tick -/
def ctlWork (c : Ctl) (now : Int) (maxCount : Int) (flushLimit fuel : Nat) :
    Ctl × List (String × Int) × Bool :=
  let r := work c.worker now maxCount flushLimit fuel
  ({ c with worker := r.1 }, r.2.1, r.2.2)

end Furiko.Cron
