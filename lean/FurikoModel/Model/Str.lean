/-
String-level primitives the cron reconciler's key codec and Job naming are built from, on
`List Char` (names and keys are modelled as character lists because C02 is about their syntax).
Core Lean only.

  showInt   — Go `fmt.Sprintf("%v", int64)` / `strconv.Itoa`
  atoi      — Go `strconv.Atoi` on a 64-bit platform (optional sign, decimal digits only,
              empty / sign-only / any other byte ⇒ error, value outside int64 ⇒ error)
  splitOn   — Go `strings.Split(s, sep)` for a one-character separator
  join      — Go `strings.Join(tokens, sep)` for a one-character separator
-/
namespace Furiko.Str

abbrev Str := List Char

/-! ### decimal rendering -/

/-- decimal digits of a natural number, most significant first (`0 ↦ "0"`). -/
def natDigits (n : Nat) : Str := Nat.toDigits 10 n

/-- Go `%v` of an `int64` / `strconv.Itoa`: `-` followed by the digits of `|t|` for negative `t`. -/
def showInt (t : Int) : Str :=
  if t < 0 then '-' :: natDigits t.natAbs else natDigits t.natAbs

/-! ### decimal parsing -/

/-- `ch -= '0'; if ch > 9 { error }` of `strconv.Atoi` / the digit switch of `ParseUint` in base 10 -/
def digitVal (c : Char) : Option Nat :=
  if '0' ≤ c ∧ c ≤ '9' then some (c.toNat - '0'.toNat) else none

/-- the accumulation loop `n = n*10 + d` (unbounded; the range check is applied by the caller) -/
def parseDigitsFrom (acc : Nat) : Str → Option Nat
  | [] => some acc
  | c :: cs =>
    match digitVal c with
    | none => none
    | some d => parseDigitsFrom (acc * 10 + d) cs

def parseDigits (s : Str) : Option Nat := parseDigitsFrom 0 s

def int64Min : Int := -9223372036854775808
def int64Max : Int := 9223372036854775807
def InInt64 (t : Int) : Prop := int64Min ≤ t ∧ t ≤ int64Max
instance (t : Int) : Decidable (InInt64 t) := by unfold InInt64; exact inferInstance

/-- sign handling shared by `atoi` and `atoiU`: optional leading `+`/`-`, then at least one
character (Go: `if len(s) < 1 { syntax error }`). -/
def signSplit : Str → Option (Bool × Str)
  | [] => none
  | c :: rest =>
    let (neg, ds) := if c = '-' then (true, rest) else if c = '+' then (false, rest) else (false, c :: rest)
    if ds.isEmpty then none else some (neg, ds)

/-- `strconv.Atoi` without the int64 range check (used to state unbounded round trips). -/
def atoiU (s : Str) : Option Int :=
  match signSplit s with
  | none => none
  | some (neg, ds) =>
    match parseDigits ds with
    | none => none
    | some n => some (if neg then -(n : Int) else (n : Int))

/-- `strconv.Atoi` (64-bit `int`): `ParseInt`'s cutoff is `1<<63`: a non-negative value
`≥ 2^63` and a negative one `< -2^63` are range errors. -/
def atoi (s : Str) : Option Int :=
  match atoiU s with
  | none => none
  | some v => if InInt64 v then some v else none

/-! ### split / join on a single character -/

/-- `strings.Split(s, string(sep))`: always at least one token; `"" ↦ [""]`. -/
def splitOn (sep : Char) : Str → List Str
  | [] => [[]]
  | c :: cs =>
    if c = sep then [] :: splitOn sep cs
    else
      match splitOn sep cs with
      | [] => [[c]]
      | t :: ts => (c :: t) :: ts

/-- `strings.Join(tokens, string(sep))` -/
def join (sep : Char) : List Str → Str
  | [] => []
  | [a] => a
  | a :: b :: rest => a ++ sep :: join sep (b :: rest)

end Furiko.Str
