/-
Model of `pkg/execution/util/job/{condition.go,phase.go,active.go,timeout.go}` and of the pure
helpers of the job controller (`jobcontroller/util.go`: getJobStateFromCondition, canCreateTask,
shouldKillJob, shouldKillJobForParallel, isDeleted; `reconciler.go`:
UpdateJobStatusFromTaskRefs).  Core Lean only.

`now` is `ktime.Clock.Now()`; `d` is `parallel.GetDefaultIndex()`.
-/
import FurikoModel.Generated.Facts
import FurikoModel.Model.Task
import FurikoModel.Model.ParallelStatus
namespace Furiko

-- ---------------------------------------------------------------- phases

/-- `JobPhase.IsTerminal`, from the regenerated case list -/
def phaseIsTerminal (p : String) : Bool := Facts.terminalPhases.contains p

def phaseKilling : String := "Killing"
def phaseTerminating : String := "Terminating"
def phaseRunning : String := "Running"
def phaseStarting : String := "Starting"
def phaseRetryBackoff : String := "RetryBackoff"
def phaseRetrying : String := "Retrying"
def phasePending : String := "Pending"
def phaseQueued : String := "Queued"

/-- the result switch at the head of `job.GetPhase`, from the regenerated table -/
def phaseOfResult (r : JobResult) : String :=
  (Facts.resultToPhase.lookup r.str).getD Facts.resultDefaultPhase

-- ---------------------------------------------------------------- condition.go

/-- latest creation / running / finish timestamps over all task refs (the `TimeMax` loop) -/
def latestCreated (tasks : List TaskRef) : Option Time :=
  tasks.foldl (fun acc t => timeMax acc t.creationTimestamp) none
def latestRunning (tasks : List TaskRef) : Option Time :=
  tasks.foldl (fun acc t => timeMax acc t.runningTimestamp) none
def latestFinished (tasks : List TaskRef) : Option Time :=
  tasks.foldl (fun acc t => timeMax acc t.finishTimestamp) none

/-- the `Queueing` reason -/
def queueReason (rj : Job) : QueueReason :=
  match rj.startPolicy with
  | some spec =>
    if spec.startAfter.isSome then .notYetDue
    else if spec.concurrencyEnqueue then .queued
    else .none
  | none => .none

/-- the result of the final branch of `GetCondition` -/
def finishedResult (rj : Job) (summary : Summary) : JobResult :=
  if rj.killTimestamp.isSome then .killed
  else match summary.successful with
    | some true => .success
    | some false => .failed
    | none => .finalStateUnknown

/-- `job.GetCondition(rj)` (branches in source order). -/
def getCondition (now : Time) (d : PIndex) (rj : Job) : Condition :=
  -- We cannot create tasks due to a user error.
  if rj.admissionError then
    let old := match rj.status.condition.finished with
      | some o => o.finishTimestamp
      | none => none
    { finished := some {
        finishTimestamp := if old.isSome then old else some now
        result := .admissionError } }
  -- Not yet started.
  else if rj.status.startTime.isNone then
    { queueing := some (queueReason rj) }
  else
    let tasks := rj.status.tasks
    let numIndexes : Int := (rj.indexes d).length
    let parallelStatus := getParallelStatus d rj tasks
    let counters := getParallelStatusCounters parallelStatus.indexes
    let lc := latestCreated tasks
    let lr := latestRunning tasks
    let lf := latestFinished tasks
    -- Job is being killed.
    if isTimeSetAndEarlierOrEqual now rj.killTimestamp then
      -- All tasks are already terminated.
      if counters.terminated ≥ numIndexes then
        { finished := some {
            latestCreationTimestamp := lc
            latestRunningTimestamp := lr
            finishTimestamp := if lf.isSome then lf else rj.killTimestamp
            result := .killed } }
      else
        { waiting := some .deletingTasks }
    -- If not complete, it must be either waiting or running.
    else if !parallelStatus.summary.complete then
      if counters.created < numIndexes then { waiting := some .pendingCreation }
      else if counters.retryBackoff > 0 then { waiting := some .retryBackoff }
      else if counters.starting > 0 then { waiting := some .waitingForTasks }
      else { running := some { latestCreationTimestamp := lc, latestRunningTimestamp := lr } }
    -- The job is complete but currently waiting to be terminated.
    else if counters.terminated < numIndexes then
      { running := some { latestCreationTimestamp := lc, latestRunningTimestamp := lr,
                          terminatingTasks := numIndexes - counters.terminated } }
    -- The job is now completely finished.
    else
      { finished := some {
          latestCreationTimestamp := lc
          latestRunningTimestamp := lr
          finishTimestamp := lf
          result := finishedResult rj parallelStatus.summary } }

-- ---------------------------------------------------------------- phase.go

/-- the parallel branch of the Waiting case: count RetryBackoff and retrying indexes -/
def waitingPhaseParallel (ps : ParallelStatus) : String :=
  let retryBackoff := ps.indexes.countP (fun i => i.state == .retryBackoff)
  let retrying := ps.indexes.countP (fun i => i.state != .retryBackoff && i.state == .starting && decide (i.createdTasks > 1))
  if retryBackoff > 0 then phaseRetryBackoff
  else if retrying > 0 then phaseRetrying
  else phasePending

/-- `job.GetPhase(rj)` -/
def getPhase (now : Time) (rj : Job) : String :=
  match rj.status.condition.finished with
  | some f => phaseOfResult f.result
  | none =>
    -- Use JobKilling if kill timestamp has passed.
    if isTimeSetAndEarlierOrEqual now rj.killTimestamp then phaseKilling
    else match rj.status.condition.running with
      | some r => if r.terminatingTasks > 0 then phaseTerminating else phaseRunning
      | none =>
        match rj.status.condition.waiting with
        | some _ =>
          -- No tasks created yet.
          match rj.status.tasks.getLast? with
          | none => phaseStarting
          | some latestTask =>
            match rj.status.parallelStatus with
            | none =>
              if latestTask.finishTimestamp.isSome then phaseRetryBackoff
              else if rj.status.createdTasks > 1 then phaseRetrying
              else phasePending
            | some ps => waitingPhaseParallel ps
        | none => phaseQueued

-- ---------------------------------------------------------------- active.go

/-- `job.IsStarted` -/
def isStarted (rj : Job) : Bool := rj.status.startTime.isSome
/-- `job.IsQueued` -/
def isQueued (rj : Job) : Bool := !isStarted rj && !phaseIsTerminal rj.status.phase
/-- `job.IsActive` -/
def isActive (rj : Job) : Bool := isStarted rj && !phaseIsTerminal rj.status.phase

-- ---------------------------------------------------------------- timeout.go

/-- `configv1alpha1.JobExecutionConfig` as far as timeout.go reads it -/
structure ExecConfig where
  defaultTTLSecondsAfterFinished : Option Int := none
  defaultPendingTimeoutSeconds : Option Int := none
  forceDeleteTaskTimeoutSeconds : Option Int := none
  deriving DecidableEq, Repr, Inhabited

/-- `job.GetPendingTimeout(rj, cfg)` in nanoseconds; `none` = nil-pointer panic
(`rj.Spec.Template` is dereferenced unconditionally). -/
def getPendingTimeout (rj : Job) (cfg : ExecConfig) : Option Int :=
  match rj.template with
  | none => none
  | some t =>
    let sec := match cfg.defaultPendingTimeoutSeconds with
      | some s => s
      | none => 0
    let sec := match t.taskPendingTimeoutSeconds with
      | some pt => if pt ≥ 0 then pt else sec
      | none => sec
    some (secs sec)

/-- `job.GetForceDeleteTimeout(cfg)` -/
def getForceDeleteTimeout (cfg : ExecConfig) : Int :=
  secs (match cfg.forceDeleteTaskTimeoutSeconds with
    | some s => s
    | none => 0)

/-- `job.GetTTLAfterFinished(rj, cfg)` -/
def getTTLAfterFinished (rj : Job) (cfg : ExecConfig) : Int :=
  let sec := match cfg.defaultTTLSecondsAfterFinished with
    | some s => s
    | none => 0
  let sec := match rj.ttlSecondsAfterFinished with
    | some t => t
    | none => sec
  secs sec

-- ---------------------------------------------------------------- jobcontroller/util.go

/-- `isDeleted` -/
def isDeleted (rj : Job) : Bool := rj.deletionTimestamp.isSome

/-- `canCreateTask` -/
def canCreateTask (rj : Job) : Bool :=
  if rj.killTimestamp.isSome then false
  else if rj.admissionError then false
  else true

/-- `shouldKillJobForParallel` -/
def shouldKillJobForParallel (rj : Job) : Bool :=
  match rj.template with
  | none => false
  | some t =>
    match t.parallelism with
    | none => false
    | some spec =>
      match rj.status.parallelStatus with
      | none => false
      | some st =>
        match st.summary.successful with
        | none => false
        | some successful =>
          if !st.summary.complete then false
          else match spec.strategy.get with
            | .allSuccessful => !successful
            | .anySuccessful => successful
            | _ => false

/-- `shouldKillJob` -/
def shouldKillJob (now : Time) (rj : Job) : Bool :=
  -- Kill job due to kill timestamp.
  if isTimeSetAndEarlierOrEqual now rj.killTimestamp then true
  -- Kill job due to parallel completion strategy.
  else if shouldKillJobForParallel rj then true
  -- Kill remaining tasks if the job was terminated due to an AdmissionError (commit 4da8936).
  else if rj.admissionError then true
  else false

/-- `isTaskFinished` -/
def isTaskFinished (t : Task) : Bool := t.ref.finishTimestamp.isSome

/-- `getJobStateFromCondition` (case order as in the source; default `Queued`) -/
def getJobStateFromCondition (c : Condition) : JobState :=
  if c.queueing.isSome then .queued
  else if c.waiting.isSome then .waiting
  else if c.running.isSome then .running
  else if c.finished.isSome then .finished
  else .queued

-- ---------------------------------------------------------------- UpdateJobStatusFromTaskRefs

/-- the condition a deleting, unfinished Job is given ("we use Killed as the final result") -/
def deletionOverride (now : Time) (c : Condition) : Condition :=
  let (latestCreation, latestRunning) : Option Time × Option Time :=
    match c.running with
    | some r => (r.latestCreationTimestamp, r.latestRunningTimestamp)
    | none => (some now, none)
  { finished := some {
      latestCreationTimestamp := latestCreation
      latestRunningTimestamp := latestRunning
      finishTimestamp := latestCreation
      result := .killed } }

/-- does the "job is being deleted and is not properly finished" branch fire?
(`newRj.DeletionTimestamp != nil && newRj.Status.Condition.Finished == nil`) -/
def deletionOverrides (rj : Job) (condition : Condition) : Bool :=
  rj.deletionTimestamp.isSome && condition.finished.isNone

/-- the status `UpdateJobStatusFromTaskRefs` has built just before the phase is set, in the
order of the source (since commit 4c102ea, which repaired finding F13):
1. `ParallelStatus` (only if `Template.Parallelism != nil`),
2. `Condition := GetCondition(rj)`,
3. deletion override of `Condition`,
4. `State := getJobStateFromCondition(newRj.Status.Condition)`.
`preFix = true` is the counterfactual order of the source before that commit: `State` was
assigned from the computed condition between steps 2 and 3. -/
def statusBeforePhase (preFix : Bool) (now : Time) (d : PIndex) (rj : Job) (template : Template) : JobStatus :=
  let parallelStatus := match template.parallelism with
    | some _ => some (getParallelStatus d rj rj.status.tasks)
    | none => rj.status.parallelStatus
  let condition := getCondition now d rj
  let condition' := if deletionOverrides rj condition then deletionOverride now condition else condition
  let state := if preFix then getJobStateFromCondition condition else getJobStateFromCondition condition'
  { rj.status with parallelStatus := parallelStatus, condition := condition', state := state }

/-- `UpdateJobStatusFromTaskRefs` in both assignment orders (`preFix = false`: the source).
`none` = nil-pointer panic (`rj.Spec.Template.Parallelism` with `Template == nil`). -/
def updateJobStatusFromTaskRefsWith (preFix : Bool) (now : Time) (d : PIndex) (rj : Job) : Option Job :=
  match rj.template with
  | none => none
  | some template =>
    let st := statusBeforePhase preFix now d rj template
    -- Set phase based on computed status so far.
    some { rj with status := { st with phase := getPhase now { rj with status := st } } }

/-- `jobcontroller.UpdateJobStatusFromTaskRefs(rj)` as it is in the source -/
def updateJobStatusFromTaskRefs := updateJobStatusFromTaskRefsWith false
/-- COUNTERFACTUAL: the assignment order before commit 4c102ea (finding F13), kept only for the
witness theorem `state_mismatch_when_deleting_prefix_witness` -/
def updateJobStatusFromTaskRefsPreFix := updateJobStatusFromTaskRefsWith true

end Furiko
