/-
Model of the mutating admission path (property C16):
`pkg/execution/mutation/{mutation,patcher_jobs,patcher_jobconfigs}.go`,
`pkg/execution/util/jobconfig/{job,job_utils}.go` (`NewJobFromJobConfig`, `ValidateLookupJobOwner`),
`pkg/utils/meta/finalizers.go`, `pkg/utils/ktime` (`IsTimeSetAndLaterThan`), and the
accept / reject decision of the two mutating webhooks' `Handle`.  Core Lean only.

Every Go function is mirrored one for one (same statement order, same guards, same oddities);
the doc comment of each definition names the Go function.

What is modelled explicitly: the parts of `Job` / `JobConfig` / `JobTemplate` / `PodTemplateSpec`
that mutation reads or writes.  Everything else of an object travels in opaque `rest` tags (the
harness sends a hash of the JSON of the remaining fields and prints the hash of the same fields
of the defaulted object, so "the rest is carried over unchanged" is part of the correspondence).

Go maps (`labels`, `annotations`, `substitutions`) are association lists in which the FIRST
binding of a key is the map's value (`mget`); `m[k] = v` is `mset` (cons), `labels.Merge(lo, hi)` /
`options.MergeSubstitutions(lo, hi)` is `mmerge lo hi = hi ++ lo`.  The representation is not
canonical; the observable (JSON, keys sorted) is `canon`, and map-valued fields are compared
extensionally (`MapEq`) by the theorems.  `nil` and empty maps / slices are not distinguished
(both are omitted from the JSON that leaves the webhook).

External libraries behind parameters (oracle data sent by the harness on every op line):
  * option evaluation itself is NOT an oracle: `Options.evaluateOptions`, `makeDefaultOptions`,
    `defaultingOption` of `Model/Options.lean` are reused (the date library sits behind
    `Options.DateOracle` as there);
  * `jsonyaml.UnmarshalString` + `json.Marshal` of `spec.optionValues` (`Env.parseOV`): for a
    string either `none` (not a JSON/YAML object) or the normalised JSON text and the decoded
    values;
  * `options.HashOptionSpec` (hashstructure): `JobConfig.optionHash`.

Times: `metav1.Time` values that went through JSON are whole seconds (`Int`, Unix); the clock
reading is nanoseconds.  A timestamp written by the mutator (`lastUpdated = now`) is modelled by
its JSON rendering `floorSec now`, which is exact because nothing reads it again inside the
same `Handle` call.
-/
import FurikoModel.Model.Subst

namespace Furiko.Mutation
open Furiko.Options (Str Opt Value DateOracle EvalErr)

/-! ### Go maps -/

abbrev SMap := List (Str × Str)

/-- `m[k]` (with the `ok` flag) -/
def mget (m : SMap) (k : Str) : Option Str := Options.lookupS k m
/-- `m[k] = v` -/
def mset (m : SMap) (k v : Str) : SMap := (k, v) :: m
/-- `labels.Merge(lo, hi)` / `options.MergeSubstitutions(lo, hi)`: `hi` wins -/
def mmerge (lo hi : SMap) : SMap := hi ++ lo

/-- extensional equality of two maps -/
def MapEq (a b : SMap) : Prop := ∀ k, mget a k = mget b k

/-- first binding of every key, in order of first occurrence -/
def dedupKeys : SMap → SMap
  | [] => []
  | e :: rest => e :: (dedupKeys rest).filter (fun x => x.1 ≠ e.1)

/-- what `json.Marshal` shows of a Go map: one entry per key, keys sorted -/
def canon (m : SMap) : SMap := Subst.sortByKey (dedupKeys m)

/-! ### objects -/

structure OwnerRef where
  apiVersion : Str
  kind : Str
  name : Str
  uid : Str
  controller : Option Bool
  blockOwnerDeletion : Option Bool
deriving DecidableEq, Repr

/-- `TaskTemplate.Pod` (`*PodTemplateSpec`): `spec.restartPolicy` and the rest -/
structure PodTemplate where
  restartPolicy : Str
  rest : Str
deriving DecidableEq, Repr

/-- `*ParallelismSpec`: `completionStrategy` and the rest (withCount / withKeys / withMatrix) -/
structure Parallelism where
  completionStrategy : Str
  rest : Str
deriving DecidableEq, Repr

/-- `v1alpha1.JobTemplate` (all six fields) -/
structure JobTemplate where
  pod : Option PodTemplate := none
  parallelism : Option Parallelism := none
  maxAttempts : Option Int := none
  retryDelaySeconds : Option Int := none
  pendingTimeout : Option Int := none
  forbidForceDeletion : Bool := false
deriving DecidableEq, Repr

structure StartPolicy where
  concurrencyPolicy : Str := []
  startAfter : Option Int := none
deriving DecidableEq, Repr

structure Job where
  namespace_ : Str
  /-- `CreationTimestamp.Unix()` (the zero time is `zeroUnix`) -/
  createTime : Int
  finalizers : List Str
  labels : SMap
  annotations : SMap
  owners : List OwnerRef
  configName : Str
  type_ : Str
  startPolicy : Option StartPolicy
  template : Option JobTemplate
  optionValues : Str
  substitutions : SMap
  ttl : Option Int
  /-- all other fields (name, uid, killTimestamp, status, …) -/
  rest : Str
deriving DecidableEq, Repr

structure Cron where
  expression : Str
  expressions : List Str
  timezone : Str
deriving DecidableEq, Repr

structure Constraints where
  notBefore : Option Int
  notAfter : Option Int
deriving DecidableEq, Repr

/-- `*ScheduleSpec` -/
structure Schedule where
  cron : Option Cron
  disabled : Bool
  constraints : Option Constraints
  lastUpdated : Option Int
deriving DecidableEq, Repr

structure JobConfig where
  namespace_ : Str
  name : Str
  uid : Str
  /-- `spec.template.metadata.labels` / `.annotations` -/
  tmplLabels : SMap
  tmplAnnotations : SMap
  /-- `spec.template.spec` -/
  template : JobTemplate
  /-- `spec.concurrency.policy` -/
  policy : Str
  schedule : Option Schedule
  /-- `spec.option` (`none` = nil pointer) -/
  option : Option (List Opt)
  /-- oracle: `options.HashOptionSpec(spec.option)` (only read from JobConfigs of the cache) -/
  optionHash : Str
  rest : Str
deriving DecidableEq, Repr

/-! ### environment -/

/-- `ctrlContext.Configs().Jobs()`: `ok = false` is a load error -/
structure Cfg where
  ok : Bool := true
  defaultTTL : Option Int := none
  defaultPendingTimeout : Option Int := none
deriving DecidableEq, Repr

/-- `jsonyaml.UnmarshalString(s, &map)` followed by `json.Marshal(map)` -/
structure OVParse where
  normalised : Str
  values : List (Str × Value)

structure Env where
  /-- `mutation.Clock.Now()` in nanoseconds -/
  nowNs : Int
  cfg : Cfg
  /-- the JobConfig informer cache -/
  store : List JobConfig
  parseOV : Str → Option OVParse
  date : DateOracle

/-- `field.ErrorType` of the validation errors the mutators produce -/
inductive AdmErr where
  | notFound | internal | duplicate | required | invalid | notSupported
deriving DecidableEq, Repr

inductive Warn where
  | templateOverwritten | optionValuesIgnored
deriving DecidableEq, Repr

/-- `webhook.Result` together with the object mutated in place -/
structure Result (α : Type) where
  obj : α
  errors : List AdmErr := []
  warnings : List Warn := []

/-- `Result.Merge` while threading the in-place mutated object -/
def Result.andThen {α : Type} (r : Result α) (f : α → Result α) : Result α :=
  let r' := f r.obj
  { obj := r'.obj, errors := r.errors ++ r'.errors, warnings := r.warnings ++ r'.warnings }

def ofEvalErr : EvalErr → AdmErr
  | .invalid => .invalid
  | .required => .required
  | .notSupported => .notSupported

/-! ### times -/

/-- Unix seconds of the zero `time.Time` -/
def zeroUnix : Int := -62135596800

def floorSec (ns : Int) : Int := ns / 1000000000

/-- `ktime.IsTimeSetAndLaterThan(ts, now)`: `!t.IsZero() && t.After(now)` -/
def isTimeSetAndLaterThan (ts : Option Int) (nowNs : Int) : Bool :=
  match ts with
  | none => false
  | some s => s != zeroUnix && decide (nowNs < s * 1000000000)

/-! ### finalizers (`pkg/utils/meta/finalizers.go`) -/

/-- `meta.ContainsFinalizer` -/
def containsFinalizer (fs : List Str) (f : Str) : Bool := fs.contains f

/-- `meta.MergeFinalizers`: all of the first list, then those of the second that are not in the
FIRST list (duplicates inside the second list survive) -/
def mergeFinalizers (f1 f2 : List Str) : List Str := f1 ++ f2.filter (fun f => !f1.contains f)

/-! ### JobConfig lookup and base Job -/

/-- `lister.JobConfigs(ns).Get(name)` -/
def lookupJobConfig (store : List JobConfig) (ns name : Str) : Option JobConfig :=
  store.find? (fun c => c.namespace_ = ns && c.name = name)

/-- `metav1.NewControllerRef(rjc, GVKJobConfig)` -/
def controllerRef (c : JobConfig) : OwnerRef :=
  { apiVersion := Facts.admAPIVersion, kind := Facts.admKindJobConfig, name := c.name, uid := c.uid,
    controller := some true, blockOwnerDeletion := some true }

/-- the fields of the Job built by `jobconfig.NewJobFromJobConfig` that `evaluateConfigName` uses -/
structure BaseJob where
  labels : SMap
  annotations : SMap
  finalizers : List Str
  owners : List OwnerRef
  template : JobTemplate

/-- `jobconfig.NewJobFromJobConfig(rjc, jobType, createTime)`; `none` = error (a default option
value cannot be evaluated).  `makeLabels`: template labels, then the uid label on top;
`makeAnnotations`: template annotations, plus the schedule time for Scheduled jobs. -/
def newJobFromJobConfig (c : JobConfig) (jobType : Str) (createTime : Int) : Option BaseJob :=
  match Options.makeDefaultOptions c.option with
  | none => none
  | some _ =>
    some {
      labels := mset c.tmplLabels Facts.admLabelUID c.uid
      annotations :=
        if jobType = Facts.admJobTypeScheduled then
          mset c.tmplAnnotations Facts.admAnnScheduleTime (Subst.itoa createTime)
        else c.tmplAnnotations
      finalizers := [Facts.admFinalizer]
      owners := [controllerRef c]
      template := c.template }

/-- `Mutator.evaluateConfigName(rj, rj.Spec.ConfigName, …)`.  The assignments follow
`Facts.admConfigNameWrites`.  Oddity kept: the warning is raised whenever `spec.template` is
non-nil (the code compares a pointer with a struct value, which is never equal). -/
def evaluateConfigName (env : Env) (j : Job) : Result Job :=
  if j.configName = [] then { obj := j } else
  match lookupJobConfig env.store j.namespace_ j.configName with
  | none => { obj := j, errors := [.notFound] }
  | some c =>
    match newJobFromJobConfig c j.type_ j.createTime with
    | none => { obj := j, errors := [.internal] }
    | some base =>
      let labels := mmerge base.labels j.labels
      let annotations := mmerge base.annotations j.annotations
      let finalizers := mergeFinalizers base.finalizers j.finalizers
      let owners := base.owners
      let labels := mset labels Facts.admLabelUID ((mget base.labels Facts.admLabelUID).getD [])
      let warnings := if j.template.isSome then [Warn.templateOverwritten] else []
      let template := some base.template
      let sp := j.startPolicy.getD {}
      let sp := if sp.concurrencyPolicy = [] then { sp with concurrencyPolicy := c.policy } else sp
      { obj := { j with labels := labels, annotations := annotations, finalizers := finalizers,
                        owners := owners, template := template, startPolicy := some sp,
                        configName := [] },
        warnings := warnings }

/-- `metav1.GetControllerOf` -/
def getControllerOf (owners : List OwnerRef) : Option OwnerRef :=
  owners.find? (fun r => r.controller = some true)

/-- `jobconfig.ValidateLookupJobOwner` (the error's field path is not modelled) -/
def validateLookupJobOwner (store : List JobConfig) (j : Job) : Except AdmErr (Option JobConfig) :=
  match getControllerOf j.owners with
  | none => .ok none
  | some ref =>
    if ref.kind ≠ Facts.admKindJobConfig then .ok none else
    match lookupJobConfig store j.namespace_ ref.name with
    | none => .error .notFound
    | some c =>
      if c.uid ≠ ref.uid then .error .duplicate
      else if (mget j.labels Facts.admLabelUID).getD [] ≠ c.uid then .error .required
      else .ok (some c)

/-- `Mutator.evaluateOptionValues(rj, rjc, …)`.  (`json.Marshal` of decoded values and
`HashOptionSpec` cannot fail; those two branches are not modelled.) -/
def evaluateOptionValues (env : Env) (j : Job) (rjc : Option JobConfig) : Result Job :=
  match rjc with
  | none => { obj := j, warnings := if j.optionValues ≠ [] then [.optionValuesIgnored] else [] }
  | some c =>
    let parsed : Option (Job × List (Str × Value)) :=
      if j.optionValues ≠ [] then
        match env.parseOV j.optionValues with
        | none => none
        | some p =>
          some ({ j with optionValues := p.normalised,
                         annotations := mset j.annotations Facts.admAnnOptionSpecHash c.optionHash },
                p.values)
      else some (j, [])
    match parsed with
    | none => { obj := j, errors := [.invalid] }
    | some (j, vals) =>
      let ev := Options.evaluateOptions env.date vals c.option
      if ev.2 ≠ [] then { obj := j, errors := ev.2.map ofEvalErr }
      else { obj := { j with substitutions := mmerge ev.1 j.substitutions } }

/-- `variablecontext.ContextProvider.MakeVariablesFromJobConfig` -/
def jobConfigVars (c : JobConfig) : SMap :=
  Subst.jobConfigVariables { uid := c.uid, name := c.name, namespace_ := c.namespace_ }

/-- state threaded through the phases of `MutateCreateJob` -/
structure CreateSt where
  job : Job
  errors : List AdmErr := []
  warnings : List Warn := []
  /-- result of the owner lookup -/
  rjc : Option JobConfig := none
  /-- the early `return result` was taken -/
  returned : Bool := false

def CreateSt.merge (st : CreateSt) (r : Result Job) : CreateSt :=
  { st with job := r.obj, errors := st.errors ++ r.errors, warnings := st.warnings ++ r.warnings }

/-- one top-level phase of `Mutator.MutateCreateJob` -/
def createStep (env : Env) (st : CreateSt) : Facts.AdmCreateStep → CreateSt
  | .addFinalizer =>
    if !containsFinalizer st.job.finalizers Facts.admFinalizer then
      { st with job := { st.job with finalizers := mergeFinalizers st.job.finalizers [Facts.admFinalizer] } }
    else st
  | .evaluateConfigName => st.merge (evaluateConfigName env st.job)
  | .lookupOwner =>
    match validateLookupJobOwner env.store st.job with
    | .error e => { st with errors := st.errors ++ [e], returned := true }
    | .ok c => { st with rjc := c }
  | .evaluateOptionValues => st.merge (evaluateOptionValues env st.job st.rjc)
  | .mergeContext =>
    match st.rjc with
    | some c => { st with job := { st.job with substitutions := mmerge (jobConfigVars c) st.job.substitutions } }
    | none => st

/-- `Mutator.MutateCreateJob`: the phases in the order of the source (`Facts.admCreateJobSteps`) -/
def mutateCreateJob (env : Env) (j : Job) : Result Job :=
  let st := Facts.admCreateJobSteps.foldl
    (fun st s => if st.returned then st else createStep env st s) ({ job := j } : CreateSt)
  { obj := st.job, errors := st.errors, warnings := st.warnings }

/-! ### defaults -/

/-- `Mutator.MutateParallelismSpec` -/
def mutateParallelism (p : Parallelism) : Parallelism :=
  if p.completionStrategy = [] then { p with completionStrategy := Facts.admDefaultCompletionStrategy } else p

/-- `Mutator.MutatePodTemplateSpec` -/
def mutatePod (p : PodTemplate) : PodTemplate :=
  if p.restartPolicy = [] then { p with restartPolicy := Facts.admDefaultRestartPolicy } else p

/-- `Mutator.MutateJobTemplateSpec(spec, mutateTaskTemplate, …)` (with `MutateTaskTemplate`) -/
def mutateJobTemplateSpec (cfg : Cfg) (t : JobTemplate) (mutateTask : Bool) : JobTemplate × List AdmErr :=
  let t := if t.maxAttempts.isNone then { t with maxAttempts := some Facts.admDefaultMaxAttempts } else t
  let r : JobTemplate × List AdmErr :=
    if t.pendingTimeout.isNone then
      if cfg.ok then ({ t with pendingTimeout := cfg.defaultPendingTimeout }, [])
      else (t, [.internal])
    else (t, [])
  let t := r.1
  let t := match t.parallelism with
    | some p => { t with parallelism := some (mutateParallelism p) }
    | none => t
  let t := if mutateTask then
      match t.pod with
      | some p => { t with pod := some (mutatePod p) }
      | none => t
    else t
  (t, r.2)

/-- `Mutator.MutateJob` -/
def mutateJob (env : Env) (j : Job) : Result Job :=
  if !env.cfg.ok then { obj := j, errors := [.internal] } else
  let j := if j.type_ = [] then { j with type_ := Facts.admDefaultJobType } else j
  let j := if j.ttl.isNone then { j with ttl := env.cfg.defaultTTL } else j
  let t := j.template.getD {}
  let r := mutateJobTemplateSpec env.cfg t Facts.admJobMutatesTaskTemplate
  { obj := { j with template := some r.1 }, errors := r.2 }

/-- `Mutator.MutateJobConfig` (with `options.MutateDefaultingOptionSpec`) -/
def mutateJobConfig (env : Env) (c : JobConfig) : Result JobConfig :=
  let c := match c.option with
    | some os => { c with option := some (os.map Options.defaultingOption) }
    | none => c
  let r := mutateJobTemplateSpec env.cfg c.template Facts.admJobConfigMutatesTaskTemplate
  { obj := { c with template := r.1 }, errors := r.2 }

/-- the shared tail of both JobConfig mutators: keep a `lastUpdated` that lies in the future,
otherwise write `now` -/
def stamp (env : Env) (s : Schedule) : Schedule :=
  if !isTimeSetAndLaterThan s.lastUpdated env.nowNs then { s with lastUpdated := some (floorSec env.nowNs) } else s

/-- `Mutator.MutateCreateJobConfig` -/
def mutateCreateJobConfig (env : Env) (c : JobConfig) : Result JobConfig :=
  match c.schedule with
  | some s => { obj := { c with schedule := some (stamp env s) } }
  | none => { obj := c }

/-- the comparison of `MutateUpdateJobConfig`: the new schedule with the OLD `lastUpdated` pasted
in (only if there was an old schedule) differs from the old schedule
(`apiequality.Semantic.DeepEqual` on two `*ScheduleSpec`) -/
def scheduleChanged (old : Option Schedule) (s : Schedule) : Bool :=
  let newSchedule := match old with
    | some os => { s with lastUpdated := os.lastUpdated }
    | none => s
  old != some newSchedule

/-- `Mutator.MutateUpdateJobConfig` -/
def mutateUpdateJobConfig (env : Env) (old c : JobConfig) : Result JobConfig :=
  match c.schedule with
  | some s =>
    if scheduleChanged old.schedule s then { obj := { c with schedule := some (stamp env s) } }
    else { obj := c }
  | none => { obj := c }

/-! ### patchers -/

/-- one `result.Merge(p.mutator.X(rj))` of `JobPatcher` -/
def runJobCall (env : Env) : Facts.AdmCall → Job → Result Job
  | .MutateCreateJob => mutateCreateJob env
  | .MutateJob => mutateJob env
  | _ => fun j => { obj := j }       -- not a Job mutator (would not compile in Go)

/-- one `result.Merge(p.mutator.X(…))` of `JobConfigPatcher` -/
def runJobConfigCall (env : Env) (old : Option JobConfig) : Facts.AdmCall → JobConfig → Result JobConfig
  | .MutateCreateJobConfig => mutateCreateJobConfig env
  | .MutateJobConfig => mutateJobConfig env
  | .MutateUpdateJobConfig => fun c =>
    match old with
    | some o => mutateUpdateJobConfig env o c
    | none => { obj := c }
  | _ => fun c => { obj := c }

/-- `JobPatcher.patchCreate` -/
def patchCreateJob (env : Env) (j : Job) : Result Job :=
  Facts.admJobPatchCreate.foldl (fun r c => r.andThen (runJobCall env c)) { obj := j }

/-- `JobPatcher.patchUpdate` (the old object is ignored by the code) -/
def patchUpdateJob (env : Env) (j : Job) : Result Job :=
  Facts.admJobPatchUpdate.foldl (fun r c => r.andThen (runJobCall env c)) { obj := j }

/-- `JobConfigPatcher.patchCreate` -/
def patchCreateJobConfig (env : Env) (c : JobConfig) : Result JobConfig :=
  Facts.admJobConfigPatchCreate.foldl (fun r k => r.andThen (runJobConfigCall env none k)) { obj := c }

/-- `JobConfigPatcher.patchUpdate` -/
def patchUpdateJobConfig (env : Env) (old c : JobConfig) : Result JobConfig :=
  Facts.admJobConfigPatchUpdate.foldl (fun r k => r.andThen (runJobConfigCall env (some old) k)) { obj := c }

/-- `Webhook.Handle` after decoding: rejected (`none`) iff the patcher reported errors, else the
defaulted object the response patch leads to -/
def admitted {α : Type} (r : Result α) : Option α := if r.errors = [] then some r.obj else none

end Furiko.Mutation
