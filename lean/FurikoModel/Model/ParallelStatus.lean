/-
Model of `pkg/execution/util/parallel/status.go` (getIndexStatus, GetParallelStatusCounters,
GetParallelTaskSummary, GetParallelStatus) and of `ComputeMissingIndexesForCreation`
(`pkg/execution/util/parallel/indexes.go`).  Core Lean only.

`d` is `parallel.GetDefaultIndex()` (with its hash); `HashIndex` is the `hash` field.
Hashing errors cannot occur (hashstructure on a plain struct), so the error returns are not
modelled.
-/
import FurikoModel.Model.JobTypes
namespace Furiko

-- ---------------------------------------------------------------- getIndexStatus

/-- first case of the counting switch: `!task.FinishTimestamp.IsZero()` -/
def refTerminal (t : TaskRef) : Bool := t.finishTimestamp.isSome
/-- second case: not finished and `!task.RunningTimestamp.IsZero()` -/
def refRunningNow (t : TaskRef) : Bool := t.finishTimestamp.isNone && t.runningTimestamp.isSome
/-- third case: not finished and `task.RunningTimestamp.IsZero()` -/
def refStartingNow (t : TaskRef) : Bool := t.finishTimestamp.isNone && t.runningTimestamp.isNone
def refSucceeded (t : TaskRef) : Bool := t.status.result == .succeeded

/-- `parallel.getIndexStatus(index, hash, tasks, maxAttempts)` -/
def getIndexStatus (index : PIndex) (hash : String) (tasks : List TaskRef) (maxAttempts : Int) : IndexStatus :=
  let numTerminal : Int := tasks.countP refTerminal
  let numRunning : Int := tasks.countP refRunningNow
  let numStarting : Int := tasks.countP refStartingNow
  let succeeded := tasks.any refSucceeded
  -- Max attempts has been exceeded.
  let failed := !succeeded && decide (numTerminal ≥ maxAttempts)
  let len : Int := tasks.length
  let state : IndexState :=
    if tasks.length == 0 then .notCreated
    else if numTerminal == len && !succeeded && !failed then .retryBackoff
    else if numTerminal == len then .terminated
    else if numRunning > 0 then .running
    else if numStarting > 0 then .starting
    else .empty
  let result : TaskResult :=
    if succeeded then .succeeded
    else if failed then .failed
    else .none
  { index := index, hash := hash, createdTasks := len, state := state, result := result }

-- ---------------------------------------------------------------- counters

/-- one iteration of the loop of `GetParallelStatusCounters`: the state switch, then the
result switch -/
def Counters.add (c : Counters) (s : IndexStatus) : Counters :=
  let c := match s.state with
    | .notCreated => { c with terminated := c.terminated + 1 }
    | .retryBackoff => { c with created := c.created + 1, retryBackoff := c.retryBackoff + 1, terminated := c.terminated + 1 }
    | .starting => { c with created := c.created + 1, starting := c.starting + 1 }
    | .running => { c with created := c.created + 1, running := c.running + 1 }
    | .terminated => { c with created := c.created + 1, terminated := c.terminated + 1 }
    | .empty => c
  match s.result with
  | .succeeded => { c with succeeded := c.succeeded + 1 }
  | .failed => { c with failed := c.failed + 1 }
  | _ => c

/-- `parallel.GetParallelStatusCounters` -/
def getParallelStatusCounters (indexes : List IndexStatus) : Counters :=
  indexes.foldl Counters.add {}

-- ---------------------------------------------------------------- summary / status

/-- `taskIndexes[hash]` / `tasksByParallelIndex[hash]`: the refs whose index hashes to `h`, in
list order -/
def tasksOfHash (d : PIndex) (tasks : List TaskRef) (h : String) : List TaskRef :=
  tasks.filter (fun t => t.hash d == h)

/-- the per-index statuses both `GetParallelTaskSummary` and `GetParallelStatus` build -/
def indexStatuses (d : PIndex) (job : Job) (tasks : List TaskRef) : List IndexStatus :=
  (job.indexes d).map (fun i => getIndexStatus i i.hash (tasksOfHash d tasks i.hash) job.maxAttempts)

/-- the strategy switch of `GetParallelTaskSummary`: `(successful, failed)` -/
def strategyOutcome (s : Strategy) (c : Counters) (n : Int) : Bool × Bool :=
  match s with
  | .allSuccessful => (decide (c.succeeded ≥ n), decide (c.failed > 0))
  | .anySuccessful => (decide (c.succeeded > 0), decide (c.failed ≥ n))
  | _ => (false, false)

/-- `parallel.GetParallelTaskSummary(job, tasks)` -/
def getParallelTaskSummary (d : PIndex) (job : Job) (tasks : List TaskRef) : Summary :=
  let counters := getParallelStatusCounters (indexStatuses d job tasks)
  let (successful, failed) := strategyOutcome job.strategy counters (job.indexes d).length
  if successful || failed then { complete := true, successful := some successful }
  else {}

/-- `parallel.GetParallelStatus(job, tasks)` -/
def getParallelStatus (d : PIndex) (job : Job) (tasks : List TaskRef) : ParallelStatus :=
  { summary := getParallelTaskSummary d job tasks, indexes := indexStatuses d job tasks }

-- ---------------------------------------------------------------- ComputeMissingIndexesForCreation

/-- `parallel.IndexCreationRequest` -/
structure CreationRequest where
  index : PIndex
  retryIndex : Int
  earliest : Time
  deriving DecidableEq, Repr, Inhabited

/-- `hashesIdx[hash]` of `HashIndexes`: the map is filled in slice order, so the *last* position
carrying the hash wins; a missing key reads as `0`. -/
def hashesIdxFrom (h : String) : List PIndex → Nat → Nat → Nat
  | [], _, acc => acc
  | i :: rest, pos, acc => hashesIdxFrom h rest (pos + 1) (if i.hash == h then pos else acc)

def hashesIdx (indexes : List PIndex) (h : String) : Nat := hashesIdxFrom h indexes 0 0

/-- "Record the maximum retry index": `if nextRetryIndex[hash] < task.RetryIndex+1 {…}` -/
def retryStep (acc : Int) (t : TaskRef) : Int :=
  if acc < t.retryIndex + 1 then t.retryIndex + 1 else acc

/-- "… and finish time": `if !finish.IsZero() && latest[hash].Before(finish.Time) {…}` -/
def latestStep (acc : Time) (t : TaskRef) : Time :=
  match t.finishTimestamp with
  | some f => if acc < f then f else acc
  | none => acc

/-- `nextRetryIndex[hash]` after the loop: the largest `RetryIndex + 1` of that hash's refs, at
least 0 -/
def nextRetryIndex (d : PIndex) (tasks : List TaskRef) (h : String) : Int :=
  (tasksOfHash d tasks h).foldl retryStep 0

/-- `latestFinishTimeByIndex[hash]` after the loop (Go zero time when nothing finished) -/
def latestFinishTime (d : PIndex) (tasks : List TaskRef) (h : String) : Time :=
  (tasksOfHash d tasks h).foldl latestStep zeroTime

/-- "Only handle tasks that are active or successful." -/
def refActiveOrSuccessful (t : TaskRef) : Bool :=
  t.finishTimestamp.isNone || t.status.result == .succeeded

/-- `foundList[p]` after the loop -/
def foundAt (d : PIndex) (indexes : List PIndex) (tasks : List TaskRef) (p : Nat) : Bool :=
  tasks.any (fun t => refActiveOrSuccessful t && hashesIdx indexes (t.hash d) == p)

/-- the second loop of `ComputeMissingIndexesForCreation`, from position `p` on (`rest` is the
suffix of `indexes` starting there) -/
def missingFrom (d : PIndex) (job : Job) (indexes : List PIndex) : List PIndex → Nat → List CreationRequest
  | [], _ => []
  | index :: rest, p =>
    let tasks := job.status.tasks
    let hash := index.hash
    -- We found an active or successful task.
    if foundAt d indexes tasks p then missingFrom d job indexes rest (p + 1)
    -- Cannot create because exceeds maxAttempts.
    else if nextRetryIndex d tasks hash ≥ job.maxAttempts then missingFrom d job indexes rest (p + 1)
    else { index := index, retryIndex := nextRetryIndex d tasks hash,
           earliest := latestFinishTime d tasks hash + job.retryDelay } :: missingFrom d job indexes rest (p + 1)

/-- `parallel.ComputeMissingIndexesForCreation(job, indexes)`.
`none` = index-out-of-range panic (`foundList[0]` written for an empty `indexes`). -/
def computeMissingIndexesForCreation (d : PIndex) (job : Job) (indexes : List PIndex) :
    Option (List CreationRequest) :=
  if indexes.isEmpty && job.status.tasks.any refActiveOrSuccessful then none
  else some (missingFrom d job indexes indexes 0)

end Furiko
