/-!
# The encoding half of `parallel.HashIndex` (pkg/execution/util/parallel/indexes.go)

```go
hashInt, err := hashstructure.Hash(index, hashstructure.FormatV2, nil)      // OPAQUE: a uint64
hash := base32.StdEncoding.EncodeToString([]byte(strconv.FormatUint(hashInt, 10)))
return strings.ToLower(hash[:6]), nil
```

Everything after the library call `hashstructure.Hash` is modelled here: the decimal rendering of the
uint64 (`decBytes`, ASCII bytes, most significant digit first), the first six characters of the RFC 4648
base32 encoding of those bytes (`b32First6`: the first 30 bits, i.e. the first three bytes and the upper six
bits of the fourth, `=` padding when there are fewer than four bytes), lower-cased (`b32Alphabet` is written in
lower case; `strings.ToLower` leaves digits and `=` alone).  Core Lean only: the driver is compiled.
Tied to the Go code by op `idx.enc` of the `indexes` engine: the harness sends the uint64 that
`hashstructure.Hash` returned for every index of every generated spec (plus boundary values fed through
the same three library calls), the real `HashIndex` output is compared with `hashEnc`.
-/
namespace Furiko.HashEnc

/-- `strconv.FormatUint(n, 10)` as ASCII bytes; `fuel` bounds the number of digits -/
def decBytesAux : Nat → Nat → List Nat → List Nat
  | 0, _, acc => acc
  | fuel + 1, n, acc =>
    if n < 10 then (48 + n) :: acc else decBytesAux fuel (n / 10) ((48 + n % 10) :: acc)

def decBytes (u : Nat) : List Nat := decBytesAux (u + 1) u []

def b32Alphabet : List Char := "abcdefghijklmnopqrstuvwxyz234567".toList

def b32Char (v : Nat) : Char := b32Alphabet.getD v '?'

/-- first six characters of `strings.ToLower(base32.StdEncoding.EncodeToString(bs))`; for `bs = []` Go's
`hash[:6]` panics (slice of the empty string) — rendered as the empty list, shown unreachable by
`decBytes_ne_nil` -/
def b32First6 (bs : List Nat) : List Char :=
  let b (i : Nat) := bs.getD i 0
  let c0 := b32Char (b 0 / 8)
  let c1 := b32Char ((b 0 % 8) * 4 + b 1 / 64)
  let c2 := b32Char ((b 1 / 2) % 32)
  let c3 := b32Char ((b 1 % 2) * 16 + b 2 / 16)
  let c4 := b32Char ((b 2 % 16) * 2 + b 3 / 128)
  let c5 := b32Char ((b 3 / 4) % 32)
  match bs with
  | [] => []
  | [_] => [c0, c1, '=', '=', '=', '=']
  | [_, _] => [c0, c1, c2, c3, '=', '=']
  | [_, _, _] => [c0, c1, c2, c3, c4, '=']
  | _ => [c0, c1, c2, c3, c4, c5]

/-- `HashIndex` as a function of the structure hash -/
def hashEncChars (u : Nat) : List Char := b32First6 (decBytes u)

def hashEnc (u : Nat) : String := String.ofList (hashEncChars u)

end Furiko.HashEnc
