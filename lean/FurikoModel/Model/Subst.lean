/-
Model of `pkg/core/options/substitution.go`, `pkg/execution/variablecontext/provider.go` and
`pkg/execution/taskexecutor/podtaskexecutor/substitution.go`, plus the merge order of
`mutation.MutateCreateJob` / `evaluateOptionValues`.  Core Lean only.

Strings are `List Char`; `strings.ReplaceAll` is modelled exactly (leftmost, non-overlapping),
so the model is the same function as the code on ALL (valid UTF-8) strings, including values
that themselves contain `${…}` syntax.  A Go map is an association list; the ORDER of the list
is the iteration order of `for name, value := range submap` and is an explicit input (finding F4).

The regular expression of `SubstituteEmptyStringForPrefixes`, `\$\{<prefix>\.[^}]+\}`, is
modelled for prefixes over `[A-Za-z0-9_.-]` (the prefix is pasted into the pattern unquoted, so
a `.` inside the prefix is the regexp wildcard — modelled; other metacharacters are outside the
modelled class).
-/
import FurikoModel.Model.Options

namespace Furiko.Subst
open Furiko.Options

/-! ### `strings.ReplaceAll` -/

/-- worker of `replaceAll` for a non-empty `old`: `skip` characters of an already matched
occurrence are still to be dropped -/
def replaceGo (old new : Str) : Nat → Str → Str
  | _, [] => []
  | skip + 1, _ :: cs => replaceGo old new skip cs
  | 0, c :: cs =>
    if old.isPrefixOf (c :: cs) then new ++ replaceGo old new (old.length - 1) cs
    else c :: replaceGo old new 0 cs

/-- `strings.ReplaceAll(s, old, new)` (for `old = ""` Go inserts `new` before every rune and at
the end) -/
def replaceAll (s old new : Str) : Str :=
  if old.isEmpty then new ++ s.flatMap (fun c => c :: new)
  else replaceGo old new 0 s

/-- `fmt.Sprintf("${%v}", name)` -/
def mkPattern (name : Str) : Str := '$' :: '{' :: (name ++ ['}'])

/-- `SubstituteVariables` with the map's entries visited in the order of the list `entries` -/
def substFold (entries : List (Str × Str)) (target : Str) : Str :=
  entries.foldl (fun t e => replaceAll t (mkPattern e.1) e.2) target

/-! ### key order (the repaired variant visits the keys in `sort.Strings` order) -/

/-- lexicographic `≤` on code points (= Go's byte-wise string order on valid UTF-8) -/
def leStr : Str → Str → Bool
  | [], _ => true
  | _ :: _, [] => false
  | a :: as, b :: bs => if a.toNat < b.toNat then true else if b.toNat < a.toNat then false else leStr as bs

def sortByKey (entries : List (Str × Str)) : List (Str × Str) :=
  entries.mergeSort (fun a b => leStr a.1 b.1)

/-- `options.SubstituteVariables`.  `sorted = false`: the code as it is (map iteration order =
order of `entries`); `sorted = true`: the code after `fix_F4.diff` (keys visited in sorted order).
Which one describes the current source is `Facts.substSortsKeys`. -/
def substituteVariables (sorted : Bool) (target : Str) (entries : List (Str × Str)) : Str :=
  substFold (if sorted then sortByKey entries else entries) target

/-! ### `SubstituteEmptyStringForPrefixes` -/

/-- one regexp atom that comes from a prefix character: `.` is the wildcard (any character
except newline), everything else (in the modelled class) is a literal -/
def atomMatches (a c : Char) : Bool := if a = '.' then c != '\n' else a == c

/-- match the prefix atoms at the head of `s`; returns the remaining text -/
def matchAtoms : Str → Str → Option Str
  | [], s => some s
  | _ :: _, [] => none
  | a :: as, c :: cs => if atomMatches a c then matchAtoms as cs else none

/-- length of the match of `\$\{p\.[^}]+\}` at the head of `s`, if there is one -/
def matchReserved (p s : Str) : Option Nat :=
  match s with
  | '$' :: '{' :: s1 =>
    match matchAtoms p s1 with
    | some ('.' :: s2) =>
      let body := s2.takeWhile (· != '}')
      if body.isEmpty then none
      else match s2.drop body.length with
        | '}' :: _ => some (p.length + body.length + 4)
        | _ => none
    | _ => none
  | _ => none

/-- `regex.ReplaceAllString(target, "")`: leftmost matches, non-overlapping -/
def removeGo (p : Str) : Nat → Str → Str
  | _, [] => []
  | skip + 1, _ :: cs => removeGo p skip cs
  | 0, c :: cs =>
    match matchReserved p (c :: cs) with
    | some len => removeGo p (len - 1) cs
    | none => c :: removeGo p 0 cs

/-- `strings.TrimSuffix(prefix, ".")` -/
def trimSuffixDot (p : Str) : Str :=
  match p.reverse with
  | '.' :: r => r.reverse
  | _ => p

def removeForPrefix (target prefix_ : Str) : Str := removeGo (trimSuffixDot prefix_) 0 target

/-- `SubstituteEmptyStringForPrefixes` -/
def substituteEmptyStringForPrefixes (target : Str) (prefixes : List Str) : Str :=
  prefixes.foldl removeForPrefix target

/-- `SubstituteVariableMaps`: maps most important first, each in its own iteration order -/
def substituteVariableMaps (sorted : Bool) (target : Str) (maps : List (List (Str × Str)))
    (prefixes : List Str) : Str :=
  substituteEmptyStringForPrefixes (maps.foldl (fun t m => substituteVariables sorted t m) target) prefixes

/-! ### `MergeSubstitutions` -/

/-- `MergeSubstitutions(maps...)`, lowest priority first -/
def mergeSubstitutions (maps : List (List (Str × Str))) : List (Str × Str) :=
  maps.foldl (fun acc m => m.foldl (fun acc e => mapInsert acc e.1 e.2) acc) []

/-- `Mutator.MutateCreateJob` after `evaluateOptionValues` succeeded, for a Job with a parent
JobConfig: `Merge(jobconfigContext, Merge(evaluated, explicit))` -/
def admissionSubstitutions (jobConfigVars evaluated explicit : List (Str × Str)) : List (Str × Str) :=
  mergeSubstitutions [jobConfigVars, mergeSubstitutions [evaluated, explicit]]

/-! ### context variables (`variablecontext/provider.go`) -/

/-- `strconv.Itoa` -/
def itoa (i : Int) : Str :=
  match i with
  | .ofNat n => Nat.toDigits 10 n
  | .negSucc n => '-' :: Nat.toDigits 10 (n + 1)

structure JobConfigCtx where
  uid : Str
  name : Str
  namespace_ : Str

structure JobCtx where
  uid : Str
  name : Str
  namespace_ : Str
  type : Str
  /-- `Spec.Template.MaxAttempts` when both pointers are non-nil -/
  maxAttempts : Option Int

structure TaskCtx where
  name : Str
  namespace_ : Str
  retryIndex : Int
  indexNumber : Option Int
  indexKey : Str
  matrixValues : List (Str × Str)

/-- `MakeVariablesFromJobConfig` -/
def jobConfigVariables (c : JobConfigCtx) : List (Str × Str) :=
  [("jobconfig.uid".toList, c.uid), ("jobconfig.name".toList, c.name),
   ("jobconfig.namespace".toList, c.namespace_)]

/-- `MakeVariablesFromJob` -/
def jobVariables (c : JobCtx) : List (Str × Str) :=
  [("job.uid".toList, c.uid), ("job.name".toList, c.name), ("job.namespace".toList, c.namespace_),
   ("job.type".toList, c.type)] ++
  (match c.maxAttempts with
   | some m => [("job.max_attempts".toList, itoa m)]
   | none => [])

/-- `MakeVariablesFromTask` -/
def taskVariables (c : TaskCtx) : List (Str × Str) :=
  [("task.name".toList, c.name), ("task.namespace".toList, c.namespace_),
   ("task.retry_index".toList, itoa c.retryIndex)] ++
  (match c.indexNumber with
   | some n => [("task.index_num".toList, itoa n)]
   | none =>
     if !c.indexKey.isEmpty then [("task.index_key".toList, c.indexKey)]
     else c.matrixValues.map (fun kv => ("task.index_matrix.".toList ++ kv.1, kv.2)))

/-! ### `podtaskexecutor.SubstitutePodSpec` -/

/-- prefixes whose leftovers are dropped: `GetAllPrefixes()` then `"option."` (from the source) -/
def podRemovePrefixes : List Str := Facts.contextPrefixes ++ Facts.podExtraPrefixes

/-- the list of maps of `SubstitutePodSpec`, most important first; the order of the three
sources is regenerated from the source (`Facts.podSubstSources`) -/
def podSubMaps (substitutions jobVars taskVars : List (Str × Str)) : List (List (Str × Str)) :=
  Facts.podSubstSources.flatMap fun src =>
    if src = "substitutions".toList then (if substitutions.length > 0 then [substitutions] else [])
    else if src = "job".toList then [jobVars]
    else if src = "task".toList then [taskVars]
    else []

/-- the `sub` closure of `SubstitutePodSpec`, applied to one string field -/
def podSub (sorted : Bool) (substitutions jobVars taskVars : List (Str × Str)) (s : Str) : Str :=
  substituteVariableMaps sorted s (podSubMaps substitutions jobVars taskVars) podRemovePrefixes

end Furiko.Subst
