/-
Model of the admission validators of furiko and of the scheduler-side load (property C17).
Core Lean only.

Mirrors, one for one (same order of checks, same comparison operators):
  * `Validator.ValidateJobConfig`, `validateCronScheduleForJobConfig` (fix d9dad79), `ValidateJobConfigSpec`, `ValidateJobTemplate`,
    `ValidateConcurrencySpec`, `ValidateConcurrencyPolicy`, `ValidateScheduleSpec`,
    `ValidateCronSchedule`, `ValidateCronScheduleExpression`, `ValidateTimezone`,
    `ValidateOptionSpec`, `ValidateJob`, `ValidateJobMetadata`, `ValidateJobSpec`, `ValidateJobType`,
    `ValidateStartPolicySpec`, `ValidateJobTemplateSpec`, `ValidateMaxRetryAttempts`,
    `ValidateTaskTemplate`, `ValidatePodTaskTemplateSpec`, `ValidateJobCreate`,
    `validateJobCreateWithJobConfig`, `ValidateJobUpdate`, `ValidateJobMetadataUpdate`,
    `ValidateJobSpecUpdate`, `ValidateJobTemplateSpecImmutable`,
    `ValidateKillTimestampUpdate`                             pkg/execution/validation/validation.go
  * `ValidateGT/GTE/LT/LTE`, `ValidateMaxLength`              pkg/core/validation/generic.go
  * the two validating webhooks' `Validate`                   pkg/execution/webhooks/job*validatingwebhook
  * `jobconfig.ValidateLookupJobOwner`                        pkg/execution/util/jobconfig/job_utils.go
  * `cron.NewParserFromConfig`, `Parser.Parse`,
    `NewExpressionFromCronSchedule`                           pkg/execution/util/cron/{parser,util}.go
  * `CronSchedule.GetExpressions`                             apis/execution/v1alpha1/jobconfig_types.go
  * `Schedule.parseCronAndTimezone`, `getTimezone`, the load loop of `cronschedule.New`
                                                              pkg/execution/util/cronschedule/schedule.go
  * `jobconfig.NewJobFromJobConfig`, `GenerateName`           pkg/execution/util/jobconfig/{job,name}.go
  * `Mutator.MutateJobTemplateSpec` + `MutatePodTemplateSpec` (only what `accepted_instantiable`
    needs: the four defaults)                                 pkg/execution/mutation/mutation.go
  * parallelism validation is `Indexes.validateParallelismSpecFixed` (Model/Indexes.lean, C14);
    option validation is `Options.validateOption` (Model/Options.lean, C18).

Behind parameters (external libraries, DESIGN.md §4.2):
  * `cronexpr.ParseForFormat` is `ParseFn`: (parser options, hash id if hashing is on, cron line) ↦
    ok / error / panic.  The Go side transmits the result for every combination.
  * `tzutils.ParseTimezone` is `parseTz : String → Bool`.
  * `parallel.HashIndex` is `hash : Index → String` (as in C14).
  * Kubernetes' own PodTemplateSpec validation is the bit `PodT.k8sValid`; a pod template is known up
    to semantic equality by `PodT.id`.
A Go panic is `none`.  Errors are (path, kind) pairs; the order in which the Go code appends them is
kept, the driver prints them sorted.
-/
import FurikoModel.Generated.Facts
import FurikoModel.Model.Indexes
import FurikoModel.Model.Options

namespace Furiko.Validation
open Furiko

/-! ### errors (`field.Error`) -/

/-- `field.ErrorType`, plus two canonicalised classes: `k8s` = one or more errors reported by
Kubernetes' own pod template validation, `opt` = an error of `options.ValidateOption` (counted, C18) -/
inductive Kind where
  | invalid | required | forbidden | notSupported | tooMany | notFound | duplicate | internal
  | k8s | opt
deriving DecidableEq, Repr, Inhabited

structure FErr where
  path : String
  kind : Kind
deriving DecidableEq, Repr, Inhabited

abbrev Errs := List FErr

/-! ### pkg/core/validation/generic.go -/

/-- a Go comparison operator, as extracted from the source -/
def cmpOp (op : String) (a b : Int) : Bool :=
  if op = "<" then decide (a < b)
  else if op = "<=" then decide (a ≤ b)
  else if op = ">" then decide (a > b)
  else if op = ">=" then decide (a ≥ b)
  else false

/-- `Validate<k>(value, bound, path)` rejects iff `value <op> bound` (operator from `Facts`) -/
def boundRejects (k : String) (value bound : Int) : Bool :=
  match Facts.valBoundRejectOp.lookup k with
  | some op => cmpOp op value bound
  | none => false

/-- a sequence of `Validate<k>(value, bound, path)` calls -/
def boundChecks (checks : List (String × Int)) (value : Int) (path : String) : Errs :=
  checks.filterMap fun kb => if boundRejects kb.1 value kb.2 then some ⟨path, .invalid⟩ else none

/-- `ValidateMaxLength` (`len(val)` is the byte length) -/
def validateMaxLength (val : String) (maxLen : Nat) (path : String) : Errs :=
  if cmpOp Facts.valMaxLengthRejectOp val.utf8ByteSize maxLen then [⟨path, .invalid⟩] else []

/-- `apivalidation.ValidateNonnegativeField` (Kubernetes) -/
def validateNonnegative (v : Int) (path : String) : Errs :=
  if v < 0 then [⟨path, .invalid⟩] else []

/-! ### typed projection of the API objects -/

/-- `*PodTemplateSpec` as far as furiko's own code looks at it -/
structure PodT where
  k8sValid : Bool          -- oracle: Kubernetes' ValidatePodTemplateSpec (after defaulting) reports nothing
  restartAlways : Bool     -- spec.restartPolicy == Always
  restartEmpty : Bool      -- spec.restartPolicy == ""  (read by the mutator only)
  id : Nat                 -- identity up to semantic equality
deriving DecidableEq, Repr, Inhabited

structure JobTemplate where
  pod : Option PodT := none                       -- TaskTemplate.Pod
  parallelism : Option Indexes.Spec := none
  maxAttempts : Option Int := none
  retryDelay : Option Int := none                 -- RetryDelaySeconds
  pendingTimeout : Option Int := none             -- TaskPendingTimeoutSeconds
  forbidForceDeletion : Bool := false
deriving DecidableEq, Repr, Inhabited

structure Concurrency where
  policy : String := ""
  maxConcurrency : Option Int := none
deriving DecidableEq, Repr, Inhabited

structure CronSchedule where
  expression : String := ""
  expressions : List String := []
  timezone : String := ""
deriving DecidableEq, Repr, Inhabited

structure Schedule where
  cron : Option CronSchedule := none
  disabled : Bool := false
deriving DecidableEq, Repr, Inhabited

structure JobConfig where
  ns : String := ""
  name : String := ""
  uid : String := ""
  template : JobTemplate := {}
  concurrency : Concurrency := {}
  schedule : Option Schedule := none
  option : Option (List Options.Opt) := none
deriving DecidableEq, Repr, Inhabited

/-- `cache.MetaNamespaceKeyFunc` -/
def JobConfig.key (jc : JobConfig) : String :=
  if jc.ns.length > 0 then jc.ns ++ "/" ++ jc.name else jc.name

structure StartPolicy where
  policy : String := ""                            -- ConcurrencyPolicy
  startAfter : Option Int := none
deriving DecidableEq, Repr, Inhabited

structure OwnerRef where
  kind : String
  name : String
  uid : String
  controller : Bool
deriving DecidableEq, Repr, Inhabited

structure Job where
  name : String := ""
  uidLabel : String := ""                          -- metadata.labels[LabelKeyJobConfigUID], "" when absent
  owners : List OwnerRef := []
  configName : String := ""
  type : String := ""
  startPolicy : Option StartPolicy := none
  template : Option JobTemplate := none
  optionValues : String := ""
  substitutions : List (String × String) := []     -- sorted by key (a Go map; nil = empty)
  killTimestamp : Option Int := none               -- seconds
  ttl : Option Int := none                         -- TTLSecondsAfterFinished
  started : Bool := false                          -- !status.startTime.IsZero()
deriving DecidableEq, Repr, Inhabited

/-- a JobConfig as `ValidateJobCreate` sees it through the lister (same namespace as the Job) -/
structure JCEntry where
  name : String
  uid : String
  active : Int := 0
  queued : Int := 0
  maxConcurrency : Option Int := none
deriving DecidableEq, Repr, Inhabited

/-! ### cron parser (`pkg/execution/util/cron/parser.go`) -/

/-- `CronExecutionConfig` as far as parsing and the timezone fallback read it -/
structure CronCfg where
  format : String := ""
  hashNames : Option Bool := none
  hashSecondsByDefault : Option Bool := none
  hashFields : Option Bool := none
  defaultTimezone : Option String := none
deriving DecidableEq, Repr, Inhabited

/-- `cron.Parser`: format, HashNames, and the two parse options -/
structure Parser where
  quartz : Bool
  hashNames : Bool
  hashEmptySeconds : Bool
  hashFields : Bool
deriving DecidableEq, Repr, Inhabited

/-- result of `cronexpr.ParseForFormat` -/
inductive PR where
  | ok | err | panic
deriving DecidableEq, Repr, Inhabited

/-- the cron library: parser options ↦ hash id (`none` = `WithHash` not passed) ↦ cron line ↦ result -/
abbrev ParseFn := Parser → Option String → String → PR

def boolDefault (field : String) : Bool :=
  (Facts.cronParserBoolDefaults.lookup field).getD "false" = "true"

/-- `cron.NewParserFromConfig` -/
def newParserFromConfig (cfg : CronCfg) : Parser :=
  let hashNames := cfg.hashNames.getD (boolDefault "CronHashNames")
  { quartz := cfg.format = "quartz",
    hashNames := hashNames,
    hashEmptySeconds := hashNames && cfg.hashSecondsByDefault.getD (boolDefault "CronHashSecondsByDefault"),
    hashFields := hashNames && cfg.hashFields.getD (boolDefault "CronHashFields") }

/-- `Parser.Parse(cronLine, hashID)` -/
def Parser.parse (P : ParseFn) (p : Parser) (cronLine hashID : String) : PR :=
  P p (if p.hashNames then some hashID else none) cronLine

/-- everything the validators read besides the object: dynamic configuration, clock, library oracles -/
structure Env where
  cfg : CronCfg := {}
  P : ParseFn
  parseTz : String → Bool
  hash : Indexes.Index → String
  now : Int := 0                                   -- validation.Clock.Now(), nanoseconds
  maxEnqueuedJobs : Option Int := none             -- JobConfigExecutionConfig.MaxEnqueuedJobs
  defaultPendingTimeout : Option Int := none       -- JobExecutionConfig.DefaultPendingTimeoutSeconds
  defaultTTL : Option Int := none                  -- JobExecutionConfig.DefaultTTLSecondsAfterFinished

/-! ### template validation -/

/-- `ValidatePodTaskTemplateSpec` -/
def validatePodTemplate (p : PodT) (path : String) : Errs :=
  (if p.k8sValid then [] else [⟨path, .k8s⟩]) ++
  (if p.restartAlways then [⟨path ++ ".spec.restartPolicy", .invalid⟩] else [])

/-- `ValidateTaskTemplate` -/
def validateTaskTemplate (pod : Option PodT) (path : String) : Errs :=
  match pod with
  | some p => validatePodTemplate p (path ++ ".pod")
  | none => [⟨path, .required⟩]

def kindOfVErr : Indexes.VErr → Kind
  | .forbidden => .forbidden
  | .required => .required
  | .invalid => .invalid
  | .notSupported => .notSupported

/-- `ValidateParallelismSpec` (as repaired by commit 4b8da56), every error reported at the path of the
spec itself (the sub-paths are C14's business) -/
def validateParallelism (hash : Indexes.Index → String) (spec : Indexes.Spec) (path : String) : Errs :=
  (Indexes.validateParallelismSpecFixed hash spec).map fun e => ⟨path, kindOfVErr e⟩

/-- `ValidateMaxRetryAttempts` -/
def validateMaxRetryAttempts (attempts : Int) (path : String) : Errs :=
  boundChecks Facts.valMaxAttemptsChecks attempts path

/-- `ValidateJobTemplateSpec` -/
def validateJobTemplateSpec (hash : Indexes.Index → String) (t : JobTemplate) (path : String) : Errs :=
  validateTaskTemplate t.pod (path ++ ".taskTemplate") ++
  (match t.parallelism with
   | some p => validateParallelism hash p (path ++ ".parallelism")
   | none => []) ++
  (match t.pendingTimeout with
   | some v => validateNonnegative v (path ++ ".taskPendingTimeoutSeconds")
   | none => []) ++
  (match t.maxAttempts with
   | some v => validateMaxRetryAttempts v (path ++ ".maxAttempts")
   | none => []) ++
  (match t.retryDelay with
   | some v => validateNonnegative v (path ++ ".retryDelaySeconds")
   | none => [])

/-! ### concurrency -/

def concurrencyPoliciesAll : List String := [Facts.policyAllow, Facts.policyForbid, Facts.policyEnqueue]

/-- `ValidateConcurrencyPolicy` -/
def validateConcurrencyPolicy (p : String) (path : String) : Errs :=
  if p = "" then [⟨path, .required⟩]
  else if !concurrencyPoliciesAll.contains p then [⟨path, .notSupported⟩]
  else []

/-- `ValidateConcurrencySpec` -/
def validateConcurrencySpec (c : Concurrency) (path : String) : Errs :=
  validateConcurrencyPolicy c.policy (path ++ ".policy") ++
  (match c.maxConcurrency with
   | some m =>
     boundChecks Facts.valMaxConcurrencyChecks m (path ++ ".maxConcurrency") ++
     (if c.policy = Facts.policyAllow then [⟨path ++ ".maxConcurrency", .forbidden⟩] else [])
   | none => [])

/-! ### schedule -/

/-- `ValidateCronScheduleExpression` (a panic of the library is handled by `cronPanics`) -/
def validateCronExpression (E : Env) (line : String) (path : String) : Errs :=
  if (newParserFromConfig E.cfg).parse E.P line Facts.valCronHashID = .ok then [] else [⟨path, .invalid⟩]

/-- the `for i, expression := range spec.Expressions` loop -/
def validateCronExpressions (E : Env) (path : String) : List String → Nat → Errs
  | [], _ => []
  | e :: rest, i =>
    validateCronExpression E e (path ++ ".expressions[" ++ toString i ++ "]") ++
    validateCronExpressions E path rest (i + 1)

/-- `ValidateTimezone` -/
def validateTimezone (E : Env) (tz : String) (path : String) : Errs :=
  if E.parseTz tz then [] else [⟨path, .invalid⟩]

/-- number of the fields `expression` / `expressions` that are set -/
def expressionFields (c : CronSchedule) : Nat :=
  (if c.expression.length > 0 then 1 else 0) + (if c.expressions.length > 0 then 1 else 0)

/-- `ValidateCronSchedule` -/
def validateCronSchedule (E : Env) (c : CronSchedule) (path : String) : Errs :=
  (if c.expression.length > 0 then validateCronExpression E c.expression (path ++ ".expression") else []) ++
  (if c.expressions.length > 0 then validateCronExpressions E path c.expressions 0 else []) ++
  (if expressionFields c = 0 then [⟨path, .required⟩]
   else if expressionFields c > 1 then [⟨path, .tooMany⟩] else []) ++
  (if c.timezone.length > 0 then validateTimezone E c.timezone (path ++ ".timezone") else [])

/-- `ValidateScheduleSpec` (`numScheduleTypes > 1` can never hold at its test) -/
def validateScheduleSpec (E : Env) (s : Option Schedule) (path : String) : Errs :=
  match s with
  | none => []
  | some s =>
    match s.cron with
    | some c => validateCronSchedule E c (path ++ ".cron")
    | none => [⟨path, .required⟩]

/-- the cron lines the validator hands to the library -/
def validatedLines (c : CronSchedule) : List String :=
  (if c.expression.length > 0 then [c.expression] else []) ++ c.expressions

/-- does the library panic during validation of this JobConfig -/
def cronPanics (E : Env) (jc : JobConfig) : Bool :=
  match jc.schedule with
  | none => false
  | some s =>
    match s.cron with
    | none => false
    | some c => (validatedLines c).any fun l =>
        (newParserFromConfig E.cfg).parse E.P l Facts.valCronHashID = .panic

/-! ### options (`pkg/core/options/validation.go`, counted per option as in `Options.validateOption`) -/

/-- `options.ValidateOptionSpec`: a duplicate name costs one error (a `Forbidden`, canonicalised to `opt`
like everything under `options[i]`) and skips `ValidateOption` -/
def validateOptionsLoop (path : String) (seen : List Options.Str) : List Options.Opt → Nat → Errs
  | [], _ => []
  | o :: rest, i =>
    let p := path ++ ".options[" ++ toString i ++ "]"
    if seen.contains o.name then
      ⟨p, .opt⟩ :: validateOptionsLoop path seen rest (i + 1)
    else
      List.replicate (Options.validateOption o) ⟨p, .opt⟩ ++ validateOptionsLoop path (o.name :: seen) rest (i + 1)

/-- `Validator.ValidateOptionSpec` -/
def validateOptionSpec (spec : Option (List Options.Opt)) (path : String) : Errs :=
  match spec with
  | none => []
  | some opts => validateOptionsLoop path [] opts 0

/-! ### JobConfig -/

/-- `ValidateJobConfigSpec` -/
def validateJobConfigSpec (E : Env) (jc : JobConfig) (path : String) : Errs :=
  validateJobTemplateSpec E.hash jc.template (path ++ ".template.spec") ++
  validateConcurrencySpec jc.concurrency (path ++ ".concurrency") ++
  validateScheduleSpec E jc.schedule (path ++ ".schedule") ++
  validateOptionSpec jc.option (path ++ ".option")

/-- `ValidateJobConfig` -/
def validateJobConfigErrs (E : Env) (jc : JobConfig) : Errs :=
  validateMaxLength jc.name Facts.valJobConfigNameMaxLen "metadata.name" ++
  validateJobConfigSpec E jc "spec"

/-! ### scheduler side (`cronschedule`), part 1: what the validator shares with it -/

/-- `CronSchedule.GetExpressions` -/
def getExpressions (c : CronSchedule) : List String :=
  if c.expression ≠ "" then [c.expression]
  else if c.expressions.length > 0 then c.expressions
  else []

/-- `cron.NewExpressionFromCronSchedule`: the first line that does not parse aborts -/
def newExpression (P : ParseFn) (p : Parser) (hashID : String) : List String → PR
  | [] => .ok
  | l :: rest =>
    match p.parse P l hashID with
    | .ok => newExpression P p hashID rest
    | r => r

/-- `validateCronScheduleForJobConfig` (fix d9dad79): parse the schedule the way the scheduler will, i.e.
with the JobConfig's namespaced name as hash id.  Skipped when there is no cron schedule or the name is
still empty (generateName).  It does NOT look at `disabled`.  `none` = panic of the library. -/
def validateCronScheduleForJobConfig (E : Env) (jc : JobConfig) (path : String) : Option Errs :=
  match jc.schedule with
  | none => some []
  | some s =>
    match s.cron with
    | none => some []
    | some c =>
      if jc.name = "" then some [] else
      match newExpression E.P (newParserFromConfig E.cfg) jc.key (getExpressions c) with
      | .ok => some []
      | .err => some [⟨path, .invalid⟩]
      | .panic => none

/-- the JobConfig validating webhook (`ValidateJobConfig` + the empty create/update validators);
`none` = panic, `some []` = admitted.  `if len(allErrs) == 0 { … validateCronScheduleForJobConfig … }` is
present iff `Facts.valJobConfigScheduleRecheck` (regenerated from the source). -/
def validateJobConfig (E : Env) (jc : JobConfig) : Option Errs :=
  if cronPanics E jc then none else
  let errs := validateJobConfigErrs E jc
  if Facts.valJobConfigScheduleRecheck && errs.length == 0 then
    validateCronScheduleForJobConfig E jc "spec.schedule.cron"
  else some errs

/-! ### scheduler side (`cronschedule`) -/

/-- `getTimezone` -/
def getTimezone (c : CronSchedule) (cfg : CronCfg) : String :=
  if c.timezone ≠ "" then c.timezone
  else match cfg.defaultTimezone with
    | some tz => if tz.length > 0 then tz else Facts.defaultCronTimezone
    | none => Facts.defaultCronTimezone

inductive LoadR where
  | skip      -- (nil, nil, nil): not scheduled
  | ok
  | error
  | panic
deriving DecidableEq, Repr, Inhabited

/-- `Schedule.parseCronAndTimezone` -/
def parseCronAndTimezone (E : Env) (jc : JobConfig) : LoadR :=
  match jc.schedule with
  | none => .skip
  | some s =>
    if s.disabled then .skip else
    match s.cron with
    | none => .skip
    | some c =>
      match newExpression E.P (newParserFromConfig E.cfg) jc.key (getExpressions c) with
      | .panic => .panic
      | .err => .error
      | .ok => if E.parseTz (getTimezone c E.cfg) then .ok else .error

/-- the load loop of `cronschedule.New`: the first JobConfig that fails aborts the whole load -/
def scheduleLoad (E : Env) : List JobConfig → LoadR
  | [] => .ok
  | jc :: rest =>
    match parseCronAndTimezone E jc with
    | .error => .error
    | .panic => .panic
    | _ => scheduleLoad E rest

/-! ### Job -/

/-- `ValidateJobType` -/
def validateJobType (t : String) (path : String) : Errs :=
  if t = Facts.jobTypeAdhoc ∨ t = Facts.jobTypeScheduled then []
  else if t = "" then [⟨path, .required⟩]
  else [⟨path, .notSupported⟩]

/-- `ValidateStartPolicySpec` -/
def validateStartPolicySpec (sp : Option StartPolicy) (path : String) : Errs :=
  match sp with
  | some s => validateConcurrencyPolicy s.policy (path ++ ".concurrencyPolicy")
  | none => []

/-- `ValidateJobSpec` -/
def validateJobSpec (hash : Indexes.Index → String) (j : Job) (path : String) : Errs :=
  validateJobType j.type (path ++ ".type") ++
  validateStartPolicySpec j.startPolicy (path ++ ".startPolicy") ++
  (match j.template with
   | none => [⟨path ++ ".template", .required⟩]
   | some t => validateJobTemplateSpec hash t (path ++ ".template")) ++
  (match j.ttl with
   | some v => validateNonnegative v (path ++ ".ttlSecondsAfterFinished")
   | none => [])

/-- `ValidateJob` -/
def validateJob (hash : Indexes.Index → String) (j : Job) : Errs :=
  validateMaxLength j.name Facts.valJobNameMaxLen "metadata.name" ++
  validateJobSpec hash j "spec"

/-- `metav1.GetControllerOf` -/
def controllerOf (j : Job) : Option OwnerRef := j.owners.find? (·.controller)

def uidLabelPath : String := "metadata.labels[" ++ Facts.labelKeyJobConfigUID ++ "]"

/-- `jobconfig.ValidateLookupJobOwner`: `.error errs`, or the owner found (if any).  The index of the
controller reference is its own position (`reference == *ref` compares the `*bool` pointers). -/
def validateLookupJobOwner (j : Job) (lister : List JCEntry) : Except Errs (Option JCEntry) :=
  match controllerOf j with
  | none => .ok none
  | some ref =>
    if ref.kind ≠ Facts.kindJobConfig then .ok none else
    let index := j.owners.findIdx (·.controller)
    let refPath := "metadata.ownerReferences[" ++ toString index ++ "]"
    match lister.find? (·.name = ref.name) with
    | none => .error [⟨refPath, .notFound⟩]
    | some rjc =>
      if rjc.uid ≠ ref.uid then .error [⟨refPath ++ "[uid]", .duplicate⟩]
      else if j.uidLabel ≠ rjc.uid then .error [⟨uidLabelPath, .required⟩]
      else .ok (some rjc)

/-- `ConcurrencySpec.GetMaxConcurrency` -/
def JCEntry.getMaxConcurrency (e : JCEntry) : Int := e.maxConcurrency.getD Facts.defaultMaxConcurrency

/-- `validateJobCreateWithJobConfig` -/
def validateJobCreateWithJobConfig (E : Env) (j : Job) (rjc : JCEntry) : Errs :=
  (match j.startPolicy with
   | some sp =>
     if sp.policy = Facts.policyForbid ∧ rjc.active + 1 > rjc.getMaxConcurrency then
       [⟨"spec.startPolicy.concurrencyPolicy", .forbidden⟩] else []
   | none => []) ++
  (match E.maxEnqueuedJobs with
   | some max => if rjc.queued ≥ max then [⟨"spec.startPolicy", .forbidden⟩] else []
   | none => [])

/-- `ValidateJobCreate` -/
def validateJobCreate (E : Env) (j : Job) (lister : List JCEntry) : Errs :=
  match validateLookupJobOwner j lister with
  | .error errs => errs
  | .ok none => []
  | .ok (some rjc) => validateJobCreateWithJobConfig E j rjc

/-- the Job validating webhook on CREATE -/
def webhookJobCreate (E : Env) (j : Job) (lister : List JCEntry) : Errs :=
  validateJob E.hash j ++ validateJobCreate E j lister

/-! ### Job update: immutability -/

/-- `apiequality.Semantic.DeepEqual` on the field of `JobSpec` named by its Go name -/
def specFieldEq (field : String) (old new : Job) : Bool :=
  if field = "ConfigName" then old.configName = new.configName
  else if field = "Type" then old.type = new.type
  else if field = "OptionValues" then old.optionValues = new.optionValues
  else if field = "Substitutions" then old.substitutions = new.substitutions
  else true

/-- `apiequality.Semantic.DeepEqual` on the field of `JobTemplate` named by its Go name -/
def templateFieldEq (field : String) (old new : JobTemplate) : Bool :=
  if field = "TaskTemplate" then old.pod = new.pod
  else if field = "Parallelism" then old.parallelism = new.parallelism
  else if field = "MaxAttempts" then old.maxAttempts = new.maxAttempts
  else if field = "RetryDelaySeconds" then old.retryDelay = new.retryDelay
  else true

/-- `ValidateJobMetadataUpdate` -/
def validateJobMetadataUpdate (old new : Job) : Errs :=
  if new.uidLabel = old.uidLabel then [] else [⟨uidLabelPath, .invalid⟩]

/-- `ValidateJobTemplateSpecImmutable`: the `ValidateImmutableField` calls listed in the source -/
def validateJobTemplateSpecImmutable (old new : JobTemplate) (path : String) : Errs :=
  Facts.valJobTemplateImmutable.filterMap fun fp =>
    if templateFieldEq fp.1 old new then none else some ⟨path ++ "." ++ fp.2, .invalid⟩

/-- `ValidateKillTimestampUpdate`: `!old.IsZero() && old.Before(&now) && !old.Equal(new)`; API times are
whole seconds, the clock has nanoseconds -/
def validateKillTimestampUpdate (now : Int) (old new : Option Int) (path : String) : Errs :=
  match old with
  | none => []
  | some o => if o * 1000000000 < now ∧ old ≠ new then [⟨path, .invalid⟩] else []

def delegatePath (fn : String) : String := (Facts.valJobSpecUpdateDelegates.lookup fn).getD "?"

/-- `ValidateJobSpecUpdate`; `none` = nil-pointer panic in `ValidateJobTemplateSpecImmutable`
(`template.TaskTemplate` on a nil `*JobTemplate`) -/
def validateJobSpecUpdate (now : Int) (old new : Job) (path : String) : Option Errs :=
  let e1 : Errs := Facts.valJobSpecImmutable.filterMap fun fp =>
    if specFieldEq fp.1 old new then none else some ⟨path ++ "." ++ fp.2, .invalid⟩
  match old.template, new.template with
  | some ot, some nt =>
    some (e1 ++
      validateJobTemplateSpecImmutable ot nt (path ++ "." ++ delegatePath "ValidateJobTemplateSpecImmutable") ++
      validateKillTimestampUpdate now old.killTimestamp new.killTimestamp
        (path ++ "." ++ delegatePath "ValidateKillTimestampUpdate"))
  | _, _ => none

/-- the object whose start time guards the startPolicy check (`Facts.valStartPolicyGuardObject`) -/
def startGuard (old new : Job) : Bool :=
  if Facts.valStartPolicyGuardObject = "old" then old.started else new.started

/-- `ValidateJobUpdate` -/
def validateJobUpdate (now : Int) (old new : Job) : Option Errs :=
  match validateJobSpecUpdate now old new "spec" with
  | none => none
  | some e2 =>
    some (validateJobMetadataUpdate old new ++ e2 ++
      (if startGuard old new then
         (if new.startPolicy = old.startPolicy then [] else [⟨"spec.startPolicy", .invalid⟩])
       else []))

/-- the Job validating webhook on UPDATE -/
def webhookJobUpdate (E : Env) (old new : Job) : Option Errs :=
  match validateJobUpdate E.now old new with
  | none => none
  | some e => some (validateJob E.hash new ++ e)

/-! ### instantiation (`jobconfig.NewJobFromJobConfig`) and defaulting -/

def strOf (s : Options.Str) : String := String.ofList s

/-- `GenerateName` -/
def generateName (jobConfigName : String) (ts : Int) : String :=
  jobConfigName ++ String.singleton Facts.jobNameSep ++ toString ts

/-- Go map as a key-sorted association list -/
def sortSubs (m : List (String × String)) : List (String × String) :=
  m.mergeSort fun a b => decide (a.1 ≤ b.1)

/-- `NewJobFromJobConfig` (`none` = error: a default option value cannot be evaluated) -/
def newJobFromJobConfig (jc : JobConfig) (jobType : String) (ts : Int) : Option Job :=
  match Options.makeDefaultOptions jc.option with
  | none => none
  | some subs =>
    some { name := generateName jc.name ts,
           uidLabel := jc.uid,
           owners := [{ kind := Facts.kindJobConfig, name := jc.name, uid := jc.uid, controller := true }],
           type := jobType,
           template := some jc.template,
           substitutions := sortSubs (subs.map fun kv => (strOf kv.1, strOf kv.2)) }

/-- `MutatePodTemplateSpec` as seen through the projection: an empty restartPolicy becomes `Never`.
What that does to Kubernetes' verdict is the parameter `k8sAfter` (old template ↦ validity of the
defaulted one). -/
def mutatePodTemplate (k8sAfter : PodT → Bool) (p : PodT) : PodT :=
  if p.restartEmpty then { p with restartEmpty := false, k8sValid := k8sAfter p } else p

/-- `MutateJobTemplateSpec` with `mutateTaskTemplate = true` (as `MutateJob` calls it) -/
def mutateJobTemplate (E : Env) (k8sAfter : PodT → Bool) (t : JobTemplate) : JobTemplate :=
  { t with
    maxAttempts := some (t.maxAttempts.getD 1),
    pendingTimeout := (match t.pendingTimeout with
                       | some v => some v
                       | none => E.defaultPendingTimeout),
    parallelism := t.parallelism.map fun p =>
      if p.strategy = "" then { p with strategy := "AllSuccessful" } else p,
    pod := t.pod.map (mutatePodTemplate k8sAfter) }

/-- `MutateJob`, on the fields the validators read -/
def mutateJob (E : Env) (k8sAfter : PodT → Bool) (j : Job) : Job :=
  { j with
    type := if j.type = "" then Facts.jobTypeAdhoc else j.type,
    ttl := (match j.ttl with
            | some v => some v
            | none => E.defaultTTL),
    template := some (mutateJobTemplate E k8sAfter (j.template.getD {})) }

end Furiko.Validation
