/-
Model of the cron reconciler (property C02), mirroring one for one

  pkg/execution/controllers/croncontroller/util.go        JoinJobConfigKeyName, SplitJobConfigKeyName,
                                                          ParseUnix, JobConfigKeyFunc
  k8s.io/client-go/tools/cache                            MetaNamespaceKeyFunc, SplitMetaNamespaceKey
                                                          (called by runtime/reconciler before SyncOne)
  pkg/execution/util/jobconfig/name.go                    GenerateName
  pkg/execution/util/jobconfig/job.go                     NewJobFromJobConfig, makeLabels, makeAnnotations
  pkg/execution/controllers/croncontroller/reconciler.go  SyncOne, processCronForConfig
  pkg/execution/controllers/croncontroller/control.go     ExecutionControl.CreateJob

and a small transition system (requests, processing with adversarial caches and create faults,
crash, cache delivery, deletion) over an API map with name uniqueness.  Core Lean only.
Separators and reserved strings come from `Generated/Facts.lean` (regenerated from the source).
-/
import FurikoModel.Model.Str
import FurikoModel.Generated.Facts

namespace Furiko.CronRec
open Furiko.Str

/-! ## key codec -/

/-- `JoinJobConfigKeyName(key, ts) = fmt.Sprintf("%v.%v", key, ts.Unix())` -/
def joinKey (key : Str) (t : Int) : Str := key ++ Facts.cronKeyJoinSep :: showInt t

inductive SplitErr | badKey | badTs
  deriving DecidableEq, Repr

/-- `ParseUnix`: `strconv.Atoi`, then `time.Unix(int64(x), 0)` (whose `.Unix()` is `x` again). -/
def parseUnix (s : Str) : Option Int := atoi s

/-- `SplitJobConfigKeyName`: split on `.`; fewer than 2 tokens ⇒ "invalid key"; the last token
is parsed by `ParseUnix` ⇒ "invalid unix timestamp"; the remaining tokens are re-joined. -/
def splitKey (key : Str) : Except SplitErr (Str × Int) :=
  let tokens := splitOn Facts.cronKeySplitSep key
  if tokens.length < Facts.cronKeyMinTokens then .error .badKey
  else
    match parseUnix (tokens.getLastD []) with
    | none => .error .badTs
    | some ts => .ok (join Facts.cronKeyRejoinSep tokens.dropLast, ts)

/-- `cache.MetaNamespaceKeyFunc` on an object with the given namespace and name -/
def metaNsKey (ns name : Str) : Str :=
  if ns.length > 0 then ns ++ '/' :: name else name

/-- `cache.SplitMetaNamespaceKey`: one part ⇒ namespace `""`; two parts; otherwise an error.
`runtime/reconciler.Controller.syncItem` applies it to the work-queue key before `SyncOne`. -/
def splitNsKey (key : Str) : Option (Str × Str) :=
  match splitOn '/' key with
  | [n] => some ([], n)
  | [ns, n] => some (ns, n)
  | _ => none

/-- `JobConfigKeyFunc(config, scheduleTime)` -/
def jobConfigKey (ns name : Str) (t : Int) : Str := joinKey (metaNsKey ns name) t

/-! ## Job naming -/

/-- Unix seconds of Go's zero `time.Time` (January 1, year 1 UTC): the only `t` for which
`time.Unix(t, 0).IsZero()` holds. -/
def zeroUnix : Int := -62135596800

/-- `GenerateName(jobConfigName, startTime)`: a zero start time is replaced by `time.Now()`
(`now`, Unix seconds, is a parameter); the result is `fmt.Sprintf("%v-%v", name, ts)`. -/
def generateName (now : Int) (cfgName : Str) (t : Int) : Str :=
  let ts := if t = zeroUnix then now else t
  cfgName ++ Facts.jobNameSep :: showInt ts

/-! ## objects -/

abbrev KV := List (Str × Str)

/-- Go `m[k] = v` on a map represented as an association list with distinct keys -/
def mapSet (m : KV) (k v : Str) : KV := (m.filter (fun e => e.1 ≠ k)) ++ [(k, v)]

def mapGet (m : KV) (k : Str) : Option Str := (m.find? (fun e => e.1 = k)).map (·.2)

/-- Go `for k, v := range src { dst[k] = v }` (src has distinct keys, so the order is irrelevant) -/
def mapCopyInto (dst src : KV) : KV := src.foldl (fun acc e => mapSet acc e.1 e.2) dst

/-- the fields of a JobConfig that the reconciler reads -/
structure JobConfig where
  ns          : Str
  name        : Str
  uid         : Str
  policy      : Str                 -- spec.concurrency.policy (any string)
  maxConc     : Option Int          -- spec.concurrency.maxConcurrency
  queued      : Int                 -- status.queued
  tmplLabels  : KV
  tmplAnnots  : KV
  /-- result of `options.MakeDefaultOptions(spec.option)`: `none` = error (oracle, C18's subject) -/
  subst       : Option KV
  /-- identity of `spec.template.spec` (copied verbatim into the Job) -/
  tmpl        : Option Int
  deriving DecidableEq, Repr

structure OwnerRef where
  kind       : Str
  name       : Str
  uid        : Str
  controller : Bool
  blockOwnerDeletion : Bool
  deriving DecidableEq, Repr

structure Job where
  ns          : Str
  name        : Str
  labels      : KV
  annots      : KV
  finalizers  : List Str
  owners      : List OwnerRef
  jobType     : Str
  startPolicy : Option Str          -- spec.startPolicy.concurrencyPolicy
  subst       : KV
  tmpl        : Option Int
  deriving DecidableEq, Repr

def labelKeyUID : Str := Facts.labelKeyJobConfigUID.toList
def annKeySchedule : Str := Facts.annotationKeyScheduleTime.toList
def typeScheduled : Str := Facts.jobTypeScheduled.toList
def policyForbid : Str := Facts.policyForbid.toList

/-- `makeLabels`: template labels, then the uid label -/
def makeLabels (c : JobConfig) : KV :=
  mapCopyInto (mapCopyInto [] c.tmplLabels) [(labelKeyUID, c.uid)]

/-- `makeAnnotations`: template annotations, then the schedule time iff the type is Scheduled -/
def makeAnnotations (c : JobConfig) (jobType : Str) (t : Int) : KV :=
  let additional : KV := if jobType = typeScheduled then [(annKeySchedule, showInt t)] else []
  mapCopyInto (mapCopyInto [] c.tmplAnnots) additional

/-- `metav1.NewControllerRef(jobConfig, GVKJobConfig)` -/
def controllerRef (c : JobConfig) : OwnerRef :=
  { kind := Facts.kindJobConfig.toList, name := c.name, uid := c.uid, controller := true, blockOwnerDeletion := true }

/-- `NewJobFromJobConfig(jobConfig, jobType, createTime)`; `none` = error from `makeSubstitutions` -/
def newJobFromJobConfig (now : Int) (c : JobConfig) (jobType : Str) (t : Int) : Option Job :=
  let jobName := generateName now c.name t
  match c.subst with
  | none => none
  | some variables =>
    some { ns := c.ns, name := jobName, labels := makeLabels c, annots := makeAnnotations c jobType t,
           finalizers := [Facts.deleteDependentsFinalizer.toList], owners := [controllerRef c],
           jobType := jobType, startPolicy := none, subst := variables, tmpl := c.tmpl }

/-- `metav1.GetControllerOf(job)` uid -/
def Job.ownerUid (j : Job) : Option Str := (j.owners.find? (·.controller)).map (·.uid)
/-- the schedule-time annotation, as `GetLabelScheduleTime` reads it -/
def Job.schedAnnot (j : Job) : Option Str := mapGet j.annots annKeySchedule

/-! ## the API server's Job collection (name uniqueness on create) -/

inductive Inject
  | none        -- the server answers truthfully
  | err         -- the call fails without effect (E-ErrNotApplied)
  | invalid     -- rejected as Invalid (admission webhook), no effect
  | errApplied  -- applied on the server but the client sees an error (outside E-ErrNotApplied)
  deriving DecidableEq, Repr

inductive Resp | ok | exists | invalid | err
  deriving DecidableEq, Repr

abbrev Api := List Job

def Api.has (api : Api) (ns name : Str) : Bool := api.any (fun j => j.ns = ns ∧ j.name = name)

/-- create on the (simulated) API server -/
def apiCreate (api : Api) (j : Job) (inj : Inject) : Api × Resp :=
  match inj with
  | .err => (api, .err)
  | .invalid => (api, .invalid)
  | .none => if api.has j.ns j.name then (api, .exists) else (api ++ [j], .ok)
  | .errApplied => if api.has j.ns j.name then (api, .exists) else (api ++ [j], .err)

/-! ## processCronForConfig as a decision function -/

inductive Event | skipped | created | createFailed
  deriving DecidableEq, Repr

inductive Result | ok | invalid | err
  deriving DecidableEq, Repr

/-- `max := cfg.MaxEnqueuedJobs; max != nil && jobConfig.Status.Queued >= *max` -/
def queueFull (maxEnqueued : Option Int) (queued : Int) : Bool :=
  match maxEnqueued with
  | some m => decide (queued ≥ m)
  | none => false

/-- what one `processCronForConfig` decides before touching the server -/
inductive Decision
  | done (r : Result) (evs : List Event)   -- return without an API call
  | create (j : Job)                       -- issue `client.CreateJob(j)`
  deriving DecidableEq, Repr

/-- `processCronForConfig` up to the create call.  Inputs: the JobConfig found in the lister
(`none` = NotFound), the active count reported by the store, the merged `MaxEnqueuedJobs`,
whether the Job lister has an object under (namespace, name) of the new Job. -/
def processCron (now : Int) (jc : Option JobConfig) (active : Int) (maxEnqueued : Option Int)
    (jobInCache : Str → Str → Bool) (t : Int) : Decision :=
  match jc with
  | none => .done .ok []
  | some c =>
    let maxConcurrency := c.maxConc.getD Facts.defaultMaxConcurrency
    if c.policy = policyForbid ∧ active + 1 > maxConcurrency then .done .ok [.skipped]
    else if queueFull maxEnqueued c.queued then .done .ok [.skipped]
    else
      match newJobFromJobConfig now c typeScheduled t with
      | none => .done .err []
      | some newJob =>
        let newJob := { newJob with startPolicy := some c.policy }
        if jobInCache newJob.ns newJob.name then .done .ok []
        else .create newJob

/-- `ExecutionControl.CreateJob`: Invalid is swallowed (event only); any other error is returned -/
def afterCreate : Resp → Result × List Event
  | .ok => (.ok, [.created])
  | .invalid => (.ok, [.createFailed])
  | .exists => (.err, [])
  | .err => (.err, [])

structure SyncOut where
  api    : Api
  result : Result
  events : List Event
  call   : Option Job        -- the create action issued, if any
  resp   : Option Resp
  deriving Repr

/-- `Reconciler.SyncOne(ctx, namespace, name, _)` against the API collection -/
def syncOne (now : Int) (api : Api) (jcLookup : Str → Str → Option JobConfig) (active : JobConfig → Int)
    (maxEnqueued : Option Int) (jobInCache : Str → Str → Bool) (inj : Inject)
    (nsArg name : Str) : SyncOut :=
  match splitKey name with
  | .error _ => { api, result := .invalid, events := [], call := none, resp := none }
  | .ok (configName, ts) =>
    let jc := jcLookup nsArg configName
    match processCron now jc (match jc with | some c => active c | none => 0) maxEnqueued jobInCache ts with
    | .done r evs => { api, result := r, events := evs, call := none, resp := none }
    | .create j =>
      let (api', resp) := apiCreate api j inj
      let (r, evs) := afterCreate resp
      { api := api', result := r, events := evs, call := some j, resp := some resp }

/-- `runtime/reconciler.Controller.syncItem`: split the queue key, then `SyncOne` -/
def syncItem (now : Int) (api : Api) (jcLookup : Str → Str → Option JobConfig) (active : JobConfig → Int)
    (maxEnqueued : Option Int) (jobInCache : Str → Str → Bool) (inj : Inject) (key : Str) : SyncOut :=
  match splitNsKey key with
  | none => { api, result := .invalid, events := [], call := none, resp := none }
  | some (ns, name) => syncOne now api jcLookup active maxEnqueued jobInCache inj ns name

/-! ## transition system -/

/-- controller + server state.  The JobConfig lister and the Job lister are adversarial views
(any content at any time): `jcCache` may hold stale or no versions, `jobCache` any set of keys. -/
structure Sys where
  api      : Api := []
  queue    : List Str := []                 -- work-queue keys
  jcCache  : List JobConfig := []
  jobCache : List (Str × Str) := []
  deriving Repr

/-- lister semantics: `JobConfigs(ns).Get(name)` looks up the store key `ns/name` -/
def listerGet (cache : List JobConfig) (ns name : Str) : Option JobConfig :=
  cache.find? (fun c => metaNsKey c.ns c.name = ns ++ '/' :: name)

def jobLister (cache : List (Str × Str)) (ns name : Str) : Bool :=
  cache.any (fun k => metaNsKey k.1 k.2 = ns ++ '/' :: name)

inductive Action
  /-- the cron worker (or anything else) enqueues the key of `(c, t)` -/
  | request (c : JobConfig) (t : Int)
  /-- a worker processes a queued key; the clock reads `now`; the store reports `active`;
  `requeue` = whether the key stays queued afterwards (error ⇒ rate-limited retry) -/
  | process (key : Str) (now : Int) (active : JobConfig → Int) (maxEnqueued : Option Int) (inj : Inject) (requeue : Bool)
  /-- controller crash / restart: the in-memory work queue is lost -/
  | crash
  /-- informer activity: the caches change to arbitrary contents (fresh, lagging, empty) -/
  | deliver (jcs : List JobConfig) (jobs : List (Str × Str))
  /-- a Job disappears from the server (TTL, garbage collection, user) -/
  | delete (ns name : Str)

/-- `world c`: `c` is a version of a JobConfig that exists (or existed) on the server -/
def step (world : JobConfig → Prop) (s : Sys) : Action → Sys → Prop
  | .request c t, s' => world c ∧ s' = { s with queue := jobConfigKey c.ns c.name t :: s.queue }
  | .process key now active maxEnq inj requeue, s' =>
      key ∈ s.queue ∧
      s' = { s with api := (syncItem now s.api (listerGet s.jcCache) active maxEnq (jobLister s.jobCache) inj key).api,
                    queue := if requeue then s.queue else s.queue.filter (· ≠ key) }
  | .crash, s' => s' = { s with queue := [] }
  | .deliver jcs jobs, s' => (∀ c ∈ jcs, world c) ∧ s' = { s with jcCache := jcs, jobCache := jobs }
  | .delete ns name, s' => s' = { s with api := s.api.filter (fun j => ¬ (j.ns = ns ∧ j.name = name)) }

/-- reachability from the empty system -/
inductive Reachable (world : JobConfig → Prop) : Sys → Prop
  | init : Reachable world {}
  | step {s s'} (a : Action) : Reachable world s → step world s a s' → Reachable world s'

end Furiko.CronRec
