/-
Model of the dynamic configuration machinery (property C19):

  /repo/pkg/runtime/configloader/manager.go           ConfigManager (loadConfig, LoadAndUnmarshalConfig)
  /repo/pkg/runtime/configloader/configmap_loader.go  ConfigMapLoader (startInformer, handleUpdate, unmarshalConfigMap, Load)
  /repo/pkg/runtime/configloader/secret_loader.go     SecretLoader (handleUpdate, unmarshalSecret)
  /repo/pkg/runtime/configloader/defaults_loader.go   DefaultsLoader (Start, Load)
  /repo/pkg/runtime/controllercontext/context_configs.go  SetUpConfigManager (loader order), Jobs/JobConfigs/Cron/AllConfigs

Core Lean only.  External libraries are parameters / oracle data supplied by the Go side:
* YAML/JSON/base64 decoding of one ConfigMap/Secret entry: an entry arrives as `Option CMap`
  (`none` = `unmarshal` returned an error);
* `mapstructure` decoding of a merged map into the typed config: `decode : String → CMap → Option T`;
* `mergo.Merge(&res, loaded, mergo.WithOverride)` IS modelled (`mergeMap`), on maps whose values are
  JSON values classified as null / atom (scalar or list) / object, each with mergo's
  `isEmptyValue` flag.  One case is not exact: an object value merged onto a NON-EMPTY object
  value of a lower layer (mergo deep-merges in place, mutating the lower loader's cached map);
  the model keeps the lower value.  No field of any config kind is object-typed.
-/
import FurikoModel.Generated.Facts
namespace Furiko.Config

/-- A JSON value as `mergo` sees it inside a `map[string]interface{}`.  `repr` is the canonical
JSON text (opaque), `empty` is mergo's `isEmptyValue` of the interface element
(`0`, `false`, `""`, `[]`, `{}`). `atom` = scalar or list (mergo overrides both unconditionally). -/
inductive Val where
  | null
  | atom (repr : String) (empty : Bool)
  | obj (repr : String) (empty : Bool)
  deriving DecidableEq, Repr, Inhabited

def Val.isObj : Val → Bool
  | .obj _ _ => true
  | _ => false

/-- mergo `isEmptyValue(dstElement)` for an interface-typed map element -/
def Val.isEmpty : Val → Bool
  | .null => true
  | .atom _ e => e
  | .obj _ e => e

/-- `configloader.Config` = `map[string]interface{}` as an association list (keys distinct). -/
abbrev CMap := List (String × Val)

def lookup (m : CMap) (k : String) : Option Val :=
  match m with
  | [] => none
  | (k', v) :: rest => if k' = k then some v else lookup rest k

/-- `dst.SetMapIndex(key, v)` -/
def set (m : CMap) (k : String) (v : Val) : CMap :=
  match m with
  | [] => [(k, v)]
  | (k', v') :: rest => if k' = k then (k, v) :: rest else (k', v') :: set rest k v

/-- One iteration of the `for _, key := range src.MapKeys()` loop of mergo `deepMerge`
(merge.go:119-207) with `overwrite = true`, for `dst, src : map[string]interface{}`:
* nil source element (`srcElement.IsNil()`): `dst.SetMapIndex(key, srcElement)` (line 127-131);
* source element of kind Slice: `dstSlice = srcSlice; dst.SetMapIndex(key, dstSlice)` (165-194);
* source element of kind Map: recursive `deepMerge` on a non-settable copy, then (line 197)
  `continue` when the destination element is valid and non-empty, else `SetMapIndex` (line 201-205);
* any other source element: line 201 `srcElement.Kind() != reflect.Ptr && overwrite` ⇒ `SetMapIndex`. -/
def mergeKey (dst : CMap) (kv : String × Val) : CMap :=
  match kv.2 with
  | .null => set dst kv.1 .null
  | .atom r e => set dst kv.1 (.atom r e)
  | .obj r e =>
    match lookup dst kv.1 with
    | none => set dst kv.1 (.obj r e)
    | some d => if d.isEmpty then set dst kv.1 (.obj r e) else dst

/-- `mergo.Merge(&res, loaded, mergo.WithOverride)` on `Config` values (a nil `loaded` has no keys). -/
def mergeMap (dst src : CMap) : CMap := src.foldl mergeKey dst

/-- value-level view of one key's merge: what `mergeKey` leaves under the key -/
def mergeVal (d : Option Val) (v : Val) : Val :=
  match v, d with
  | .obj r e, some d => if d.isEmpty then .obj r e else d
  | v, _ => v

/-! ### ConfigMapLoader / SecretLoader -/

/-- `configCache` (config name ↦ Config) of a ConfigMapLoader / SecretLoader -/
structure KLoader where
  cache : List (String × CMap) := []
  deriving DecidableEq, Repr, Inhabited

/-- one `data` entry of the object: config name and the result of `unmarshal`
(for the Secret: base64 decoding then `unmarshal`); `none` = error -/
abbrev Entry := String × Option CMap

/-- `unmarshalConfigMap` / `unmarshalSecret`: every entry must unmarshal, else the error is returned
and nothing is kept. (The Go loop runs in map order and returns at the first error; the result
does not depend on that order.) -/
def unmarshalAll : List Entry → Option (List (String × CMap))
  | [] => some []
  | (n, p) :: rest =>
    match p with
    | none => none
    | some c =>
      match unmarshalAll rest with
      | none => none
      | some r => some ((n, c) :: r)

/-- `handleUpdate(obj)`: `isTarget` = the object has the expected Go type and its name and
namespace are the watched ones. On an unmarshal error the handler returns without touching
`c.cache`; otherwise `c.cache = newConfigMap` (a fresh cache holding exactly the new entries). -/
def handleUpdate (l : KLoader) (isTarget : Bool) (es : List Entry) : KLoader :=
  if !isTarget then l
  else match unmarshalAll es with
    | none => l
    | some c => { cache := c }

inductive EvKind where
  | add | update | delete
  deriving DecidableEq, Repr, Inhabited

/-- which informer callbacks `startInformer` registers (regenerated from the source) -/
def registered : EvKind → Bool
  | .add => Facts.configLoaderHandlerAdd
  | .update => Facts.configLoaderHandlerUpdate
  | .delete => Facts.configLoaderHandlerDelete

/-- delivery of one informer notification: `AddFunc: eventHandler`,
`UpdateFunc: func(old, new) { eventHandler(new) }`; an unregistered callback does nothing. -/
def onEvent (l : KLoader) (k : EvKind) (isTarget : Bool) (es : List Entry) : KLoader :=
  if registered k then handleUpdate l isTarget es else l

def lookupCfg (c : List (String × CMap)) (name : String) : Option CMap :=
  match c with
  | [] => none
  | (n, m) :: rest => if n = name then some m else lookupCfg rest name

/-- `Load(configName)`: the cached Config, or a nil Config when absent -/
def KLoader.load (l : KLoader) (name : String) : CMap := (lookupCfg l.cache name).getD []

/-! ### ConfigManager -/

inductive LoaderId where
  | defaults | configMap | secret
  deriving DecidableEq, Repr, Inhabited

def loaderOfName (s : String) : Option LoaderId :=
  if s = "DefaultsLoader" then some .defaults
  else if s = "ConfigMapLoader" then some .configMap
  else if s = "SecretLoader" then some .secret
  else none

/-- the order of `AddConfigLoaders(...)` in `SetUpConfigManager` (regenerated from the source) -/
def loaderOrder : List LoaderId := Facts.configLoaderOrder.filterMap loaderOfName

/-- `T` = canonical rendering of a decoded typed config (opaque). -/
structure Mgr (T : Type) where
  started : Bool := false
  /-- `DefaultsLoader.Defaults`, already in marshalled form -/
  defaultsObj : List (String × CMap) := []
  /-- `DefaultsLoader.cache` (filled by `Start`) -/
  defaults : List (String × CMap) := []
  cm : KLoader := {}
  sec : KLoader := {}
  /-- `ConfigManager.cache`: last successfully decoded value per config name -/
  lkg : List (String × T) := []

/-- `ConfigManager.Start`: starts every loader (`DefaultsLoader.Start` fills its cache) -/
def Mgr.start {T} (m : Mgr T) : Mgr T := { m with started := true, defaults := m.defaultsObj }

def Mgr.loaderLoad {T} (m : Mgr T) (l : LoaderId) (name : String) : CMap :=
  match l with
  | .defaults => (lookupCfg m.defaults name).getD []
  | .configMap => m.cm.load name
  | .secret => m.sec.load name

/-- the merge loop of `loadConfig` over an explicit list of layers, lowest priority first -/
def mergeAll (layers : List CMap) : CMap := layers.foldl mergeMap []

/-- `ConfigManager.loadConfig`: error when not started; otherwise `res = make(Config)` and
every loader's Config is merged onto it in registration order. (The real loaders never return
an error from `Load`.) -/
def Mgr.loadConfigWith {T} (order : List LoaderId) (m : Mgr T) (name : String) : Option CMap :=
  if !m.started then none
  else some (mergeAll (order.map fun l => m.loaderLoad l name))

def Mgr.loadConfig {T} (m : Mgr T) (name : String) : Option CMap := m.loadConfigWith loaderOrder name

/-- `loadAndUnmarshalConfigWithError` -/
def Mgr.loadAndDecode {T} (decode : String → CMap → Option T) (m : Mgr T) (name : String) : Option T :=
  match m.loadConfig name with
  | none => none
  | some c => decode name c

def lkgLookup {T} (c : List (String × T)) (name : String) : Option T :=
  match c with
  | [] => none
  | (n, t) :: rest => if n = name then some t else lkgLookup rest name

def lkgStore {T} (c : List (String × T)) (name : String) (t : T) : List (String × T) :=
  match c with
  | [] => [(name, t)]
  | (n, t') :: rest => if n = name then (name, t) :: rest else (n, t') :: lkgStore rest name t

/-- `LoadAndUnmarshalConfig`: on success store the value in the cache and return it; on error
return the cached value for this name if there is one, else the error (`none`). -/
def Mgr.read {T} (decode : String → CMap → Option T) (m : Mgr T) (name : String) : Mgr T × Option T :=
  match m.loadAndDecode decode name with
  | some t => ({ m with lkg := lkgStore m.lkg name t }, some t)
  | none =>
    match lkgLookup m.lkg name with
    | some t => (m, some t)
    | none => (m, none)

/-! ### operation sequences (what the environment can do to a running manager) -/

inductive Src where
  | cm | sec
  deriving DecidableEq, Repr, Inhabited

inductive Op where
  /-- an informer notification for the ConfigMap / Secret informer -/
  | ev (s : Src) (k : EvKind) (isTarget : Bool) (es : List Entry)
  /-- a reader calls `LoadAndUnmarshalConfig(name, …)` (through `Jobs()`, `JobConfigs()`, `Cron()`) -/
  | read (name : String)
  deriving Repr, Inhabited

def Mgr.applyEv {T} (m : Mgr T) (s : Src) (k : EvKind) (isTarget : Bool) (es : List Entry) : Mgr T :=
  match s with
  | .cm => { m with cm := onEvent m.cm k isTarget es }
  | .sec => { m with sec := onEvent m.sec k isTarget es }

def Mgr.step {T} (decode : String → CMap → Option T) (m : Mgr T) : Op → Mgr T
  | .ev s k t es => m.applyEv s k t es
  | .read n => (m.read decode n).1

def Mgr.run {T} (decode : String → CMap → Option T) (m : Mgr T) (ops : List Op) : Mgr T :=
  ops.foldl (Mgr.step decode) m

end Furiko.Config
