/-
Model of /repo/pkg/execution/controllers/jobcontroller/{reconciler.go,control.go,informer.go,
util.go} (Reconciler.SyncOne and everything it calls) on top of the pure layer
(Model/Task, ParallelStatus, JobStatus), run against the API simulation of harness/sim/api.go
(resourceVersions, optimistic concurrency, status subresource, finalizers, graceful pod
deletion), with one watch FIFO and one cache per resource, the deterministic work queue and a
virtual clock.  One Job per system (the engine explores one Job in depth).  Core Lean only.

All clock readings are whole seconds in this engine (nanosecond values that are multiples of
10^9), so the API server's truncation of timestamps to seconds is the identity.
-/
import FurikoModel.Model.JobStatus
import FurikoModel.Model.WorkQueue

namespace Furiko.JobCtl
open Furiko Furiko.WQ

/-- a Pod object: what `PodTask` reads plus ownership -/
structure PodObj where
  pod       : Pod
  ownerUid  : Option String := none   -- controller owner reference of kind Job: uid
  ownerName : Option String := none
  jobLabel  : Option String := none   -- job-uid label (selector of `Lister().List()`)
  deriving Repr, Inhabited, DecidableEq

/-- a Job object: the pure layer's `Job` plus metadata -/
structure JobObj where
  name      : String
  uid       : String
  job       : Job
  finalizer : Bool                    -- carries the delete-dependents finalizer
  rv        : Nat
  deriving Repr, Inhabited, DecidableEq

inductive JEv where
  | upsert (j : JobObj) | delete (j : JobObj)
  deriving Repr, Inhabited

inductive PEv where
  | upsert (p : PodObj) | delete (p : PodObj)
  deriving Repr, Inhabited

structure Call where
  verb : String   -- create | update | delete
  res  : String   -- pods | jobs
  name : String
  out  : String   -- ok | exists | notfound | conflict | err
  sub  : Bool := false
  force : Bool := false
  deriving Repr, Inhabited

structure Sys where
  clock    : Int := 0
  rv       : Nat := 0
  cfg      : ExecConfig := {}
  d        : PIndex := { hash := "" }          -- `parallel.GetDefaultIndex()`
  job      : Option JobObj := none            -- authoritative
  pods     : List PodObj := []                -- authoritative
  jobEvs   : List JEv := []
  podEvs   : List PEv := []
  jobCache : Option JobObj := none
  podCache : List PodObj := []
  q        : WQ := {}
  faults   : List String := []
  /-- fate shared by the pod deletes of one concurrent batch (`ConcurrentTasks`) -/
  delRun   : Option String := none
  calls    : List Call := []
  deriving Inhabited

def findPod (l : List PodObj) (n : String) : Option PodObj := l.find? (·.pod.name = n)
def setPod (l : List PodObj) (p : PodObj) : List PodObj :=
  if l.any (·.pod.name = p.pod.name) then l.map (fun x => if x.pod.name = p.pod.name then p else x) else l ++ [p]
def delPod (l : List PodObj) (n : String) : List PodObj := l.filter (·.pod.name ≠ n)

/-- insertion into a list sorted by pod name (listings are ordered by key) -/
def insertPodSorted (p : PodObj) : List PodObj → List PodObj
  | [] => [p]
  | x :: rest => if p.pod.name < x.pod.name then p :: x :: rest else x :: insertPodSorted p rest
def sortPods (l : List PodObj) : List PodObj := l.foldl (fun acc p => insertPodSorted p acc) []

def nowSec (s : Sys) : Int := s.clock / 1000000000
/-- `ktime.Now()` as stored on the API (second precision) -/
def nowT (s : Sys) : Time := secs (nowSec s)

def jobKey (j : JobObj) : String := "ns/" ++ j.name

def popFault (s : Sys) : String × Sys :=
  match s.faults with
  | [] => ("", s)
  | f :: rest => (f, { s with faults := rest })

def log (s : Sys) (c : Call) : Sys := { s with calls := s.calls ++ [c] }

/-! ### API calls issued by the controller -/

/-- fault of a non-batch call (ends any pod-delete batch) -/
def nextFault (s : Sys) : String × Sys :=
  let (f, s) := popFault s
  (f, { s with delRun := none })

def isFailFault (f : String) : Bool := f = "err" || f = "timeout" || f = "conflict"
def faultOut (f : String) : String := if f = "conflict" then "conflict" else "err"

/-- `PodTaskClient.CreateIndex`: NewPod + create.  Result: `ok pod` | `exists` | `err`. -/
inductive CreateRes where
  | ok (p : PodObj) | exists | err
  deriving Repr

def taskName (jobName hash : String) (retry : Int) : String := s!"{jobName}-{hash}-{retry}"

def apiCreatePod (s : Sys) (jo : JobObj) (idx : PIndex) (retry : Int) : Sys × CreateRes :=
  let name := taskName jo.name idx.hash retry
  let (f, s) := nextFault s
  if isFailFault f then (log s ⟨"create", "pods", name, faultOut f, false, false⟩, .err)
  else if (findPod s.pods name).isSome then (log s ⟨"create", "pods", name, "exists", false, false⟩, .exists)
  else
    let p : PodObj := {
      pod := { name := name, creationTimestamp := some (nowT s), retryIndex := some retry,
               parallelIndex := some idx },
      ownerUid := some jo.uid, ownerName := some jo.name, jobLabel := some jo.uid }
    let s1 := { s with rv := s.rv + 1, pods := s.pods ++ [p], podEvs := s.podEvs ++ [.upsert p] }
    (log s1 ⟨"create", "pods", name, "ok", false, false⟩, if f = "applied-err" then .err else .ok p)

/-- one pod delete of a concurrent batch; all deletes of a batch share one fault slot -/
def apiDeletePod (s : Sys) (name : String) (force : Bool) : Sys × Bool :=
  let (f, s) := match s.delRun with
    | some f => (f, s)
    | none => let (f, s) := popFault s; (f, { s with delRun := some f })
  if isFailFault f then (log s ⟨"delete", "pods", name, faultOut f, false, force⟩, false)
  else
    match findPod s.pods name with
    | none => (log s ⟨"delete", "pods", name, "notfound", false, force⟩, true)   -- NotFound is swallowed
    | some p =>
      let s := log s ⟨"delete", "pods", name, "ok", false, force⟩
      if force then
        ({ s with pods := delPod s.pods name, podEvs := s.podEvs ++ [.delete p] }, f ≠ "applied-err")
      else if p.pod.deletionTimestamp.isSome then (s, f ≠ "applied-err")
      else
        let p' := { p with pod := { p.pod with deletionTimestamp := some (nowT s) } }
        ({ s with rv := s.rv + 1, pods := setPod s.pods p', podEvs := s.podEvs ++ [.upsert p'] }, f ≠ "applied-err")

/-- `deleteTasks(rj, tasks, force)`: concurrent deletes; modelled in name order.  `true` = no error. -/
def deleteTasks (s : Sys) (tasks : List Task) (force : Bool) : Sys × Bool :=
  let names := (tasks.filter (fun t =>
      -- "Don't need to delete if deletionTimestamp already set and earlier, unless we are force deleting."
      force || !(match t.deletionTimestamp with | some ts => decide (ts < s.clock) | none => false))).map (·.name)
  let sorted := names.foldl (fun acc n =>
    let rec ins (n : String) : List String → List String
      | [] => [n]
      | x :: r => if n < x then n :: x :: r else x :: ins n r
    ins n acc) []
  sorted.foldl (fun (acc : Sys × Bool) n =>
    let (s1, ok) := apiDeletePod acc.1 n force
    (s1, acc.2 && ok)) (s, true)

/-- Job `Update` (spec/annotations/finalizers; status kept) with the cached resourceVersion -/
def apiUpdateJob (s : Sys) (cached : JobObj) (new : JobObj) : Sys × Bool :=
  let (f, s) := nextFault s
  if isFailFault f then (log s ⟨"update", "jobs", cached.name, faultOut f, false, false⟩, false)
  else
    match s.job with
    | none => (log s ⟨"update", "jobs", cached.name, "notfound", false, false⟩, false)
    | some cur =>
      if cur.rv ≠ cached.rv then (log s ⟨"update", "jobs", cached.name, "conflict", false, false⟩, false)
      else
        let nj : JobObj := { cur with
          job := { new.job with status := cur.job.status, deletionTimestamp := cur.job.deletionTimestamp },
          finalizer := new.finalizer, rv := s.rv + 1 }
        let s := log s ⟨"update", "jobs", cached.name, "ok", false, false⟩
        if { nj with rv := cur.rv } = cur then (s, f ≠ "applied-err")   -- no-op update: no new version, no event
        else if nj.job.deletionTimestamp.isSome && !nj.finalizer then
          ({ s with rv := s.rv + 1, job := none, jobEvs := s.jobEvs ++ [.delete nj] }, f ≠ "applied-err")
        else
          ({ s with rv := s.rv + 1, job := some nj, jobEvs := s.jobEvs ++ [.upsert nj] }, f ≠ "applied-err")

/-- Job `UpdateStatus` with the resourceVersion of `cached` (the cached Job, or the cached Job on top of
the object the preceding `Update` returned: `statusBase`) -/
def apiUpdateJobStatus (s : Sys) (cached : JobObj) (new : JobObj) : Sys × Bool :=
  let (f, s) := nextFault s
  if isFailFault f then (log s ⟨"update", "jobs", cached.name, faultOut f, true, false⟩, false)
  else
    match s.job with
    | none => (log s ⟨"update", "jobs", cached.name, "notfound", true, false⟩, false)
    | some cur =>
      if cur.rv ≠ cached.rv then (log s ⟨"update", "jobs", cached.name, "conflict", true, false⟩, false)
      else
        let nj : JobObj := { cur with job := { cur.job with status := new.job.status }, rv := s.rv + 1 }
        let s := log s ⟨"update", "jobs", cached.name, "ok", true, false⟩
        if { nj with rv := cur.rv } = cur then (s, f ≠ "applied-err")   -- no-op update
        else ({ s with rv := s.rv + 1, job := some nj, jobEvs := s.jobEvs ++ [.upsert nj] }, f ≠ "applied-err")

/-- `ExecutionControl.DeleteJob` (NotFound is swallowed) -/
def apiDeleteJob (s : Sys) (cached : JobObj) : Sys × Bool :=
  let (f, s) := nextFault s
  if isFailFault f then (log s ⟨"delete", "jobs", cached.name, faultOut f, false, false⟩, false)
  else
    match s.job with
    | none => (log s ⟨"delete", "jobs", cached.name, "notfound", false, false⟩, true)
    | some cur =>
      let s := log s ⟨"delete", "jobs", cached.name, "ok", false, false⟩
      if cur.finalizer then
        if cur.job.deletionTimestamp.isSome then (s, f ≠ "applied-err")
        else
          let nj := { cur with job := { cur.job with deletionTimestamp := some (nowT s) }, rv := s.rv + 1 }
          ({ s with rv := s.rv + 1, job := some nj, jobEvs := s.jobEvs ++ [.upsert nj] }, f ≠ "applied-err")
      else ({ s with job := none, jobEvs := s.jobEvs ++ [.delete cur] }, f ≠ "applied-err")

/-! ### Reconciler -/

/-- `enqueueAfter(rj, purpose, time.Until(t))` -/
def enqueueAfter (s : Sys) (key : String) (t : Int) : Sys :=
  { s with q := s.q.addAfter key t s.clock }

/-- a Pod object seen as a task (`NewPodTask`) by a pass whose `ktime.Now()` is `now` (the finish
time recorded for a Pod that cannot tell when it finished, see `Pod.recordedFinish`); a panic of
`GetTaskRef` is not reachable for the pods of this engine (no DeadlineExceeded without start time) -/
def podTask (now : Time) (p : PodObj) : Option Task := p.pod.task now

/-- `isControlledByJob(rj, task)`: the object's controller owner reference is of kind Job and
carries the Job's uid (`ownerUid` is exactly that reference's uid) -/
def isControlledByJob (jo : JobObj) (p : PodObj) : Bool := p.ownerUid = some jo.uid

/-- `taskMgr.Client().Get` as `getTaskForRef` and the finalizer use it: the Pod as it is on the
server right now; an object that is not controlled by the Job is not the task (the task is gone,
something else took its name), checked AFTER the NotFound handling -/
def liveGetTask (s : Sys) (jo : JobObj) (name : String) : Option Task :=
  match findPod s.pods name with
  | some p => if !isControlledByJob jo p then none else podTask s.clock p
  | none => none

/-- `getTaskForRef`: the cached Pod, unless it is older than what was recorded (the ref is
finished but the cached Pod is not: the cache lags behind an earlier live read) — then, and for
an unfinished ref that is missing from the cache, a live GET.  A finished ref missing from the
cache is gone.  A cached object with the ref's name that is not controlled by the Job is not the
task (`cached := err == nil && isControlledByJob(rj, task)`): it is treated like a cache MISS —
live GET for an unfinished ref, gone for a finished one; the object the live GET returns is
subject to the same ownership test. -/
def getTaskForRef (s : Sys) (jo : JobObj) (ref : TaskRef) : Option Task :=
  match findPod s.podCache ref.name with
  | some p =>
    if !isControlledByJob jo p then
      (if ref.finishTimestamp.isSome then none else liveGetTask s jo ref.name)
    else
    match podTask s.clock p with
    | none => none
    | some t =>
      if ref.finishTimestamp.isNone || t.ref.finishTimestamp.isSome then some t
      else liveGetTask s jo ref.name
  | none =>
    if ref.finishTimestamp.isSome then none
    else liveGetTask s jo ref.name

def tasksForRefs (s : Sys) (jo : JobObj) (refs : List TaskRef) : List Task :=
  refs.filterMap (getTaskForRef s jo)

/-- the finalizer's lookup: like `getTaskForRef`, but an absence is always confirmed with a live
GET (fix 27db662); an object found there that is not controlled by the Job is ignored too -/
def getTaskForRefConfirmed (s : Sys) (jo : JobObj) (ref : TaskRef) : Option Task :=
  match getTaskForRef s jo ref with
  | some t => some t
  | none => liveGetTask s jo ref.name

def tasksForRefsConfirmed (s : Sys) (jo : JobObj) (refs : List TaskRef) : List Task :=
  refs.filterMap (getTaskForRefConfirmed s jo)

/-- The deletion override of `UpdateJobStatusFromTaskRefs` takes the ADDRESS of the Running
condition's `LatestRunningTimestamp` (a value) and of a local copy of its
`LatestCreationTimestamp`; when such a value is the zero time the freshly computed status
holds a non-nil pointer to a zero time, which marshals as `null` instead of being omitted.  It
therefore never compares JSON-equal to a status read back from the API, and a (no-op) status
update is issued on every sync.  This predicate says whether the status computed from `rj` has
that shape. -/
def statusHasNullTime (s : Sys) (rj : Job) : Bool :=
  let condition := getCondition s.clock s.d rj
  deletionOverrides rj condition &&
    (match condition.running with
     | some r => r.latestRunningTimestamp.isNone || r.latestCreationTimestamp.isNone
     | none => false)

/-- `syncJobStatusFromTaskRefs`: `UpdateJobStatusFromTaskRefs` + the TTL timer -/
def syncJobStatusFromTaskRefs (s : Sys) (key : String) (rj : Job) : Sys × Job :=
  match updateJobStatusFromTaskRefs s.clock s.d rj with
  | none => (s, rj)
  | some newRj =>
    match newRj.status.condition.finished with
    | some fin =>
      if !isDeleted newRj then
        match newRj.ttlSecondsAfterFinished with
        | some ttl => (enqueueAfter s key (fin.finishTimestamp.getD zeroTime + secs ttl), newRj)
        | none => (s, newRj)
      else (s, newRj)
    | none => (s, newRj)

/-- `updateTaskRefStatus` -/
def updateTaskRefStatus (s : Sys) (key : String) (rj : Job) (tasks : List Task) : Sys × Job :=
  syncJobStatusFromTaskRefs s key (updateJobTaskRefs s.clock rj tasks)

/-- `adoptUnrecordedTasks`: cached pods labelled with the Job's uid and controlled by it -/
def adoptUnrecordedTasks (s : Sys) (jo : JobObj) (tasks : List Task) : List Task :=
  let extra := (sortPods s.podCache).filter (fun p =>
    p.jobLabel = some jo.uid && !(tasks.any (·.name = p.pod.name)) &&
    -- a task recorded in the status was already looked up; not found = gone, the cache is stale
    !(jo.job.status.tasks.any (·.name = p.pod.name)) && p.ownerUid = some jo.uid)
  tasks ++ extra.filterMap (podTask s.clock)

/-- `syncCreateTask` for one index request.  Returns `none` on error. -/
def syncCreateTask (s : Sys) (jo : JobObj) (rj : Job) (tasks : List Task) (idx : PIndex) (retry : Int) :
    Sys × Option (Job × List Task) :=
  let name := taskName jo.name idx.hash retry
  match apiCreatePod s jo idx retry with
  | (s1, .ok p) => (s1, (podTask s.clock p).map (fun t => (rj, tasks ++ [t])))
  | (s1, .err) => (s1, none)
  | (s1, .exists) =>
    -- getTaskForAdoption: the pod CACHE; a miss is an error
    match findPod s1.podCache name with
    | none => (s1, none)
    | some p =>
      if p.ownerUid = some jo.uid then (s1, (podTask s.clock p).map (fun t => (rj, tasks ++ [t])))
      else (s1, some ({ rj with admissionError := true }, tasks))

/-- the creation loop of `syncCreateTasks` -/
def createLoop (jo : JobObj) : List CreationRequest → Sys → Job → List Task → Option Time →
    Sys × Option (Job × List Task × Option Time)
  | [], s, rj, tasks, minE => (s, some (rj, tasks, minE))
  | r :: rest, s, rj, tasks, minE =>
    -- minEarliest = MinNonZero(request.Earliest, minEarliest) (Go's zero time counts as unset)
    let e : Option Time := if r.earliest = zeroTime then none else some r.earliest
    let minE' : Option Time := match e, minE with
      | none, m => m
      | some a, none => some a
      | some a, some b => some (if b < a then b else a)
    if e.isSome && decide (r.earliest > s.clock) then createLoop jo rest s rj tasks minE'
    else
      match syncCreateTask s jo rj tasks r.index r.retryIndex with
      | (s1, none) => (s1, none)
      | (s1, some (rj1, tasks1)) => createLoop jo rest s1 rj1 tasks1 minE'

/-- `syncCreateTasks` -/
def syncCreateTasks (s : Sys) (jo : JobObj) (rj : Job) (tasks : List Task) : Sys × Option (Job × List Task) :=
  if !canCreateTask rj then (s, some (rj, adoptUnrecordedTasks s jo tasks))
  else
    let currentTasks := generateTaskRefs s.clock rj.status.tasks tasks
    let completion := getParallelTaskSummary s.d rj currentTasks
    -- already complete: nothing more to create; tasks that were created without being recorded are
    -- adopted here (as above) so that they are stopped with the others
    if completion.complete then (s, some (rj, adoptUnrecordedTasks s jo tasks))
    else
      match computeMissingIndexesForCreation s.d rj (rj.indexes s.d) with
      | none => (s, none)
      | some reqs =>
        match createLoop jo reqs s rj tasks none with
        | (s1, none) => (s1, none)
        | (s1, some (rj1, tasks1, minE)) =>
          let s2 := match minE with
            | some t => enqueueAfter s1 (jobKey jo) t
            | none => s1
          let (s3, rj2) := updateTaskRefStatus s2 (jobKey jo) rj1 tasks1
          (s3, some (rj2, tasks1))

def markDeleted (rj : Job) (names : List String) (f : TaskRef → TaskRef) : Job :=
  { rj with status := { rj.status with tasks := rj.status.tasks.map (fun r => if names.contains r.name then f r else r) } }

/-- the TaskRef `handlePendingTasks` judges a task by: the one recorded in the Job's status
(`jobutil.FindTaskRef(rj, task)`: the FIRST ref with the task's name), which retains the timestamps the
task no longer reports by itself; the task's own `GetTaskRef()` when none is recorded -/
def pendRef (rj : Job) (t : Task) : TaskRef := (findTaskRef rj t.name).getD t.ref

/-- `handlePendingTasks` -/
def handlePendingTasks (s : Sys) (jo : JobObj) (rj : Job) (tasks : List Task) : Sys × Option Job :=
  match getPendingTimeout rj s.cfg with
  | none => (s, some rj)
  | some pendingTimeout =>
    if pendingTimeout ≤ 0 then (s, some rj)
    else
      let step := fun (acc : Sys × List Task) (t : Task) =>
        let ref := pendRef rj t
        if ref.finishTimestamp.isSome then acc
        else if ref.runningTimestamp.isSome then acc
        else
          let deadline := ref.creationTimestamp.getD zeroTime + pendingTimeout
          if deadline > acc.1.clock then (enqueueAfter acc.1 (jobKey jo) deadline, acc.2)
          else if t.deletionTimestamp.isSome then acc
          else (acc.1, acc.2 ++ [t])
      let (s1, needDelete) := tasks.foldl step (s, [])
      if needDelete.isEmpty then (s1, some rj)
      else
        let newRj := markDeleted rj (needDelete.map (·.name)) (fun r =>
          { r with deletedStatus := some { state := .terminated, result := .killed, reason := "PendingTimeout" } })
        let (s2, ok) := deleteTasks s1 needDelete false
        (s2, if ok then some newRj else none)

/-- `handleKillJob`; a kill timestamp that is still in the future arms a timer for it -/
def handleKillJob (s : Sys) (jo : JobObj) (rj : Job) (tasks : List Task) : Sys × Option Job :=
  if !shouldKillJob s.clock rj then
    match rj.killTimestamp with
    | some ts => (enqueueAfter s (jobKey jo) ts, some rj)
    | none => (s, some rj)
  else
    let needDelete := tasks.filter (fun t => !isTaskFinished t && t.deletionTimestamp.isNone)
    if needDelete.isEmpty then (s, some rj)
    else
      let newRj := markDeleted rj (needDelete.map (·.name)) (fun r =>
        { r with deletedStatus := some { state := .terminated, result := .killed, reason := "" } })
      let (s1, ok) := deleteTasks s needDelete false
      (s1, if ok then some newRj else none)

/-- `handleForceDeleteKillingTasks` -/
def handleForceDelete (s : Sys) (jo : JobObj) (rj : Job) (tasks : List Task) : Sys × Option Job :=
  let timeout := getForceDeleteTimeout s.cfg
  if timeout ≤ 0 then (s, some rj)
  else if (rj.template.map (·.forbidTaskForceDeletion)).getD false then (s, some rj)
  else
    let step := fun (acc : Sys × List Task) (t : Task) =>
      match t.deletionTimestamp with
      | none => acc
      | some dts =>
        if !(dts + timeout > acc.1.clock) then (acc.1, acc.2 ++ [t])
        else (enqueueAfter acc.1 (jobKey jo) (dts + timeout), acc.2)
    let (s1, needDelete) := tasks.foldl step (s, [])
    if needDelete.isEmpty then (s1, some rj)
    else
      let newRj := markDeleted rj (needDelete.map (·.name)) (fun r =>
        let ds : TaskStatus := r.deletedStatus.getD { state := .terminated, result := .killed, reason := "" }
        { r with deletedStatus := some { ds with reason := "ForceDeleted" } })
      let newRj := updateJobTaskRefs s1.clock newRj tasks
      let (s2, ok) := deleteTasks s1 needDelete true
      (s2, if ok then some newRj else none)

/-- `syncJobTasks`; `none` = returned an error (the caller keeps the original Job) -/
def syncJobTasks (s : Sys) (jo : JobObj) (rj : Job) : Sys × Option Job :=
  let tasks := tasksForRefs s jo rj.status.tasks
  match syncCreateTasks s jo rj tasks with
  | (s1, none) => (s1, none)
  | (s1, some (rj1, tasks1)) =>
    let (s2, rj2) := updateTaskRefStatus s1 (jobKey jo) rj1 tasks1
    match handlePendingTasks s2 jo rj2 tasks1 with
    | (s3, none) => (s3, none)
    | (s3, some rj3) =>
      match handleKillJob s3 jo rj3 tasks1 with
      | (s4, none) => (s4, none)
      | (s4, some rj4) =>
        match handleForceDelete s4 jo rj4 tasks1 with
        | (s5, none) => (s5, none)
        | (s5, some rj5) =>
          let (s6, rj6) := updateTaskRefStatus s5 (jobKey jo) rj5 tasks1
          (s6, some rj6)

/-- `handleTTLAfterFinished`; `false` = error -/
def handleTTL (s : Sys) (jo : JobObj) (rj : Job) : Sys × Bool :=
  let ttl := getTTLAfterFinished rj s.cfg
  if isDeleted rj then (s, true)
  else match rj.status.condition.finished with
    | none => (s, true)
    | some fin =>
      -- not yet expired: come back when it is (the TTL may be the config default)
      if fin.finishTimestamp.getD zeroTime + ttl > s.clock then
        (enqueueAfter s (jobKey jo) (fin.finishTimestamp.getD zeroTime + ttl), true)
      else apiDeleteJob s jo

/-- the tasks `handleFinishFinalizer` deletes and waits for: the tasks of the status that can
still be found (cache, absence confirmed by a live GET), then `adoptUnrecordedTasks`: the tasks
that were created but not recorded (pod cache; labelled with and controlled by this Job) -/
def finalizerTasks (s : Sys) (jo : JobObj) (rj : Job) : List Task :=
  adoptUnrecordedTasks s { jo with job := rj } (tasksForRefsConfirmed s jo rj.status.tasks)

/-- `handleFinishFinalizer`; result: the Job and finalizer flag to write, or `none` on error -/
def handleFinalizer (s : Sys) (jo : JobObj) (rj : Job) (finalizer : Bool) : Sys × Option (Job × Bool) :=
  if rj.deletionTimestamp.isNone then (s, some (rj, finalizer))
  else if !finalizer then (s, some (rj, finalizer))
  else
    let tasks := finalizerTasks s jo rj
    if !tasks.isEmpty then
      let rj1 := tasks.foldl (fun acc t => updateTaskRefDeletedStatusIfNotSet acc t.name
        { state := .terminated, result := .killed, reason := "JobDeleted" }) rj
      let (s1, rj2) := updateTaskRefStatus s (jobKey jo) rj1 tasks
      let (s2, ok) := deleteTasks s1 tasks false
      (s2, if ok then some (rj2, finalizer) else none)
    else
      let (s1, rj1) := updateTaskRefStatus s (jobKey jo) rj []
      (s1, some (rj1, false))

/-- the Job whose status the finalizer's last `updateTaskRefStatus` is computed from (for
`statusHasNullTime`); `none` when the finalizer leaves the status as it got it -/
def finalizerStatusInput (s : Sys) (jo : JobObj) (rj : Job) (finalizer : Bool) : Option Job :=
  if rj.deletionTimestamp.isNone then none
  else if !finalizer then none
  else
    let tasks := finalizerTasks s jo rj
    if !tasks.isEmpty then
      let rj1 := tasks.foldl (fun acc t => updateTaskRefDeletedStatusIfNotSet acc t.name
        { state := .terminated, result := .killed, reason := "JobDeleted" }) rj
      some (updateJobTaskRefs s.clock rj1 tasks)
    else some (updateJobTaskRefs s.clock rj [])

/-- `Reconciler.sync`: the Job (and finalizer flag) to write, whether it returned without error,
and whether the computed status holds a pointer to a zero time (`statusHasNullTime`) -/
def sync (s : Sys) (jo : JobObj) : Sys × Job × Bool × Bool × Bool :=
  let rj := jo.job
  let (s1, afterTasks) : Sys × Option Job :=
    if isStarted rj && !isDeleted rj then syncJobTasks s jo rj else (s, some rj)
  match afterTasks with
  | none => (s1, rj, jo.finalizer, false, false)
  | some rj1 =>
    let null2 := statusHasNullTime s1 rj1
    let (s2, rj2) := syncJobStatusFromTaskRefs s1 (jobKey jo) rj1
    match handleTTL s2 jo rj2 with
    | (s3, false) => (s3, rj2, jo.finalizer, false, null2)
    | (s3, true) =>
      let null3 := match finalizerStatusInput s3 jo rj2 jo.finalizer with
        | some inp => statusHasNullTime s3 inp
        | none => null2
      match handleFinalizer s3 jo rj2 jo.finalizer with
      | (s4, none) => (s4, rj2, jo.finalizer, false, null2)
      | (s4, some (rj3, fin)) => (s4, rj3, fin, true, null3)

/-- The resourceVersion of the object a successful Job `Update` returned (`updatedRj` of
`ExecutionControl.updateJob`): the one of the stored object right after the call -- the new version,
or the unchanged one when the update was a no-op.  When the `Update` removed the object (last
finalizer dropped from a Job being deleted) the returned value is immaterial: the status write that
follows is answered NotFound whatever resourceVersion it carries. -/
def updatedRv (s : Sys) (cached : JobObj) : Nat :=
  match s.job with
  | some cur => cur.rv
  | none => cached.rv

/-- The object whose resourceVersion the status write of `ExecutionControl.UpdateJobAndStatus` is
submitted with: the cached Job when there was nothing to `Update` (`updatedRj == nil`), otherwise the
cached Job carrying the resourceVersion of the object `Update` returned. -/
def statusBase (s2 : Sys) (jo : JobObj) (specDiffers : Bool) : JobObj :=
  if specDiffers then { jo with rv := updatedRv s2 jo } else jo

theorem statusBase_false (s2 : Sys) (jo : JobObj) : statusBase s2 jo false = jo := rfl
theorem statusBase_true (s2 : Sys) (jo : JobObj) : statusBase s2 jo true = { jo with rv := updatedRv s2 jo } := rfl

/-- `Reconciler.SyncOne`; `true` = returned nil.  The two writes are
`ExecutionControl.UpdateJobAndStatus`: `Update` (if metadata differ), then `UpdateStatus` (if the
status differs) ON TOP OF the object `Update` returned. -/
def syncOne (s : Sys) : Sys × Bool :=
  match s.jobCache with
  | none => (s, true)
  | some jo =>
    let (s1, newJob, newFin, syncOk, nullTime) := sync s jo
    -- updateJob: only if spec / annotations / finalizers differ
    let specDiffers := newJob.admissionError ≠ jo.job.admissionError || newFin ≠ jo.finalizer
    let (s2, ok1) : Sys × Bool :=
      if specDiffers then apiUpdateJob s1 jo { jo with job := newJob, finalizer := newFin } else (s1, true)
    if !ok1 then (s2, false)
    else
      let statusDiffers := decide (newJob.status ≠ jo.job.status) || nullTime
      let (s3, ok2) : Sys × Bool :=
        if statusDiffers then apiUpdateJobStatus s2 (statusBase s2 jo specDiffers) { jo with job := newJob }
        else (s2, true)
      if !ok2 then (s3, false) else (s3, syncOk)

/-- one step of `reconciler.Controller.work` -/
def work (s : Sys) : Sys × String :=
  let s := { s with q := s.q.advance s.clock, calls := [], delRun := none }
  match s.q.get with
  | none => (s, "idle")
  | some (k, q1) =>
    let (s1, ok) := syncOne { s with q := q1 }
    let q2 := if ok then s1.q.forget k else s1.q.addRateLimited k s1.clock
    ({ s1 with q := q2.done k, delRun := none }, if ok then "ok" else "err")

/-! ### Informers -/

/-- the Job informer's handler: every event enqueues the Job's key -/
def deliverJob (s : Sys) : Sys :=
  match s.jobEvs with
  | [] => s
  | .upsert j :: rest => { s with jobEvs := rest, jobCache := some j, q := s.q.add (jobKey j) }
  | .delete j :: rest =>
    match s.jobCache with
    | none => { s with jobEvs := rest }
    | some old => { s with jobEvs := rest, jobCache := none, q := s.q.add (jobKey old) }

/-- `handlePod`: enqueue the controlling Job if it is in the Job cache with a matching uid -/
def podNotify (s : Sys) (p : PodObj) : Sys :=
  match p.ownerUid, p.ownerName, s.jobCache with
  | some uid, some n, some j => if j.name = n && j.uid = uid then { s with q := s.q.add (jobKey j) } else s
  | _, _, _ => s

def deliverPod (s : Sys) : Sys :=
  match s.podEvs with
  | [] => s
  | .upsert p :: rest => podNotify { s with podEvs := rest, podCache := setPod s.podCache p } p
  | .delete p :: rest =>
    match findPod s.podCache p.pod.name with
    | none => { s with podEvs := rest }
    | some old => podNotify { s with podEvs := rest, podCache := delPod s.podCache p.pod.name } old

/-- resync: every cached object is re-delivered as an update to its handler -/
def resync (s : Sys) : Sys :=
  let s1 := match s.jobCache with
    | some j => { s with q := s.q.add (jobKey j) }
    | none => s
  (sortPods s1.podCache).foldl podNotify s1

/-- process restart: caches relisted, events dropped, queue empty, then every Job key added -/
def restart (s : Sys) : Sys :=
  let s1 := { s with jobEvs := [], podEvs := [], jobCache := s.job, podCache := s.pods, q := {}, faults := [],
                     delRun := none }
  match s1.job with
  | some j => { s1 with q := s1.q.add (jobKey j) }
  | none => s1

/-! ### Environment -/

def userCreateJob (s : Sys) (j : JobObj) : Sys :=
  let nj := { j with rv := s.rv + 1 }
  { s with rv := s.rv + 1, job := some nj, jobEvs := s.jobEvs ++ [.upsert nj] }

def mutateJobObj (s : Sys) (f : JobObj → JobObj) : Sys :=
  match s.job with
  | none => s
  | some cur =>
    let nj := { f cur with rv := s.rv + 1 }
    { s with rv := s.rv + 1, job := some nj, jobEvs := s.jobEvs ++ [.upsert nj] }

/-- user `delete` of the Job -/
def userDeleteJob (s : Sys) : Sys :=
  match s.job with
  | none => s
  | some cur =>
    if cur.finalizer then
      if cur.job.deletionTimestamp.isSome then s
      else mutateJobObj s (fun j => { j with job := { j.job with deletionTimestamp := some (nowT s) } })
    else { s with job := none, jobEvs := s.jobEvs ++ [.delete cur] }

/-- kubelet / external writer replaces the pod's observable state -/
def setPodState (s : Sys) (p : PodObj) : Sys :=
  match findPod s.pods p.pod.name with
  | none => s
  | some _ => { s with rv := s.rv + 1, pods := setPod s.pods p, podEvs := s.podEvs ++ [.upsert p] }

def removePod (s : Sys) (name : String) : Sys :=
  match findPod s.pods name with
  | none => s
  | some p => { s with pods := delPod s.pods name, podEvs := s.podEvs ++ [.delete p] }

def createForeignPod (s : Sys) (p : PodObj) : Sys :=
  if (findPod s.pods p.pod.name).isSome then s
  else { s with rv := s.rv + 1, pods := s.pods ++ [p], podEvs := s.podEvs ++ [.upsert p] }

end Furiko.JobCtl
