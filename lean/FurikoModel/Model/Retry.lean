/-
Model of `reconciler.Controller.work` / `syncItem` (pkg/runtime/reconciler/controller.go) over the
deterministic work queue of `Model/WorkQueue.lean`:

    item, quit := queue.Get();  if quit { return }
    defer queue.Done(item)
    err := syncItem(item)            -- key cannot be split => error, nothing else happens
                                     -- handler.SyncOne(ns, name, NumRequeues(key)) fails =>
                                     --   AddRateLimited(key) iff MaxRequeues() <= 0 || NumRequeues(key) < MaxRequeues()
    if err != nil { handleError; return }
    queue.Forget(item)

The handler's own queue operations during `SyncOne` (the reconcilers re-enqueue themselves with
`AddAfter`; informer handlers may `Add` while a sync is in flight) and its result come from an
oracle (`SyncResult`), so "for every failure pattern" is a universal quantifier.
-/
import FurikoModel.Model.WorkQueue
namespace Furiko.Retry
open Furiko.WQ

/-- a queue operation issued from outside `work` (informer handler, cron tick) or by the handler
during its own sync -/
inductive QOp where
  | add (k : String)
  | addAfter (k : String) (t : Int)
  deriving Repr, DecidableEq, Inhabited

def applyOp (q : WQ) (now : Int) : QOp → WQ
  | .add k => q.add k
  | .addAfter k t => q.addAfter k t now

def applyOps (q : WQ) (now : Int) (ops : List QOp) : WQ :=
  ops.foldl (fun q o => applyOp q now o) q

/-- what one call of `handler.SyncOne` does, as far as the queue can see it -/
structure SyncResult where
  ok     : Bool
  during : List QOp := []
  deriving Repr, Inhabited

/-- `cache.SplitMetaNamespaceKey`: `strings.Split(key, "/")` must have one or two parts -/
def splitOk (k : String) : Bool := (k.toList.filter (· = '/')).length ≤ 1

/-- `syncItem`: returns the queue and whether the returned error was nil -/
def syncItem (q : WQ) (maxRequeues : Int) (now : Int) (key : String) (r : SyncResult) : WQ × Bool :=
  if !splitOk key then (q, false)
  else
    let q1 := applyOps q now r.during
    if r.ok then (q1, true)
    else
      let q2 := if maxRequeues ≤ 0 ∨ (numRequeues q1.requeues key : Int) < maxRequeues
                then q1.addRateLimited key now else q1
      (q2, false)

/-- `work` for one item (`VerifStep`); an empty ready list means the worker returns -/
def work (q : WQ) (maxRequeues : Int) (now : Int) (r : SyncResult) : WQ :=
  match q.get with
  | none => q
  | some (k, q1) =>
    let res := syncItem q1 maxRequeues now k r
    let q3 := if res.2 then res.1.forget k else res.1
    q3.done k

/-- keys with a pending deadline -/
def delayedKeys (q : WQ) : List String := q.delayed.map (·.1)

/-- the retry loop with a scripted handler: the i-th `SyncOne` fails iff the i-th element of the
oracle is `false`; beyond the (finite) oracle every sync succeeds.  `synced` collects the keys
whose sync returned nil. -/
structure Run where
  q      : WQ
  now    : Int
  oracle : List Bool
  synced : List String := []
  deriving Repr, Inhabited

def minDeadline : List (String × Int) → Option Int
  | [] => none
  | (_, d) :: rest =>
    match minDeadline rest with
    | none => some d
    | some m => some (if d < m then d else m)

/-- one step of the driver: process the head of the ready list; when nothing is ready, move the
clock to the earliest deadline and promote the due keys -/
def Run.step (mr : Int) (s : Run) : Run :=
  match s.q.queue with
  | k :: _ =>
    let ok := s.oracle.headD true
    { s with q := work s.q mr s.now { ok := ok }, oracle := s.oracle.tail,
             synced := if ok && splitOk k then k :: s.synced else s.synced }
  | [] =>
    match minDeadline s.q.delayed with
    | none => s
    | some d =>
      let now' := if s.now < d then d else s.now
      { s with now := now', q := s.q.advance now' }

def Run.drain (mr : Int) : Nat → Run → Run
  | 0, s => s
  | n + 1, s => Run.drain mr n (s.step mr)

end Furiko.Retry
