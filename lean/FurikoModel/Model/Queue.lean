/-
Model of /repo/pkg/execution/stores/activejobstore/{store,informer}.go (Store: counter,
CheckAndAdd, Delete, Recover, OnUpdate, OnDelete), /repo/pkg/utils/atomic/counter.go,
/repo/pkg/execution/controllers/jobqueuecontroller/{reconciler_perjobconfig,
reconciler_independent,informer,control}.go and /repo/pkg/execution/util/job/active.go, run
against the API simulation of harness/sim/api.go (resourceVersions, optimistic concurrency,
status subresource) with per-resource watch FIFOs, a shared cache and per-handler
notification lag.  Core Lean only.
-/
import FurikoModel.Model.WorkQueue

namespace Furiko.Queue
open Furiko.WQ

/-- What the queue controller and the store read of one Job version. -/
structure JobV where
  name      : String
  label     : Option String     -- job-config-uid label
  ownerName : Option String     -- controller owner reference of kind JobConfig
  ownerUid  : Option String
  created   : Int               -- creationTimestamp (s)
  hasPolicy : Bool              -- spec.startPolicy != nil
  policy    : Nat               -- 0 = Allow/other, 1 = Forbid, 2 = Enqueue
  startAfter : Option Int       -- (s)
  startTime : Option Int        -- status.startTime (s)
  terminal  : Bool              -- status.phase.IsTerminal()
  admErr    : Bool              -- admission-error annotation present
  rv        : Nat
  /-- what the annotation's message says (meaningful when `admErr`): the JobConfig name and the
  active count `canStartJob` formatted into it -/
  admMsg    : String × Int := ("", 0)
  deriving Repr, Inhabited, DecidableEq

structure JCV where
  name    : String
  uid     : String
  maxConc : Int                 -- GetMaxConcurrency()
  rv      : Nat
  deriving Repr, Inhabited, DecidableEq

/-- `job.IsStarted` / `IsQueued` / `IsActive` -/
def JobV.isStarted (j : JobV) : Bool := j.startTime.isSome
def JobV.isQueued (j : JobV) : Bool := !j.isStarted && !j.terminal
def JobV.isActive (j : JobV) : Bool := j.isStarted && !j.terminal

inductive Ev where
  | add (j : JobV) | update (j : JobV) | delete (j : JobV)
  deriving Repr, Inhabited

inductive Note where
  | add (j : JobV) | update (old new : JobV) | delete (j : JobV)
  deriving Repr, Inhabited

structure Call where
  verb : String      -- start | reject
  job  : String
  res  : String      -- ok | conflict | notfound | err
  deriving Repr, Inhabited

structure Sys where
  clock    : Int := 0                        -- virtual ns
  rv       : Nat := 0                        -- API resourceVersion counter
  jobs     : List JobV := []                 -- authoritative
  jcs      : List JCV := []
  jobEvs   : List Ev := []                   -- undelivered watch events (jobs)
  jcEvs    : List (Bool × JCV) := []         -- undelivered jobconfig events (true = upsert)
  jobCache : List JobV := []
  jcCache  : List JCV := []
  storeQ   : List Note := []                 -- notifications not yet run by the store handler
  ctrlQ    : List Note := []                 -- … by the queue controller's handler
  counter  : List (String × Int) := []       -- active-job counter per JobConfig uid
  cfgQ     : WQ := {}
  indQ     : WQ := {}
  faults   : List String := []               -- fate of the next controller API calls
  calls    : List Call := []
  deriving Inhabited

def findJob (l : List JobV) (n : String) : Option JobV := l.find? (·.name = n)
def findJC (l : List JCV) (n : String) : Option JCV := l.find? (·.name = n)
def setJob (l : List JobV) (j : JobV) : List JobV :=
  if l.any (·.name = j.name) then l.map (fun x => if x.name = j.name then j else x) else l ++ [j]
def delJob (l : List JobV) (n : String) : List JobV := l.filter (·.name ≠ n)
def setJC (l : List JCV) (j : JCV) : List JCV :=
  if l.any (·.name = j.name) then l.map (fun x => if x.name = j.name then j else x) else l ++ [j]
def delJC (l : List JCV) (n : String) : List JCV := l.filter (·.name ≠ n)

def getCtr (c : List (String × Int)) (k : String) : Int :=
  match c with
  | [] => 0
  | (k', n) :: rest => if k' = k then n else getCtr rest k
def setCtr (c : List (String × Int)) (k : String) (v : Int) : List (String × Int) :=
  match c with
  | [] => [(k, v)]
  | (k', n) :: rest => if k' = k then (k, v) :: rest else (k', n) :: setCtr rest k v
def addCtr (c : List (String × Int)) (k : String) (d : Int) : List (String × Int) :=
  setCtr c k (getCtr c k + d)

/-! ### Store -/

/-- `Store.OnUpdate(old, new)` -/
def storeOnUpdate (c : List (String × Int)) (old new : JobV) : List (String × Int) :=
  match old.label with
  | none => c
  | some key =>
    if old.isActive && !new.isActive then addCtr c key (-1)
    else if !old.isActive && new.isActive && !(!old.isStarted && new.isStarted) then addCtr c key 1
    else c

/-- `Store.OnDelete(job)` -/
def storeOnDelete (c : List (String × Int)) (j : JobV) : List (String × Int) :=
  match j.label with
  | none => c
  | some key => if j.isActive then addCtr c key (-1) else c

/-- `Store.Recover`: count active labelled Jobs of the cache -/
def storeRecover (cache : List JobV) : List (String × Int) :=
  cache.foldl (fun c j =>
    match j.label with
    | some key => if j.isActive then addCtr c key 1 else c
    | none => c) []

def storeNotify (c : List (String × Int)) : Note → List (String × Int)
  | .add _ => c
  | .update o n => storeOnUpdate c o n
  | .delete j => storeOnDelete c j

/-! ### Queue controller informer -/

/-- `jobconfig.LookupJobOwner`: `none` = error (routed nowhere), `some none` = independent -/
def lookupOwner (jcCache : List JCV) (j : JobV) : Option (Option JCV) :=
  match j.ownerName with
  | none => some none
  | some on =>
    match findJC jcCache on with
    | none => none
    | some jc =>
      if some jc.uid ≠ j.ownerUid then none
      else if j.label ≠ some jc.uid then none
      else some (some jc)

/-- `InformerWorker.handleJob` -/
def ctrlNotify (s : Sys) (j : JobV) : Sys :=
  match lookupOwner s.jcCache j with
  | none => s
  | some (some jc) => { s with cfgQ := s.cfgQ.add ("ns/" ++ jc.name) }
  | some none => { s with indQ := s.indQ.add ("ns/" ++ j.name) }

def noteJob : Note → JobV
  | .add j => j
  | .update _ n => n
  | .delete j => j

/-! ### API writes issued by the controller -/

def popFault (s : Sys) : String × Sys :=
  match s.faults with
  | [] => ("", s)
  | f :: rest => (f, { s with faults := rest })

/-- apply a write to the authoritative Job `name` (rv check, then `f`), emitting an event -/
def apiWriteJob (s : Sys) (verb : String) (cached : JobV) (f : JobV → JobV) : Sys × Bool :=
  let (fault, s) := popFault s
  if fault = "err" ∨ fault = "timeout" then
    ({ s with calls := s.calls ++ [⟨verb, cached.name, "err"⟩] }, false)
  else if fault = "conflict" then
    ({ s with calls := s.calls ++ [⟨verb, cached.name, "conflict"⟩] }, false)
  else
    match findJob s.jobs cached.name with
    | none => ({ s with calls := s.calls ++ [⟨verb, cached.name, "notfound"⟩] }, false)
    | some cur =>
      if cur.rv ≠ cached.rv then
        ({ s with calls := s.calls ++ [⟨verb, cached.name, "conflict"⟩] }, false)
      else
        let nj := { f cur with rv := s.rv + 1 }
        let s1 := { s with rv := s.rv + 1, jobs := setJob s.jobs nj, jobEvs := s.jobEvs ++ [.update nj],
                           calls := s.calls ++ [⟨verb, cached.name, "ok"⟩] }
        (s1, fault ≠ "applied-err")

/-- `JobControl.StartJob`: UpdateStatus with `startTime = now` (the submitted status is the
cached one plus the start time) -/
def startJobWrite (s : Sys) (cached : JobV) : Sys × Bool :=
  apiWriteJob s "start" cached (fun cur =>
    { cur with startTime := some (s.clock / 1000000000), terminal := cached.terminal })

/-- the object `JobControl.RejectJob` submits, as stored by the API: admission-error annotation
with message `msg`, spec/metadata from the cached object, status kept -/
def rejectF (msg : String × Int) (cached : JobV) : JobV → JobV := fun cur =>
  { cur with admErr := true, admMsg := msg, label := cached.label, ownerName := cached.ownerName,
             ownerUid := cached.ownerUid, hasPolicy := cached.hasPolicy, policy := cached.policy,
             startAfter := cached.startAfter }

/-- the reject write would leave the authoritative Job exactly as it is (it was already rejected
with the same message and nothing else changed): the API treats it as a no-op -/
def rejectIsNoop (s : Sys) (cached : JobV) (msg : String × Int) : Bool :=
  match findJob s.jobs cached.name with
  | none => false
  | some cur =>
    -- `rejectF msg cached cur = cur`, field by field (only the fields the write sets)
    decide (cur.rv = cached.rv) && cur.admErr && decide (cur.admMsg = msg) &&
    decide (cur.label = cached.label) && decide (cur.ownerName = cached.ownerName) &&
    decide (cur.ownerUid = cached.ownerUid) && decide (cur.hasPolicy = cached.hasPolicy) &&
    decide (cur.policy = cached.policy) && decide (cur.startAfter = cached.startAfter)

/-- `JobControl.RejectJob`: Update with the admission-error annotation (message built from the
JobConfig name and the active count).  `SimAPI.Update`: an update that changes nothing returns ok
without a new resourceVersion and without a watch event (the fault, if any, is still consumed
and the call is logged). -/
def rejectJobWrite (s : Sys) (cached : JobV) (msg : String × Int) : Sys × Bool :=
  let (fault, s') := popFault s
  if fault ≠ "err" ∧ fault ≠ "timeout" ∧ fault ≠ "conflict" ∧ rejectIsNoop s cached msg = true then
    ({ s' with calls := s'.calls ++ [⟨"reject", cached.name, "ok"⟩] }, fault ≠ "applied-err")
  else apiWriteJob s "reject" cached (rejectF msg cached)

/-! ### PerConfigReconciler -/

def insertByCreated (j : JobV) : List JobV → List JobV
  | [] => [j]
  | x :: rest => if j.created < x.created then j :: x :: rest else x :: insertByCreated j rest

/-- `listQueuedJobsForJobConfig`: cache entries with the uid label, queued, sorted by creation -/
def listQueued (cache : List JobV) (jc : JCV) : List JobV :=
  ((cache.filter (fun j => j.label = some jc.uid && j.isQueued)).foldl
    (fun acc j => insertByCreated j acc) [])

/-- `IsTimeSetAndLater(startAfter)` against the virtual clock (ns) -/
def startAfterLater (j : JobV) (clock : Int) : Bool :=
  match j.startAfter with
  | some t => decide (t * 1000000000 > clock)
  | none => false

inductive Verdict where
  | start | skip | error
  deriving Repr, DecidableEq

/-- `canStartJob` -/
def canStartJob (s : Sys) (jc : JCV) (j : JobV) (activeCount : Int) : Sys × Verdict :=
  if j.hasPolicy then
    if startAfterLater j s.clock then
      let t := (j.startAfter.getD 0) * 1000000000
      ({ s with cfgQ := s.cfgQ.addAfter ("ns/" ++ jc.name) t s.clock }, .skip)
    else if j.policy = 1 && decide (activeCount + 1 > jc.maxConc) then
      let (s1, ok) := rejectJobWrite s j (jc.name, activeCount)
      (s1, if ok then .skip else .error)
    else if j.policy = 2 && decide (activeCount + 1 > jc.maxConc) then (s, .skip)
    else (s, .start)
  else (s, .start)

/-- `startJob`: CheckAndAdd, write, rollback on error -/
def startJob (s : Sys) (jc : JCV) (j : JobV) (oldCount : Int) : Sys × Bool :=
  if getCtr s.counter jc.uid ≠ oldCount then (s, false)          -- CAS failed
  else
    let s1 := { s with counter := setCtr s.counter jc.uid (oldCount + 1) }
    let (s2, ok) := startJobWrite s1 j
    if ok then (s2, true) else ({ s2 with counter := addCtr s2.counter jc.uid (-1) }, false)

/-- the loop over queued Jobs; returns `false` when the pass aborted with an error -/
def passLoop (jc : JCV) : List JobV → Sys → Int → Sys × Bool
  | [], s, _ => (s, true)
  | j :: rest, s, activeCount =>
    match canStartJob s jc j activeCount with
    | (s1, .error) => (s1, false)
    | (s1, .skip) => passLoop jc rest s1 activeCount
    | (s1, .start) =>
      match startJob s1 jc j activeCount with
      | (s2, false) => (s2, false)
      | (s2, true) => passLoop jc rest s2 (getCtr s2.counter jc.uid)

/-- `PerConfigReconciler.SyncOne`; `true` = returned nil -/
def syncConfig (s : Sys) (name : String) : Sys × Bool :=
  match findJC s.jcCache name with
  | none => (s, true)
  | some jc =>
    let rjs := listQueued s.jobCache jc
    if rjs.isEmpty then (s, true)
    else passLoop jc rjs s (getCtr s.counter jc.uid)

/-- `IndependentReconciler.SyncOne` -/
def syncIndependent (s : Sys) (name : String) : Sys × Bool :=
  match findJob s.jobCache name with
  | none => (s, true)
  | some j =>
    if !j.isQueued then (s, true)
    else if j.hasPolicy && startAfterLater j s.clock then
      let q := s.indQ.addAfter ("ns/" ++ name) ((j.startAfter.getD 0) * 1000000000) s.clock
      ({ s with indQ := q }, true)
    else
      let (s1, ok) := startJobWrite s j
      (s1, ok)

/-- strip the `ns/` prefix of a work-queue key -/
def keyName (k : String) : String := (k.drop 3).toString

/-- one step of `reconciler.Controller.work` on the per-config queue (after timers fired) -/
def workConfig (s : Sys) : Sys × String :=
  let s := { s with cfgQ := s.cfgQ.advance s.clock, calls := [] }
  match s.cfgQ.get with
  | none => (s, "idle")
  | some (k, q1) =>
    let (s1, ok) := syncConfig { s with cfgQ := q1 } (keyName k)
    let q2 := if ok then s1.cfgQ.forget k else s1.cfgQ.addRateLimited k s1.clock
    ({ s1 with cfgQ := q2.done k }, if ok then "ok" else "err")

def workIndependent (s : Sys) : Sys × String :=
  let s := { s with indQ := s.indQ.advance s.clock, calls := [] }
  match s.indQ.get with
  | none => (s, "idle")
  | some (k, q1) =>
    let (s1, ok) := syncIndependent { s with indQ := q1 } (keyName k)
    let q2 := if ok then s1.indQ.forget k else s1.indQ.addRateLimited k s1.clock
    ({ s1 with indQ := q2.done k }, if ok then "ok" else "err")

/-! ### Environment actions -/

/-- deliver the oldest undelivered Job watch event: cache applies it, one notification is
queued per handler -/
def deliverJob (s : Sys) : Sys :=
  match s.jobEvs with
  | [] => s
  | ev :: rest =>
    let s := { s with jobEvs := rest }
    match ev with
    | .add j | .update j =>
      let note := match findJob s.jobCache j.name with
        | some old => Note.update old j
        | none => Note.add j
      { s with jobCache := setJob s.jobCache j, storeQ := s.storeQ ++ [note], ctrlQ := s.ctrlQ ++ [note] }
    | .delete j =>
      match findJob s.jobCache j.name with
      | none => s
      | some old =>
        { s with jobCache := delJob s.jobCache j.name, storeQ := s.storeQ ++ [.delete old],
                 ctrlQ := s.ctrlQ ++ [.delete old] }

def deliverJC (s : Sys) : Sys :=
  match s.jcEvs with
  | [] => s
  | (true, jc) :: rest => { s with jcEvs := rest, jcCache := setJC s.jcCache jc }
  | (false, jc) :: rest => { s with jcEvs := rest, jcCache := delJC s.jcCache jc.name }

def notifyStore (s : Sys) : Sys :=
  match s.storeQ with
  | [] => s
  | n :: rest => { s with storeQ := rest, counter := storeNotify s.counter n }

def notifyCtrl (s : Sys) : Sys :=
  match s.ctrlQ with
  | [] => s
  | n :: rest => ctrlNotify { s with ctrlQ := rest } (noteJob n)

/-- resync: every cached Job is re-delivered as update(o, o) to both handlers -/
def resync (s : Sys) : Sys :=
  let notes := s.jobCache.map (fun j => Note.update j j)
  { s with storeQ := s.storeQ ++ notes, ctrlQ := s.ctrlQ ++ notes }

/-- process restart: caches relisted from the API, undelivered events and notifications
dropped, queues empty, counter rebuilt by `Recover` -/
def restart (s : Sys) : Sys :=
  { s with jobEvs := [], jcEvs := [], jobCache := s.jobs, jcCache := s.jcs, storeQ := [], ctrlQ := [],
           counter := storeRecover s.jobs, cfgQ := {}, indQ := {}, faults := [] }

/-! ### Process start with a stale initial LIST and a non-atomic `Recover`

What client-go and the API server really allow at a process start, and what `restart` above
rules out (probes/simaudit/REPORT.md G1, G2):

* the reflector's initial LIST uses `resourceVersion="0"` and may be served from the API server's
  watch cache, i.e. be OLDER than the last write of the previous process.  The old process's cache
  is by construction "server truth minus the undelivered events", so every state reached by
  applying only the first `k` undelivered events to it is a legal initial LIST; the remaining
  events are what the watch then replays.  Per resource independently (`kj`, `kc`).
* `Store.Recover` registers its handler, waits for the cache to be synced and only THEN reads the
  lister: `w` further Job events are applied to the cache in that window.  Each of them is in the
  lister that `Recover` counts from AND is notified to the store's handler (the queue
  controller's own handler registers after `Recover`, it is not notified of them).

These functions are deliberately NOT actions of `Proofs/QueueEnv.Act` (like the driver's
`q.extstart`): the invariant `Inv` is false after them — `Props/C05.lean` has the witnesses
(`f27_recover_window_witness`, `f28_stale_initial_list_witness`); the envelope names are
E-FreshInitialList (`kj = jobEvs.length`) and E-QuiescentRecover (`w = 0`), under which
`restartStaleWin` coincides with `restart` on the Job side (`restartStaleWin_fresh_jobs`). -/

/-- a watch event applied to a cache without notifying anybody (it is part of an initial LIST);
same function as `Proofs/QueueEnv.applyEv` -/
def cacheApplyJob (cache : List JobV) : Ev → List JobV
  | .add j => setJob cache j
  | .update j => setJob cache j
  | .delete j => match findJob cache j.name with | none => cache | some _ => delJob cache j.name

def cacheApplyJC (cache : List JCV) : Bool × JCV → List JCV
  | (true, jc) => setJC cache jc
  | (false, jc) => delJC cache jc.name

/-- `deliverJob` while the store's handler is the only registered one (inside `Recover`) -/
def deliverJobStoreOnly (s : Sys) : Sys :=
  match s.jobEvs with
  | [] => s
  | ev :: rest =>
    let s := { s with jobEvs := rest }
    match ev with
    | .add j | .update j =>
      let note := match findJob s.jobCache j.name with
        | some old => Note.update old j
        | none => Note.add j
      { s with jobCache := setJob s.jobCache j, storeQ := s.storeQ ++ [note] }
    | .delete j =>
      match findJob s.jobCache j.name with
      | none => s
      | some old => { s with jobCache := delJob s.jobCache j.name, storeQ := s.storeQ ++ [.delete old] }

def iterN (f : Sys → Sys) : Nat → Sys → Sys
  | 0, s => s
  | n + 1, s => iterN f n (f s)

/-- process restart whose initial LIST is the old cache plus the first `kj` / `kc` undelivered
events (the rest stays undelivered: the watch replays it), and in which `w` Job events are
delivered between the registration of the store's handler and the lister read of `Recover`. -/
def restartStaleWin (s : Sys) (kj kc w : Nat) : Sys :=
  let s0 : Sys := { s with
    jobEvs := s.jobEvs.drop kj, jcEvs := s.jcEvs.drop kc,
    jobCache := (s.jobEvs.take kj).foldl cacheApplyJob s.jobCache,
    jcCache := (s.jcEvs.take kc).foldl cacheApplyJC s.jcCache,
    storeQ := [], ctrlQ := [], counter := [], cfgQ := {}, indQ := {}, faults := [] }
  let s1 := iterN deliverJobStoreOnly w s0
  { s1 with counter := storeRecover s1.jobCache }

/-- stale initial LIST, atomic `Recover` -/
def restartStale (s : Sys) (kj kc : Nat) : Sys := restartStaleWin s kj kc 0

/-! ### Relist after a watch failure

The reflector's watch ends (410 Gone / any error), it LISTs again and `DeltaFIFO.Replace` +
the shared informer pair the cached and the listed object BY KEY ONLY (namespace/name): in key
order, `add` for a key the cache did not hold, `update(cachedOld, listed)` for a key on both
sides whose resourceVersion differs — the two may be DIFFERENT Jobs (a Job was removed and
another one took its name while the watch was down: other UID, other JobConfig) —, nothing for
an unchanged object; then, in key order, `delete` with the last CACHED state
(`cache.DeletedFinalStateUnknown`) for every key that is gone.  The undelivered events are
dropped: the new watch starts at the list's version.  `harness/sim.FakeInformer.Relist`.

Like `restartStaleWin`, not an action of `Proofs/QueueEnv.Act`: a history in which a name is
taken again is outside E-FreshName, and `Inv` does not survive a relist that coalesces the start
of a Job with its removal (`Props/C05.f35_relist_leak_witness`).  The interruption itself
(`q.outage`) is state of the driver only: it stops `q.deliver jobs` / `q.flush` from delivering
Job events until `q.relist` or a restart. -/

def insertByName (j : JobV) : List JobV → List JobV
  | [] => [j]
  | x :: rest => if j.name < x.name then j :: x :: rest else x :: insertByName j rest

def sortByName (l : List JobV) : List JobV := l.foldl (fun acc j => insertByName j acc) []

/-- the notifications of a relist of `jobs` against `cache` -/
def relistNotes (cache jobs : List JobV) : List Note :=
  (sortByName jobs).filterMap (fun j =>
    match findJob cache j.name with
    | none => some (Note.add j)
    | some old => if old.rv = j.rv then none else some (Note.update old j)) ++
  ((sortByName cache).filter (fun o => (findJob jobs o.name).isNone)).map Note.delete

def relist (s : Sys) : Sys :=
  let notes := relistNotes s.jobCache s.jobs
  { s with jobEvs := [], jobCache := s.jobs, storeQ := s.storeQ ++ notes, ctrlQ := s.ctrlQ ++ notes }

/-- external create of a Job -/
def userAddJob (s : Sys) (j : JobV) : Sys :=
  if s.jobs.any (·.name = j.name) then s
  else
    let nj := { j with rv := s.rv + 1, created := s.clock / 1000000000 }
    { s with rv := s.rv + 1, jobs := s.jobs ++ [nj], jobEvs := s.jobEvs ++ [.add nj] }

def userAddJC (s : Sys) (jc : JCV) : Sys :=
  if s.jcs.any (·.name = jc.name) then s
  else
    let n := { jc with rv := s.rv + 1 }
    { s with rv := s.rv + 1, jcs := s.jcs ++ [n], jcEvs := s.jcEvs ++ [(true, n)] }

/-- external status/metadata mutation of a Job (job controller, user) -/
def mutateJob (s : Sys) (name : String) (f : JobV → JobV) : Sys :=
  match findJob s.jobs name with
  | none => s
  | some cur =>
    let nj := { f cur with rv := s.rv + 1 }
    { s with rv := s.rv + 1, jobs := setJob s.jobs nj, jobEvs := s.jobEvs ++ [.update nj] }

/-- the user edits `spec.startPolicy.startAfter` (set, clear, postpone, advance) of a Job that
has a start policy and is not started yet: the validating webhook freezes the start policy only
once `status.startTime` is set.  Any other Job is left alone.  The edit is an ordinary update:
new resourceVersion, one watch event. -/
def editStartAfter (s : Sys) (name : String) (t : Option Int) : Sys :=
  match findJob s.jobs name with
  | none => s
  | some cur =>
    if cur.hasPolicy && !cur.isStarted then mutateJob s name (fun j => { j with startAfter := t })
    else s

def removeJob (s : Sys) (name : String) : Sys :=
  match findJob s.jobs name with
  | none => s
  | some cur => { s with jobs := delJob s.jobs name, jobEvs := s.jobEvs ++ [.delete cur] }

def removeJC (s : Sys) (name : String) : Sys :=
  match findJC s.jcs name with
  | none => s
  | some cur => { s with jcs := delJC s.jcs name, jcEvs := s.jcEvs ++ [(false, cur)] }

def setMaxConc (s : Sys) (name : String) (m : Int) : Sys :=
  match findJC s.jcs name with
  | none => s
  | some cur =>
    let n := { cur with maxConc := m, rv := s.rv + 1 }
    { s with rv := s.rv + 1, jcs := setJC s.jcs n, jcEvs := s.jcEvs ++ [(true, n)] }

/-- ground truth: started and not terminal Jobs carrying the uid label -/
def trueActive (s : Sys) (uid : String) : Nat :=
  (s.jobs.filter (fun j => j.label = some uid && j.isActive)).length

end Furiko.Queue
