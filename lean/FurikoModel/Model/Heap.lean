/-
Model of /repo/pkg/utils/heap/heap.go (priorityQueue + Heap wrapper) over a line-by-line port
of Go's container/heap (Init/Push/Pop/Fix/Remove, up/down).  Core Lean only.

Go `*Item` pointers become values stored in the array; the `index` field is kept because
`Update`/`Delete` read `item.index`.  `names` (a Go map) is a function `String → Option Nat`;
a lookup of a missing key through `pq.names[k]` (inside Swap) yields Go's zero value 0.
-/
namespace Furiko.Heap

structure Item where
  name  : String
  prio  : Int
  index : Int
  deriving Repr, DecidableEq, Inhabited

structure PQ where
  queue : Array Item
  names : String → Option Nat

instance : Inhabited PQ := ⟨⟨#[], fun _ => none⟩⟩

def PQ.len (pq : PQ) : Nat := pq.queue.size

/-- `pq.Less(i, j)` -/
def PQ.less (pq : PQ) (i j : Nat) : Bool :=
  (pq.queue[i]!).prio < (pq.queue[j]!).prio

def setName (names : String → Option Nat) (k : String) (v : Nat) : String → Option Nat :=
  fun x => if x = k then some v else names x

def delName (names : String → Option Nat) (k : String) : String → Option Nat :=
  fun x => if x = k then none else names x

/-- `pq.Swap(i, j)`:
```
pq.queue[i], pq.queue[j] = pq.queue[j], pq.queue[i]
pq.names[pq.queue[i].name], pq.names[pq.queue[j].name] = pq.names[pq.queue[j].name], pq.names[pq.queue[i].name]
pq.queue[i].index = i
pq.queue[j].index = j
```
-/
def PQ.swap (pq : PQ) (i j : Nat) : PQ :=
  let qi := pq.queue[i]!
  let qj := pq.queue[j]!
  let q1 := (pq.queue.setIfInBounds i qj).setIfInBounds j qi
  -- after the swap, q1[i] = old q[j], q1[j] = old q[i]
  let ni := (q1[i]!).name
  let nj := (q1[j]!).name
  let vi := (pq.names nj).getD 0   -- rhs 1: names[queue[j].name]
  let vj := (pq.names ni).getD 0   -- rhs 2: names[queue[i].name]
  let names1 := setName (setName pq.names ni vi) nj vj
  let q2 := q1.setIfInBounds i { q1[i]! with index := i }
  let q3 := q2.setIfInBounds j { q2[j]! with index := j }
  { queue := q3, names := names1 }

/-- container/heap `up(h, j)`; `fuel` bounds the loop (j+1 always suffices). -/
def up (pq : PQ) (j : Nat) : Nat → PQ
  | 0 => pq
  | fuel + 1 =>
    let i := (j - 1) / 2
    if i == j || !pq.less j i then pq
    else up (pq.swap i j) i fuel

/-- container/heap `down(h, i0, n)` loop; returns final heap and final `i`. -/
def downLoop (pq : PQ) (i n : Nat) : Nat → PQ × Nat
  | 0 => (pq, i)
  | fuel + 1 =>
    let j1 := 2 * i + 1
    if j1 ≥ n then (pq, i)
    else
      let j2 := j1 + 1
      let j := if j2 < n && pq.less j2 j1 then j2 else j1
      if !pq.less j i then (pq, i)
      else downLoop (pq.swap i j) j n fuel

def down (pq : PQ) (i0 n : Nat) : PQ × Bool :=
  let r := downLoop pq i0 n n
  (r.1, r.2 > i0)

/-- container/heap `Init`: `for i := n/2 - 1; i >= 0; i-- { down(h, i, n) }` -/
def initLoop (pq : PQ) (n : Nat) : Nat → PQ
  | 0 => pq
  | k + 1 => initLoop (down pq k n).1 n k

def heapInit (pq : PQ) : PQ := initLoop pq pq.len (pq.len / 2)

/-- `pq.Push(x)` -/
def PQ.pushRaw (pq : PQ) (name : String) (prio : Int) : PQ :=
  let n := pq.queue.size
  { queue := pq.queue.push { name := name, prio := prio, index := n },
    names := setName pq.names name n }

/-- `pq.Pop()`; caller guarantees non-empty (Go would panic otherwise). -/
def PQ.popRaw (pq : PQ) : PQ × Item :=
  let n := pq.queue.size
  let item := pq.queue[n - 1]!
  ({ queue := pq.queue.pop, names := delName pq.names item.name }, { item with index := -1 })

/-- container/heap `Push` -/
def heapPush (pq : PQ) (name : String) (prio : Int) : PQ :=
  let pq1 := pq.pushRaw name prio
  up pq1 (pq1.len - 1) pq1.len

/-- container/heap `Pop` (non-empty heap) -/
def heapPop (pq : PQ) : PQ × Item :=
  let n := pq.len - 1
  let pq1 := pq.swap 0 n
  let pq2 := (down pq1 0 n).1
  pq2.popRaw

/-- container/heap `Fix` -/
def heapFix (pq : PQ) (i : Nat) : PQ :=
  let r := down pq i pq.len
  if !r.2 then up r.1 i (i + 1) else r.1

/-- container/heap `Remove` -/
def heapRemove (pq : PQ) (i : Nat) : PQ × Item :=
  let n := pq.len - 1
  let pq1 :=
    if n != i then
      let a := pq.swap i n
      let r := down a i n
      if !r.2 then up r.1 i (i + 1) else r.1
    else pq
  pq1.popRaw

/-! ### The wrapper `Heap` -/

/-- `newPriorityQueue(items)` + `heap.Init` -/
def new (items : List (String × Int)) : PQ :=
  let rec build (l : List (String × Int)) (i : Nat) (pq : PQ) : PQ :=
    match l with
    | [] => pq
    | (nm, p) :: rest =>
      build rest (i + 1)
        { queue := pq.queue.push { name := nm, prio := p, index := i },
          names := setName pq.names nm i }
  heapInit (build items 0 default)

def push (pq : PQ) (name : String) (prio : Int) : PQ := heapPush pq name prio

/-- `Heap.Pop`: panics on an empty heap in Go (`none` here). -/
def pop (pq : PQ) : Option (PQ × Item) :=
  if pq.len = 0 then none else some (heapPop pq)

def peek (pq : PQ) : Option Item :=
  if pq.len ≤ 0 then none else some pq.queue[0]!

/-- `pq.search(name)` -/
def PQ.search (pq : PQ) (name : String) : Option Item :=
  match pq.names name with
  | none => none
  | some idx => some pq.queue[idx]!

def search (pq : PQ) (name : String) : Option Int :=
  (pq.search name).map (·.prio)

/-- `Heap.Update`: sets `item.priority` in place (pointer) then `heap.Fix(pq, item.index)`. -/
def update (pq : PQ) (name : String) (newPrio : Int) : PQ × Bool :=
  match pq.names name with
  | none => (pq, false)
  | some idx =>
    let item := pq.queue[idx]!
    let pq1 := { pq with queue := pq.queue.setIfInBounds idx { item with prio := newPrio } }
    (heapFix pq1 item.index.toNat, true)

def delete (pq : PQ) (name : String) : PQ × Bool :=
  match pq.names name with
  | none => (pq, false)
  | some idx =>
    let item := pq.queue[idx]!
    ((heapRemove pq item.index.toNat).1, true)

end Furiko.Heap
