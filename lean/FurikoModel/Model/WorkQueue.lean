/-
Model of the deterministic work queue (harness/sim/queue.go: same dirty/processing semantics as
client-go's workqueue; AddAfter/AddRateLimited keep the earliest deadline per key; virtual time).
-/
namespace Furiko.WQ

structure WQ where
  queue      : List String := []
  dirty      : List String := []
  processing : List String := []
  delayed    : List (String × Int) := []   -- key ↦ deadline (ns)
  requeues   : List (String × Nat) := []
  deriving Repr, Inhabited

def WQ.add (q : WQ) (k : String) : WQ :=
  if q.dirty.contains k then q
  else
    let q1 := { q with dirty := k :: q.dirty }
    if q.processing.contains k then q1 else { q1 with queue := q1.queue ++ [k] }

/-- `Get` on a non-empty queue -/
def WQ.get (q : WQ) : Option (String × WQ) :=
  match q.queue with
  | [] => none
  | k :: rest =>
    some (k, { q with queue := rest, processing := k :: q.processing, dirty := q.dirty.erase k })

def WQ.done (q : WQ) (k : String) : WQ :=
  let q1 := { q with processing := q.processing.erase k }
  if q1.dirty.contains k then { q1 with queue := q1.queue ++ [k] } else q1

def setDelayed (d : List (String × Int)) (k : String) (deadline : Int) : List (String × Int) :=
  match d with
  | [] => [(k, deadline)]
  | (k', dl) :: rest =>
    if k' = k then (k, if deadline < dl then deadline else dl) :: rest
    else (k', dl) :: setDelayed rest k deadline

/-- `AddAfter` with absolute deadline `t` at virtual time `now` (1 s lower bound) -/
def WQ.addAfter (q : WQ) (k : String) (t now : Int) : WQ :=
  let deadline := if t < now + 1000000000 then now + 1000000000 else t
  { q with delayed := setDelayed q.delayed k deadline }

def numRequeues (r : List (String × Nat)) (k : String) : Nat :=
  match r with
  | [] => 0
  | (k', n) :: rest => if k' = k then n else numRequeues rest k

def setRequeues (r : List (String × Nat)) (k : String) (n : Nat) : List (String × Nat) :=
  match r with
  | [] => [(k, n)]
  | (k', m) :: rest => if k' = k then (k, n) :: rest else (k', m) :: setRequeues rest k n

def WQ.addRateLimited (q : WQ) (k : String) (now : Int) : WQ :=
  let n := numRequeues q.requeues k
  let e := if n > 6 then 6 else n
  { q with requeues := setRequeues q.requeues k (n + 1),
           delayed := setDelayed q.delayed k (now + 5000000 * (2 ^ e : Nat)) }

def WQ.forget (q : WQ) (k : String) : WQ :=
  { q with requeues := q.requeues.filter (·.1 ≠ k) }

/-- insertion into a list sorted by (deadline, key) -/
def insertDue (x : String × Int) : List (String × Int) → List (String × Int)
  | [] => [x]
  | y :: rest =>
    if x.2 < y.2 ∨ (x.2 = y.2 ∧ x.1 < y.1) then x :: y :: rest else y :: insertDue x rest

/-- move due delayed keys to the ready queue in (deadline, key) order -/
def WQ.advance (q : WQ) (now : Int) : WQ :=
  let due := (q.delayed.filter (·.2 ≤ now)).foldl (fun acc x => insertDue x acc) []
  let q1 := { q with delayed := q.delayed.filter (fun x => ¬ x.2 ≤ now) }
  due.foldl (fun acc x => acc.add x.1) q1

def WQ.delayedSorted (q : WQ) : List (String × Int) :=
  q.delayed.foldl (fun acc x => insertDue x acc) []

end Furiko.WQ
