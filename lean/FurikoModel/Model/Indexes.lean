/-
Model of the parallel-index machinery of furiko (property C14). Core Lean only.

Mirrors, one for one:
  * `parallel.GenerateIndexes`, `GetDefaultIndex`, `HashIndexes`      pkg/execution/util/parallel/indexes.go
  * `matrix.GenerateMatrixCombinations`, `IndexMatrix`, `GetKeys`,
    `NumCombinations`                                                 pkg/utils/matrix/matrix.go
  * `parallel.GetParallelStatus` (grouping of tasks by index hash)    pkg/execution/util/parallel/status.go
  * `job.GenerateTaskName`                                            pkg/execution/util/job/task.go
  * `defaultProvider.MakeVariablesFromTask`                           pkg/execution/variablecontext/provider.go
  * `podtaskexecutor.NewPod` (name, labels, annotation, substituted env; projection)
  * `Validator.ValidateParallelismSpec`, `validateParallelismSpecWithMatrix`,
    `ValidateParallelCompletionStrategy`                              pkg/execution/validation/validation.go

Abstractions (see DESIGN.md §4.2):
  * `hashstructure.Hash` + base32 + truncation (`parallel.HashIndex`) is OPAQUE: every function that
    needs it takes `hash : Index → String`; the Go side transmits the hash of each index.
  * Go maps are association lists. `Index.mat` (a `map[string]string`) is kept in the order in which
    `IndexMatrix` writes it (sorted keys), which is canonical because map keys are distinct.
    `Spec.withMatrix` (a `map[string][]string`) is given IN THE ITERATION ORDER OF THE `range` LOOP
    OF `NumCombinations`: that loop is the only place where iteration order can change the result
    (theorems `order_deterministic` / `order_nondeterministic_witness` in Props/C14).
  * a Go panic (negative `make`, index out of range) is `none`.
  * memory exhaustion for huge `withCount` and integer overflow are not modelled.
-/
namespace Furiko.Indexes

/-- `execution.ParallelIndex` -/
structure Index where
  num : Option Int := none                 -- IndexNumber *int64
  key : String := ""                       -- IndexKey
  mat : List (String × String) := []       -- MatrixValues
deriving DecidableEq, Repr, Inhabited

abbrev Matrix := List (String × List String)
abbrev Combination := List (String × String)

/-- `execution.ParallelismSpec` (the `*ParallelismSpec` pointer is `Option Spec`) -/
structure Spec where
  withCount : Option Int := none
  withKeys : List String := []
  withMatrix : Matrix := []
  strategy : String := ""                  -- CompletionStrategy
deriving DecidableEq, Repr, Inhabited

/-- `parallel.GetDefaultIndex` -/
def defaultIndex : Index := { num := some 0 }

/-! ### matrix.go -/

/-- `matrix.NumCombinations`: `var total int; for _, values := range matrix { if total == 0 { total = 1 };
total *= len(values) }` — a left fold in map-iteration order. NOTE: when some value list is empty the
result depends on that order (everything before the last empty list is forgotten). -/
def numCombinations (m : Matrix) : Nat :=
  m.foldl (fun total kv => (if total = 0 then 1 else total) * kv.2.length) 0

/-- `matrix.GetKeys`: the keys, `sort.Strings`-sorted (byte order = code-point order for UTF-8). -/
def getKeys (m : Matrix) : List String :=
  (m.map (·.1)).mergeSort (fun a b => decide (a ≤ b))

/-- `matrix[key]` (nil slice when absent) -/
def values (m : Matrix) (k : String) : List String := (m.lookup k).getD []

/-- The "Fix indexes" loop `for j := len(indexes)-1; j >= 0; j-- { if indexes[j] >= len(matrix[keys[j]])
{ indexes[j] = 0; indexes[j-1]++ } }`, written as a recursion from the right end: the second component
is the increment the loop applies to the position on the left (`indexes[j-1]++`). -/
def fixLoop (m : Matrix) : List String → List Nat → List Nat × Nat
  | k :: ks, i :: is =>
    let r := fixLoop m ks is
    let i' := i + r.2
    if i' ≥ (values m k).length then (0 :: r.1, 1) else (i' :: r.1, 0)
  | _, _ => ([], 0)

/-- the whole fix loop; a carry out of position 0 is `indexes[-1]++`, a panic -/
def fixIndexes (m : Matrix) (keys : List String) (idx : List Nat) : Option (List Nat) :=
  let r := fixLoop m keys idx
  if r.2 = 0 then some r.1 else none

/-- `matrix.IndexMatrix`: `combi[keys[k]] = matrix[keys[k]][idx]` (out of range = panic) -/
def indexMatrix (m : Matrix) : List String → List Nat → Option Combination
  | k :: ks, i :: is =>
    match (values m k)[i]? with
    | none => none
    | some v =>
      match indexMatrix m ks is with
      | none => none
      | some rest => some ((k, v) :: rest)
  | _, _ => some []

/-- `indexes[len(indexes)-1]++` (panics on an empty slice) -/
def incrLast : List Nat → Option (List Nat)
  | [] => none
  | [i] => some [i + 1]
  | i :: is => (incrLast is).map (i :: ·)

/-- the main loop of `GenerateMatrixCombinations`, `n` iterations left, `idx` = the `indexes` slice -/
def odometer (m : Matrix) (keys : List String) : Nat → List Nat → Option (List Combination)
  | 0, _ => some []
  | n + 1, idx =>
    match fixIndexes m keys idx with
    | none => none
    | some idx1 =>
      match indexMatrix m keys idx1 with
      | none => none
      | some c =>
        match incrLast idx1 with
        | none => none
        | some idx2 =>
          match odometer m keys n idx2 with
          | none => none
          | some rest => some (c :: rest)

/-- `matrix.GenerateMatrixCombinations` -/
def generateMatrixCombinations (m : Matrix) : Option (List Combination) :=
  let total := numCombinations m
  let keys := getKeys m
  odometer m keys total (List.replicate keys.length 0)

/-! ### indexes.go -/

/-- `for i := int64(0); i < *spec.WithCount; i++ { indexes[i] = {IndexNumber: &i} }` (first argument: fuel) -/
def countLoop (n : Int) : Nat → Nat → List Index
  | 0, _ => []
  | fuel + 1, i => if (i : Int) < n then { num := some (i : Int) } :: countLoop n fuel (i + 1) else []

/-- `parallel.GenerateIndexes` (`none` = panic) -/
def generateIndexes (spec : Option Spec) : Option (List Index) :=
  let spec := spec.getD {}
  match spec.withCount with
  | some n =>
    if n < 0 then none            -- make([]T, n) with n < 0 panics
    else some (countLoop n n.toNat 0)
  | none =>
    if spec.withKeys.length > 0 then
      some (spec.withKeys.map fun k => { key := k })
    else if spec.withMatrix.length > 0 then
      match generateMatrixCombinations spec.withMatrix with
      | none => none
      | some cs => some (cs.map fun c => { mat := c })
    else some [defaultIndex]

/-- Go map write `m[k] = v` on an association list: replace in place or append -/
def mapSet (m : List (String × Nat)) (k : String) (v : Nat) : List (String × Nat) :=
  match m with
  | [] => [(k, v)]
  | (k', v') :: rest => if k' = k then (k', v) :: rest else (k', v') :: mapSet rest k v

/-- `parallel.HashIndexes`: `hashes[i] = hash; hashesIdx[hash] = i` for i = 0,1,… — on a collision the
LAST index with that hash wins in `hashesIdx`. -/
def hashIndexesLoop (hash : Index → String) : List Index → Nat → List (String × Nat) → List String × List (String × Nat)
  | [], _, acc => ([], acc)
  | ix :: rest, i, acc =>
    let h := hash ix
    let r := hashIndexesLoop hash rest (i + 1) (mapSet acc h i)
    (h :: r.1, r.2)

def hashIndexes (hash : Index → String) (indexes : List Index) : List String × List (String × Nat) :=
  hashIndexesLoop hash indexes 0 []

/-- first pair `(j, i)`, `j < i`, `i` minimal, then `j` minimal, with equal entries (used by the sweep op and by
the repaired validator) -/
def firstDupFrom : List String → List String → Nat → Option (Nat × Nat)
  | [], _, _ => none
  | h :: rest, seen, i =>
    match seen.idxOf? h with
    | some j => some (j, i)
    | none => firstDupFrom rest (seen ++ [h]) (i + 1)

def firstDup (hs : List String) : Option (Nat × Nat) := firstDupFrom hs [] 0

/-- `parallel.GetParallelStatus`, projected on (hash, CreatedTasks) of each status slot: tasks are grouped
by the hash of their index (`taskIndexes[hash] = append(…)`), slot `i` gets `taskIndexes[hashes[i]]`. -/
def statusSlots (hash : Index → String) (indexes : List Index) (tasks : List Index) : List (String × Nat) :=
  let hashes := (hashIndexes hash indexes).1
  let taskHashes := tasks.map hash
  hashes.map fun h => (h, (taskHashes.filter (· = h)).length)

/-! ### task.go, provider.go, pod.go -/

/-- `job.GenerateTaskName`: `fmt.Sprintf("%v-%v-%v", name, hash, index.Retry)` -/
def generateTaskName (name : String) (hash : String) (retry : Int) : String :=
  name ++ "-" ++ hash ++ "-" ++ toString retry

/-- `defaultProvider.MakeVariablesFromTask` -/
def makeVariablesFromTask (name ns : String) (retry : Int) (idx : Index) : List (String × String) :=
  [("task.name", name), ("task.namespace", ns), ("task.retry_index", toString retry)] ++
  (match idx.num with
   | some n => [("task.index_num", toString n)]
   | none =>
     if idx.key ≠ "" then [("task.index_key", idx.key)]
     else idx.mat.map fun kv => ("task.index_matrix." ++ kv.1, kv.2))

/-- value that `SubstitutePodSpec` leaves in a field whose template is exactly `${<var>}`, for task
variables whose values contain no `$` (general substitution is C18's model): the bound value, or the
empty string when the variable is unbound (`SubstituteEmptyStringForPrefixes`). -/
def substSingle (vars : List (String × String)) (var : String) : String :=
  (vars.lookup var).getD ""

/-- projection of `podtaskexecutor.NewPod`: pod name, index-hash label, retry label, index carried by
the annotation, and the substituted values of the requested single-variable env templates -/
structure PodView where
  name : String
  hashLabel : String
  retryLabel : String
  annotation : Index
  env : List String
deriving DecidableEq, Repr

def newPod (hash : Index → String) (jobName ns : String) (retry : Int) (idx : Index)
    (envVars : List String) : PodView :=
  let podName := generateTaskName jobName (hash idx) retry
  let vars := makeVariablesFromTask podName ns retry idx
  { name := podName, hashLabel := hash idx, retryLabel := toString retry, annotation := idx,
    env := envVars.map (substSingle vars) }

/-! ### validation.go -/

inductive VErr where
  | forbidden | required | invalid | notSupported
deriving DecidableEq, Repr, Inhabited

/-- character class of `withMatrixKeyRegexp = ^[a-z0-9_-]+$` -/
def matrixKeyChar (c : Char) : Bool :=
  ('a' ≤ c && c ≤ 'z') || ('0' ≤ c && c ≤ '9') || c == '_' || c == '-'

def matrixKeyOk (k : String) : Bool := !k.toList.isEmpty && k.toList.all matrixKeyChar

/-- `validateParallelismSpecWithMatrix` (error order follows the given iteration order) -/
def validateMatrix (m : Matrix) : List VErr :=
  m.flatMap fun kv =>
    if !matrixKeyOk kv.1 then [VErr.invalid]
    else kv.2.filterMap fun v => if v = "" then some VErr.required else none

/-- `ValidateParallelCompletionStrategy` -/
def validateStrategy (s : String) : List VErr :=
  if s = "AllSuccessful" ∨ s = "AnySuccessful" then []
  else if s = "" then [VErr.required]
  else [VErr.notSupported]

/-- body shared by `Validator.ValidateParallelismSpec` as it is and as repaired; `vm` is the matrix
validator (`validateParallelismSpecWithMatrix`). The pairs are (allErrs, numSpecified). -/
def validateSpecWith (vm : Matrix → List VErr) (spec : Spec) : List VErr :=
  -- withCount
  let r1 : List VErr × Nat :=
    match spec.withCount with
    | some n => ((if n ≤ 0 then [VErr.invalid] else []), 1)      -- numSpecified is 0 here; ValidateGT(n, 0)
    | none => ([], 0)
  -- withKeys
  let r2 : List VErr × Nat :=
    if spec.withKeys.length > 0 then
      if r1.2 ≥ 1 then (r1.1 ++ [VErr.forbidden], r1.2)
      else (r1.1 ++ spec.withKeys.filterMap (fun k => if k = "" then some VErr.required else none), r1.2 + 1)
    else r1
  -- withMatrix
  let r3 : List VErr × Nat :=
    if spec.withMatrix.length > 0 then
      if r2.2 ≥ 1 then (r2.1 ++ [VErr.forbidden], r2.2)
      else (r2.1 ++ vm spec.withMatrix, r2.2 + 1)
    else r2
  let r4 : List VErr := if r3.2 = 0 then r3.1 ++ [VErr.required] else r3.1
  r4 ++ validateStrategy spec.strategy

/-- `Validator.ValidateParallelismSpec` AS THE CODE IS (no distinctness check, empty value lists pass). -/
def validateParallelismSpec (spec : Spec) : List VErr := validateSpecWith validateMatrix spec

/-! ### the proposed repair (fix_F3.diff) — NOT the code as it is. Used by the driver only when the Go
side reports that the repaired validator is present (`idx.spec fixed …`), and by
`validation_rejects_bad_specs_fixed`. -/

/-- repaired `validateParallelismSpecWithMatrix`: additionally `Required` for an empty value list -/
def validateMatrixFixed (m : Matrix) : List VErr :=
  m.flatMap fun kv =>
    if !matrixKeyOk kv.1 then [VErr.invalid]
    else (if kv.2.length = 0 then [VErr.required] else []) ++
      kv.2.filterMap fun v => if v = "" then some VErr.required else none

/-- repaired `ValidateParallelismSpec`: the same checks with `validateMatrixFixed`; if they report
nothing, the spec is expanded and `Invalid` is reported unless the hashes of all indexes are pairwise
distinct (`validateParallelIndexes` in the diff). -/
def validateParallelismSpecFixed (hash : Index → String) (spec : Spec) : List VErr :=
  let errs := validateSpecWith validateMatrixFixed spec
  if errs.length = 0 then
    match generateIndexes (some spec) with
    | none => [VErr.invalid]           -- unreachable when errs = [] (Props: `fixed_validator_never_panics`)
    | some ixs =>
      match firstDup (ixs.map hash) with
      | some _ => [VErr.invalid]
      | none => []
  else errs

/-! ### F3 witness data -/

/-- `parallel.HashIndex` of the indexes 0..69 of `withCount: 70`, as transmitted by the Go side in the corpus
scenario `f3-withcount-70-collision` (op `idx.witness70` re-checks this literal against the real code on every
run). Positions 58 and 69 are both `ge3dqm`. -/
def f3WitnessHashes : List String :=
  ["gezdqo", "gi3dgn", "geytio", "ge2tkn", "haytkm", "g4ztqn", "ge3tgm", "gezdmo", "haztcm", "gmytsm",
   "ge2tam", "gi4dkm", "geztso", "g42tan", "gezdoo", "g4zdkm", "gu2ton", "geztkm", "heydio", "ge3dmn",
   "geydgm", "ge2din", "gm2dqm", "ge3tin", "gqztkm", "giyten", "gezdom", "geytem", "ge2dmo", "ge2deo",
   "gm2dqo", "ge3too", "gizdsm", "gyztcm", "ge2tmm", "hezdcn", "ha3den", "gi2ten", "guydam", "geyden",
   "ge3dkm", "gezdmm", "guzdqm", "gezdon", "ge2tin", "ge3dgm", "gy2dqn", "ha3dmn", "geytkm", "geydkm",
   "haytgm", "giytim", "ge3tom", "g44tem", "ge3tkm", "gq4dmo", "hazdmn", "guztgo", "ge3dqm", "guydgm",
   "gi2den", "geydoo", "ge2ton", "gqytco", "gezdmn", "ge2dan", "gy2ten", "geztmm", "gm4tam", "ge3dqm"]

/-- the transmitted hashes as a concrete hash function on the `withCount` indexes -/
def f3Hash (ix : Index) : String :=
  match ix.num with
  | some n => f3WitnessHashes.getD n.toNat "?"
  | none => "?"

end Furiko.Indexes
