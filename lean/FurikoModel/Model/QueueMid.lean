/-
Interleaved variant of the per-JobConfig pass of Model/Queue.lean: the environment may act in
the middle of a pass, at the boundary of the k-th API write the pass issues (before the write
is applied): all pending Job watch events are delivered to the cache and the STORE handler runs
all its notifications (the queue controller's own handler stays lagging).  This is how a store
decrement lands between two Job evaluations of one pass (E-AtomicPass violated).

`k = 0` means "no interleaving"; `passLoopMid_zero` proves that the functions here then coincide
with the atomic ones of Model/Queue.lean, which the theorems are about.
-/
import FurikoModel.Model.Queue

namespace Furiko.Queue
open Furiko.WQ

/-- deliver all pending Job events, then run all pending store notifications -/
def midAction (s : Sys) : Sys :=
  let rec dl (fuel : Nat) (s : Sys) : Sys :=
    match fuel with
    | 0 => s
    | f + 1 => if s.jobEvs.isEmpty then s else dl f (deliverJob s)
  let rec ns (fuel : Nat) (s : Sys) : Sys :=
    match fuel with
    | 0 => s
    | f + 1 => if s.storeQ.isEmpty then s else ns f (notifyStore s)
  let s1 := dl s.jobEvs.length s
  ns s1.storeQ.length s1

/-- run the environment's action if this is the write it is scheduled before; returns the
state and the countdown for the following writes -/
def midHook (s : Sys) (k : Nat) : Sys × Nat :=
  match k with
  | 0 => (s, 0)
  | 1 => (midAction s, 0)
  | k + 2 => (s, k + 1)

def canStartJobMid (s : Sys) (jc : JCV) (j : JobV) (activeCount : Int) (k : Nat) : Sys × Verdict × Nat :=
  if j.hasPolicy then
    if startAfterLater j s.clock then
      let t := (j.startAfter.getD 0) * 1000000000
      ({ s with cfgQ := s.cfgQ.addAfter ("ns/" ++ jc.name) t s.clock }, .skip, k)
    else if j.policy = 1 && decide (activeCount + 1 > jc.maxConc) then
      let (s0, k') := midHook s k
      let (s1, ok) := rejectJobWrite s0 j (jc.name, activeCount)
      (s1, if ok then .skip else .error, k')
    else if j.policy = 2 && decide (activeCount + 1 > jc.maxConc) then (s, .skip, k)
    else (s, .start, k)
  else (s, .start, k)

def startJobMid (s : Sys) (jc : JCV) (j : JobV) (oldCount : Int) (k : Nat) : Sys × Bool × Nat :=
  if getCtr s.counter jc.uid ≠ oldCount then (s, false, k)
  else
    let s1 := { s with counter := setCtr s.counter jc.uid (oldCount + 1) }
    let (s1', k') := midHook s1 k
    let (s2, ok) := startJobWrite s1' j
    if ok then (s2, true, k') else ({ s2 with counter := addCtr s2.counter jc.uid (-1) }, false, k')

def passLoopMid (jc : JCV) : List JobV → Sys → Int → Nat → Sys × Bool
  | [], s, _, _ => (s, true)
  | j :: rest, s, activeCount, k =>
    match canStartJobMid s jc j activeCount k with
    | (s1, .error, _) => (s1, false)
    | (s1, .skip, k1) => passLoopMid jc rest s1 activeCount k1
    | (s1, .start, k1) =>
      match startJobMid s1 jc j activeCount k1 with
      | (s2, false, _) => (s2, false)
      | (s2, true, k2) => passLoopMid jc rest s2 (getCtr s2.counter jc.uid) k2

def syncConfigMid (s : Sys) (name : String) (k : Nat) : Sys × Bool :=
  match findJC s.jcCache name with
  | none => (s, true)
  | some jc =>
    let rjs := listQueued s.jobCache jc
    if rjs.isEmpty then (s, true)
    else passLoopMid jc rjs s (getCtr s.counter jc.uid) k

def workConfigMid (s : Sys) (k : Nat) : Sys × String :=
  let s := { s with cfgQ := s.cfgQ.advance s.clock, calls := [] }
  match s.cfgQ.get with
  | none => (s, "idle")
  | some (key, q1) =>
    let (s1, ok) := syncConfigMid { s with cfgQ := q1 } (keyName key) k
    let q2 := if ok then s1.cfgQ.forget key else s1.cfgQ.addRateLimited key s1.clock
    ({ s1 with cfgQ := q2.done key }, if ok then "ok" else "err")

theorem canStartJobMid_zero (s : Sys) (jc : JCV) (j : JobV) (a : Int) :
    canStartJobMid s jc j a 0 = ((canStartJob s jc j a).1, (canStartJob s jc j a).2, 0) := by
  unfold canStartJobMid canStartJob midHook
  split <;> (try split) <;> (try split) <;> (try split) <;> simp_all

theorem startJobMid_zero (s : Sys) (jc : JCV) (j : JobV) (a : Int) :
    startJobMid s jc j a 0 = ((startJob s jc j a).1, (startJob s jc j a).2, 0) := by
  unfold startJobMid startJob midHook
  by_cases h : getCtr s.counter jc.uid ≠ a
  · simp [h]
  · simp only [h, if_false]
    cases hw : startJobWrite { s with counter := setCtr s.counter jc.uid (a + 1) } j with
    | mk s2 ok => cases ok <;> simp

theorem passLoopMid_zero (jc : JCV) (l : List JobV) (s : Sys) (a : Int) :
    passLoopMid jc l s a 0 = passLoop jc l s a := by
  induction l generalizing s a with
  | nil => simp [passLoopMid, passLoop]
  | cons j rest ih =>
    simp only [passLoopMid, passLoop, canStartJobMid_zero]
    cases h : canStartJob s jc j a with
    | mk s1 v =>
      cases v with
      | error => simp
      | skip => simp [ih]
      | start =>
        simp only [startJobMid_zero]
        cases h2 : startJob s1 jc j a with
        | mk s2 b => cases b <;> simp [ih]

theorem syncConfigMid_zero (s : Sys) (name : String) : syncConfigMid s name 0 = syncConfig s name := by
  unfold syncConfigMid syncConfig
  simp only [passLoopMid_zero]
  rfl

theorem workConfigMid_zero (s : Sys) : workConfigMid s 0 = workConfig s := by
  unfold workConfigMid workConfig
  simp only [syncConfigMid_zero]
  rfl

end Furiko.Queue
