/-
C08 — F30 (REPAIRED in /repo): the retry delay of an attempt that fails WITHOUT container
termination info.

C08: "a retry is never created before retryDelaySeconds have elapsed since the previous attempt
finished".  The theorems (`C08Plan`: earliest = latest RECORDED finish + delay; `C08Hist`) speak of the
finish time that is recorded for the attempt.  For a pod that reaches phase Failed with no container
status carrying a termination time (kubelet eviction, node lost, DeadlineExceeded without
activeDeadlineSeconds) `PodTask.GetFinishTimestamp` falls back to `status.startTime` (else the creation
time).  Before the repair that fallback was RECORDED: the finish of the attempt was the instant it
STARTED, and the retry of an attempt that had run for an hour was created seconds after it ended.
Since the repair `PodTask.GetTaskRef` records `ktime.Now()` for such a pod (`Pod.recordedFinish`): the
clock of the pass that first observes the pod finished, which is not before the instant it finished;
`GetTaskRef` of `jobutil` keeps that first value on later observations (fix 6ab84c2).  The history below
is inside the kubelet contract (`KubeletOK`: the phase only moves forward) and needs no fault, no lag and
no user action; it is replayed on the real controller by the corpus scenario
`f30-evicted-task-retry-respects-delay`, whose monitor `retry-delay-true-finish` judges every create
against the instant at which the simulated kubelet really ended the attempt.
-/
import FurikoModel.Props.SideCommon

namespace Furiko.Props.C08Side
open Furiko Furiko.JobCtl Furiko.Props.Side

set_option synthInstance.maxSize 1024

/-- one index, two attempts, retry delay 600 s -/
def jobE : JobObj :=
  { Ex.job with job := { Ex.job.job with template := some { maxAttempts := some 2, retryDelaySeconds := some 600 } } }
def e0 : Sys := initSys 0 {} Ex.d jobE
/-- `job-h-0` is created and recorded -/
def eA : Sys := runActs e0 Ex.runA
/-- the pod starts running at 5 s (`status.startTime` = 5 s), which is recorded; an hour passes -/
def evictRun1 : List Action :=
  [.deliverPod, .advance (sec 5),
   .kubelet (withStatus (podOf eA "job-h-0") .running (some (secs 5)) [{ running := some (some (secs 5)) }]),
   .deliverPod, .work, .deliverJob, .advance (sec 3600)]
def eK1 : Sys := runActs eA evictRun1
/-- at 3605 s the pod is EVICTED: phase Failed, no container status; the pass records the failure; two
seconds later the next pass runs -/
def evictRun2 : List Action :=
  [.kubelet (withStatus (podOf eK1 "job-h-0") .failed (some (secs 5)) []), .deliverPod, .work, .deliverJob,
   .advance (sec 2), .work]
def eK2 : Sys := runActs eK1 evictRun2
/-- one second before the delay has elapsed a pass runs … -/
def evictRun3 : List Action := [.advance (sec 597), .work]
def eK3 : Sys := runActs eK2 evictRun3
/-- … and one at the instant it has -/
def evictRun4 : List Action := [.advance (sec 1), .work]
def eK4 : Sys := runActs eK3 evictRun4

/-- regression (F30 repaired), the history of the former witness `evicted_retry_ignores_delay_witness`
continued: a reachable history without faults, informer lag, user action, external deletion — only
passes, deliveries, kubelet status writes that respect the kubelet contract, and the clock.  The attempt
`job-h-0` runs from 5 s and is ended by the kubelet at clock 3605 s; the finish time RECORDED for it is
3605 s — the clock of the pass that observed it, not before the kubelet's instant — and stays 3605 s when
the pass at 3607 s observes the pod again; that pass (2 s after the end, `retryDelaySeconds` = 600) and the
pass at 4204 s issue NO call and leave the timer at 4205 s armed; the retry `job-h-1` is created by the
pass at clock 4205 s = 3605 s + 600 s. -/
theorem evicted_retry_respects_delay :
    Reach lagAndLoss jobE eK4 ∧
    eK1.clock = secs 3605 ∧ eK2.clock = secs 3607 ∧ eK3.clock = secs 4204 ∧ eK4.clock = secs 4205 ∧
    (jobE.job.template.bind (·.retryDelaySeconds)) = some 600 ∧
    refsView eK1 = [("job-h-0", .running, .none, some (secs 5), none)] ∧
    (callsOf eK2 = [] ∧ eK2.q.delayed = [("ns/job", secs 4205)] ∧
      refsView eK2 = [("job-h-0", .terminated, .failed, some (secs 5), some (secs 3605))]) ∧
    (callsOf eK3 = [] ∧ eK3.q.delayed = [("ns/job", secs 4205)] ∧ eK3.pods.map (·.pod.name) = ["job-h-0"]) ∧
    callsOf eK4 = [("create", "pods", "job-h-1", "ok", false), ("update", "jobs", "job", "ok", true)] ∧
    refsView eK4 = [("job-h-0", .terminated, .failed, some (secs 5), some (secs 3605)),
                    ("job-h-1", .starting, .none, none, none)] :=
  ⟨reach_run (reach_run (reach_run (reach_run (reach_run (.init 0 {} Ex.d (by decide +kernel)) Ex.runA (by decide +kernel))
      evictRun1 (by decide +kernel)) evictRun2 (by decide +kernel)) evictRun3 (by decide +kernel)) evictRun4 (by decide +kernel),
    by decide +kernel, by decide +kernel, by decide +kernel, by decide +kernel, by decide +kernel, by decide +kernel,
    ⟨by decide +kernel, by decide +kernel, by decide +kernel⟩,
    ⟨by decide +kernel, by decide +kernel, by decide +kernel⟩, by decide +kernel, by decide +kernel⟩

/-! ### F19 through a stale POD cache: the pod cache serves the PREVIOUS incarnation of a task name

Found by a thorough-tier sweep of the unchanged tree (generated case 5344 at seed 1; corpus scenario
`f19-stale-pod-cache-serves-previous-incarnation`).  Same root cause as F19 — a task NAME identifies
different pod incarnations, the refs carry no UID — reached through a stale pod cache instead of a stale
Job cache.  The pass that creates the second incarnation starts OUTSIDE `E-NoStaleCopyOnCreate`
(`noStaleCheck = false`: the requested name is absent from the server but still in the pod cache), which
is what `checkNoStaleCopy` of the harness evaluates: the generated history was tagged; the false alarm was
that the monitor `no-create-once-complete` did not honour the tag. -/

/-- one index, three attempts, retry delay 60 s -/
def jobI : JobObj :=
  { Ex.job with job := { Ex.job.job with template := some { maxAttempts := some 3, retryDelaySeconds := some 60 } } }
def i0 : Sys := initSys 0 {} Ex.d jobI
/-- incarnation 1 of `job-h-0` is created; the status write conflicts: unrecorded -/
def incRun1 : List Action := [.deliverJob, .setFaults ["", "conflict"], .work]
def iK1 : Sys := runActs i0 incRun1
def inc1Failed : PodObj :=
  withStatus (podOf iK1 "job-h-0") .failed (some 0)
    [{ terminated := some { startedAt := some 0, finishedAt := some (secs 1), reason := "OOMKilled" } }]
/-- incarnation 1 ends Failed / OOMKilled at 1 s, the pod cache catches up with it, the object vanishes
(its delete event stays undelivered); at 100 s … -/
def incRun2 : List Action :=
  [.advance (sec 1), .kubelet inc1Failed, .deliverPod, .deliverPod, .externalDelete "job-h-0", .advance (sec 99)]
def iPre : Sys := runActs iK1 incRun2
/-- … a pass runs: `status.tasks` is empty and the name is free on the server: incarnation 2 is created
and recorded -/
def iK2 : Sys := runActs iPre [.work]
/-- incarnation 2 runs (event undelivered); the pass reads the pod cache: incarnation 1 -/
def incRun3 : List Action :=
  [.deliverJob, .kubelet (withStatus (podOf iK2 "job-h-0") .running (some (secs 100)) [{ running := some (some (secs 100)) }]), .work]
def iK3 : Sys := runActs iK2 incRun3
/-- everything is delivered, incarnation 2 SUCCEEDS, the pass runs -/
def incRun4 : List Action :=
  [.deliverJob, .deliverPod, .deliverPod, .deliverPod,
   .kubelet (withStatus (podOf iK3 "job-h-0") .succeeded (some (secs 100))
     [{ terminated := some { startedAt := some (secs 100), finishedAt := some (secs 100) } }]),
   .deliverPod, .work]
def iK4 : Sys := runActs iK3 incRun4

/-- witness (F19 through a stale pod cache).  Every action allowed (one conflict fault, informer lag, one
external deletion).  The pass `iPre → iK2` starts outside the envelope.  In `iK3` the ref `job-h-0` is
recorded Terminated / Failed with finish time 1 s — incarnation 1's — while the pod of that name on the
server (incarnation 2, created at 100 s) is Running; in `iK4` that pod has Succeeded, the recorded outcome
is kept, and the pass creates the retry `job-h-1`: a task is created for an index whose live task has
succeeded. -/
theorem stale_pod_cache_previous_incarnation_witness :
    Reach anyAction jobI iK4 ∧
    noStaleCheck iPre = false ∧
    (iPre.pods.map (·.pod.name) = [] ∧ iPre.podCache.map (fun p => (p.pod.name, p.pod.phase)) = [("job-h-0", .failed)]) ∧
    callsOf iK2 = [("create", "pods", "job-h-0", "ok", false), ("update", "jobs", "job", "ok", true)] ∧
    (refsView iK3 = [("job-h-0", .terminated, .failed, none, some (secs 1))] ∧
      iK3.pods.map (fun p => (p.pod.name, p.pod.phase, p.pod.creationTimestamp)) = [("job-h-0", .running, some (secs 100))]) ∧
    callsOf iK4 = [("create", "pods", "job-h-1", "ok", false), ("update", "jobs", "job", "ok", true)] ∧
    iK4.pods.map (fun p => (p.pod.name, p.pod.phase)) = [("job-h-0", .succeeded), ("job-h-1", .other)] :=
  ⟨reach_run (reach_run (reach_run (reach_run (reach_run (.init 0 {} Ex.d (by decide +kernel)) incRun1 (by decide +kernel))
      incRun2 (by decide +kernel)) [.work] (by decide +kernel)) incRun3 (by decide +kernel)) incRun4 (by decide +kernel),
    by decide +kernel, ⟨by decide +kernel, by decide +kernel⟩, by decide +kernel, ⟨by decide +kernel, by decide +kernel⟩,
    by decide +kernel, by decide +kernel⟩

end Furiko.Props.C08Side
