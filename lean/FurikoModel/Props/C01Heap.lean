/-
C01 (heap part) — the schedule's priority queue (`pkg/utils/heap`, model Model/Heap.lean) refines a
finite map `name ⇀ priority` (read through `Heap.search`), keeps its bookkeeping/heap-order
invariant `Heap.Inv`, and `peek`/`pop` deliver an entry of minimal priority.
Thin re-exports of the interface theorems of Proofs/HeapSpec.lean, so that the audit lists them.
-/
import FurikoModel.Proofs.HeapSpec
import FurikoModel.Proofs.CronExamples

namespace Furiko.Props.C01Heap
open Furiko Furiko.Heap

/-- `New(items)` (distinct names) establishes the invariant -/
theorem heap_inv_new (items : List (String × Int)) (hnd : (items.map Prod.fst).Nodup) :
    Inv (new items) := inv_new items hnd

/-- `New(items)` holds exactly the items -/
theorem heap_refines_map_new (items : List (String × Int)) (hnd : (items.map Prod.fst).Nodup)
    (k : String) : search (new items) k = lookupItems items k := search_new items hnd k

example : ([("a", 10), ("b", 5), ("c", (7 : Int))].map Prod.fst).Nodup ∧
    search (new [("a", 10), ("b", 5), ("c", 7)]) "b" = some 5 ∧
    (peek (new [("a", 10), ("b", 5), ("c", 7)])).map (fun it => (it.name, it.prio))
      = some ("b", 5) :=
  ⟨by decide, by decide, by decide⟩

/-- `Push` of a fresh name preserves the invariant -/
theorem heap_inv_push {pq : PQ} (h : Inv pq) (n : String) (p : Int)
    (hfresh : search pq n = none) : Inv (push pq n p) := inv_push h n p hfresh

/-- `Push` of a fresh name adds exactly that binding -/
theorem heap_refines_map_push {pq : PQ} (h : Inv pq) (n : String) (p : Int)
    (hfresh : search pq n = none) (k : String) :
    search (push pq n p) k = if k = n then some p else search pq k := search_push h n p hfresh k

example : Inv (new [("a", 10)]) ∧ search (new [("a", 10)]) "b" = none ∧
    search (push (new [("a", 10)]) "b" 3) "b" = some 3 :=
  ⟨Furiko.Cron.Ex.inv_new_singleton _ _, by decide, by decide⟩

/-- `Update` of an absent name changes nothing and reports `false` -/
theorem heap_update_miss {pq : PQ} (n : String) (p : Int) (hmiss : search pq n = none)
    (h : Inv pq) : update pq n p = (pq, false) := update_miss n p hmiss h

/-- `Update` preserves the invariant -/
theorem heap_inv_update {pq : PQ} (h : Inv pq) (n : String) (p : Int) :
    Inv (update pq n p).1 := inv_update h n p

/-- `Update` of a present name rebinds exactly that name -/
theorem heap_refines_map_update {pq : PQ} (h : Inv pq) (n : String) (p : Int)
    (hk : search pq n ≠ none) (k : String) :
    search (update pq n p).1 k = if k = n then some p else search pq k := search_update h n p hk k

example : Inv (new [("a", 10)]) ∧ search (new [("a", 10)]) "a" ≠ none ∧
    search (update (new [("a", 10)]) "a" 4).1 "a" = some 4 :=
  ⟨Furiko.Cron.Ex.inv_new_singleton _ _, by decide, by decide⟩

/-- `Delete` preserves the invariant -/
theorem heap_inv_delete {pq : PQ} (h : Inv pq) (n : String) : Inv (delete pq n).1 :=
  inv_delete h n

/-- `Delete` removes exactly that name (no-op if absent) -/
theorem heap_refines_map_delete {pq : PQ} (h : Inv pq) (n : String) (k : String) :
    search (delete pq n).1 k = if k = n then none else search pq k := search_delete h n k

/-- `Peek` is empty iff the map is empty -/
theorem heap_peek_none_iff {pq : PQ} (h : Inv pq) :
    peek pq = none ↔ ∀ k, search pq k = none := peek_none_iff h

/-- `Peek` returns a binding of the map with minimal priority -/
theorem heap_peek_min {pq : PQ} (h : Inv pq) {it : Item} (hp : peek pq = some it) :
    search pq it.name = some it.prio ∧ ∀ k p, search pq k = some p → it.prio ≤ p :=
  peek_min h hp

/-- `Pop` removes exactly the peeked (minimal) binding and preserves the invariant -/
theorem heap_pop_spec {pq : PQ} (h : Inv pq) {it : Item} (hp : peek pq = some it) :
    ∃ pq' it', pop pq = some (pq', it') ∧ it'.name = it.name ∧ it'.prio = it.prio ∧ Inv pq' ∧
      ∀ k, search pq' k = if k = it.name then none else search pq k := pop_spec h hp

example : Inv (new [("a", 10)]) ∧
    (peek (new [("a", 10)])).map (fun it => (it.name, it.prio)) = some ("a", 10) :=
  ⟨Furiko.Cron.Ex.inv_new_singleton _ _, by decide⟩

/-- `Pop` fails (Go: panics) exactly on the empty heap -/
theorem heap_pop_none_iff {pq : PQ} : pop pq = none ↔ peek pq = none := pop_none_iff

end Furiko.Props.C01Heap
