/-
C10 — "A Job's final result is exactly what its tasks' outcomes and strategy imply": HISTORY-level
theorems, i.e. statements about every state reachable in the transition system of
`Proofs/JobCtlSys.lean` (one Job; controller passes under any fault pattern, informer lag per resource,
resync, restart, clock, kubelet under the kubelet contract, external pod deletion, user kill / delete,
foreign pods).  Conventions as in `Props/C11Hist.lean`: `Reach ok j0 s` = `s` is reachable from the creation
of the well-formed Job `j0` by allowed actions passing the filter `ok`; a theorem stated for an arbitrary
`ok` allows EVERY action; envelopes `E-API`, `E-ErrNotApplied` (+ the `applied-err` fault),
`E-SingleLeader` as built into the model.

The pure theorems (`Props/C10.lean`, `Props/C11.lean`) speak about every Job VALUE the functions are
applied to; the theorems here say which Job values are ever STORED: the lift from "for every value
`UpdateJobStatusFromTaskRefs` produces" to "for every status the controller ever writes and the API server
ever holds".
-/
import FurikoModel.Proofs.JobCtlInvC10Result
import FurikoModel.Proofs.JobCtlInvExamples
import FurikoModel.Props.C10

namespace Furiko.Props.C10Hist
open Furiko Furiko.JobCtl Furiko.StatusLemmas Furiko.ConditionLemmas

/-! ### `status_always_coherent` -/

/-- `status_always_coherent`: in every reachable state the status of the AUTHORITATIVE Job — what the API
server stores, hence every status the controller ever wrote — is the one the Job was created with or is
`Coherent` (one condition, state and phase match it, result sound for the recorded refs).
ALL actions allowed: any fault pattern, informer lag, restart, clock, kubelet, external pod deletion, user
kill / delete, foreign pods; Job created with a template (without one `UpdateJobStatusFromTaskRefs`
dereferences nil).  In detail, the status is
* still the status the Job was created with (no status write of the controller has been applied yet), or
* `Coherent`: it was computed by `UpdateJobStatusFromTaskRefs` from a Job value carrying this Job's
  template and start time and exactly the recorded refs, so that
  - exactly one of the queueing / waiting / running / finished conditions is set (`one`),
  - `status.state` names the condition that is set (`state`; no exception: since commit 4c102ea the
    state is assigned after the deletion override, F13),
  - `status.phase` is terminal iff the finished condition is set (`phase`),
  - result `Success` ⇒ the completion strategy is satisfied by the RECORDED refs whose result is Succeeded
    (`success`; AllSuccessful: every index has one, AnySuccessful: some index has one),
  - result `Failed` ⇒ the strategy can no longer be satisfied: AllSuccessful: some index has `maxAttempts`
    finished refs and none succeeded; AnySuccessful: every index does (`failed`),
  - the result is never `FinalStateUnknown` (`known`),
  - result `Killed` ⇒ the Job carries a kill timestamp or is being deleted (`killed`: the deletion
    override of `UpdateJobStatusFromTaskRefs` reports a deleting, unfinished Job as Killed),
  - Finished with a result other than `AdmissionError`, the Job not being deleted ⇒ the Job is started and
    every ref of every index of the spec carries a finish timestamp (`terminated`; the deleting Job is the
    documented exception: the override finishes it while tasks are still being removed).
User actions keep this: `kill` and `userDelete` change spec / metadata only, never the status, and the
two clauses that read the spec (`killed`, `terminated`) are stated so that setting a kill or deletion
timestamp later cannot falsify them.  The controller's `Update` (spec) leaves the status alone; its
`UpdateStatus` that passes the resourceVersion check was computed from the very object it overwrites
(`C11Hist.rv_identifies_version`). -/
theorem status_always_coherent {ok : Sys → Action → Prop} {j0 : JobObj} {s : Sys} (hr : Reach ok j0 s)
    (htm : j0.job.template.isSome = true) (j : JobObj) (hj : s.job = some j) :
    j.job.status = j0.job.status ∨ Coherent s.d j.job := by
  rcases statusOK_of_reach hr htm j hj with h | h
  · exact Or.inl h
  · exact Or.inr h.coherent

/-- the hypotheses are met, and the second disjunct is the one that holds: in `Ex.sB` (the pod succeeded,
the pass recorded it) the authoritative status differs from the initial one and is Finished / Success -/
example : Reach anyAction Ex.job Ex.sB ∧ Ex.job.job.template.isSome = true ∧
    (Ex.sB.job.map (fun j => decide (j.job.status = Ex.job.job.status))) = some false ∧
    (Ex.sB.job.bind (fun j => j.job.status.condition.finished)).map (·.result) = some .success :=
  ⟨Ex.sB_reach, by decide +kernel, by decide +kernel, by decide +kernel⟩

/-- … and the first disjunct is needed: the created Job's status is arbitrary (here: empty, no condition
set, which is not coherent) and stays until the first status write -/
example : Reach anyAction Ex.job Ex.s0 ∧ (Ex.s0.job.map (fun j => j.job.status.condition.count)) = some 0 :=
  ⟨Ex.s0_reach _, by decide +kernel⟩

/-- `counters_always_match` (every reachable state, ALL actions allowed; Job created with
`runningTasks = 0` — `WF` already says it has no task ref and `createdTasks = 0`): in the authoritative
status `createdTasks` is the number of task refs and `runningTasks` the number of refs that carry a
running timestamp and no finish timestamp (`UpdateJobTaskRefs` is the only writer of the list, the
deletion markers of the handlers do not touch the timestamps). -/
theorem counters_always_match {ok : Sys → Action → Prop} {j0 : JobObj} {s : Sys} (hr : Reach ok j0 s)
    (hrun : j0.job.status.runningTasks = 0) (j : JobObj) (hj : s.job = some j) :
    j.job.status.createdTasks = j.job.status.tasks.length ∧
    j.job.status.runningTasks =
      ((j.job.status.tasks.countP (fun r => r.runningTimestamp.isSome && r.finishTimestamp.isNone) : Nat) : Int) := by
  obtain ⟨h1, h2⟩ := countersOK_of_reach hr hrun j hj
  refine ⟨h1, ?_⟩
  rw [h2, List.countP_eq_length_filter]
  rfl

example : Reach anyAction Ex.job Ex.sA ∧ Ex.job.job.status.runningTasks = 0 ∧
    (Ex.sA.job.map (fun j => (j.job.status.createdTasks, j.job.status.tasks.length))) = some (1, 1) :=
  ⟨Ex.sA_reach, by decide +kernel, by decide +kernel⟩

/-! ### `result_reflects_recorded_outcomes` -/

/-- a pod CONTROLLED BY THE JOB, named `n`, in the pod cache or on the server, reports success: phase
`Succeeded` and no OOM-killed container (`C10.pod_result_mapping`) -/
def SucceededPodSeen (j0 : JobObj) (s : Sys) (n : String) : Prop :=
  ∃ p, (p ∈ s.podCache ∨ p ∈ s.pods) ∧ p.ownerUid = some j0.uid ∧ p.pod.name = n ∧
    p.pod.phase = .succeeded ∧ p.pod.isOOMKilled = false

/-- `result_reflects_recorded_outcomes` (one step): a ref of the authoritative status that says `Succeeded`
after a step said so before it, or the step is a controller pass that STARTED while a pod controlled by
the Job with that name reported phase Succeeded without OOM kill.  Every reachable state, ALL actions
allowed, foreign pods on any name included.  `SuccMark r`: the ref says `Succeeded`, as its `status.result` or in its
`deletedStatus` (where `GetTaskRef` keeps the terminal status of a finished task, and from where
`GenerateTaskRefs` restores the status of a task that has vanished).  Every ref of the authoritative
status that carries such a mark after a step
* carried it before the step (a ref of the same name), or
* the step is a controller pass, and when that pass STARTED a pod controlled by the Job with the ref's
  name — in the pod cache or on the server — reported phase `Succeeded` without an OOM-killed container.
No other step, and no object that is not controlled by the Job, ever makes a task `Succeeded`; the pass
that records the success saw it on the Job's own pod.  (Result `Failed` / `Killed` marks have more
sources — pending timeout, kill sweep, finalizer markers, a vanished pod — see
`C09Hist.finished_ref_justified_partial` for the one-refresh form.) -/
theorem result_reflects_recorded_outcomes {ok : Sys → Action → Prop} {j0 : JobObj} {s : Sys} (hr : Reach ok j0 s)
    (a : Action) (hal : Allowed j0 s a) (j j' : JobObj) (hj : s.job = some j) (hj' : (step s a).job = some j')
    (r' : TaskRef) (hr' : r' ∈ j'.job.status.tasks) (hs : SuccMark r') :
    (∃ r ∈ j.job.status.tasks, r.name = r'.name ∧ SuccMark r) ∨ (a = .work ∧ SucceededPodSeen j0 s r'.name) := by
  have hb := base_of_reach hr
  have key := jobMoves_rel_work (s0 := s) (a := a)
    (fun x y => ∀ r' ∈ y.status.tasks, SuccMark r' →
      (∃ r ∈ x.status.tasks, r.name = r'.name ∧ SuccMark r) ∨ (a = .work ∧ SucceededPodSeen j0 s r'.name))
    (fun x r' h1 h2 => Or.inl ⟨r', h1, rfl, h2⟩)
    (fun x y z h1 h2 r'' hr'' hs'' => by
      rcases h2 r'' hr'' hs'' with ⟨r1, hr1, hn1, hs1⟩ | h
      · rcases h1 r1 hr1 hs1 with ⟨r0, hr0, hn0, hs0⟩ | h
        · exact Or.inl ⟨r0, hr0, hn0.trans hn1, hs0⟩
        · rw [hn1] at h; exact Or.inr h
      · exact Or.inr h)
    (fun jo sp ha hc hf => by
      have hjo := (hb.seenOK jo (mem_seenVers_cache hc)).1
      refine sync_passInv (succJust_passInv (fun n => (∃ r ∈ jo.job.status.tasks, r.name = n ∧ SuccMark r) ∨
        (a = .work ∧ SucceededPodSeen j0 s n))) sp jo ?_ (fun r h1 h2 => Or.inl ⟨r, h1, rfl, h2⟩)
      intro t ⟨p, hpt, ho, hsrc⟩
      obtain ⟨f1, f2, f3, f4, _, _⟩ := podTask_fields hpt
      refine ⟨f2.trans f1.symm, f4, ?_⟩
      intro hres
      rw [f3] at hres
      have hph := (Furiko.Props.C10.pod_result_mapping p.pod).1.mp hres
      right
      refine ⟨ha, p, ?_, by rw [ho, hjo.uid], f1.symm, hph.1, hph.2⟩
      rcases hsrc with h | h | ⟨idx, retry, h⟩
      · exact Or.inl (hf.podCache ▸ h)
      · exact Or.inr (hf.pods ▸ h)
      · rw [h, newPod_result] at hres; cases hres)
    (fun x y z h1 e r' hr' hs' => h1 r' (e ▸ hr') hs')
    (job_moves hb a hal) j j' hj hj'
  exact key r' hr' hs

/-- the hypotheses are met by the step that records the success in the example history: before the pass
the ref of `job-h-0` carries no result, the server holds the Job's pod with phase Succeeded, and after the
pass the ref says Succeeded -/
example :
    let s := runActs Ex.sA [.kubelet Ex.podSucceeded]
    Reach anyAction Ex.job s ∧
    (s.job.map (fun j => j.job.status.tasks.map (fun r => (r.name, decide (SuccMark r))))) = some [("job-h-0", false)] ∧
    ((step s .work).job.map (fun j => j.job.status.tasks.map (fun r => (r.name, decide (SuccMark r))))) =
      some [("job-h-0", true)] ∧
    s.pods.map (fun p => (p.pod.name, p.ownerUid, p.pod.phase, p.pod.isOOMKilled)) =
      [("job-h-0", some "u", .succeeded, false)] :=
  ⟨reach_run Ex.sA_reach _ (by decide +kernel), by decide +kernel, by decide +kernel, by decide +kernel⟩

/-- `succeeded_result_justified` (the same over whole histories, ALL actions allowed): for every ref of the authoritative
status of a reachable state that says `Succeeded` there is an EARLIER reachable state `s1` of this very
history at which a controller pass started (`step s1 .work` leads on to `s`) while a pod controlled by the
Job, carrying the ref's name, reported phase `Succeeded` without OOM kill (pod cache or server).  A Job is
never credited with a success that its own pod did not report. -/
theorem succeeded_result_justified {ok : Sys → Action → Prop} {j0 : JobObj} {s : Sys} (hr : Reach ok j0 s)
    (j : JobObj) (hj : s.job = some j) (r : TaskRef) (hrm : r ∈ j.job.status.tasks) (hs : SuccMark r) :
    ∃ s1, Reach ok j0 s1 ∧ ok s1 .work ∧ Steps ok j0 (step s1 .work) s ∧ SucceededPodSeen j0 s1 r.name := by
  induction hr generalizing j r with
  | init c cfg d hwf =>
    unfold initSys userCreateJob at hj
    simp only [Option.some.injEq] at hj
    subst hj
    simp only [hwf.noTasks] at hrm
    cases hrm
  | @step s0 a hr0 hok hal ih =>
    cases hj0 : s0.job with
    | none => rw [step_job_none hr0 a hal hj0] at hj; cases hj
    | some jprev =>
      rcases result_reflects_recorded_outcomes hr0 a hal jprev j hj0 hj r hrm hs with ⟨r0, hr0m, hn, hs0⟩ | ⟨ha, hseen⟩
      · obtain ⟨s1, h1, h2, h3, h4⟩ := ih jprev hj0 r0 hr0m hs0
        exact ⟨s1, h1, h2, Steps.step a h3 hok hal, hn ▸ h4⟩
      · subst ha
        exact ⟨s0, hr0, hok, Steps.refl _, hseen⟩

example : ∃ j r, Ex.sB.job = some j ∧ r ∈ j.job.status.tasks ∧ SuccMark r :=
  ⟨Ex.jobOf Ex.sB, (Ex.jobOf Ex.sB).job.status.tasks.headD default, by decide +kernel, by decide +kernel,
    by decide +kernel⟩

/-! ### `finished_no_live_task_partial` -/

/-- `finished_no_live_task_partial` (history level): inside the envelope `stabEnv`, whenever the
authoritative Job is `Finished` and not being deleted, every ref is finished and every pod on the server
that carries the name of a RECORDED task is finished (phase Succeeded / Failed).
Histories inside the envelope `stabEnv`
(`Proofs/JobCtlInvStabInv.lean`; it is the envelope of `C08Hist.one_live_per_index_partial`, one clause
less than `stabEnvF` of `C11Hist.finished_stays_finished_partial` — `E-NoUnrecordedWhenFinished` is not
needed here):
* no foreign pod is created, the user neither sets a kill timestamp nor deletes the Job;
* `E-NoStaleCopyOnCreate`: when a pass that pops a key starts while the Job object exists, no creation
  request computed from the CACHED Job names a task that is absent from the server but still remembered
  (authoritative `status.tasks`, pod cache, undelivered pod event) — `checkNoStaleCopy` of
  `harness/eng/jobctl.go`;
everything else is allowed (any fault pattern, informer lag, resync, restart, clock, kubelet, pods
vanishing, TTL deletion).  Job: `WF`, `WF3` (created without kill timestamp / admission error, with a
template, not finished), `WF2` (index hashes pairwise distinct, free of `-`).
Statement: in every reachable state in which the authoritative Job is `Finished` and not being deleted
(its result is then `Success` or `Failed`: no kill timestamp, no admission error in these histories),
EVERY pod on the server that carries the name of a RECORDED task is finished (phase Succeeded or Failed)
— not merely "terminating": no recorded task of a Job reported finished is alive.
What the model does NOT guarantee, and the run-time monitor `finished-no-live-task` therefore checks only
inside `E-OrphanVisible`: a pod the controller created but failed to RECORD (status write fault) that is
not yet in the pod cache is invisible to the pass that finishes the Job (`C10Plan.decided_then_kill_covers_unrecorded`
covers the unrecorded pods the cache does show). -/
theorem finished_no_live_task_partial {ok : Sys → Action → Prop} (hok : ∀ s a, ok s a → stabEnv s a)
    {j0 : JobObj} {s : Sys} (hr : Reach ok j0 s) (hwf : WF2 j0 s.d) (hwf3 : WF3 j0)
    (j : JobObj) (hj : s.job = some j) (hnd : j.job.deletionTimestamp = none)
    (f : CondFinished) (hf : j.job.status.condition.finished = some f) :
    (∀ r ∈ j.job.status.tasks, r.finishTimestamp.isSome = true) ∧
    ∀ p ∈ s.pods, p.pod.name ∈ refNames j.job → p.pod.isFinished = true := by
  have hb := base_of_reach hr
  have h2 := inv2_of_reach hr hwf
  have h3 := inv3_of_reach hok hr hwf hwf3 (by rw [hj]; rfl)
  have hall : j ∈ allVers s := by
    unfold allVers; rw [hj]; simp
  have hv := h3.ver j hall
  obtain ⟨_, t, hkey⟩ := hv.coh hnd f hf
  have hfin := (finished_all_refs (h2.job j hj) (hb.jobOK j hj).1.template hv.noAdm hv.noKill hkey).1
  refine ⟨hfin, ?_⟩
  intro p hp hn
  obtain ⟨r, hrm, hrn⟩ := List.mem_map.mp hn
  exact h3.fin j hall r hrm (hfin r hrm) p hp hrn.symm

/-- the hypotheses are met: `Ex.sB` is reachable inside the envelope (`stabChecked` is the decidable form
of `stabEnv`), the Job is Finished / Success, not being deleted, and its recorded pod is on the server
(finished) -/
example : Reach stabChecked Ex.job Ex.sB ∧ WF2 Ex.job Ex.sB.d ∧ WF3 Ex.job ∧
    (Ex.sB.job.map (fun j => (j.job.deletionTimestamp, j.job.status.condition.finished.map (·.result), refNames j.job))) =
      some (none, some .success, ["job-h-0"]) ∧
    Ex.sB.pods.map (fun p => (p.pod.name, p.pod.isFinished)) = [("job-h-0", true)] :=
  ⟨Ex.sB_reach_st, ⟨by decide +kernel, by decide +kernel⟩, Ex.wf3_job, by decide +kernel, by decide +kernel⟩

/-- witness: the envelope clause `E-NoStaleCopyOnCreate` of `finished_no_live_task_partial` is necessary
(known finding F19): the history
`Ex.v2` uses only controller passes, informer deliveries, kubelet progress and one pod vanishing from the
server (`lagAndLoss`: no fault, no restart, no user edit, no foreign pod); its third-last step is a pass
on a STALE cached Job that re-creates the recorded name `job-h-0` after the first pod vanished.  In `Ex.v2`
the authoritative Job is Finished / Success, not being deleted, and the pod on the server that carries the
recorded name `job-h-0` — controlled by the Job — is NOT finished.  (The pass that re-creates the pod
starts in a state that violates the envelope: `C11Hist`, example after
`finished_stays_finished_partial`.) -/
theorem finished_with_live_task_outside_envelope_witness :
    Reach lagAndLoss Ex.job1 Ex.v2 ∧ WF2 Ex.job1 Ex.v2.d ∧ WF3 Ex.job1 ∧
    (Ex.v2.job.map (fun j => (j.job.deletionTimestamp, j.job.status.condition.finished.map (·.result), refNames j.job))) =
      some (none, some .success, ["job-h-0"]) ∧
    Ex.v2.pods.map (fun p => (p.pod.name, p.ownerUid, p.pod.isFinished)) = [("job-h-0", some "u", false)] ∧
    noStaleCheck (runActs Ex.v1 ((Ex.runV2 Ex.v1).take 3)) = false :=
  ⟨Ex.v2_reach, ⟨by decide +kernel, by decide +kernel⟩, ⟨by decide, by decide, by decide, by decide⟩,
    by decide +kernel, by decide +kernel, by decide +kernel⟩

/-- AnySuccessful over the indexes `a`, `b`, two attempts, TTL 1000 s, with the finalizer -/
def jobAny : JobObj :=
  { name := "job", uid := "u", finalizer := true, rv := 0
    job := { template := some { maxAttempts := some 2,
                                parallelism := some { strategy := .anySuccessful, indexes := [{ hash := "a" }, { hash := "b" }] } },
             ttlSecondsAfterFinished := some 1000, status := { startTime := some 0 } } }

/-- `job-a-0`, `job-b-0` created, recorded, everything delivered -/
def anyRun1 : List Action := [.deliverJob, .work, .deliverJob, .deliverPod, .deliverPod]
/-- `job-b-0` fails and is recorded (retry back-off over); `job-a-0` succeeds (event undelivered); the pass
that creates the retry `job-b-1` has its status write refused (conflict fault): `job-b-1` exists,
unrecorded, its creation event undelivered; then the Succeeded event of `job-a-0` reaches the pod cache
and a pass runs: AnySuccessful is satisfied, nothing recorded is alive -/
def anyRun2 (s : Sys) : List Action :=
  [.kubelet (Ex.withPhase (Ex.podU s "job-b-0") .failed), .deliverPod, .work, .deliverJob,
   .kubelet (Ex.withPhase (Ex.podU s "job-a-0") .succeeded), .setFaults ["", "conflict"], .work, .deliverPod, .work]
def anyS1 : Sys := runActs (initSys 0 {} Ex.d jobAny) anyRun1
def anyS2 : Sys := runActs anyS1 (anyRun2 anyS1)

/-- witness: the restriction of `finished_no_live_task_partial` to RECORDED task names is necessary, even
inside the envelope.  The
history `anyS2` stays inside `stabEnv` (checked: `stabChecked`) — it uses one API fault (the status
write that would record `job-b-1` answers Conflict) and pod-informer lag.  In `anyS2` the authoritative
Job is Finished / Success, not being deleted; its status names `job-a-0`, `job-b-0`; and the server holds
`job-b-1`, controlled by the Job, NOT finished and NOT being deleted: a task the controller created but
could not record, still invisible to the pod cache when the pass that finished the Job ran.  (When the
pod reaches the cache the next pass adopts and stops it, `C10Plan.decided_then_kill_covers_unrecorded`;
the run-time monitor `finished-no-live-task` is evaluated inside `E-OrphanVisible` for this reason.) -/
theorem finished_with_unrecorded_live_task_witness :
    Reach stabChecked jobAny anyS2 ∧ WF2 jobAny anyS2.d ∧ WF3 jobAny ∧
    (anyS2.job.map (fun j => (j.job.deletionTimestamp, j.job.status.condition.finished.map (·.result), refNames j.job))) =
      some (none, some .success, ["job-a-0", "job-b-0"]) ∧
    anyS2.pods.map (fun p => (p.pod.name, p.ownerUid, p.pod.isFinished, p.pod.deletionTimestamp)) =
      [("job-a-0", some "u", true, none), ("job-b-0", some "u", true, none), ("job-b-1", some "u", false, none)] ∧
    anyS2.podCache.map (·.pod.name) = ["job-a-0", "job-b-0"] :=
  ⟨reach_run (reach_run (.init 0 {} Ex.d (by decide +kernel)) anyRun1 (by decide +kernel)) (anyRun2 anyS1)
      (by decide +kernel),
    ⟨by decide +kernel, by decide +kernel⟩, ⟨by decide, by decide, by decide, by decide⟩,
    by decide +kernel, by decide +kernel, by decide +kernel⟩

end Furiko.Props.C10Hist
