/-
C11 — "A Job's start time, once set, never changes or disappears": the JobQueueController's share.

`Props/C11Hist.lean` proves `startTime_stable` for the JOB controller's transition system (which
never writes `status.startTime`).  The only controller that sets it is the job-queue controller
(`JobControl.StartJob`), so the clause is proved here for the transition system of
`Proofs/QueueEnv.lean` (`Act`, `step`, `Reachable`): the authoritative Job list, per-object watch
lag, both reconcilers with any pattern of `err`/`conflict`/`timeout` faults, resync, restart, user
edits of `startAfter`, finish, delete.

What makes it true: `StartJob` submits the CACHED copy, so a start write decided on a stale cache
carries a stale resourceVersion and is refused; (name, rv) identifies the version (`Inv.verFn`), so
a write that passes the check was decided on the authoritative, still unstarted version.  Gap
exposed by seeded change C11w2-2 (a `StartJob` that re-reads the Job from the server and writes
`startTime = now` on that copy): `bin/check C11` ran no engine and no theorem about this writer.

Outside `Act` (exercised by the Go `queue` engine for the model/code tie, not part of these
theorems): `q.extstart` (an external writer sets `startTime` when it is nil — the envelope has no
external start; it never changes a set start time either), `q.phase n 0` (a finished Job becoming
unfinished), `q.jcdel`, `q.fault applied-err` (outside E-ErrNotApplied), and the mid-pass
interleaving `q.work cfg k` (`Model/QueueMid.lean`).  `q.flush`, `q.markdel`, `q.clearfaults` are
compositions / no-ops of actions in `Act`.
-/
import FurikoModel.Proofs.QueueSys

set_option linter.unusedSimpArgs false
set_option linter.unusedVariables false

namespace Furiko.Props.C11Queue
open Furiko Furiko.Queue Furiko.WQ Furiko.Queue.Scen

/-! ### the relation between two authoritative Job lists -/

/-- `l'` evolved from `l` without creating or deleting a Job and without changing or clearing a
start time that was set: per name, absent stays absent, and a present Job is still present with
every set `startTime` kept -/
def Evol (l l' : List JobV) : Prop :=
  ∀ n, (findJob l n = none → findJob l' n = none) ∧
    (∀ j, findJob l n = some j →
      ∃ j', findJob l' n = some j' ∧ ∀ t, j.startTime = some t → j'.startTime = some t)

theorem Evol.refl (l : List JobV) : Evol l l :=
  fun n => ⟨id, fun j hj => ⟨j, hj, fun _ h => h⟩⟩

theorem Evol.of_eq {l l' : List JobV} (h : l' = l) : Evol l l' := by rw [h]; exact Evol.refl l

theorem Evol.trans {l1 l2 l3 : List JobV} (h12 : Evol l1 l2) (h23 : Evol l2 l3) : Evol l1 l3 := by
  intro n
  refine ⟨fun h => (h23 n).1 ((h12 n).1 h), fun j hj => ?_⟩
  obtain ⟨j2, hj2, k2⟩ := (h12 n).2 j hj
  obtain ⟨j3, hj3, k3⟩ := (h23 n).2 j2 hj2
  exact ⟨j3, hj3, fun t ht => k3 t (k2 t ht)⟩

/-- replacing the Job `cur` by a version that keeps its start time (if set) -/
theorem evol_setJob {l : List JobV} {cur nj : JobV} (hcur : findJob l nj.name = some cur)
    (hk : ∀ t, cur.startTime = some t → nj.startTime = some t) : Evol l (setJob l nj) := by
  intro n
  rw [findJob_setJob]
  by_cases hn : nj.name = n
  · subst hn
    simp only [if_true]
    refine ⟨fun h => (by rw [hcur] at h; cases h), fun j hj => ?_⟩
    rw [hcur] at hj; cases hj
    exact ⟨nj, rfl, hk⟩
  · simp only [hn, if_false]
    exact ⟨id, fun j hj => ⟨j, hj, fun _ h => h⟩⟩

/-- an external or user mutation through `mutateJob` that does not touch `startTime` -/
theorem evol_mutateJob (s : Sys) (n : String) (f : JobV → JobV)
    (hf : ∀ j, (f j).name = j.name ∧ (f j).startTime = j.startTime) :
    Evol s.jobs (mutateJob s n f).jobs := by
  unfold mutateJob
  cases hfind : findJob s.jobs n with
  | none => exact Evol.refl _
  | some cur =>
    simp only
    refine evol_setJob (cur := cur) ?_ ?_
    · simp only [(hf cur).1, findJob_some_name hfind, hfind]
    · intro t ht; simp only [(hf cur).2, ht]

/-! ### the controller passes -/

/-- the per-config pass from a state satisfying the invariant: rejects keep the status, a start
write that is applied hit the cached = authoritative, unstarted version -/
theorem pass_evol {jc : JCV} {rjs : List JobV} {s : Sys} {ac : Int} {cs : List Call} {s' : Sys}
    {ok : Bool} (h : Pass jc rjs s ac cs s' ok) (hinv : Inv s) (hq : QueuedIn s jc rjs) :
    Evol s.jobs s'.jobs := by
  induction h with
  | nil s ac => exact Evol.refl _
  | @defer j rest s ac cs s' ok hp hl hpass ih =>
    have hinv1 : Inv (deferState s jc j) :=
      Inv_congr hinv (Nat.le_refl _) rfl rfl rfl rfl (fun _ hn => hn) (fun _ => rfl)
        (hinv.ind_of_sub (fun k hk => hk)) (fun f hf => Or.inl hf)
    exact ih hinv1 (fun x hx => hq x (by simp [hx]))
  | @wait j rest s ac cs s' ok hp hl hpol hlim hpass ih =>
    exact ih hinv (fun x hx => hq x (by simp [hx]))
  | @rejectFail j rest s ac res hp hl hpol hlim hres hwhy => exact Evol.refl _
  | @rejectOk j rest s ac cs s' ok cur hp hl hpol hlim hf hrv hnb hna hpass ih =>
    obtain ⟨hjc, hjl, hjq⟩ := hq j (by simp)
    obtain ⟨hcj, hinv1⟩ := Inv_applyReject hinv (rejMsg jc ac) hjc hjq hf hrv
    subst hcj
    have h1 : Evol s.jobs
        (applyWrite s "reject" cur.name (rejectedJob s (rejMsg jc ac) cur cur)).jobs :=
      evol_setJob (cur := cur) hf (fun t ht => ht)
    exact h1.trans (ih hinv1 (fun x hx => hq x (by simp [hx])))
  | @rejectLost j rest s ac cur hp hl hpol hlim hf hrv hnb hna =>
    exact absurd hna hinv.nextFault_ne_applied
  | @rejectNoop j rest s ac cs s' ok cur hp hl hpol hlim hf hrv hnb hna hnoop hpass ih =>
    have hinv1 : Inv (failWrite s "reject" j.name "ok") :=
      Inv_failWrite hinv "reject" j.name "ok" s.counter (fun _ => rfl)
    exact ih hinv1 (fun x hx => hq x (by simp [hx]))
  | @rejectNoopLost j rest s ac cur hp hl hpol hlim hf hrv hnb hna hnoop =>
    exact absurd hna hinv.nextFault_ne_applied
  | @casFail j rest s ac hv hne => exact Evol.refl _
  | @startFail j rest s ac res hv hcas hres hwhy => exact Evol.refl _
  | @startOk j rest s ac cs s' ok cur hv hcas hf hrv hnb hna hpass ih =>
    obtain ⟨hjc, hjl, hjq⟩ := hq j (by simp)
    obtain ⟨hcj, hinv1⟩ := Inv_applyStart hinv hjc hjq hjl hf hrv hcas
    subst hcj
    obtain ⟨hst, _⟩ := (isQueued_iff cur).mp hjq
    have hnone : cur.startTime = none := by
      simpa [JobV.isStarted] using hst
    have h1 : Evol s.jobs (applyWrite s "start" cur.name (startedJob s cur cur)).jobs :=
      evol_setJob (cur := cur) hf (fun t ht => by rw [hnone] at ht; cases ht)
    exact h1.trans (ih hinv1 (fun x hx => hq x (by simp [hx])))
  | @startLost j rest s ac cur hv hcas hf hrv hnb hna =>
    exact absurd hna hinv.nextFault_ne_applied

theorem workConfig_evol {s : Sys} (h : Inv s) : Evol s.jobs (workConfig s).1.jobs := by
  rcases workConfig_cases s with ⟨_, _, hj⟩ | ⟨k, q1, jc, hg, hjc⟩
  · exact Evol.of_eq hj
  · obtain ⟨s1, ok, hp, hw⟩ := workConfig_Pass hg hjc
    rw [hw]
    have hq : QueuedIn (cfgPre s q1) jc (listQueued s.jobCache jc) := queuedIn_listQueued s jc
    have he : Evol (cfgPre s q1).jobs s1.jobs := pass_evol hp (Inv_cfgPre h q1) hq
    exact he

theorem workIndependent_evol {s : Sys} (h : Inv s) : Evol s.jobs (workIndependent s).1.jobs := by
  rcases workIndependent_cases s with ⟨_, hw⟩ | ⟨k, q1, hg, ⟨_, hw⟩ | ⟨j, _, _, _, _, hw⟩ |
      ⟨j, hj, hq, hd, ⟨res, hres, _, hw⟩ | ⟨cur, hcur, hrv, _, hw⟩⟩⟩
  · rw [hw]; exact Evol.refl _
  · rw [hw]; exact Evol.refl _
  · rw [hw]; exact Evol.refl _
  · rw [hw]; exact Evol.refl _
  · rw [hw]
    have hjc : j ∈ s.jobCache := findJob_some_mem hj
    have hcj : cur = j := h.cached_eq_cur hjc hcur hrv
    subst hcj
    obtain ⟨hst, _⟩ := (isQueued_iff cur).mp hq
    have hnone : cur.startTime = none := by
      simpa [JobV.isStarted] using hst
    exact evol_setJob (l := s.jobs) (cur := cur) (nj := startedJob s cur cur) hcur
      (fun t ht => by rw [hnone] at ht; cases ht)

/-! ### every action except creation and deletion -/

theorem jobs_userAddJC (s : Sys) (jc : JCV) : (userAddJC s jc).jobs = s.jobs := by
  unfold userAddJC; split <;> rfl

theorem jobs_setMaxConc (s : Sys) (n : String) (m : Int) : (setMaxConc s n m).jobs = s.jobs := by
  unfold setMaxConc; split <;> rfl

theorem jobs_deliverJob (s : Sys) : (deliverJob s).jobs = s.jobs := by
  cases hevs : s.jobEvs with
  | nil => unfold deliverJob; rw [hevs]
  | cons e rest => rw [deliverJob_eq hevs]

theorem jobs_deliverJC (s : Sys) : (deliverJC s).jobs = s.jobs := by
  unfold deliverJC; split <;> rfl

theorem jobs_notifyStore (s : Sys) : (notifyStore s).jobs = s.jobs := by
  unfold notifyStore; split <;> rfl

theorem jobs_notifyCtrl (s : Sys) : (notifyCtrl s).jobs = s.jobs := by
  unfold notifyCtrl
  split
  · rfl
  · unfold ctrlNotify; split <;> rfl

theorem evol_editStartAfter (s : Sys) (n : String) (t : Option Int) :
    Evol s.jobs (editStartAfter s n t).jobs := by
  unfold editStartAfter
  split
  · exact Evol.refl _
  · split
    · exact evol_mutateJob s n _ (fun j => ⟨rfl, rfl⟩)
    · exact Evol.refl _

/-- one step that is neither a creation nor a deletion of a Job -/
theorem step_evol {s : Sys} (h : Inv s) (a : Act) (hadd : ∀ j, a ≠ .addJob j)
    (hdel : ∀ n, a ≠ .removeJob n) : Evol s.jobs (step s a).jobs := by
  cases a with
  | addJC jc => exact Evol.of_eq (jobs_userAddJC s jc)
  | addJob j => exact absurd rfl (hadd j)
  | finishJob n => exact evol_mutateJob s n finish (fun j => ⟨rfl, rfl⟩)
  | markRejected n => exact evol_mutateJob s n finish (fun j => ⟨rfl, rfl⟩)
  | removeJob n => exact absurd rfl (hdel n)
  | editStartAfter n t => exact evol_editStartAfter s n t
  | setMaxConc n m => exact Evol.of_eq (jobs_setMaxConc s n m)
  | tick d => exact Evol.refl _
  | deliverJob => exact Evol.of_eq (jobs_deliverJob s)
  | deliverJC => exact Evol.of_eq (jobs_deliverJC s)
  | notifyStore => exact Evol.of_eq (jobs_notifyStore s)
  | notifyCtrl => exact Evol.of_eq (jobs_notifyCtrl s)
  | resync => exact Evol.refl _
  | fault f => exact Evol.refl _
  | workConfig => exact workConfig_evol h
  | workIndependent => exact workIndependent_evol h
  | restart => exact Evol.refl _

/-! ### property theorems -/

/-- one step, persistence form: in a reachable state, a Job named `n` whose authoritative
`status.startTime` is `some t` is, after ANY action of `Act` other than the deletion of `n`, still
there with `startTime = some t` (no `Allowed` hypothesis is needed for the step itself) -/
theorem startTime_kept_queue_step {s : Sys} (h : Reachable s) (a : Act) {n : String} {j : JobV}
    {t : Int} (hf : findJob s.jobs n = some j) (ht : j.startTime = some t)
    (hne : a ≠ .removeJob n) :
    ∃ j', findJob (step s a).jobs n = some j' ∧ j'.startTime = some t := by
  by_cases hadd : ∃ x, a = .addJob x
  · obtain ⟨x, rfl⟩ := hadd
    refine ⟨j, ?_, ht⟩
    show findJob (userAddJob s x).jobs n = some j
    unfold userAddJob
    split
    · exact hf
    · simp only [findJob, List.find?_append] at hf ⊢
      rw [hf]; rfl
  · by_cases hdel : ∃ m, a = .removeJob m
    · obtain ⟨m, rfl⟩ := hdel
      refine ⟨j, ?_, ht⟩
      show findJob (removeJob s m).jobs n = some j
      have hmn : m ≠ n := fun e => hne (by rw [e])
      unfold removeJob
      split
      · exact hf
      · simp only [findJob_delJob, hmn, if_false]; exact hf
    · have := step_evol h.inv a (fun x e => hadd ⟨x, e⟩) (fun m e => hdel ⟨m, e⟩)
      obtain ⟨j', hj', hk⟩ := (this n).2 j hf
      exact ⟨j', hj', hk t ht⟩

/-- `startTime_stable`, one step of the job-queue controller's transition system: for every
reachable state, every action `a : Act` and every authoritative Job `j` with
`status.startTime = some t`, the Job of that name after the step — if it still exists (`removeJob`
may delete it) — has `startTime = some t`.  Whatever the caches hold, whatever faults are injected. -/
theorem startTime_stable_queue_step {s : Sys} (h : Reachable s) (a : Act) {j : JobV}
    (hj : j ∈ s.jobs) {t : Int} (ht : j.startTime = some t) :
    ∀ j', findJob (step s a).jobs j.name = some j' → j'.startTime = some t := by
  intro j' hj'
  have hf : findJob s.jobs j.name = some j := findJob_of_mem_nodup h.inv.jobsNodup hj
  by_cases hdel : a = .removeJob j.name
  · subst hdel
    have hnone : findJob (removeJob s j.name).jobs j.name = none := by
      unfold removeJob
      rw [hf]
      simp only [findJob_delJob, if_true]
    rw [show (step s (.removeJob j.name)).jobs = (removeJob s j.name).jobs from rfl, hnone] at hj'
    cases hj'
  · obtain ⟨j'', hj'', hk⟩ := startTime_kept_queue_step h a hf ht hdel
    rw [hj''] at hj'; cases hj'; exact hk

/-- `startTime_stable` along action lists: from a reachable state, along every allowed
continuation that does not delete the Job, a Job started at `t` is still there and still started
at `t` -/
theorem startTime_stable_queue {s : Sys} (h : Reachable s) (acts : List Act)
    (hall : AllowedAll s acts) {n : String} {j : JobV} {t : Int}
    (hf : findJob s.jobs n = some j) (ht : j.startTime = some t)
    (hno : Act.removeJob n ∉ acts) :
    ∃ j', findJob (runActs s acts).jobs n = some j' ∧ j'.startTime = some t := by
  induction acts generalizing s j with
  | nil => exact ⟨j, hf, ht⟩
  | cons a rest ih =>
    have hne : a ≠ .removeJob n := fun e => hno (by rw [e]; exact List.mem_cons_self)
    obtain ⟨j1, hf1, ht1⟩ := startTime_kept_queue_step h a hf ht hne
    exact ih (Reachable.step s a h hall.1) hall.2 hf1 ht1
      (fun hm => hno (List.mem_cons_of_mem _ hm))

/-- … and in the "if it still exists" form over action lists: whatever Job bears the name at the
end of an allowed continuation has `startTime = some t`, unless the continuation deleted the Job
(after which the name may be given to a new Job: E-FreshName) -/
theorem startTime_stable_queue_runActs {s : Sys} (h : Reachable s) (acts : List Act)
    (hall : AllowedAll s acts) {j : JobV} (hj : j ∈ s.jobs) {t : Int} (ht : j.startTime = some t) :
    Act.removeJob j.name ∈ acts ∨
      ∀ j', findJob (runActs s acts).jobs j.name = some j' → j'.startTime = some t := by
  by_cases hno : Act.removeJob j.name ∈ acts
  · exact Or.inl hno
  · right
    intro j' hj'
    obtain ⟨j'', hj'', hk⟩ := startTime_stable_queue h acts hall
      (findJob_of_mem_nodup h.inv.jobsNodup hj) ht hno
    rw [hj''] at hj'; cases hj'; exact hk

/-- a Job that is authoritatively started is never started again: no start call for it is logged
"ok" by either worker, whatever the caches hold (the mechanism behind the stability theorem) -/
theorem started_never_restarted {s : Sys} (h : Reachable s) {n : String} {cur : JobV} {t : Int}
    (hcur : findJob s.jobs n = some cur) (ht : cur.startTime = some t) :
    ⟨"start", n, "ok"⟩ ∉ (workConfig s).1.calls ∧
    ⟨"start", n, "ok"⟩ ∉ (workIndependent s).1.calls :=
  h.not_queued_never_started hcur (by simp [JobV.isQueued, JobV.isStarted, ht])

/-! ### non-vacuity: started Job, stale cache, second sync -/

def jcC : JCV := { name := "c", uid := "u", maxConc := 3, rv := 0 }
def flush : List Act := [.deliverJob, .notifyStore, .notifyCtrl]

/-- the owned Job `a` and the independent Job `i` are created and delivered; both workers run and
start them at 0 s; the two update events are NOT delivered; 3 s later a resync of the (stale) cache
re-queues both keys -/
def histTwice : List Act :=
  [.addJC jcC, .deliverJC, .addJob (mk "a" false 0 none)] ++ flush ++
  [.addJob (mkInd "i" false none)] ++ flush ++
  [.workConfig, .workIndependent, .tick 3000000000, .resync, .notifyCtrl, .notifyCtrl]
def sTwice : Sys := runActs {} histTwice
theorem sTwice_reachable : Reachable sTwice := reachable_runB _ (by decide +kernel)

/-- in the reachable state `sTwice` both Jobs are started at 0 s on the server while the cache still
holds the unstarted copies and both keys are ready; the second worker step of each queue is refused
with a conflict and leaves `startTime = 0 s` (at clock 3 s) -/
example : Reachable sTwice ∧ sTwice.clock = 3000000000 ∧ sTwice.jobEvs.length = 2 ∧
    (findJob sTwice.jobs "a").map (·.startTime) = some (some 0) ∧
    (findJob sTwice.jobCache "a").map (·.startTime) = some none ∧
    (findJob sTwice.jobs "i").map (·.startTime) = some (some 0) ∧
    (findJob sTwice.jobCache "i").map (·.startTime) = some none ∧
    (workConfig sTwice).1.calls = [⟨"start", "a", "conflict"⟩] ∧
    (workIndependent sTwice).1.calls = [⟨"start", "i", "conflict"⟩] ∧
    (findJob (workConfig sTwice).1.jobs "a").map (·.startTime) = some (some 0) ∧
    (findJob (workIndependent sTwice).1.jobs "i").map (·.startTime) = some (some 0) :=
  ⟨sTwice_reachable, by decide +kernel, by decide +kernel, by decide +kernel, by decide +kernel,
    by decide +kernel, by decide +kernel, by decide +kernel, by decide +kernel, by decide +kernel,
    by decide +kernel⟩

/-- the list theorem is applicable there: the continuation [second sync of both queues, delivery of
everything, third sync] is allowed and deletes nothing -/
example : allowedAllB sTwice ([.workConfig, .workIndependent] ++ flush ++ flush ++
    [.workConfig, .workIndependent]) = true := by decide +kernel

end Furiko.Props.C11Queue
