/-
C13, the LIVENESS half for the job controller (`deletion_completes`: "once the Job carries a deletion
timestamp its tasks are deleted, then the finalizer is removed, then the object disappears"), with a
COOPERATIVE KUBELET.  The environment is the round `Live.roundK` of `Props/C12Live.lean`:

    deliverAll ; reap ; deliverAll ; work ; deliverAll

Theorems (helper files `Proofs/JobCtlLiveD1 … D5.lean`):
* `delete_converges` (L4, from the Job's creation): a single-task Job runs any finite number of fair rounds
  under arbitrary fault lists; the Job on the server carries the delete-dependents finalizer; the user
  deletes it (`Action.userDelete`: the API server sets `metadata.deletionTimestamp`).  At most TWO rounds
  `roundK` later the Job object and every pod are gone from the server and from the controller's caches
  and nothing is in flight: round 1 `handleFinishFinalizer` deletes every pod (finished or not) gracefully
  and the kubelet terminates them; round 2 it finds no task left, drops the finalizer, and the `Update` that
  drops it removes the object.  Every further round leaves that state as it is.
* `delete_converges_from_quiescent_partial`: the same from ANY quiescent state of ANY Job that carries a
  deletion timestamp and the finalizer (`Live.DState`); `_partial` as in C12Live.
-/
import FurikoModel.Proofs.JobCtlLiveD5

set_option linter.unusedVariables false
set_option linter.unusedSimpArgs false

namespace Furiko.Props.C13Live
open Furiko Furiko.JobCtl Furiko.JobCtl.Live

/-- **delete_converges_from_quiescent_partial** (L4 from an invariant).  Go: `Reconciler.SyncOne` on a Job with
`metadata.deletionTimestamp` set and the delete-dependents finalizer (any template, started or not):
`syncJobTasks` is skipped (`IsDeleted`), `handleTTLAfterFinished` returns, and `handleFinishFinalizer` looks
up the tasks of the status (cache, absence confirmed by a live GET) plus the unrecorded pods of the cache;
while there are any it marks their refs `JobDeleted`, issues a graceful `Delete` for each and keeps the
finalizer; when there is none it returns the Job without the finalizer, and `SyncOne`'s `Update` of the
finalizers removes the object (the `UpdateStatus` that may follow is answered NotFound and the pass
reports an error — the object is gone all the same).  From any state `s` satisfying `DState` — caches =
server, nothing pending, no fault queued; every pod on the server controlled by and labelled with the Job and
readable; names distinct; the work queue idle and well-formed — whose key is ready, at most two rounds
`roundK` reach `Gone`: no Job object and no pod on the server or in the caches, no event pending; and
`Gone` is kept by every further round.
MISSING (hence `_partial`): as for `C12Live.kill_converges_from_quiescent_partial` — `DState` is assumed, not
derived from reachability; the kubelet is cooperative (a pod that never terminates blocks the finalizer:
there is no force-delete on this path); faults during these rounds are not covered. -/
theorem delete_converges_from_quiescent_partial (j0 jo : JobObj) (s : Sys) (h : DState jo s) (hq : s.q.queue ≠ []) :
    ∃ k, 1 ≤ k ∧ k ≤ 2 ∧ Steps killEnv j0 s (roundKN k s) ∧ Gone (roundKN k s) ∧
      ∀ n, Gone (roundKN n (roundKN k s)) := by
  obtain ⟨k, hk1, hk2, hg⟩ := delete_core h hq
  exact ⟨k, hk1, hk2, roundKN_steps (fun _ _ h => h) k s s (.refl s), hg, gone_forever hg⟩

/-- **delete_converges** (L4, from the Job's creation; the job-controller instance of C13's
`deletion_completes`).  The Job and the oracle as in `C20Live.single_task_job_converges_under_faults`.  The
Job runs ANY finite list `fss` of fair rounds under arbitrary fault lists (it may have live, finished,
unrecorded or no pods, and be finished or not); the Job on the server then carries the finalizer (`hfz`;
the controller never adds or drops it before the deletion); the user deletes the Job (`deleteAt`: the
deletion timestamp is set and delivered).  At most two rounds `roundK` later the Job object and all its
pods are gone from server and caches, nothing is in flight (`Gone`), and every further round keeps it.
The whole run is a path from the creation of the Job. -/
theorem delete_converges (orc : String → Outcome) (clock : Int) (cfg : ExecConfig) (d : PIndex)
    (j0 : JobObj) (hwf : WF j0) (hspec : SimpleSpec j0.job) (hn : 1 ≤ j0.job.maxAttempts)
    (hunf : j0.job.status.condition.finished = none) (hdash : '-' ∉ d.hash.toList) (F0 : Int)
    (hF0 : F0 ≤ secs (clock / 1000000000)) (fss : List (List String))
    (hTF : ∀ pre suf, fss = pre ++ suf → pre ≠ [] →
      (roundsF orc pre (startState clock cfg d j0)).clock < F0 + getTTLAfterFinished j0.job cfg)
    (hfz : ∀ jo, (roundsF orc fss (startState clock cfg d j0)).job = some jo → jo.finalizer = true) :
    ∃ k, 1 ≤ k ∧ k ≤ 2 ∧
      Steps deleteRunEnv j0 (startState clock cfg d j0) (roundKN k (deleteAt (roundsF orc fss (startState clock cfg d j0)))) ∧
      Gone (roundKN k (deleteAt (roundsF orc fss (startState clock cfg d j0)))) ∧
      ∀ n, Gone (roundKN n (roundKN k (deleteAt (roundsF orc fss (startState clock cfg d j0))))) := by
  obtain ⟨jo, _, hds, hq⟩ := dstate_after_delete orc clock cfg d j0 hwf hspec hn hunf hdash F0 hF0 fss hTF hfz
  obtain ⟨k, hk1, hk2, hg⟩ := delete_core hds hq
  have hsteps : Steps deleteRunEnv j0 (startState clock cfg d j0)
      (roundKN k (deleteAt (roundsF orc fss (startState clock cfg d j0)))) :=
    roundKN_steps killEnv_in_deleteRunEnv k _ _
      (deleteAt_steps (fun _ => trivial) (fun _ => trivial) (fun _ => trivial) _ _
        (roundsF_steps fair_in_deleteRunEnv (fun _ _ => trivial) orc fss _ _ (.refl _)))
  exact ⟨k, hk1, hk2, hsteps, hg, gone_forever hg⟩

/-! ### non-vacuity: the Job of `JobCtlInvExamples` with the finalizer, deleted while its first pod runs -/

def orcFail : String → Outcome := fun _ => .fail
def start : Sys := startState 0 {} Ex.d exJobF
/-- after the first round the pod of attempt 0 is alive and the Job carries the finalizer; the user's delete is
delivered; round 1 gives the pod its deletion timestamp and keeps the Job (with the finalizer), round 2 finds
the pod gone and removes the object; round 3 changes nothing -/
example :
    (roundsF orcFail [[]] start).pods.map (fun p => (p.pod.name, p.pod.isFinished)) = [("job-h-0", false)] ∧
    (roundsF orcFail [[]] start).job.map (·.finalizer) = some true ∧
    (roundKN 1 (deleteAt (roundsF orcFail [[]] start))).pods.map (fun p => (p.pod.name, p.pod.deletionTimestamp.isSome)) =
      [("job-h-0", true)] ∧
    (roundKN 1 (deleteAt (roundsF orcFail [[]] start))).job.map (fun j => (j.finalizer, j.job.deletionTimestamp.isSome)) =
      some (true, true) ∧
    (roundKN 2 (deleteAt (roundsF orcFail [[]] start))).pods = [] ∧
    (roundKN 2 (deleteAt (roundsF orcFail [[]] start))).job = none ∧
    (roundKN 2 (deleteAt (roundsF orcFail [[]] start))).jobCache = none ∧
    (roundKN 3 (deleteAt (roundsF orcFail [[]] start))).job = none := by
  refine ⟨by decide +kernel, by decide +kernel, by decide +kernel, by decide +kernel, by decide +kernel, by decide +kernel,
    by decide +kernel, by decide +kernel⟩

/-- the hypotheses of `delete_converges` hold for that run, hence those of
`delete_converges_from_quiescent_partial` for the state after the delete was delivered -/
example : ∃ jo, DState jo (deleteAt (roundsF orcFail [[]] start)) ∧ (deleteAt (roundsF orcFail [[]] start)).q.queue ≠ [] := by
  have hTF : ∀ pre suf, [([] : List String)] = pre ++ suf → pre ≠ [] →
      (roundsF orcFail pre start).clock < 0 + getTTLAfterFinished exJobF.job {} := by
    intro pre suf e hne
    have : pre = [[]] := by
      match pre, suf, e, hne with
      | [a], suf, e, _ => simp at e; rw [← e.1]
      | a :: b :: r, suf, e, _ => simp at e
    subst this
    decide +kernel
  have hfz : ∀ jo, (roundsF orcFail [[]] start).job = some jo → jo.finalizer = true := by
    intro jo hjo
    have h2 : (roundsF orcFail [[]] start).job.map (·.finalizer) = some true := by decide +kernel
    rw [hjo] at h2
    exact Option.some.inj h2
  obtain ⟨jo, _, h, hq⟩ := dstate_after_delete orcFail 0 {} Ex.d exJobF ex_wfF ex_specF (by decide) (by decide) (by decide) 0
    (by decide) [[]] hTF hfz
  exact ⟨jo, h, hq⟩

end Furiko.Props.C13Live
