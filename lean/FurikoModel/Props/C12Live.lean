/-
C12, the LIVENESS half for the job controller ("once spec.killTimestamp has passed … every task that is
not finished is deleted … and the Job ends `Killed`"), with a COOPERATIVE KUBELET: a pod that carries a
deletion timestamp terminates (`Action.podGone`).

The environment is the deterministic round `Live.roundK` (`Proofs/JobCtlLiveK8.lean`), composed of existing
`Action`s only:

    deliverAll ; reap ; deliverAll ; work ; deliverAll

* `deliverAll` — both informers deliver every pending watch event;
* `reap`       — the kubelet finishes the termination of every pod that carries a deletion timestamp
                 (`podGone`, guard: the deletion timestamp is set); no other kubelet write, no clock advance;
* `work`       — one step of `reconciler.Controller.work`.

Theorems (helper files `Proofs/JobCtlLiveK1 … K10.lean`):
* `kill_converges` (L3, from the Job's creation): a single-task Job runs any finite number of fair rounds
  under arbitrary fault lists (`Live.roundsF`, as in C20Live); then the user sets `spec.killTimestamp` to a
  time that has passed.  At most TWO rounds `roundK` later the authoritative Job is `Finished` with result
  `Killed`, every pod that was not finished is gone from the server (it got its deletion timestamp in the
  first pass — graceful `Delete` by `handleKillJob` — and the kubelet terminated it), the pods left are the
  ones that had finished before, and nothing is in flight.
* `kill_converges_from_quiescent_partial`: the same from ANY quiescent state of ANY Job (parallel or not)
  whose kill timestamp has passed (`Live.KState`); `_partial` because `KState` is not derived from
  reachability (see its docstring).
* `kill_converges_dead_kubelet` (L3 with a DEAD kubelet, from the Job's creation; helper files
  `Proofs/JobCtlLiveF1 … F6.lean`): after the kill no pod ever terminates on its own; the round is
  `Live.roundD adv = deliverAll ; advance adv ; work ; deliverAll` with `adv ≥ forceDeleteTaskTimeout > 0`
  nanoseconds passing before each pass, force deletion not forbidden by the template.  At most THREE rounds
  later the Job is `Finished`/`Killed` and every pod that was alive has been FORCE-deleted
  (`handleForceDeleteKillingTasks`).  `kill_converges_dead_kubelet_from_quiescent_partial`: the same from
  any `KState` without a pod being deleted yet.
-/
import FurikoModel.Proofs.JobCtlLiveF6

set_option linter.unusedVariables false
set_option linter.unusedSimpArgs false

namespace Furiko.Props.C12Live
open Furiko Furiko.JobCtl Furiko.JobCtl.Live

/-- a kill round is a path of the transition system whose actions are controller passes, informer
deliveries and the kubelet terminating pods that carry a deletion timestamp -/
theorem kill_round_is_path (j0 : JobObj) (s : Sys) : Steps killEnv j0 s (roundK s) :=
  roundK_steps (fun _ _ h => h) s s (.refl s)

/-- **kill_converges_from_quiescent_partial** (L3 from an invariant).  Go: `Reconciler.SyncOne` on a Job with
`Spec.KillTimestamp = kt ≤ now` (any template, parallel or not, started, no admission error, not being
deleted): `syncCreateTasks` creates nothing (`canCreateTask` is false) and adopts the unrecorded pods,
`handlePendingTasks` and `handleKillJob` issue a graceful `Delete` for every task that is not finished and
not being deleted, `handleForceDeleteKillingTasks` does nothing (no task is being deleted at that point),
and the recomputed status is written.  From any state `s` satisfying `KState` — caches = server, no watch
event pending, no fault queued; every pod on the server is controlled by and labelled with the Job and
cannot make `PodTask.GetTaskRef` panic; pod names pairwise distinct; the work queue idle and well-formed;
`F0` a lower bound of `kt` and of all finish times, the TTL after `F0` not elapsed — whose key is ready
(`hq`), at most two rounds `roundK` reach a state with the Job `Finished`/`Killed` (`KilledFinal`); every pod
left is finished and was finished, without deletion timestamp, in `s`: every pod that was alive is gone.
A further round that runs a pass keeps this (`Live.kill_final_stable`).
MISSING (hence `_partial`): (a) `KState` is assumed, not derived from reachability (a foreign pod with the
Job's label, or the panic shape of `GetTaskRef`, falsify it); (b) the kubelet is cooperative here; the
other extreme, a kubelet that terminates nothing, is `kill_converges_dead_kubelet…` below; a kubelet that
terminates some pods and not others is not covered; (c) faults during the kill rounds are not covered. -/
theorem kill_converges_from_quiescent_partial (j0 jo : JobObj) (kt : Time) (F0 : Int) (s : Sys) (h : KState jo kt F0 s)
    (hq : s.q.queue ≠ []) :
    ∃ k, 1 ≤ k ∧ k ≤ 2 ∧ Steps killEnv j0 s (roundKN k s) ∧ KilledFinal jo.name (roundKN k s) ∧
      (roundKN k s).clock = s.clock ∧
      ∀ p' ∈ (roundKN k s).pods, ∃ p ∈ s.pods, p.pod.name = p'.pod.name ∧ p.pod.isFinished = true ∧
        p.pod.deletionTimestamp = none := by
  obtain ⟨k, hk1, hk2, jo', hks, hn, _, hd, hc, hp⟩ := kill_core h hq
  exact ⟨k, hk1, hk2, roundKN_steps (fun _ _ h => h) k s s (.refl s), by rw [← hn]; exact killedFinal_of hks hd, hc, hp⟩

/-- **kill_converges** (L3, from the Job's creation; the job-controller instance of C12's liveness clause).
The Job and the oracle as in `C20Live.single_task_job_converges_under_faults`: started, `Parallelism` nil,
`maxAttempts = n ≥ 1`, any retry delay / pending timeout.  The Job runs ANY finite list `fss` of fair rounds
whose passes run under arbitrary fault lists (so it may be anywhere in its life: between attempts, with a
live pod just created, with an unrecorded pod after a failed status update, or already finished); then the
user sets `spec.killTimestamp := t` with `t ≤ now` (`Action.kill t`, delivered by the informer: `killAt`).
At most two rounds `roundK` later (round 1: `handleKillJob` deletes every unfinished pod gracefully and the
kubelet terminates it; round 2: the refs of the vanished pods are recorded as finished and the condition is
recomputed) the authoritative Job is `Finished` with `Result = Killed`, every pod left on the server is
finished and had finished before the kill — every pod that was alive has been deleted — and nothing is in
flight.  The whole run is a path from the creation of the Job.  `hTF`, `hTk`: the TTL after finish, counted
from the lower bound `F0` of all finish times and of `t`, has not elapsed. -/
theorem kill_converges (orc : String → Outcome) (clock : Int) (cfg : ExecConfig) (d : PIndex)
    (j0 : JobObj) (hwf : WF j0) (hspec : SimpleSpec j0.job) (hn : 1 ≤ j0.job.maxAttempts)
    (hunf : j0.job.status.condition.finished = none) (hdash : '-' ∉ d.hash.toList) (F0 : Int)
    (hF0 : F0 ≤ secs (clock / 1000000000)) (fss : List (List String))
    (hTF : ∀ pre suf, fss = pre ++ suf → pre ≠ [] →
      (roundsF orc pre (startState clock cfg d j0)).clock < F0 + getTTLAfterFinished j0.job cfg)
    (t : Time) (ht : t ≤ (roundsF orc fss (startState clock cfg d j0)).clock) (hFt : F0 ≤ t)
    (hTk : (roundsF orc fss (startState clock cfg d j0)).clock < F0 + getTTLAfterFinished j0.job cfg) :
    ∃ k, 1 ≤ k ∧ k ≤ 2 ∧
      Steps killRunEnv j0 (startState clock cfg d j0) (roundKN k (killAt t (roundsF orc fss (startState clock cfg d j0)))) ∧
      KilledFinal j0.name (roundKN k (killAt t (roundsF orc fss (startState clock cfg d j0)))) ∧
      ∀ p' ∈ (roundKN k (killAt t (roundsF orc fss (startState clock cfg d j0)))).pods,
        ∃ p ∈ (roundsF orc fss (startState clock cfg d j0)).pods, p.pod.name = p'.pod.name ∧ p.pod.isFinished = true := by
  obtain ⟨jo, hname, hks, hq, hpods, _⟩ := kstate_after_kill orc clock cfg d j0 hwf hspec hn hunf hdash F0 hF0 fss hTF t ht hFt hTk
  obtain ⟨k, hk1, hk2, jo', hks', hn', _, hd, _, hp⟩ := kill_core hks hq
  have hsteps : Steps killRunEnv j0 (startState clock cfg d j0)
      (roundKN k (killAt t (roundsF orc fss (startState clock cfg d j0)))) :=
    roundKN_steps killEnv_in_killRunEnv k _ _
      (killAt_steps (fun _ => trivial) (fun _ => trivial) (fun _ _ => trivial) t _ _
        (roundsF_steps fair_in_killRunEnv (fun _ _ => trivial) orc fss _ _ (.refl _)))
  refine ⟨k, hk1, hk2, hsteps, by rw [← hname, ← hn']; exact killedFinal_of hks' hd, ?_⟩
  intro p' hp'
  obtain ⟨p, hpm, e1, e2, _⟩ := hp p' hp'
  exact ⟨p, by rw [← hpods]; exact hpm, e1, e2⟩

/-- a round with a dead kubelet is a path of the transition system whose actions are controller passes,
informer deliveries and clock advances -/
theorem dead_round_is_path (j0 : JobObj) (adv : Nat) (s : Sys) : Steps deadEnv j0 s (roundD adv s) :=
  roundD_steps (fun _ _ h => h) adv s s (.refl s)

/-- **kill_converges_dead_kubelet_from_quiescent_partial** (L3 by force deletion, from an invariant).  Go: as in
`kill_converges_from_quiescent_partial`, and `handleForceDeleteKillingTasks`: for every listed task with a
deletion timestamp `D`, once `D + forceDeleteTaskTimeoutSeconds ≤ now` (timeout `> 0`, the template's
`forbidTaskForceDeletion` false) a forced `Delete` (grace period 0) removes the pod object.  The kubelet is
DEAD: no pod terminates on its own.  From any state `s` satisfying `KState` in which no pod carries a deletion
timestamp yet and whose key is ready, with `adv ≥` the force-delete timeout nanoseconds passing before each
pass, at most three rounds `roundD adv` (1: graceful deletes mark every unfinished pod; 2: the timeout has
elapsed, they are force-deleted; 3: the refs of the vanished pods are recorded as finished, the condition is
recomputed) reach a state with the Job `Finished`/`Killed`, every pod left finished and finished already in
`s`.  `httl`: the TTL after finish, counted from the lower bound `F0`, does not elapse during the three rounds.
MISSING (hence `_partial`): `KState` is assumed, not derived from reachability; pods that already carry a
deletion timestamp in `s`, a kubelet that terminates some pods and not others, and faults during these
rounds are not covered.  With timeout `0`/unset or `forbidTaskForceDeletion` the Job stays `Killing` forever
(no theorem: `handleForceDeleteKillingTasks` returns at once). -/
theorem kill_converges_dead_kubelet_from_quiescent_partial (j0 jo : JobObj) (kt : Time) (F0 : Int) (s : Sys)
    (h : KState jo kt F0 s) (hq : s.q.queue ≠ []) (hnodel : ∀ p ∈ s.pods, p.pod.deletionTimestamp = none)
    (hF : 0 < getForceDeleteTimeout s.cfg)
    (hforb : (jo.job.template.map (·.forbidTaskForceDeletion)).getD false = false)
    (adv : Nat) (hadv : getForceDeleteTimeout s.cfg ≤ adv)
    (httl : s.clock + 3 * adv < F0 + getTTLAfterFinished jo.job s.cfg) :
    ∃ k, 1 ≤ k ∧ k ≤ 3 ∧ Steps deadEnv j0 s (roundDN adv k s) ∧ KilledFinal jo.name (roundDN adv k s) ∧
      ∀ p' ∈ (roundDN adv k s).pods, ∃ p ∈ s.pods, p.pod.name = p'.pod.name ∧ p.pod.isFinished = true := by
  obtain ⟨k, hk1, hk2, jo', hks, hn, hd, hp⟩ := kill_core_dead h hq hnodel hF hforb adv hadv httl
  exact ⟨k, hk1, hk2, roundDN_steps (fun _ _ h => h) adv k s s (.refl s), by rw [← hn]; exact killedFinal_of hks hd, hp⟩

/-- **kill_converges_dead_kubelet** (L3 by force deletion, from the Job's creation).  The Job, the oracle and
the run before the kill as in `kill_converges` (any finite list `fss` of fair rounds under arbitrary fault
lists — there the kubelet still works —, then `spec.killTimestamp := t ≤ now`, delivered).  From then on the
kubelet is dead; the force-delete timeout of the configuration is positive, the template does not forbid
force deletion, and `adv ≥` that timeout nanoseconds pass before each pass.  At most three rounds `roundD adv`
later the authoritative Job is `Finished` with `Result = Killed`, every pod left had finished before the
kill — every pod that was alive got a graceful delete in round 1 and a forced one in round 2 — and nothing
is in flight; the whole run is a path from the creation of the Job.  `hTk3`: the TTL does not elapse during
the three rounds. -/
theorem kill_converges_dead_kubelet (orc : String → Outcome) (clock : Int) (cfg : ExecConfig) (d : PIndex)
    (j0 : JobObj) (hwf : WF j0) (hspec : SimpleSpec j0.job) (hn : 1 ≤ j0.job.maxAttempts)
    (hunf : j0.job.status.condition.finished = none) (hdash : '-' ∉ d.hash.toList) (F0 : Int)
    (hF0 : F0 ≤ secs (clock / 1000000000)) (fss : List (List String))
    (hTF : ∀ pre suf, fss = pre ++ suf → pre ≠ [] →
      (roundsF orc pre (startState clock cfg d j0)).clock < F0 + getTTLAfterFinished j0.job cfg)
    (t : Time) (ht : t ≤ (roundsF orc fss (startState clock cfg d j0)).clock) (hFt : F0 ≤ t)
    (hF : 0 < getForceDeleteTimeout (roundsF orc fss (startState clock cfg d j0)).cfg)
    (hforb : (j0.job.template.map (·.forbidTaskForceDeletion)).getD false = false)
    (adv : Nat) (hadv : getForceDeleteTimeout (roundsF orc fss (startState clock cfg d j0)).cfg ≤ adv)
    (hTk3 : (roundsF orc fss (startState clock cfg d j0)).clock + 3 * adv < F0 + getTTLAfterFinished j0.job cfg) :
    ∃ k, 1 ≤ k ∧ k ≤ 3 ∧
      Steps deadRunEnv j0 (startState clock cfg d j0) (roundDN adv k (killAt t (roundsF orc fss (startState clock cfg d j0)))) ∧
      KilledFinal j0.name (roundDN adv k (killAt t (roundsF orc fss (startState clock cfg d j0)))) ∧
      ∀ p' ∈ (roundDN adv k (killAt t (roundsF orc fss (startState clock cfg d j0)))).pods,
        ∃ p ∈ (roundsF orc fss (startState clock cfg d j0)).pods, p.pod.name = p'.pod.name ∧ p.pod.isFinished = true := by
  have hTk : (roundsF orc fss (startState clock cfg d j0)).clock < F0 + getTTLAfterFinished j0.job cfg := by
    have : (roundsF orc fss (startState clock cfg d j0)).clock ≤ (roundsF orc fss (startState clock cfg d j0)).clock + 3 * adv := by
      omega
    exact Int.lt_of_le_of_lt this hTk3
  obtain ⟨jo, hname, hks, hq, hpods, hclock, hcfg, hnodel, htm, httl⟩ :=
    kstate_after_kill_dead orc clock cfg d j0 hwf hspec hn hunf hdash F0 hF0 fss hTF t ht hFt hTk
  obtain ⟨k, hk1, hk2, jo', hks', hn', hd, hp⟩ := kill_core_dead hks hq hnodel (by rw [hcfg]; exact hF)
    (by rw [htm]; exact hforb) adv (by rw [hcfg]; exact hadv) (by rw [hclock, httl]; exact hTk3)
  have hsteps : Steps deadRunEnv j0 (startState clock cfg d j0)
      (roundDN adv k (killAt t (roundsF orc fss (startState clock cfg d j0)))) :=
    roundDN_steps deadEnv_in_deadRunEnv adv k _ _
      (killAt_steps (fun _ => trivial) (fun _ => trivial) (fun _ _ => trivial) t _ _
        (roundsF_steps fair_in_deadRunEnv (fun _ _ => trivial) orc fss _ _ (.refl _)))
  refine ⟨k, hk1, hk2, hsteps, by rw [← hname, ← hn']; exact killedFinal_of hks' hd, ?_⟩
  intro p' hp'
  obtain ⟨p, hpm, e1, e2⟩ := hp p' hp'
  exact ⟨p, by rw [← hpods]; exact hpm, e1, e2⟩

/-! ### non-vacuity: the Job of `JobCtlInvExamples` (two attempts), killed while its first pod runs -/

def orcFail : String → Outcome := fun _ => .fail
def start : Sys := startState 0 {} Ex.d Ex.job

/-- after the first round the pod of attempt 0 is alive and the Job unfinished; the user's kill timestamp 0 is
delivered; round 1 of the kill gives the pod its deletion timestamp (the Job is not finished yet), round 2
finds it gone: the Job is Finished/Killed with the one ref finished, no pod is left -/
example :
    (roundsF orcFail [[]] start).pods.map (fun p => (p.pod.name, p.pod.isFinished)) = [("job-h-0", false)] ∧
    (0 : Int) ≤ (roundsF orcFail [[]] start).clock ∧
    (roundsF orcFail [[]] start).clock < 0 + getTTLAfterFinished Ex.job.job {} ∧
    (roundKN 1 (killAt 0 (roundsF orcFail [[]] start))).pods.map (fun p => (p.pod.name, p.pod.deletionTimestamp.isSome)) =
      [("job-h-0", true)] ∧
    (roundKN 1 (killAt 0 (roundsF orcFail [[]] start))).job.map (fun j => j.job.status.condition.finished.isSome) = some false ∧
    (roundKN 2 (killAt 0 (roundsF orcFail [[]] start))).pods = [] ∧
    (roundKN 2 (killAt 0 (roundsF orcFail [[]] start))).job.map
        (fun j => (j.job.status.condition.finished.map (·.result), j.job.status.tasks.map (·.finishTimestamp.isSome))) =
      some (some .killed, [true]) := by
  refine ⟨by decide +kernel, by decide +kernel, by decide +kernel, by decide +kernel, by decide +kernel, by decide +kernel,
    by decide +kernel⟩

/-- the hypotheses of `kill_converges` hold for that run, hence those of `kill_converges_from_quiescent_partial`
for the state after the kill was delivered -/
example : ∃ jo, KState jo 0 0 (killAt 0 (roundsF orcFail [[]] start)) ∧ (killAt 0 (roundsF orcFail [[]] start)).q.queue ≠ [] := by
  have hTF : ∀ pre suf, [([] : List String)] = pre ++ suf → pre ≠ [] →
      (roundsF orcFail pre start).clock < 0 + getTTLAfterFinished Ex.job.job {} := by
    intro pre suf e hne
    have : pre = [[]] := by
      match pre, suf, e, hne with
      | [a], suf, e, _ => simp at e; rw [← e.1]
      | a :: b :: r, suf, e, _ => simp at e
    subst this
    decide +kernel
  obtain ⟨jo, _, h, hq, _⟩ := kstate_after_kill orcFail 0 {} Ex.d Ex.job Ex.wf_job ex_spec (by decide) (by decide) (by decide) 0
    (by decide) [[]] hTF 0 (by decide +kernel) (by decide) (by decide +kernel)
  exact ⟨jo, h, hq⟩

/-! ### non-vacuity, dead kubelet: the same Job under a configuration with a force-delete timeout of 1 s -/

def cfgF : ExecConfig := { forceDeleteTaskTimeoutSeconds := some 1 }
def startF : Sys := startState 0 cfgF Ex.d Ex.job

/-- one second passes before each pass.  Round 1 of the kill gives the live pod its deletion timestamp, it stays
(dead kubelet); round 2 force-deletes it (the Job is not finished yet); round 3 records it: the Job is
Finished/Killed, no pod is left -/
example :
    (roundsF orcFail [[]] startF).pods.map (fun p => (p.pod.name, p.pod.isFinished)) = [("job-h-0", false)] ∧
    (0 : Int) < getForceDeleteTimeout (roundsF orcFail [[]] startF).cfg ∧
    getForceDeleteTimeout (roundsF orcFail [[]] startF).cfg ≤ (1000000000 : Nat) ∧
    (Ex.job.job.template.map (·.forbidTaskForceDeletion)).getD false = false ∧
    (roundsF orcFail [[]] startF).clock + 3 * (1000000000 : Nat) < 0 + getTTLAfterFinished Ex.job.job cfgF ∧
    (roundDN 1000000000 1 (killAt 0 (roundsF orcFail [[]] startF))).pods.map
        (fun p => (p.pod.name, p.pod.deletionTimestamp.isSome)) = [("job-h-0", true)] ∧
    (roundDN 1000000000 2 (killAt 0 (roundsF orcFail [[]] startF))).pods = [] ∧
    (roundDN 1000000000 2 (killAt 0 (roundsF orcFail [[]] startF))).job.map
        (fun j => j.job.status.condition.finished.isSome) = some false ∧
    ((JobCtl.work (step (roundDN 1000000000 1 (killAt 0 (roundsF orcFail [[]] startF))) (.advance 1000000000))).1.calls.filter
        (fun c => c.verb = "delete")).map (fun c => (c.name, c.force)) = [("job-h-0", true)] ∧
    (roundDN 1000000000 3 (killAt 0 (roundsF orcFail [[]] startF))).job.map
        (fun j => (j.job.status.condition.finished.map (·.result), j.job.status.tasks.map (·.finishTimestamp.isSome))) =
      some (some .killed, [true]) := by
  refine ⟨by decide +kernel, by decide +kernel, by decide +kernel, by decide +kernel, by decide +kernel, by decide +kernel,
    by decide +kernel, by decide +kernel, by decide +kernel, by decide +kernel⟩

/-- the hypotheses of `kill_converges_dead_kubelet_from_quiescent_partial` hold for the state after the kill was
delivered in that run -/
example : ∃ jo, KState jo 0 0 (killAt 0 (roundsF orcFail [[]] startF)) ∧
    (killAt 0 (roundsF orcFail [[]] startF)).q.queue ≠ [] ∧
    (∀ p ∈ (killAt 0 (roundsF orcFail [[]] startF)).pods, p.pod.deletionTimestamp = none) := by
  have hTF : ∀ pre suf, [([] : List String)] = pre ++ suf → pre ≠ [] →
      (roundsF orcFail pre startF).clock < 0 + getTTLAfterFinished Ex.job.job cfgF := by
    intro pre suf e hne
    have : pre = [[]] := by
      match pre, suf, e, hne with
      | [a], suf, e, _ => simp at e; rw [← e.1]
      | a :: b :: r, suf, e, _ => simp at e
    subst this
    decide +kernel
  obtain ⟨jo, _, h, hq, _, _, _, hnodel, _⟩ := kstate_after_kill_dead orcFail 0 cfgF Ex.d Ex.job Ex.wf_job ex_spec (by decide)
    (by decide) (by decide) 0 (by decide) [[]] hTF 0 (by decide +kernel) (by decide) (by decide +kernel)
  exact ⟨jo, h, hq, hnodel⟩

end Furiko.Props.C12Live
