/-
C04 — restart catch-up (`initialTime`, `newItem`, `schedNew`).

`downtimeNs cfg dflt = (if cfg > 0 then cfg else dflt) * 10^9`  (D),
`lowerNs jc cfg dflt now = max (match ls with some ls => max (ls*10^9) (now - D) | none => now)
                              (lu*10^9 if set)`                                (X),
`Eligible jc cfg dflt now m := jc.M' m ∧ X < m*10^9 ∧ (notBefore = some nbf → nbf ≤ m)`
(`jc.M'` now contains the `notBefore` bound itself — `getNext` enforces it on every Bump via
`applyNotBefore` — so the last conjunct, and the `-1ns` step of `initialTime`, are redundant but
kept so that the statements read as before).
No sign assumptions are needed: all statements hold for arbitrary integer `now`, timestamps and
downtimes (sub-second `now` included), because `floorSec` is the floor for negative values too.
-/
import FurikoModel.Proofs.CronInit
import FurikoModel.Proofs.CronCatchUp
import FurikoModel.Proofs.CronExamples
import FurikoModel.Proofs.CronLoaded

namespace Furiko.Cron.C04
open Furiko Furiko.Cron

/-- `initialTime` equals `X`, or `nbf*10^9 - 1` when `X` lies before `notBefore`; and the first
entry produced by `newItem` is the least matching in-window second `m` with `m*10^9 > X` and
`m ≥ notBefore` (the `-1ns` makes `notBefore` inclusive), or there is no entry iff no such second
exists. -/
theorem initial_lower_bound {jc : JC} (hs : ∀ l ∈ jc.sched.exprs, SortedStrict l)
    (hen : jc.sched.enabled = true) (hpe : jc.sched.parseErr = false) (cfg dflt now : Int) :
    (initialTime jc cfg dflt now =
      match jc.sched.notBefore with
      | some nbf =>
        if lowerNs jc cfg dflt now < nbf * 1000000000 then nbf * 1000000000 - 1
        else lowerNs jc cfg dflt now
      | none => lowerNs jc cfg dflt now) ∧
    ∃ r : Option Int,
      newItem jc cfg dflt now = .ok (r.map (fun n => (jc.key, n))) ∧
      (∀ m, r = some m → Eligible jc cfg dflt now m ∧ ∀ u, Eligible jc cfg dflt now u → m ≤ u) ∧
      (r = none → ∀ u, ¬ Eligible jc cfg dflt now u) :=
  ⟨initialTime_eq jc cfg dflt now, newEntry jc cfg dflt now, newItem_active hen hpe cfg dflt now,
    newEntry_spec hs cfg dflt now⟩

/-- non-vacuity: `Ex.jcA` restarted at 25.5 s, never scheduled: first entry is 30 -/
example : (∀ l ∈ Ex.jcA.sched.exprs, SortedStrict l) ∧ Ex.jcA.sched.enabled = true ∧
    Ex.jcA.sched.parseErr = false ∧
    (match newItem Ex.jcA 0 300 25500000000 with | .ok r => r | .error _ => none)
      = some ("a", 30) :=
  ⟨Ex.jcA_sorted, rfl, rfl, by decide⟩

/-- a time already scheduled before the restart is never requested again: the entry built at
start-up is strictly after `lastScheduled`.  (No assumption `ls*10^9 ≤ now` is needed.)  With
C01 (`fired_on_schedule`: every request is ≥ the entry) this covers every later request. -/
theorem never_rerequest {jc : JC} (hs : ∀ l ∈ jc.sched.exprs, SortedStrict l)
    (cfg dflt now : Int) {ls : Int} (hls : jc.lastScheduled = some ls) {k : String} {n : Int}
    (hn : newItem jc cfg dflt now = .ok (some (k, n))) : ls < n := by
  have hen : jc.sched.enabled = true := by
    cases h : jc.sched.enabled with
    | true => rfl
    | false => rw [newItem_disabled h] at hn; cases hn
  have hpe : jc.sched.parseErr = false := by
    cases h : jc.sched.parseErr with
    | false => rfl
    | true =>
      have := (newItem_error_iff jc cfg dflt now).2 ⟨hen, h⟩
      rw [this] at hn; cases hn
  rw [newItem_active hen hpe] at hn
  cases hr : newEntry jc cfg dflt now with
  | none => rw [hr] at hn; cases hn
  | some m =>
    rw [hr] at hn
    simp only [Option.map_some, Except.ok.injEq, Option.some.injEq, Prod.mk.injEq] at hn
    obtain ⟨_, rfl⟩ := hn
    have := ((newEntry_spec hs cfg dflt now).1 m hr).1.2.1
    unfold lowerNs at this
    rw [hls] at this
    cases hlu : jc.sched.lastUpdated <;> rw [hlu] at this <;> simp only [] at this <;> omega

example : let jc : JC := { Ex.jcA with lastScheduled := some 20 }
    (∀ l ∈ jc.sched.exprs, SortedStrict l) ∧ jc.lastScheduled = some 20 ∧
    (match newItem jc 0 300 25500000000 with | .ok r => r | .error _ => none)
      = some ("a", 30) :=
  ⟨Ex.jcA_sorted, rfl, by decide⟩

/-- a JobConfig that was never scheduled is not back-filled: its first entry is the least
matching in-window second `m ≥ notBefore` whose instant is strictly after `max now (lu*10^9)`;
in particular strictly after `now` (even when `now` is not a whole second). -/
theorem never_scheduled_no_backfill {jc : JC} (hs : ∀ l ∈ jc.sched.exprs, SortedStrict l)
    (hen : jc.sched.enabled = true) (hpe : jc.sched.parseErr = false)
    (cfg dflt now : Int) (hls : jc.lastScheduled = none) :
    lowerNs jc cfg dflt now =
      (match jc.sched.lastUpdated with | some lu => max now (lu * 1000000000) | none => now) ∧
    ∃ r : Option Int,
      newItem jc cfg dflt now = .ok (r.map (fun n => (jc.key, n))) ∧
      (∀ m, r = some m → now < m * 1000000000 ∧ Eligible jc cfg dflt now m ∧
        ∀ u, Eligible jc cfg dflt now u → m ≤ u) ∧
      (r = none → ∀ u, ¬ Eligible jc cfg dflt now u) := by
  have hlow : lowerNs jc cfg dflt now =
      (match jc.sched.lastUpdated with | some lu => max now (lu * 1000000000) | none => now) := by
    unfold lowerNs; rw [hls]; cases jc.sched.lastUpdated <;> rfl
  refine ⟨hlow, newEntry jc cfg dflt now, newItem_active hen hpe cfg dflt now, fun m hm => ?_,
    (newEntry_spec hs cfg dflt now).2⟩
  have h := (newEntry_spec hs cfg dflt now).1 m hm
  refine ⟨?_, h⟩
  have := h.1.2.1
  rw [hlow] at this
  cases hlu : jc.sched.lastUpdated <;> rw [hlu] at this <;> simp only [] at this <;> omega

example : (∀ l ∈ Ex.jcA.sched.exprs, SortedStrict l) ∧ Ex.jcA.sched.enabled = true ∧
    Ex.jcA.sched.parseErr = false ∧ Ex.jcA.lastScheduled = none :=
  ⟨Ex.jcA_sorted, rfl, rfl, rfl⟩

/-- one enabled JobConfig that does not parse aborts the whole load, and nothing else does -/
theorem schedNew_all_or_nothing (jcs : List JC) (cfg dflt now : Int) :
    schedNew jcs cfg dflt now = none ↔
      ∃ jc ∈ jcs, jc.sched.enabled = true ∧ jc.sched.parseErr = true :=
  schedNew_none_iff jcs cfg dflt now

/-- Catch-up after a restart is exact, whenever the informer's add notifications for the loaded
JobConfigs are handled.  `bootCtl jcs pq` is the state `CronWorker.Init` leaves behind (heap from
`schedNew`, lister = the loaded JobConfigs with distinct keys, the record of what was loaded);
`acts` is ANY boot sequence: ticks interleaved with the initial adds of loaded JobConfigs, each at
most once (`BootOK`; before the first tick, between ticks, or never).  The FIRST tick (at `n₁`)
requests for every enabled, parsing JobConfig exactly the `min cap |D|` earliest elements of
`D = {m | jc.M' m ∧ lowerNs < m*10^9 ∧ notBefore ≤ m ∧ m ≤ floorSec n₁}` (as a strictly increasing
list).  `n₁ ≥ now` is not needed.  (Tick-only form: `catch_up_lemma`.) -/
theorem catch_up_exact {jcs : List JC} {cfg dflt now : Int} {pq : Heap.PQ}
    (hnd : (jcs.map (fun jc => jc.key)).Nodup)
    (hs : ∀ jc ∈ jcs, ∀ l ∈ jc.sched.exprs, SortedStrict l)
    (h : schedNew jcs cfg dflt now = some pq) {n1 cap : Int} {flushLimit fuel : Nat}
    {acts : List CtlAct} (hok : BootOK jcs acts) {ts : List Int} (hticks : ticksOf acts = n1 :: ts)
    (hdone : (ctlRun Shapes.fixed cap flushLimit fuel (bootCtl jcs pq) acts).2.2 = true)
    {jc : JC} (hjc : jc ∈ jcs) (hen : jc.sched.enabled = true) (hpe : jc.sched.parseErr = false) :
    ∃ D : List Int, SortedStrict D ∧
      (∀ m, m ∈ D ↔ Eligible jc cfg dflt now m ∧ m ≤ floorSec n1) ∧
      ∃ first later,
        (ctlRun Shapes.fixed cap flushLimit fuel (bootCtl jcs pq) acts).2.1 = first :: later ∧
        (first.filter (fun p => p.1 = jc.key)).map (fun p => p.2) = D.take cap.toNat := by
  have hrun := (ctlRun_bootCtl cap flushLimit fuel pq hnd hok).2
  rw [hticks] at hrun
  rw [hrun] at hdone
  simp only [runTicks, Bool.and_eq_true] at hdone
  obtain ⟨D, hD, hmem, htake⟩ := catch_up_lemma hnd hs h hdone.1 hjc ⟨hen, hpe⟩
  refine ⟨D, hD, hmem, (work ⟨pq, listerOf jcs, []⟩ n1 cap flushLimit fuel).2.1,
    (runTicks cap flushLimit fuel (work ⟨pq, listerOf jcs, []⟩ n1 cap flushLimit fuel).1 ts).2.1,
    ?_, htake⟩
  rw [hrun]; rfl

/-- non-vacuity: `Ex.jcA` last scheduled at 5 s, restart at 25.5 s, first tick at 26 s with cap 2:
`D = [10, 15, 20]`, requested `[10, 15]` -/
example : let jc : JC := { Ex.jcA with lastScheduled := some 5 }
    ([jc].map (fun jc => jc.key)).Nodup ∧
    schedNew [jc] 0 300 25500000000 = some (Heap.new [("a", 10)]) ∧
    (work ⟨Heap.new [("a", 10)], [jc].map (fun jc => (jc.key, jc)), []⟩ 26000000000 2 1000 10).2
      = ([("a", 10), ("a", 15)], true) ∧
    -- … and the same with the initial add of "a" handled between `Init` and that tick
    BootOK [jc] [.initialAdd jc, .tick 26000000000] ∧
    (ctlRun Shapes.fixed 2 1000 10 (bootCtl [jc] (Heap.new [("a", 10)]))
      [.initialAdd jc, .tick 26000000000]).2 = ([[("a", 10), ("a", 15)]], true) :=
  ⟨by decide, rfl, by decide,
   ⟨by decide, by simp [initialAddsOf], by simp [initialAddsOf]⟩, by decide⟩

/-- `never_rerequest` composed with C01 over a whole run: after a restart (state `bootCtl jcs pq`
left by `Init`) no tick ever requests a time at or before `lastScheduled`, for ANY interleaving of
the ticks with the informer's initial adds of the loaded JobConfigs (`BootOK`).  (Tick-only form:
`never_rerequest_run_lemma`.) -/
theorem never_rerequest_run {jcs : List JC} {cfg dflt now : Int} {pq : Heap.PQ}
    (hnd : (jcs.map (fun jc => jc.key)).Nodup)
    (hs : ∀ jc ∈ jcs, ∀ l ∈ jc.sched.exprs, SortedStrict l)
    (h : schedNew jcs cfg dflt now = some pq) {cap : Int} {flushLimit fuel : Nat}
    {acts : List CtlAct} (hok : BootOK jcs acts) (hts : List.Pairwise (· ≤ ·) (ticksOf acts))
    (hdone : (ctlRun Shapes.fixed cap flushLimit fuel (bootCtl jcs pq) acts).2.2 = true)
    {jc : JC} (hjc : jc ∈ jcs) {ls : Int} (hls : jc.lastScheduled = some ls) :
    ∀ t, (jc.key, t) ∈
        (ctlRun Shapes.fixed cap flushLimit fuel (bootCtl jcs pq) acts).2.1.flatten →
      ls < t := by
  have hrun := (ctlRun_bootCtl cap flushLimit fuel pq hnd hok).2
  rw [hrun] at hdone ⊢
  exact never_rerequest_run_lemma hnd hs h _ hts hdone hjc hls

example : let jc : JC := { Ex.jcA with lastScheduled := some 15 }
    schedNew [jc] 0 300 25500000000 = some (Heap.new [("a", 20)]) ∧
    BootOK [jc] [.tick 26000000000, .initialAdd jc, .tick 31000000000] ∧
    (ctlRun Shapes.fixed 5 1000 10 (bootCtl [jc] (Heap.new [("a", 20)]))
      [.tick 26000000000, .initialAdd jc, .tick 31000000000]).2 = ([[("a", 20)], [("a", 30)]], true) :=
  ⟨rfl, ⟨by decide, by simp [initialAddsOf], by simp [initialAddsOf]⟩, by decide⟩

/-- **Any interleaving.**  A boot sequence requests, tick by tick, exactly what its ticks alone
request from the state `Init` left, and ends in the same heap / lister / channel: the initial adds
of loaded JobConfigs are invisible.  Every theorem of C01 about `runTicks` (exactly once, in
order, never early, complete when the cap is not hit) therefore speaks about the run after a
restart, however late the informer's notifications are handled. -/
theorem boot_run_eq_ticks {jcs : List JC} (pq : Heap.PQ)
    (hnd : (jcs.map (fun jc => jc.key)).Nodup) (cap : Int) (flushLimit fuel : Nat)
    {acts : List CtlAct} (hok : BootOK jcs acts) :
    (ctlRun Shapes.fixed cap flushLimit fuel (bootCtl jcs pq) acts).1.worker
      = (runTicks cap flushLimit fuel ⟨pq, jcs.map (fun jc => (jc.key, jc)), []⟩ (ticksOf acts)).1 ∧
    (ctlRun Shapes.fixed cap flushLimit fuel (bootCtl jcs pq) acts).2
      = (runTicks cap flushLimit fuel ⟨pq, jcs.map (fun jc => (jc.key, jc)), []⟩ (ticksOf acts)).2 :=
  ctlRun_bootCtl cap flushLimit fuel pq hnd hok

end Furiko.Cron.C04
