/-
C20, more instances of the convergence schema of `Props/C20.lean` (`LevelTriggered`,
`convergence_schema`, `convergence_same_outcome`, `convergence_not_applied`).

1. JobConfig controller (COMPLETE): `jobconfig_level_triggered`, `jobconfig_converges`,
   `jobconfig_converges_exact`, `jobconfig_maxima_never_backwards`.
2. Job controller, one pass (PARTIAL): `jobctl_fault_keeps_level` (H1: level kept, pods kept or
   force-deleted by a logged call, key re-queued through `Retry.work`),
   `jobctl_quiescent_fixpoint_partial` + `jobctl_pass_queue_oblivious` (the fixpoint clause),
   `jobctl_level_kept_along_retries` (run form), `jobctl_create_retry_adopts` (request level) and
   `jobctl_created_task_recovered_partial` (pass level): create ↦ AlreadyExists ↦ adopt ↦ record.
3. Job-queue per-config pass with an explicit delivery step (PARTIAL):
   `queue_converges_with_delivery_partial`; the literal one-round fixpoint clause is FALSE:
   `queue_one_round_not_identity_witness`.

Definitions and helper lemmas: `Proofs/ConvLemmas.lean` (generic + JobConfig),
`Proofs/ConvLemmasJobQ.lean` (the walk: a job-controller pass is queue-oblivious and call-accounted),
`Proofs/ConvLemmasJob.lean` (one `work` step), `Proofs/ConvLemmasJobAdopt.lean` (an ok pass records
every due creation request), `Proofs/ConvLemmasQueue.lean` (delivery step).
-/
import FurikoModel.Proofs.ConvLemmas
import FurikoModel.Proofs.ConvLemmasJob
import FurikoModel.Proofs.ConvLemmasJobAdopt
import FurikoModel.Props.C09Hist
import FurikoModel.Props.C11
import FurikoModel.Proofs.ConvLemmasQueue

set_option linter.unusedVariables false
set_option linter.unusedSimpArgs false

namespace Furiko.Props.C20Inst
open Furiko Furiko.Props Furiko.Props.C20 Furiko.Conv Furiko.JobCtl Furiko.JobCtlPlan

/-! ## 1. Instance (complete): the JobConfig controller

State `JcSt` = the authoritative JobConfig `api` and the controller's cached copy `cached`.
`jcSync k jobs s fault` = one `SyncOne` (`JcStatus.syncCore`, optimistic concurrency on) that reads
the cached object and the Job cache `jobs`, followed by the explicit step "the JobConfig informer
delivers the current API object to the cache" (`jcCatchUp`).  `fault = true`: the `UpdateStatus` of
the pass, if one is issued, fails without being applied — `k = .error`: server error / timeout;
`k = .conflict`: another writer bumped the resourceVersion between read and write, so that
`writeStatus` itself answers `.conflict`.  `JcInv` = "the cache is up to date"; `JcFix jobs` = "the
cache is up to date and the API status equals `computeStatus` of itself over the Job cache". -/

/-- **jobconfig_level_triggered**: for every fault kind `k` and every Job cache `jobs`, the
JobConfig reconciler is level-triggered in the sense of the schema. -/
theorem jobconfig_level_triggered (k : JcFault) (jobs : List JcStatus.Job) :
    LevelTriggered (jcSync k jobs) JcInv (JcFix jobs) := by
  refine ⟨fun s _ => jcSync_inv k jobs s true, ?_, ?_, ?_⟩
  · rintro ⟨a, c⟩ hs hok
    have : c = a := hs
    subst this
    rcases jcSync_cases k jobs c true with ⟨hst, ⟨h, _⟩ | ⟨h, _⟩⟩ | ⟨_, ⟨_, hf⟩ | ⟨h, _⟩ | ⟨h, _⟩⟩
    · rw [h]; exact ⟨rfl, hst.symm⟩
    · rw [h]; exact ⟨rfl, hst.symm⟩
    · cases hf
    · rw [h] at hok; cases hok
    · rw [h] at hok; cases hok
  · rintro ⟨a, c⟩ hs
    have : c = a := hs
    subst this
    rcases jcSync_cases k jobs c false with ⟨hst, ⟨h, _⟩ | ⟨_, hf, _⟩⟩ | ⟨_, ⟨h, _⟩ | ⟨_, hf, _⟩ | ⟨_, hf, _⟩⟩
    · rw [h]; exact ⟨rfl, rfl, hst.symm⟩
    · cases hf
    · rw [h]; exact ⟨rfl, rfl, (written_fix jobs c).symm⟩
    · cases hf
    · cases hf
  · rintro ⟨a, c⟩ ⟨hs, hst⟩
    have : c = a := hs
    subst this
    rcases jcSync_cases k jobs c false with ⟨_, ⟨h, _⟩ | ⟨_, hf, _⟩⟩ | ⟨hne, _⟩
    · exact h
    · cases hf
    · exact absurd hst.symm hne

/-- non-vacuity: on C15's demo JobConfig and Job cache (two active Jobs, one queued, maxima 700 /
100) the faulted passes fail without reaching the fixpoint, the fault-free pass reaches it -/
example :
    let s : JcSt := ⟨C15.exJC, C15.exJC⟩
    (jcSync .error C15.exCache s true) = (s, false) ∧
    (jcSync .conflict C15.exCache s true).2 = false ∧
    (jcSync .conflict C15.exCache s true).1.api.rv = 8 ∧
    (jcSync .conflict C15.exCache s false).2 = true ∧
    (jcSync .conflict C15.exCache s false).1.api.status.state = "Executing" ∧
    (jcSync .conflict C15.exCache s false).1.api.rv = 8 ∧
    jcSync .error C15.exCache (jcSync .error C15.exCache s false).1 false = ((jcSync .error C15.exCache s false).1, true) := by
  decide

/-- **jobconfig_converges**.  For every fault kind, Job cache, FINITE fault pattern `fs` (followed
by fault-free passes) and start state with an up-to-date cache (`hs`): the retry loop ends with a
successful pass after at most `#fs + 1` passes; the cache is up to date; the final API status is
`computeStatus` of the ORIGINAL object over the Job cache — exactly what the single fault-free pass
writes — and a fixpoint of `computeStatus`; and the whole observable object (namespace, name, uid,
schedule spec, status; everything but the resourceVersion, which foreign writes bump) is the one of
the run without faults. -/
theorem jobconfig_converges (k : JcFault) (jobs : List JcStatus.Job) (fs : List Bool) (s : JcSt) (hs : JcInv s) :
    (runLoop (jcSync k jobs) (fs.length + 1) fs s).2 = true ∧
    JcFix jobs (runLoop (jcSync k jobs) (fs.length + 1) fs s).1 ∧
    (runLoop (jcSync k jobs) (fs.length + 1) fs s).1.api.status =
      JcStatus.computeStatus s.api (JcStatus.listJobs jobs s.api) ∧
    jcObs (runLoop (jcSync k jobs) (fs.length + 1) fs s).1 = jcObs (jcSync k jobs s false).1 := by
  have H := jobconfig_level_triggered k jobs
  have hconv := convergence_schema H fs s hs
  have hlev := level_preserved H (jcLevel jobs) (fun s f h => jcSync_level k jobs s f h) (fs.length + 1) fs s hs
  have hsame := convergence_same_outcome H (jcLevel jobs) jcObs (fun s f h => jcSync_level k jobs s f h)
    (by
      intro s s' h1 h2 he
      simp only [jcLevel, jcObs, Prod.mk.injEq] at he ⊢
      obtain ⟨e1, e2, e3, e4, e5⟩ := he
      exact ⟨e1, e2, e3, e4, by rw [h1.2, h2.2, e5]⟩)
    fs s hs
  refine ⟨hconv.1, hconv.2, ?_, ?_⟩
  · rw [hconv.2.2]
    simp only [jcLevel, Prod.mk.injEq] at hlev
    exact hlev.2.2.2.2
  · rw [hsame]
    simp only [runLoop, List.headD_nil, (H.quiet_ok s hs).1, if_true]

/-- for server errors / timeouts (nothing reaches the server) the final STATE, resourceVersion
included, is the state after the single fault-free pass -/
theorem jobconfig_converges_exact (jobs : List JcStatus.Job) (fs : List Bool) (s : JcSt) (hs : JcInv s) :
    (runLoop (jcSync .error jobs) (fs.length + 1) fs s).1 = (jcSync .error jobs s false).1 := by
  refine convergence_not_applied (jobconfig_level_triggered .error jobs) ?_ fs s hs
  rintro ⟨a, c⟩ hs
  have : c = a := hs
  subst this
  rcases jcSync_cases .error jobs c true with ⟨_, ⟨h, _⟩ | ⟨_, _, hk⟩⟩ | ⟨_, ⟨_, hf⟩ | ⟨h, _⟩ | ⟨_, _, hk⟩⟩
  · rw [h]
  · cases hk
  · cases hf
  · rw [h]
  · cases hk

/-- **jobconfig_maxima_never_backwards**: at any two points `n ≤ m` of the faulty run,
`lastScheduled` and `lastExecuted` on the API at `m` are at least those at `n` (each pass of the
instance is a run of C15's transition system: `C15.maxima_survive_deletion_occ`). -/
theorem jobconfig_maxima_never_backwards (k : JcFault) (jobs : List JcStatus.Job) (fs : List Bool) (s : JcSt)
    (hs : JcInv s) (n m : Nat) (hnm : n ≤ m) :
    JcStatus.optLe (runLoop (jcSync k jobs) n fs s).1.api.status.lastScheduled
      (runLoop (jcSync k jobs) m fs s).1.api.status.lastScheduled ∧
    JcStatus.optLe (runLoop (jcSync k jobs) n fs s).1.api.status.lastExecuted
      (runLoop (jcSync k jobs) m fs s).1.api.status.lastExecuted :=
  runLoop_monotone (jcSync k jobs) JcInv MaxLe
    (fun s => ⟨JcStatus.optLe_refl _, JcStatus.optLe_refl _⟩)
    (fun a b c h1 h2 => ⟨JcStatus.optLe_trans h1.1 h2.1, JcStatus.optLe_trans h1.2 h2.2⟩)
    (fun s f _ => jcSync_inv k jobs s f) (fun s f h => jcSync_maxLe k jobs s f h) fs s hs n m hnm

/-- non-vacuity of the three run theorems: C15's demo object (old maxima 500 / 90, rv 7), three
conflicts then success: four passes, final rv 11 (three foreign writes + the status write), status
"Executing" with maxima 700 / 100 — the status of the fault-free run, whose rv is 8; with three
server errors instead the final state is literally the fault-free one -/
example :
    let s : JcSt := ⟨C15.exJC, C15.exJC⟩
    let r := runLoop (jcSync .conflict C15.exCache) 4 [true, true, true] s
    r.2 = true ∧ r.1.api.rv = 11 ∧ (jcSync .conflict C15.exCache s false).1.api.rv = 8 ∧
    r.1.api.status = (jcSync .conflict C15.exCache s false).1.api.status ∧
    r.1.api.status.lastScheduled = some 700 ∧ r.1.api.status.lastExecuted = some 100 ∧
    r.1.api.status.state = "Executing" ∧
    (runLoop (jcSync .conflict C15.exCache) 3 [true, true, true] s).2 = false ∧
    (runLoop (jcSync .conflict C15.exCache) 3 [true, true, true] s).1.api.status.lastScheduled = some 500 ∧
    runLoop (jcSync .error C15.exCache) 4 [true, true, true] s = (jcSync .error C15.exCache s false) := by
  decide


/-! ## 2. The job controller, one pass (PARTIAL)

`JobCtl.work` is one step of `reconciler.Controller.work` around `jobcontroller.Reconciler.SyncOne`
on the API simulation of `Model/JobCtl.lean`; faults are the strings of `Sys.faults`, consumed one
per API call (`err` / `timeout` / `conflict`: not applied; `applied-err`: applied but reported as an
error).  The theorems below give, for the job controller, hypothesis (H1) of the schema ("a faulted
pass stays inside the invariant, keeps the level, and the key is retried") and the fixpoint clause
("at a fixpoint a further pass is the identity").  MISSING for the full schema, hence `_partial`:
(H2) "a fault-free pass from any invariant state reaches the fixpoint" does not hold for ONE pass of
this controller — a pass that creates or deletes pods or writes the status produces watch events
that must be delivered, and the tasks' progress is the kubelet's; convergence of the job controller
is a statement about the composed system (passes + informer deliveries + kubelet) and needs a
variant, which is not proved (the `jobctl` and `system` engines explore it). -/

/-- **jobctl_fault_keeps_level** (H1 for the job controller).  In every reachable state `s` (any
history: faults of all five kinds, lag, restarts, kubelet, user actions), a `work` step that returns
"err":
* keeps the level on the authoritative Job (`LevelKept`: template, kill timestamp, TTL, start policy
  and start time unchanged; a deletion mark, once set, unchanged; the admission-error annotation only
  ever added) and every task name of `status.tasks` is still listed (`C09Hist.refs_monotone_step`),
  as long as the Job object exists;
* leaves every pod that existed either existing (by name) or named by a successful forced pod delete
  in the call log of this very pass;
* popped a key `k` and — if `SplitMetaNamespaceKey` accepts `k` — re-queued it: the work queue after
  the step is `Retry.work` of the retry-loop model with the pass's deferred adds as `during` and
  `ok := false`, so `C20.retry_until_success` applies: `k` has a deadline and its requeue counter
  grew by one. -/
theorem jobctl_fault_keeps_level {ok : Sys → Action → Prop} {j0 : JobObj} {s : Sys} (hr : Reach ok j0 s)
    (herr : (JobCtl.work s).2 = "err") :
    (∀ j j', s.job = some j → (JobCtl.work s).1.job = some j' →
        LevelKept j.job j'.job ∧ ∀ n ∈ refNames j.job, n ∈ refNames j'.job) ∧
    (∀ n ∈ podNames s.pods, n ∈ podNames (JobCtl.work s).1.pods ∨ ∃ c ∈ (JobCtl.work s).1.calls, ForceDelOk c n) ∧
    ∃ k q1, (s.q.advance s.clock).get = some (k, q1) ∧
      (Retry.splitOk k = true →
        (∃ ops, (JobCtl.work s).1.q =
            Retry.work (s.q.advance s.clock) (-1) s.clock { ok := false, during := ops }) ∧
        k ∈ Retry.delayedKeys (JobCtl.work s).1.q ∧
        WQ.numRequeues (JobCtl.work s).1.q.requeues k = WQ.numRequeues (s.q.advance s.clock).requeues k + 1) := by
  refine ⟨fun j j' hj hj' => ⟨work_level_kept (base_of_reach hr) j j' hj hj',
      C09Hist.refs_monotone_step hr .work trivial j j' hj hj'⟩, work_pods_kept s, ?_⟩
  obtain ⟨k, q1, hg, hq⟩ := work_err_requeued s herr
  refine ⟨k, q1, hg, fun hs => ?_⟩
  obtain ⟨ops, he⟩ := work_queue_eq s k q1 hg hs (-1) (by decide)
  have hok : (syncOne (passStart s q1)).2 = false := by
    rw [work_some s k q1 hg] at herr
    cases h : (syncOne (passStart s q1)).2 with
    | false => rfl
    | true => simp [h] at herr
  rw [hok] at he
  obtain ⟨rest, hqq⟩ := get_queue hg
  have hretry := C20.retry_until_success (s.q.advance s.clock) k rest hqq (-1) s.clock
    { ok := false, during := ops } hs rfl (by decide)
  rw [← he] at hretry
  exact ⟨⟨ops, he⟩, hretry⟩

/-- non-vacuity: the pass of `JEx.sPre` creates pod `job-h-0` and then fails its status write
(server error): it returns "err", the pod exists, the status still lists no task, the key "ns/job"
waits for its 5 ms back-off with requeue counter 1 -/
example : Reach anyAction Ex.job JEx.sPre ∧ (JobCtl.work JEx.sPre).2 = "err" ∧
    (JobCtl.work JEx.sPre).1.calls.map (fun c => (c.verb, c.res, c.name, c.out, c.sub)) =
      [("create", "pods", "job-h-0", "ok", false), ("update", "jobs", "job", "err", true)] ∧
    podNames (JobCtl.work JEx.sPre).1.pods = ["job-h-0"] ∧
    (JobCtl.work JEx.sPre).1.job.map (fun j => refNames j.job) = some [] ∧
    (JobCtl.work JEx.sPre).1.q.delayed = [("ns/job", 5000000)] ∧
    (JobCtl.work JEx.sPre).1.q.requeues = [("ns/job", 1)] ∧ Retry.splitOk "ns/job" = true :=
  ⟨JEx.sPre_reach, by decide +kernel, by decide +kernel, by decide +kernel, by decide +kernel, by decide +kernel,
    by decide +kernel, by decide +kernel⟩

/-- **jobctl_level_kept_along_retries**: the run form of the first clause.  Along EVERY history
without a user `kill` (the one action that changes the level) — any number of passes under any
fault pattern, retries, informer lag, restarts, kubelet progress, clock advances, pods vanishing,
foreign pods, the user deleting the Job — the level of the authoritative Job is kept and no task name
is dropped from `status.tasks`, for as long as the Job object exists. -/
theorem jobctl_level_kept_along_retries {ok : Sys → Action → Prop} (hok : ∀ s a, ok s a → noKill s a)
    {j0 : JobObj} {s s' : Sys} (hr : Reach ok j0 s) (hs : Steps ok j0 s s') (j j' : JobObj)
    (hj : s.job = some j) (hj' : s'.job = some j') :
    LevelKept j.job j'.job ∧ ∀ n ∈ refNames j.job, n ∈ refNames j'.job :=
  ⟨steps_level_kept hok hr hs j j' hj hj', C09Hist.refs_monotone hr hs j j' hj hj'⟩

/-- non-vacuity: from `JEx.sPre` the faulted pass, the pod event, the back-off and the successful
retry form such a history; the status goes from no ref to one ref, the resourceVersion changes -/
example : Reach noKill Ex.job JEx.sPre ∧
    Steps noKill Ex.job JEx.sPre (runActs JEx.sPre [.work, .deliverPod, .advance 5000000, .work]) ∧
    JEx.sPre.job.map (fun j => (refNames j.job, j.rv)) = some ([], 1) ∧
    (runActs JEx.sPre [.work, .deliverPod, .advance 5000000, .work]).job.map (fun j => (refNames j.job, j.rv)) =
      some (["job-h-0"], 3) :=
  ⟨reach_run (Ex.s0_reach _) [.deliverJob, .setFaults ["", "err"]] (by decide +kernel),
   steps_run JEx.sPre _ (by decide +kernel), by decide +kernel, by decide +kernel⟩

/-- **jobctl_quiescent_fixpoint_partial** (the fixpoint clause for the job controller).  Let `s` be
a state with empty watch queues and caches equal to the server in which a `work` pass returns "ok"
and issues NO API call (`JobFix s`).  Then
* the pass changed nothing but the work queue: objects, resourceVersion counter, watch queues,
  caches, clock and the unconsumed fault list are those of `s`;
* a further pass at the same clock — on the same key or any other, whatever the work queue holds
  (`setQ _ q'`), provided it pops a key at all — again returns "ok" and issues no call, and the state
  it is run in is again a `JobFix` state (idempotence at the fixpoint);
* `JobFix` is stable under `deliverJob` / `deliverPod` of nothing (both are the identity there).
No hypothesis on the fault list is needed: a pass without calls consumes no fault; the first two
clauses do not even use the quiescence part of `JobFix`.
MISSING (hence `_partial`): that the job controller REACHES a `JobFix` state once calls succeed again
(H2 of the schema) — that depends on informer deliveries and on the kubelet, see the section header. -/
theorem jobctl_quiescent_fixpoint_partial (s : Sys) (hfix : JobFix s) :
    (JobCtl.work s).1 = { s with q := (JobCtl.work s).1.q, calls := [], delRun := none } ∧
    (∀ q', (JobCtl.work (setQ (JobCtl.work s).1 q')).2 ≠ "idle" →
      (JobCtl.work (setQ (JobCtl.work s).1 q')).2 = "ok" ∧
      (JobCtl.work (setQ (JobCtl.work s).1 q')).1.calls = [] ∧ JobFix (setQ (JobCtl.work s).1 q')) ∧
    deliverJob s = s ∧ deliverPod s = s ∧
    deliverJob (JobCtl.work s).1 = (JobCtl.work s).1 ∧ deliverPod (JobCtl.work s).1 = (JobCtl.work s).1 := by
  obtain ⟨hje, hpe, hjc, hpc, hok, hnc⟩ := hfix
  have hfr := work_nocall_frame s hnc
  have hje' : (JobCtl.work s).1.jobEvs = [] := by rw [hfr]; exact hje
  have hpe' : (JobCtl.work s).1.podEvs = [] := by rw [hfr]; exact hpe
  refine ⟨hfr, ?_, deliverJob_nothing s hje, deliverPod_nothing s hpe,
    deliverJob_nothing _ hje', deliverPod_nothing _ hpe'⟩
  intro q' hni
  have h := work_nocall_again s hnc q' hni (by rw [hok]; decide)
  rw [hok] at h
  refine ⟨h.1, h.2, ?_, ?_, ?_, ?_, h.1, h.2⟩
  · show (JobCtl.work s).1.jobEvs = []; exact hje'
  · show (JobCtl.work s).1.podEvs = []; exact hpe'
  · show (JobCtl.work s).1.jobCache = (JobCtl.work s).1.job; rw [hfr]; exact hjc
  · show (JobCtl.work s).1.podCache = (JobCtl.work s).1.pods; rw [hfr]; exact hpc

/-- what a pass returns and logs never depends on the work queue it is started with (the statement
behind "on the same key or any other" above), for ALL states -/
theorem jobctl_pass_queue_oblivious (s : Sys) (qa qb : WQ.WQ)
    (ha : (JobCtl.work (setQ s qa)).2 ≠ "idle") (hb : (JobCtl.work (setQ s qb)).2 ≠ "idle") :
    (JobCtl.work (setQ s qb)).2 = (JobCtl.work (setQ s qa)).2 ∧
    (JobCtl.work (setQ s qb)).1.calls = (JobCtl.work (setQ s qa)).1.calls :=
  work_queue_oblivious s qa qb ha hb

/-- non-vacuity: `JEx.sFix` (the Job of `Ex.sC`, Finished / Success, every event delivered) is a
`JobFix` state with a non-trivial history (one task created, recorded, finished), its key is ready,
the TTL timer is armed; a second pass with the key re-added (`resync`) is not idle -/
example : JobFix JEx.sFix ∧ JEx.sFix.q.queue = ["ns/job"] ∧
    JEx.sFix.job.map (fun j => (refNames j.job, j.job.status.condition.finished.map (·.result))) =
      some (["job-h-0"], some .success) ∧
    (JobCtl.work (resync (JobCtl.work JEx.sFix).1)).2 = "ok" ∧
    (JobCtl.work JEx.sFix).1.q.delayed = [("ns/job", 1000000000000)] :=
  ⟨⟨by decide +kernel, by decide +kernel, by decide +kernel, by decide +kernel, by decide +kernel, by decide +kernel⟩,
    by decide +kernel, by decide +kernel, by decide +kernel, by decide +kernel⟩


/-- **jobctl_create_retry_adopts** (request level).  Suppose an earlier pass created the
pod of attempt `(idx, retry)` but failed before recording it (e.g. its `UpdateStatus` faulted), so
that the pod `p` named `taskName jo.name idx.hash retry` exists on the server (`hsrv`) although the
status does not list it.  In a later pass whose create call is not failed by the fault oracle (`hf`;
in particular when no fault is pending) and whose pod cache has caught up (`hcache`), the create of
the same attempt is answered AlreadyExists, creates nothing (`s1.pods = s.pods`: there is never a
second pod for `(idx, retry)`), the existing pod — controlled by this Job (`hown`) — is ADOPTED
(`syncCreateTask` hands its task `t` on), and every status refresh over a task list containing `t`
RECORDS it: `status.tasks` then has a ref named after the pod.
The pass-level statement is `jobctl_created_task_recovered_partial` below. -/
theorem jobctl_create_retry_adopts (s : Sys) (jo : JobObj) (rj : Job) (tasks : List Task)
    (idx : PIndex) (retry : Int) (p : PodObj) (t : Task) (hf : NextCallOk s)
    (hsrv : findPod s.pods (taskName jo.name idx.hash retry) = some p)
    (hcache : findPod s.podCache (taskName jo.name idx.hash retry) = some p)
    (hown : p.ownerUid = some jo.uid) (ht : podTask s.clock p = some t) :
    ∃ s1, apiCreatePod s jo idx retry = (s1, .exists) ∧
      syncCreateTask s jo rj tasks idx retry = (s1, some (rj, tasks ++ [t])) ∧ s1.pods = s.pods ∧
      (∀ q, (apiCreatePod s jo idx retry).2 ≠ .ok q) ∧
      ∀ (now : Time) (rj' : Job) (tasks' : List Task), t ∈ tasks' →
        taskName jo.name idx.hash retry ∈ refNames (updateJobTaskRefs now rj' tasks') := by
  obtain ⟨s1, hc, hpc, hpods⟩ := apiCreatePod_exists s jo idx retry p hf hsrv
  have hadopt := C09.adopt_not_duplicate s s1 jo rj tasks idx retry p t hc (by rw [hpc]; exact hcache) hown ht
  refine ⟨s1, hc, hadopt.1, hpods, fun q => by rw [hc]; simp, ?_⟩
  intro now rj' tasks' hmem
  have hm := (C11.generateTaskRefs_members now rj'.status.tasks tasks').2.1 t hmem
  have hn : (getTaskRef (lookupRef rj'.status.tasks t.name) t).name = taskName jo.name idx.hash retry := by
    rw [(getTaskRef_fields _ t).1, (podTask_ok ht).1, (podTask_ok ht).2]
    exact (JobCtl.findPod_some hsrv).2
  unfold refNames updateJobTaskRefs
  exact List.mem_map.mpr ⟨_, hm, hn⟩

/-- the complete recovery on a concrete history: the faulted pass of `JEx.sPre` created `job-h-0`
and lost its status write (`JEx.sErr`: one pod, no ref, key in back-off).  After the pod's watch
event is delivered and the back-off has elapsed (`JEx.sRetry`) the hypotheses of the theorem hold,
and the fault-free pass returns "ok": create ↦ AlreadyExists ↦ adopted ↦ recorded by a successful
status write; still exactly one pod.  While the pod cache lags (`JEx.sRetryLag`) the pass fails
again without creating anything. -/
example :
    podNames JEx.sErr.pods = ["job-h-0"] ∧ JEx.sErr.job.map (fun j => refNames j.job) = some [] ∧
    NextCallOk JEx.sRetry ∧
    (findPod JEx.sRetry.pods (taskName "job" "h" 0)).isSome = true ∧
    findPod JEx.sRetry.podCache (taskName "job" "h" 0) = findPod JEx.sRetry.pods (taskName "job" "h" 0) ∧
    (JobCtl.work JEx.sRetry).2 = "ok" ∧
    (JobCtl.work JEx.sRetry).1.calls.map (fun c => (c.verb, c.res, c.name, c.out, c.sub)) =
      [("create", "pods", "job-h-0", "exists", false), ("update", "jobs", "job", "ok", true)] ∧
    (JobCtl.work JEx.sRetry).1.job.map (fun j => refNames j.job) = some ["job-h-0"] ∧
    podNames (JobCtl.work JEx.sRetry).1.pods = ["job-h-0"] ∧
    (JobCtl.work JEx.sRetryLag).2 = "err" ∧ podNames (JobCtl.work JEx.sRetryLag).1.pods = ["job-h-0"] :=
  ⟨by decide +kernel, by decide +kernel, nextCallOk_nil (by decide +kernel), by decide +kernel, by decide +kernel,
    by decide +kernel, by decide +kernel, by decide +kernel, by decide +kernel, by decide +kernel, by decide +kernel⟩

/-- **jobctl_created_task_recovered_partial** (pass level).  Let `s` be a reachable state in which
* the Job cache holds the authoritative Job `jo` (`hc`, `hjob`: caught up — after a failed status
  write the server still has the version the faulted pass read), started, not being deleted, allowed
  to create tasks (`hst`, `hnd`, `hcan`) and not complete (`hncomp`);
* the creation requests computed from that cached status (`hreqs`) still contain the attempt `r` of
  the pod the faulted pass created without recording, due now (`hrm`, `hdue`);
* that pod `p` exists on the server under the attempt's task name and the pod cache has caught up
  with it (`hsrv`, `hcache`), and it is controlled by this Job (`hown`).
If the pass from `s` returns "ok" (`hok`), then afterwards the authoritative status LISTS the pod's
name (it was adopted and recorded), pod names on the server are still pairwise distinct (never a
second pod for the attempt), and the pod still exists unless a logged forced delete of this pass
names it.
MISSING (hence `_partial`): `hok` is a hypothesis.  That a pass without pending faults and with both
caches caught up returns "ok" (no conflict, no adoption miss, `ComputeMissingIndexesForCreation`
defined) is the liveness half (H2) of the schema for this controller and is not proved; when the pass
returns "err" instead, `jobctl_fault_keeps_level` applies and the key is retried. -/
theorem jobctl_created_task_recovered_partial {ok : Sys → Action → Prop} {j0 : JobObj} {s : Sys}
    (hr : Reach ok j0 s) (jo : JobObj) (hc : s.jobCache = some jo) (hjob : s.job = some jo)
    (hst : isStarted jo.job = true) (hnd : isDeleted jo.job = false) (hcan : canCreateTask jo.job = true)
    (hncomp : (refreshedSummary s jo.job (tasks0 s jo jo.job)).complete = false)
    (reqs : List CreationRequest) (r : CreationRequest)
    (hreqs : computeMissingIndexesForCreation s.d jo.job (jo.job.indexes s.d) = some reqs) (hrm : r ∈ reqs)
    (hdue : reqDueNow s.clock r) (p : PodObj)
    (hsrv : findPod s.pods (taskName jo.name r.index.hash r.retryIndex) = some p)
    (hcache : findPod s.podCache (taskName jo.name r.index.hash r.retryIndex) = some p)
    (hown : p.ownerUid = some jo.uid) (hok : (JobCtl.work s).2 = "ok") :
    (∀ j', (JobCtl.work s).1.job = some j' → taskName jo.name r.index.hash r.retryIndex ∈ refNames j'.job) ∧
    (podNames (JobCtl.work s).1.pods).Nodup ∧
    (taskName jo.name r.index.hash r.retryIndex ∈ podNames (JobCtl.work s).1.pods ∨
      ∃ c ∈ (JobCtl.work s).1.calls, ForceDelOk c (taskName jo.name r.index.hash r.retryIndex)) := by
  refine ⟨?_, ?_, ?_⟩
  · refine work_ok_records hr jo hc hjob hst hnd hcan hncomp reqs r hreqs hrm hdue ?_ hok
    intro p' hp'
    rw [hcache] at hp'
    cases hp'
    exact hown
  · exact (Base.step (base_of_reach hr) .work trivial).podsNodup
  · refine work_pods_kept s _ ?_
    exact List.mem_map.mpr ⟨p, (JobCtl.findPod_some hsrv).1, (JobCtl.findPod_some hsrv).2⟩

/-- non-vacuity: every hypothesis holds in `JEx.sRetry` (the state after the faulted pass of
`JEx.sPre`, the pod's watch event and the 5 ms back-off), for the attempt `(h, 0)`, whose pod
`job-h-0` the faulted pass created -/
example :
    Reach anyAction Ex.job JEx.sRetry ∧
    JEx.sRetry.jobCache = some (Ex.cachedOf JEx.sRetry) ∧ JEx.sRetry.job = some (Ex.cachedOf JEx.sRetry) ∧
    isStarted (Ex.cachedOf JEx.sRetry).job = true ∧ isDeleted (Ex.cachedOf JEx.sRetry).job = false ∧
    canCreateTask (Ex.cachedOf JEx.sRetry).job = true ∧
    (refreshedSummary JEx.sRetry (Ex.cachedOf JEx.sRetry).job (tasks0 JEx.sRetry (Ex.cachedOf JEx.sRetry) (Ex.cachedOf JEx.sRetry).job)).complete = false ∧
    computeMissingIndexesForCreation JEx.sRetry.d (Ex.cachedOf JEx.sRetry).job
      ((Ex.cachedOf JEx.sRetry).job.indexes JEx.sRetry.d) = some [⟨Ex.d, 0, zeroTime⟩] ∧
    reqDueNow JEx.sRetry.clock ⟨Ex.d, 0, zeroTime⟩ ∧
    taskName (Ex.cachedOf JEx.sRetry).name Ex.d.hash 0 = "job-h-0" ∧
    (findPod JEx.sRetry.pods "job-h-0").map (·.ownerUid) = some (some (Ex.cachedOf JEx.sRetry).uid) ∧
    findPod JEx.sRetry.podCache "job-h-0" = findPod JEx.sRetry.pods "job-h-0" ∧
    (JobCtl.work JEx.sRetry).2 = "ok" :=
  ⟨reach_run JEx.sPre_reach [.work, .deliverPod, .advance 5000000] (by decide +kernel),
   by decide +kernel, by decide +kernel, by decide +kernel, by decide +kernel, by decide +kernel, by decide +kernel,
   by decide +kernel, Or.inl rfl, by decide +kernel, by decide +kernel, by decide +kernel, by decide +kernel⟩

/-! ## 3. The job-queue per-config pass with the explicit delivery step (PARTIAL, with a witness)

`C20.queue_convergence_partial` left the fixpoint clause open: "after an ok pass the next pass is the
identity only once the informer has delivered the pass's own writes".  Here the delivery is an
explicit step: `ConvQ.qRound s` = one per-config pass (`Queue.workConfig`) followed by
`ConvQ.deliverAll` (every undelivered Job watch event is delivered to the cache, then the store
handler and the controller's handler run every pending notification). -/

/-- **queue_converges_with_delivery_partial**.
(H1, strengthened) From ANY reachable state, under ANY pending fault list, a round leads to a
reachable state in which nothing is undelivered, the Job cache equals the server and the active-job
counter is EXACT for every JobConfig (`C05.quiescent_exact`); the delivery step does not touch the
API objects, the clock or the unconsumed faults.
(H2, closed up to the outcome) From a reachable QUIET state (nothing undelivered, no fault pending)
whose ready key names a cached JobConfig, the pass of the round returns "ok", the state after the
round is QUIET again — the invariant of the schema is restored, which is what was missing — and
the observable outcome of C06 holds on the server: every due queued Job of the JobConfig is
started, or is an Enqueue Job waiting at the limit (judged by the TRUE active count), or is a
rejected Forbid Job.
MISSING, and in fact FALSE as a one-round statement (`queue_one_round_not_identity_witness`): "the
next pass is the identity".  The reject message embeds the active count, so a Forbid Job rejected
before a later Job of the same pass was started is rejected AGAIN, with the new count, by the next
pass; only the pass after that is a no-op.  In the composed system the job controller takes a
rejected Job out of the queue (`Act.markRejected`); that composition is explored by the `system`
engine, not proved. -/
theorem queue_converges_with_delivery_partial :
    (∀ s : Queue.Sys, Queue.Reachable s →
      Queue.Reachable (ConvQ.qRound s) ∧ (ConvQ.qRound s).jobEvs = [] ∧ (ConvQ.qRound s).storeQ = [] ∧
      (ConvQ.qRound s).ctrlQ = [] ∧ (ConvQ.qRound s).jobCache = (ConvQ.qRound s).jobs ∧
      (∀ uid, Queue.getCtr (ConvQ.qRound s).counter uid = Queue.trueActive (ConvQ.qRound s) uid) ∧
      (ConvQ.qRound s).jobs = (Queue.workConfig s).1.jobs ∧ (ConvQ.qRound s).clock = (Queue.workConfig s).1.clock ∧
      (ConvQ.qRound s).faults = (Queue.workConfig s).1.faults) ∧
    (∀ s : Queue.Sys, Queue.Reachable s → Queue.Quiet s → ∀ k q1 jc,
      (s.cfgQ.advance s.clock).get = some (k, q1) → Queue.findJC s.jcCache (Queue.keyName k) = some jc →
      (Queue.workConfig s).2 = "ok" ∧ Queue.Quiet (ConvQ.qRound s) ∧
      ∀ j ∈ Queue.listQueued s.jobs jc, Queue.due j s.clock →
        (∃ a, Queue.findJob (ConvQ.qRound s).jobs j.name = some a ∧ a.startTime = some (s.clock / 1000000000)) ∨
        (j.hasPolicy = true ∧ j.policy = 2 ∧ (Queue.trueActive (ConvQ.qRound s) jc.uid : Int) + 1 > jc.maxConc) ∨
        (j.hasPolicy = true ∧ j.policy = 1 ∧
          ∃ a, Queue.findJob (ConvQ.qRound s).jobs j.name = some a ∧ a.admErr = true)) := by
  have hround : ∀ s : Queue.Sys, Queue.Reachable s →
      Queue.Reachable (ConvQ.qRound s) ∧ (ConvQ.qRound s).jobEvs = [] ∧ (ConvQ.qRound s).storeQ = [] ∧
      (ConvQ.qRound s).ctrlQ = [] ∧ (ConvQ.qRound s).jobCache = (ConvQ.qRound s).jobs ∧
      (∀ uid, Queue.getCtr (ConvQ.qRound s).counter uid = Queue.trueActive (ConvQ.qRound s) uid) ∧
      (ConvQ.qRound s).jobs = (Queue.workConfig s).1.jobs ∧ (ConvQ.qRound s).clock = (Queue.workConfig s).1.clock ∧
      (ConvQ.qRound s).faults = (Queue.workConfig s).1.faults := by
    intro s h
    have hr : Queue.Reachable (ConvQ.qRound s) :=
      ConvQ.deliverAll_reachable (Queue.Reachable.step s .workConfig h trivial)
    obtain ⟨h1, h2, h3, h4, h5, h6, _⟩ := ConvQ.deliverAll_facts (Queue.workConfig s).1
    exact ⟨hr, h1, h2, h3, hr.inv.cache_eq_jobs h1, fun uid => C05.quiescent_exact hr h1 h2 uid, h4, h5, h6⟩
  refine ⟨hround, ?_⟩
  intro s h hq k q1 jc hg hjc
  obtain ⟨_, h1, h2, _, _, _, hjobs, _, hfaults⟩ := hround s h
  obtain ⟨_, hok, _, hout⟩ := C06.quiet_no_due_left h hq hg hjc
  have hta : Queue.trueActive (ConvQ.qRound s) jc.uid = Queue.trueActive (Queue.workConfig s).1 jc.uid := by
    unfold Queue.trueActive; rw [hjobs]
  refine ⟨hok, ⟨h1, h2, by rw [hfaults]; exact ConvQ.workConfig_faults_nil s hq.faults⟩, ?_⟩
  intro j hj hd
  obtain ⟨o1, o2, o3⟩ := hout j hj hd
  rw [hjobs, hta]
  by_cases hp : j.hasPolicy = true
  · by_cases hp1 : j.policy = 1
    · rcases o3 ⟨hp, hp1⟩ with hs | hr
      · exact Or.inl hs.2
      · exact Or.inr (Or.inr ⟨hp, hp1, hr.2⟩)
    · by_cases hp2 : j.policy = 2
      · rcases o2 ⟨hp, hp2⟩ with hs | hl
        · exact Or.inl hs.2
        · exact Or.inr (Or.inl ⟨hp, hp2, hl⟩)
      · exact Or.inl (o1 (Or.inr ⟨hp1, hp2⟩)).2
  · have hp' : j.hasPolicy = false := by simpa using hp
    exact Or.inl (o1 (Or.inl hp')).2

/-- non-vacuity: `QEx.s0` (JobConfig `c` with limit 1, one active Job `r`, a queued Forbid Job `f`
and a queued Allow Job `a`) is reachable and quiet, the key of `c` is ready; its round rejects `f`
(count 1) and starts `a` -/
example : Queue.Reachable ConvQ.QEx.s0 ∧ Queue.Quiet ConvQ.QEx.s0 ∧
    ((ConvQ.QEx.s0.cfgQ.advance ConvQ.QEx.s0.clock).get.map (·.1)) = some "ns/c" ∧
    (Queue.workConfig ConvQ.QEx.s0).1.calls.map (fun c => (c.verb, c.job, c.res)) =
      [("reject", "f", "ok"), ("start", "a", "ok")] ∧
    (ConvQ.qRound ConvQ.QEx.s0).counter = [("u", 2)] :=
  ⟨ConvQ.QEx.s0_reachable, ⟨by decide, by decide, by decide⟩, by decide, by decide, by decide⟩

/-- **FALSE as stated for one round — witness.**  "After an ok pass and the delivery of everything it
produced, the next pass is the identity" does not hold in the model: from the reachable quiet state
`QEx.s0` the first round is ok and ends quiet; the SECOND pass is ok too but is not the identity —
it rewrites the rejection of `f` (message count 1 ↦ 2, a new resourceVersion, one watch event);
only the THIRD pass leaves the server untouched (its reject write is a no-op, still logged). -/
theorem queue_one_round_not_identity_witness :
    Queue.Reachable ConvQ.QEx.s0 ∧ Queue.Quiet ConvQ.QEx.s0 ∧ (Queue.workConfig ConvQ.QEx.s0).2 = "ok" ∧
    Queue.Quiet (ConvQ.qRound ConvQ.QEx.s0) ∧
    (Queue.workConfig (ConvQ.qRound ConvQ.QEx.s0)).2 = "ok" ∧
    (Queue.workConfig (ConvQ.qRound ConvQ.QEx.s0)).1.jobs ≠ (ConvQ.qRound ConvQ.QEx.s0).jobs ∧
    (Queue.workConfig (ConvQ.qRound ConvQ.QEx.s0)).1.rv = (ConvQ.qRound ConvQ.QEx.s0).rv + 1 ∧
    ((ConvQ.qRound ConvQ.QEx.s0).jobs.map (fun j => (j.name, j.admMsg)),
     (Queue.workConfig (ConvQ.qRound ConvQ.QEx.s0)).1.jobs.map (fun j => (j.name, j.admMsg))) =
      ([("r", ("", 0)), ("f", ("c", 1)), ("a", ("", 0))], [("r", ("", 0)), ("f", ("c", 2)), ("a", ("", 0))]) ∧
    (Queue.workConfig (ConvQ.qRound (ConvQ.qRound ConvQ.QEx.s0))).1.jobs = (ConvQ.qRound (ConvQ.qRound ConvQ.QEx.s0)).jobs ∧
    (Queue.workConfig (ConvQ.qRound (ConvQ.qRound ConvQ.QEx.s0))).1.rv = (ConvQ.qRound (ConvQ.qRound ConvQ.QEx.s0)).rv ∧
    (Queue.workConfig (ConvQ.qRound (ConvQ.qRound ConvQ.QEx.s0))).1.jobEvs = [] ∧
    (Queue.workConfig (ConvQ.qRound (ConvQ.qRound ConvQ.QEx.s0))).1.calls.map (fun c => (c.verb, c.job, c.res)) =
      [("reject", "f", "ok")] :=
  ⟨ConvQ.QEx.s0_reachable, ⟨by decide, by decide, by decide⟩, by decide, ⟨by decide, by decide, by decide⟩,
    by decide, by decide, by decide, by decide, by decide, by decide, by decide, by decide⟩

end Furiko.Props.C20Inst
