import FurikoModel.Props.C14
import FurikoModel.Proofs.HashEncLemmas
import FurikoModel.Generated.Facts
import Batteries.Data.List.Perm
import Mathlib.Data.List.Nodup
/-!
# C14 — the identity of an index: the encoding half of `parallel.HashIndex`

`Props/C14.lean` treats `hash : Index → String` as a parameter and carries "hashes contain no `-`" as a hypothesis
that only a harness monitor checked.  Here the part of `HashIndex` that is furiko's own code — decimal rendering of
the uint64 structure hash, base32, the first six characters, lower-casing (`Model/HashEnc.lean`, tied by op
`idx.enc`) — is a function `hashEnc : Nat → String`, and `hash = hashEnc ∘ structHash` where only
`structHash : Index → Nat` (the library `hashstructure`) stays opaque.  For every uint64 (indeed every natural
number):

* the slice `hash[:6]` never panics and the result has exactly six characters (`hashIndex_six_chars`);
* it contains no `-` (`hashIndex_no_dash`), so task names are injective in (hash, retry) with NO side condition
  (`task_names_injective`) — "distinct indexes never share a task name" now rests only on the hashes being distinct;
* for a structure hash ≥ 1000 all six characters are in `a–z2–7` (`hash_is_name_safe`: valid in Pod names and label
  values); below 1000 — and only there — the hash contains base32 padding `=` (`short_hash_has_padding`);
* the six characters read only the first four decimal digits, the fourth only up to division by four
  (`hashEnc_reads_four_digits`, `hashEnc_of_code`): there are at most 4110 different identities
  (`identity_space_bound`), whatever the structure hash is — the quantitative root cause of finding F3;
* therefore the (repaired) validator, which accepts a spec only when the hashes of its indexes are pairwise distinct,
  accepts no spec with more than 4110 indexes (`accepted_spec_at_most_4110_indexes`,
  `withCount_above_4110_rejected`): "admission rejects specs for which this cannot hold", for all sizes.
-/
namespace Furiko.Props.C14Hash
open Furiko.Indexes Furiko.HashEnc

/-- the tie to the source as it is now (regenerated on every run by `harness/cmd/extract/hash_facts.go`): `HashIndex`
is the library hash, then `base32.StdEncoding` of the decimal rendering, then the lower-cased first six characters —
what `Model/HashEnc.lean` models.  Another radix, encoding, slice bound or case mapping breaks this obligation. -/
theorem source_encodes_as_modelled : Furiko.Facts.hashIndexShape =
    ["hashInt := hashstructure.Hash(index, hashstructure.FormatV2, nil)",
     "hash := base32.StdEncoding.EncodeToString([]byte(strconv.FormatUint(hashInt, 10)))",
     "return strings.ToLower(hash[:6])"] := by decide

/-- `strings.ToLower(hash[:6])` is defined for every structure hash and has six characters. -/
theorem hashIndex_six_chars (u : Nat) : (hashEnc u).length = 6 := by
  simp [hashEnc, hashEncChars, b32First6_length _ (decBytes_ne_nil u)]

/-- no hash contains the separator of `GenerateTaskName`. -/
theorem hashIndex_no_dash (u : Nat) : '-' ∉ (hashEnc u).toList := by
  simp only [hashEnc, String.toList_ofList, hashEncChars]
  exact b32First6_nodash _ (fun b hb => by have := decBytes_range u b hb; unfold Digit at this; omega)

/-- **task_names_injective**: for the hashes `HashIndex` really produces, equal task names mean equal index hash and
equal retry number — the side conditions of `C14.generateTaskName_injective` are discharged. -/
theorem task_names_injective (name : String) (u1 u2 : Nat) (r1 r2 : Int)
    (e : generateTaskName name (hashEnc u1) r1 = generateTaskName name (hashEnc u2) r2) :
    hashEnc u1 = hashEnc u2 ∧ r1 = r2 :=
  C14.generateTaskName_injective name _ _ r1 r2 (hashIndex_no_dash u1) (hashIndex_no_dash u2) e

/-- **hash_is_name_safe**: for a structure hash of at least four decimal digits (every uint64 except 0 … 999) the six
characters all come from the lower-case base32 alphabet `a–z2–7` — they are valid in a Pod name (DNS-1123) and in a
label value, which is where `GenerateTaskName` and `NewPod` put them. -/
theorem hash_is_name_safe (u : Nat) (h : 1000 ≤ u) : ∀ c ∈ (hashEnc u).toList, c ∈ b32Alphabet := by
  simp only [hashEnc, String.toList_ofList, hashEncChars]
  exact b32First6_alphabet _ (fun b hb => by have := decBytes_range u b hb; unfold Digit at this; omega)
    (decBytes_length_ge4 u h)

/-- … and ONLY for those: a structure hash below 1000 yields base32 padding, `=`, inside the task name and the label
value (`"g4===="` for 7), which the API server refuses (the Job then ends in AdmissionError).  One index in 2^64/1000:
recorded as a precise boundary of "each index has its own identity", not as a finding. -/
theorem short_hash_has_padding (u : Nat) (h : u < 1000) : '=' ∈ (hashEnc u).toList := by
  simp only [hashEnc, String.toList_ofList, hashEncChars]
  exact b32First6_padding _ (decBytes_ne_nil u) (decBytes_length_le3 u h)

example : hashEnc 7 = "g4====" := by decide

/-- the identity reads the first four decimal digits of the structure hash only. -/
theorem hashEnc_reads_four_digits (u : Nat) : hashEncChars u = b32First6 ((decBytes u).take 4) :=
  b32First6_take4 _

/-- … and of the fourth digit only its quotient by four: `code u < 4110` determines the hash. -/
theorem hashEnc_of_code (u v : Nat) (e : code u = code v) : hashEnc u = hashEnc v :=
  Furiko.HashEnc.hashEnc_of_code u v e

theorem code_lt (u : Nat) : code u < 4110 := Furiko.HashEnc.code_lt u

/-- **identity_space_bound**: pairwise different hashes ⇒ at most 4110 of them, for any structure hashes. -/
theorem identity_space_bound (us : List Nat) (h : (us.map hashEnc).Nodup) : us.length ≤ 4110 := by
  have hc : (us.map code).Nodup := by
    have hinj := List.inj_on_of_nodup_map h
    have hus : us.Nodup := List.Nodup.of_map _ h
    exact List.Nodup.map_on (fun x hx y hy e => hinj hx hy (hashEnc_of_code x y e)) hus
  have hsub : us.map code ⊆ List.range 4110 := by
    intro c hcm
    obtain ⟨u, _, rfl⟩ := List.mem_map.1 hcm
    exact List.mem_range.2 (code_lt u)
  have := (List.subperm_of_subset hc hsub).length_le
  simpa using this

/-- **accepted_spec_at_most_4110_indexes**: whatever `hashstructure` computes (`sh`), a spec the validator accepts
expands to at most 4110 indexes. -/
theorem accepted_spec_at_most_4110_indexes (sh : Index → Nat) (spec : Spec) (hkn : KeysNodup spec.withMatrix)
    (h : validateParallelismSpecFixed (fun ix => hashEnc (sh ix)) spec = []) :
    ∃ ixs, generateIndexes (some spec) = some ixs ∧ ixs.length ≤ 4110 := by
  obtain ⟨ixs, hgen, hnd, hinj, _⟩ := C14.validation_rejects_bad_specs_fixed _ spec hkn h
  refine ⟨ixs, hgen, ?_⟩
  have h1 : (ixs.map fun ix => hashEnc (sh ix)).Nodup := List.Nodup.map_on (fun a ha b hb e => hinj a ha b hb e) hnd
  have h2 : ((ixs.map sh).map hashEnc).Nodup := by simpa [List.map_map, Function.comp_def] using h1
  simpa using identity_space_bound _ h2

/-- `withCount: n` with n > 4110 is rejected, for every n. -/
theorem withCount_above_4110_rejected (sh : Index → Nat) (sp : Spec) (n : Int) (hc : sp.withCount = some n)
    (hn : 4110 < n) (hkn : KeysNodup sp.withMatrix) :
    validateParallelismSpecFixed (fun ix => hashEnc (sh ix)) sp ≠ [] := by
  intro h
  obtain ⟨ixs, hgen, hlen⟩ := accepted_spec_at_most_4110_indexes sh sp hkn h
  have hx := C14.withCount_exact sp n hc (by omega)
  rw [hx] at hgen
  cases hgen
  simp at hlen
  omega

/-- non-vacuity: with a structure hash that spreads the indexes, a three-index spec is accepted. -/
example : validateParallelismSpecFixed (fun ix => hashEnc (1000 + (ix.num.getD 0).toNat * 4))
    { withCount := some 3, strategy := "AllSuccessful" } = [] := by
  have hg := C14.withCount_exact { withCount := some 3, strategy := "AllSuccessful" } 3 rfl (by decide)
  simp [validateParallelismSpecFixed, validateSpecWith, validateStrategy, hg, firstDup, firstDupFrom, List.range,
    List.range.loop, List.idxOf?, List.findIdx?, List.findIdx?.go]
  decide

example : hashEnc 18446744073709551615 = "ge4din" := by decide
example : hashEnc 1844 = hashEnc 18479999 := by decide   -- same first three digits, fourth digits 4 and 7

end Furiko.Props.C14Hash
