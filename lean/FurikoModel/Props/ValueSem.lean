import FurikoModel.Generated.Facts
/-!
# Value semantics of the model vs. copies in the code (registered under C14 and C16)

The Lean model is purely functional: `Validation.newJobFromJobConfig`, `Indexes.newPod`, `Mutation.mutateUpdateJobConfig`
return new values and never change their arguments.  The Go functions receive objects that are SHARED — a JobConfig from
an informer cache, the pod template every task of a Job is built from — and the functional reading is faithful only
while they copy what they rewrite.  The regenerated fact `Facts.deepCopyCounts`
(`harness/cmd/extract/copies_facts.go`) counts the `.DeepCopy()` calls in those functions; the theorem demands at least
the copies the model relies on, so that removing one (seeded changes C16w4-1 and C14w4-2 did exactly that) breaks a
proof obligation, while adding one does not.  The behavioural side of the same tie: the admission engine keeps its own
record of the stored JobConfigs apart from the webhooks' cache, the shared-Job pod pass judges every container list, and
`sim.FakeInformer.Drifted` counts cached objects that were written through.
-/
namespace Furiko.Props.ValueSem

def required : List (String × Nat) :=
  [("jobconfig.NewJobFromJobConfig", 1), ("podtaskexecutor.SubstitutePodSpec", 1), ("mutation.MutateUpdateJobConfig", 1)]

/-- every function whose model relies on value semantics still makes (at least) the copies it made when the model was
written. -/
theorem source_copies_what_it_rewrites :
    ∀ p ∈ required, ∃ n, Furiko.Facts.deepCopyCounts.lookup p.1 = some n ∧ p.2 ≤ n := by decide

end Furiko.Props.ValueSem
