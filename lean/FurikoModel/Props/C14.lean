import FurikoModel.Proofs.IndexesLemmas
/-!
# C14 — Every parallel index is distinct, complete and gets its own task and variables

Property theorems about the executable model `FurikoModel/Model/Indexes.lean` (tied to the Go code by the
`indexes` engine). Statement of the property (properties.jsonl): a parallelism spec expands to exactly the
requested set of indexes (0..N-1, the given keys, or the full cartesian product of the matrix) in a
deterministic order, each index has its own identity so that distinct indexes never share a task name or
status slot, and the task created for an index receives that index's values in its context variables.
Admission rejects specs for which this cannot hold.

Status on the unchanged code:
  * expansion, order (for matrices without empty value lists), names/slots (given distinct hashes) and variables:
    proved in full, for all sizes;
  * `order_deterministic` is FALSE for a matrix with an empty value list and ≥ 2 keys
    (`order_nondeterministic_witness`, finding F3d);
  * "admission rejects …" is FALSE (`validation_rejects_bad_specs_false`, witnesses F3a–F3d);
    `validation_rejects_bad_specs_partial` states what the validator does guarantee, and
    `validation_rejects_bad_specs_fixed` is the full clause for the repaired validator
    `validateParallelismSpecFixed` (fix_F3.diff).
`hash : Index → String` (hashstructure + base32 + truncation) is a parameter everywhere.
-/
namespace Furiko.Props.C14
open Furiko.Indexes

/-! ## exact expansion -/

/-- `withCount: n` expands to exactly the index numbers 0, 1, …, n-1, in this order. -/
theorem withCount_exact (sp : Spec) (n : Int) (h : sp.withCount = some n) (hn : 0 ≤ n) :
    generateIndexes (some sp) = some ((List.range n.toNat).map fun (i : Nat) => ({ num := some (i : Int) } : Index)) := by
  have hlt : ¬ n < 0 := by omega
  simp only [generateIndexes, Option.getD_some, h, hlt, if_false]
  rw [countLoop_eq n hn n.toNat 0 (by simp), List.range_eq_range']
  rfl

example : generateIndexes (some { withCount := some 3 }) =
    some [{ num := some 0 }, { num := some 1 }, { num := some 2 }] := by
  rw [withCount_exact _ 3 rfl (by decide)]; rfl

/-- `withKeys: ks` (non-empty, `withCount` unset) expands to exactly the keys, in the given order. -/
theorem withKeys_exact (sp : Spec) (hc : sp.withCount = none) (hk : sp.withKeys ≠ []) :
    generateIndexes (some sp) = some (sp.withKeys.map fun k => ({ key := k } : Index)) := by
  have : sp.withKeys.length > 0 := List.length_pos_iff.2 hk
  simp [generateIndexes, hc, this]

example : generateIndexes (some { withKeys := ["b", "a", "ab"] }) =
    some [{ key := "b" }, { key := "a" }, { key := "ab" }] := by
  rw [withKeys_exact _ rfl (by simp)]; rfl

/-- no spec, or a spec with nothing set, is the single default index (number 0). -/
theorem default_exact : generateIndexes none = some [defaultIndex] ∧
    ∀ s : String, generateIndexes (some { strategy := s }) = some [defaultIndex] := by
  constructor <;> intros <;> simp [generateIndexes]

/-- **matrix_is_product**: for a matrix (a Go map: distinct keys) with at least one key and no empty value
list, the carry loop of `GenerateMatrixCombinations` produces the cartesian product of the value lists over
the SORTED keys, in lexicographic order (`cartesian`, first sorted key most significant): for all sizes. -/
theorem matrix_is_product (sp : Spec) (hc : sp.withCount = none) (hk : sp.withKeys = [])
    (hne : sp.withMatrix ≠ []) (hn : KeysNodup sp.withMatrix) (hpos : ∀ kv ∈ sp.withMatrix, kv.2 ≠ []) :
    generateIndexes (some sp) =
      some ((cartesian (cols sp.withMatrix)).map fun c => ({ mat := c } : Index)) := by
  have : sp.withMatrix.length > 0 := List.length_pos_iff.2 hne
  simp [generateIndexes, hc, hk, this, generateMatrixCombinations_eq sp.withMatrix hne hn hpos]

/-- the product has `∏ |values|` elements … -/
theorem matrix_count (m : Matrix) (hn : KeysNodup m) :
    (cartesian (cols m)).length = (m.map (·.2.length)).prod := by
  rw [cartesian_length, cols, List.map_map, ← prod_lens_sorted hn]
  rfl

/-- … contains exactly the choice functions (every combination of one value per key, keys in sorted order) … -/
theorem matrix_complete (m : Matrix) (c : Combination) :
    c ∈ cartesian (cols m) ↔ Picks (cols m) c := mem_cartesian _ _

/-- … each exactly once when every value list is duplicate-free, and in lexicographic order of the value
positions under the sorted keys. -/
theorem matrix_exactly_once (m : Matrix) (hn : KeysNodup m) (hd : ∀ kv ∈ m, kv.2.Nodup) :
    (cartesian (cols m)).Nodup ∧ (cartesian (cols m)).Pairwise (LexBefore (cols m)) := by
  have hcols : ∀ kv ∈ cols m, kv.2.Nodup := by
    intro kv hkv
    simp only [cols, List.mem_map] at hkv
    obtain ⟨k, hk, rfl⟩ := hkv
    obtain ⟨kv', hkv', rfl⟩ := mem_getKeys.1 hk
    rw [values_of_mem hn hkv']
    exact hd kv' hkv'
  exact ⟨cartesian_nodup _ hcols, cartesian_sorted _ hcols⟩

/-- the keys of `cols` are the sorted keys of the map -/
theorem matrix_keys_sorted (m : Matrix) :
    (cols m).map (·.1) = getKeys m ∧ (getKeys m).Pairwise (· ≤ ·) ∧ (getKeys m).Perm (m.map (·.1)) := by
  refine ⟨?_, getKeys_sorted m, getKeys_perm m⟩
  simp [cols, Function.comp_def]

example : generateIndexes (some { withMatrix := [("a", ["1", "2"]), ("b", ["x", "y"])] }) =
    some [{ mat := [("a", "1"), ("b", "x")] }, { mat := [("a", "1"), ("b", "y")] },
          { mat := [("a", "2"), ("b", "x")] }, { mat := [("a", "2"), ("b", "y")] }] := by
  have hk : getKeys [("a", ["1", "2"]), ("b", ["x", "y"])] = ["a", "b"] := by
    simp [getKeys, List.mergeSort]
  rw [matrix_is_product _ rfl rfl (by simp) (by simp [KeysNodup]) (by simp)]
  simp [cols, hk, values, cartesian, List.lookup]

/-! ## deterministic order -/

/-- **order_deterministic**: the expansion is a function of the spec as a MAP. Whatever order Go's map iteration
presents the matrix in (any permutation of the association list), the result is the same — provided no value list
is empty. (`withCount`/`withKeys` do not involve a map at all.) -/
theorem order_deterministic (sp : Spec) (m' : Matrix) (hperm : sp.withMatrix.Perm m')
    (hn : KeysNodup sp.withMatrix) (hpos : ∀ kv ∈ sp.withMatrix, kv.2 ≠ []) :
    generateIndexes (some { sp with withMatrix := m' }) = generateIndexes (some sp) := by
  have hn' : KeysNodup m' := (hperm.map _).nodup hn
  have hpos' : ∀ kv ∈ m', kv.2 ≠ [] := fun kv h => hpos kv (hperm.symm.subset h)
  have hlen : m'.length = sp.withMatrix.length := hperm.length_eq.symm
  cases hc : sp.withCount with
  | some n => simp [generateIndexes, hc]
  | none =>
    by_cases hk : sp.withKeys.length > 0
    · simp [generateIndexes, hc, hk]
    · by_cases hm : sp.withMatrix = []
      · have : m' = [] := by rw [hm] at hperm; exact List.Perm.nil_eq hperm |>.symm ▸ rfl
        simp [generateIndexes, hc, hk, hm, this]
      · have hm' : m' ≠ [] := fun e => hm (by rw [e] at hperm; exact hperm.eq_nil)
        have l1 : sp.withMatrix.length > 0 := List.length_pos_iff.2 hm
        have l2 : m'.length > 0 := List.length_pos_iff.2 hm'
        simp only [generateIndexes, Option.getD_some, hc, hk, if_false, l1, l2, if_true,
          generateMatrixCombinations_eq m' hm' hn' hpos', generateMatrixCombinations_eq _ hm hn hpos,
          cols_eq_of_perm hn hperm]

example : generateIndexes (some { withMatrix := [("b", ["x"]), ("a", ["1", "2"])] }) =
    generateIndexes (some { withMatrix := [("a", ["1", "2"]), ("b", ["x"])] }) :=
  order_deterministic { withMatrix := [("a", ["1", "2"]), ("b", ["x"])] } _ (List.Perm.swap ..)
    (by simp [KeysNodup]) (by simp)

/-- **F3d**: with an empty value list the hypothesis cannot be dropped — `NumCombinations` forgets everything
before the last empty list it meets, so `{a: [], b: [x]}` panics (index out of range) when the map is iterated
`a, b` and yields no index at all when iterated `b, a`. Replayed on the real code by the corpus scenario
`f3-withmatrix-empty-values`. -/
theorem order_nondeterministic_witness :
    ∃ (m m' : Matrix), m.Perm m' ∧ KeysNodup m ∧
      generateIndexes (some { withMatrix := m }) = none ∧
      generateIndexes (some { withMatrix := m' }) = some [] := by
  refine ⟨[("a", []), ("b", ["x"])], [("b", ["x"]), ("a", [])], List.Perm.swap .., by simp [KeysNodup], ?_, ?_⟩
  · have hk : getKeys [("a", []), ("b", ["x"])] = ["a", "b"] := by simp [getKeys, List.mergeSort]
    simp [generateIndexes, generateMatrixCombinations, numCombinations, hk, odometer, fixIndexes, fixLoop, values,
      List.lookup]
  · simp [generateIndexes, generateMatrixCombinations, numCombinations, odometer]

/-! ## identity: task names and status slots -/

/-- `GenerateTaskName` is injective in (hash, retry) for a fixed job name, because hashes (6 characters of the
lower-cased base32 alphabet, checked on every hash by the harness monitor `hash-format`) contain no `-`. -/
theorem generateTaskName_injective (name h1 h2 : String) (r1 r2 : Int)
    (d1 : '-' ∉ h1.toList) (d2 : '-' ∉ h2.toList)
    (e : generateTaskName name h1 r1 = generateTaskName name h2 r2) : h1 = h2 ∧ r1 = r2 :=
  generateTaskName_inj name h1 h2 r1 r2 d1 d2 e

/-- **distinct_names_slots**: if the indexes of a spec are pairwise distinct and the hash is injective on them,
then (1) different indexes never share a task name, whatever the retry numbers; (2) the same index with different
retry numbers has different names; (3) every status slot of `GetParallelStatus` holds exactly the tasks of its
own index: grouping by hash partitions the tasks by index. -/
theorem distinct_names_slots (hash : Index → String) (ixs : List Index)
    (hinj : ∀ a ∈ ixs, ∀ b ∈ ixs, hash a = hash b → a = b)
    (hfmt : ∀ a ∈ ixs, '-' ∉ (hash a).toList) (name : String) :
    (∀ a ∈ ixs, ∀ b ∈ ixs, ∀ r1 r2 : Int, a ≠ b →
        generateTaskName name (hash a) r1 ≠ generateTaskName name (hash b) r2) ∧
    (∀ a ∈ ixs, ∀ r1 r2 : Int, r1 ≠ r2 →
        generateTaskName name (hash a) r1 ≠ generateTaskName name (hash a) r2) ∧
    (∀ tasks : List Index, (∀ t ∈ tasks, t ∈ ixs) →
        statusSlots hash ixs tasks = ixs.map fun i => (hash i, (tasks.filter (· = i)).length)) := by
  refine ⟨?_, ?_, ?_⟩
  · intro a ha b hb r1 r2 hab e
    exact hab (hinj a ha b hb (generateTaskName_inj name _ _ r1 r2 (hfmt a ha) (hfmt b hb) e).1)
  · intro a ha r1 r2 hr e
    exact hr (generateTaskName_inj name _ _ r1 r2 (hfmt a ha) (hfmt a ha) e).2
  · intro tasks hsub
    simp only [statusSlots, hashIndexes_fst, List.map_map]
    apply List.map_congr_left
    intro i hi
    simp only [Function.comp_def, Prod.mk.injEq, true_and]
    clear hfmt
    induction tasks with
    | nil => simp
    | cons t ts ih =>
      have ht : t ∈ ixs := hsub t (List.mem_cons_self ..)
      have ih' := ih (fun x hx => hsub x (List.mem_cons_of_mem _ hx))
      by_cases e : t = i
      · subst e; simp [ih']
      · have hne : hash t ≠ hash i := fun hh => e (hinj t ht i hi hh)
        simp [e, hne, ih']

/-- which entry wins on a hash collision: `hashesIdx[h]` of `HashIndexes` is the LAST position whose index
hashes to `h` (so with a collision the earlier index is never "found" by `ComputeMissingIndexesForCreation`). -/
theorem hashesIdx_last_wins (hash : Index → String) (ixs : List Index) (h : String) :
    (hashIndexes hash ixs).2.lookup h = lastPos hash h ixs 0 := by
  rw [hashIndexes, hashIndexesLoop_snd]
  cases lastPos hash h ixs 0 <;> simp

example : (hashIndexes f3Hash [{ num := some 58 }, { num := some 59 }, { num := some 69 }]).2.lookup "ge3dqm"
    = some 2 := by
  rw [hashesIdx_last_wins]; simp [lastPos, f3Hash, f3WitnessHashes]

example : ∀ a ∈ [({ num := some 0 } : Index), { num := some 1 }], ∀ b ∈ [({ num := some 0 } : Index), { num := some 1 }],
    f3Hash a = f3Hash b → a = b := by
  simp [f3Hash, f3WitnessHashes]

/-! ## variables -/

/-- **vars_carry_index**: the variables of the task created for an index are the three task variables plus
exactly that index's values: `task.index_num` for a count index, `task.index_key` for a (non-empty) key,
`task.index_matrix.<k>` = v for every pair of a matrix combination — and nothing else. -/
theorem vars_carry_index (name ns : String) (retry : Int) :
    (∀ n : Int, makeVariablesFromTask name ns retry { num := some n } =
      [("task.name", name), ("task.namespace", ns), ("task.retry_index", toString retry),
       ("task.index_num", toString n)]) ∧
    (∀ k : String, k ≠ "" → makeVariablesFromTask name ns retry { key := k } =
      [("task.name", name), ("task.namespace", ns), ("task.retry_index", toString retry),
       ("task.index_key", k)]) ∧
    (∀ c : Combination, makeVariablesFromTask name ns retry { mat := c } =
      [("task.name", name), ("task.namespace", ns), ("task.retry_index", toString retry)] ++
        c.map fun kv => ("task.index_matrix." ++ kv.1, kv.2)) := by
  refine ⟨?_, ?_, ?_⟩ <;> intros <;> simp_all [makeVariablesFromTask]

/-- the pod built by `NewPod` for an index is named by `GenerateTaskName`, labelled with the index hash and
retry, carries the index in its annotation, and a field `${task.index_num}` is substituted by the index number -/
theorem pod_carries_index (hash : Index → String) (job ns : String) (retry n : Int) :
    let p := newPod hash job ns retry { num := some n } ["task.index_num", "task.index_key"]
    p.name = generateTaskName job (hash { num := some n }) retry ∧ p.hashLabel = hash { num := some n } ∧
    p.annotation = { num := some n } ∧ p.env = [toString n, ""] := by
  simp [newPod, makeVariablesFromTask, substSingle, List.lookup]

/-- the matrix variables can be looked up: for a combination with distinct keys, variable
`task.index_matrix.<k>` has the combination's value for `k`. -/
theorem vars_matrix_lookup (name ns : String) (retry : Int) (c : Combination) (hn : (c.map (·.1)).Nodup)
    (k v : String) (h : (k, v) ∈ c) :
    (makeVariablesFromTask name ns retry { mat := c }).lookup ("task.index_matrix." ++ k) = some v := by
  have hpre : ∀ s : String, s = "task.name" ∨ s = "task.namespace" ∨ s = "task.retry_index" →
      ("task.index_matrix." ++ k == s) = false := by
    intro s hs
    have : "task.index_matrix." ++ k ≠ s := by
      intro e
      have e' := congrArg String.toList e
      rcases hs with rfl | rfl | rfl <;> simp [String.toList_append] at e'
    simpa using this
  simp only [(vars_carry_index name ns retry).2.2 c, List.cons_append, List.nil_append, List.lookup_cons,
    hpre _ (Or.inl rfl), hpre _ (Or.inr (Or.inl rfl)), hpre _ (Or.inr (Or.inr rfl))]
  induction c with
  | nil => simp at h
  | cons p rest ih =>
    obtain ⟨pk, pv⟩ := p
    simp only [List.map_cons, List.nodup_cons] at hn
    rcases List.mem_cons.1 h with e | hmem
    · cases e; simp []
    · have hk : k ≠ pk := fun e => hn.1 (e ▸ List.mem_map.2 ⟨(k, v), hmem, rfl⟩)
      have : ("task.index_matrix." ++ k == "task.index_matrix." ++ pk) = false := by
        simpa [String.append_right_inj] using hk
      simp only [List.map_cons, List.lookup_cons, this]
      exact ih hn.2 hmem

example : (makeVariablesFromTask "job-gezdqo-0" "ns" 0 { mat := [("arch", "arm64"), ("os", "linux")] }).lookup
    "task.index_matrix.os" = some "linux" :=
  vars_matrix_lookup _ _ _ _ (by simp) "os" "linux" (by simp)

/-! ## admission -/

/-- **F3a witness**: the validator as it is accepts `withCount: 70`, whose indexes 58 and 69 have the same
hash under the transmitted hash values (`f3Hash`): they share task names and one status slot. -/
theorem validation_accepts_colliding_witness :
    ∃ (spec : Spec) (ixs : List Index), validateParallelismSpec spec = [] ∧
      generateIndexes (some spec) = some ixs ∧ ixs.Nodup ∧
      ∃ a ∈ ixs, ∃ b ∈ ixs, a ≠ b ∧ f3Hash a = f3Hash b ∧
        generateTaskName "job" (f3Hash a) 0 = generateTaskName "job" (f3Hash b) 0 := by
  refine ⟨{ withCount := some 70, strategy := "AllSuccessful" }, _, ?_, withCount_exact _ 70 rfl (by decide), ?_,
    { num := some 58 }, ?_, { num := some 69 }, ?_, ?_, ?_, ?_⟩
  · simp [validateParallelismSpec, validateSpecWith, validateStrategy]
  · exact nodup_map_of_inj List.nodup_range (fun a _ b _ e => numIndex_injective a b e)
  · exact List.mem_map.2 ⟨58, by simp, rfl⟩
  · exact List.mem_map.2 ⟨69, by simp, rfl⟩
  · simp
  · simp [f3Hash, f3WitnessHashes]
  · simp [f3Hash, f3WitnessHashes]

/-- **F3b / F3c witnesses**: duplicate `withKeys` entries and duplicate values of a matrix key are accepted and
expand to duplicate indexes. -/
theorem validation_accepts_duplicates_witness :
    (∃ (spec : Spec) (ixs : List Index), validateParallelismSpec spec = [] ∧
        generateIndexes (some spec) = some ixs ∧ ¬ ixs.Nodup ∧ spec.withKeys ≠ []) ∧
    (∃ (spec : Spec) (ixs : List Index), validateParallelismSpec spec = [] ∧
        generateIndexes (some spec) = some ixs ∧ ¬ ixs.Nodup ∧ spec.withMatrix ≠ []) := by
  constructor
  · refine ⟨{ withKeys := ["a", "b", "a"], strategy := "AllSuccessful" }, _, ?_, withKeys_exact _ rfl (by simp), ?_, by simp⟩
    · simp [validateParallelismSpec, validateSpecWith, validateStrategy]
    · simp
  · refine ⟨{ withMatrix := [("os", ["linux", "linux"])], strategy := "AllSuccessful" }, _, ?_,
      matrix_is_product _ rfl rfl (by simp) (by simp [KeysNodup]) (by simp), ?_, by simp⟩
    · simp [validateParallelismSpec, validateSpecWith, validateStrategy, validateMatrix, matrixKeyOk, matrixKeyChar]
    · simp [cols, getKeys, values, List.lookup, cartesian]

/-- **F3d witness**: a matrix with an empty value list is accepted although its expansion panics or is empty
depending on map iteration order. -/
theorem validation_accepts_empty_values_witness :
    ∃ (spec : Spec) (m' : Matrix), validateParallelismSpec spec = [] ∧ spec.withMatrix.Perm m' ∧
      generateIndexes (some spec) = none ∧ generateIndexes (some { spec with withMatrix := m' }) = some [] := by
  refine ⟨{ withMatrix := [("a", []), ("b", ["x"])], strategy := "AllSuccessful" }, [("b", ["x"]), ("a", [])], ?_,
    List.Perm.swap .., ?_, ?_⟩
  · simp [validateParallelismSpec, validateSpecWith, validateStrategy, validateMatrix, matrixKeyOk, matrixKeyChar]
  · have hk : getKeys [("a", []), ("b", ["x"])] = ["a", "b"] := by simp [getKeys, List.mergeSort]
    simp [generateIndexes, generateMatrixCombinations, numCombinations, hk, odometer, fixIndexes, fixLoop, values,
      List.lookup]
  · simp [generateIndexes, generateMatrixCombinations, numCombinations, odometer]

/-- **validation_rejects_bad_specs was FALSE for the validator before fix 4b8da56** (`validateParallelismSpec` is that
earlier shape, kept as documentation; the current one is `…_fixed` below) (full statement: `validate spec = ok →
NoDup indexes ∧ hash injective on them`, for every hash function). -/
theorem validation_rejects_bad_specs_false :
    ¬ ∀ (hash : Index → String) (spec : Spec) (ixs : List Index), validateParallelismSpec spec = [] →
        generateIndexes (some spec) = some ixs →
        ixs.Nodup ∧ ∀ a ∈ ixs, ∀ b ∈ ixs, hash a = hash b → a = b := by
  intro hall
  obtain ⟨spec, ixs, hv, hg, _, a, ha, b, hb, hab, hh, _⟩ := validation_accepts_colliding_witness
  exact hab ((hall f3Hash spec ixs hv hg).2 a ha b hb hh)

/-- **validation_rejects_bad_specs_partial** — exactly what the current validator guarantees: a valid completion
strategy; exactly one parallelism type; a positive count (whose indexes are then always duplicate-free);
non-empty keys (duplicate-free indexes only IF the keys are distinct); well-formed matrix keys and non-empty
value strings (a total, duplicate-free expansion only IF no value list is empty and none has duplicates).
Missing for the full clause: distinctness of keys / matrix values, non-emptiness of value lists, and any
statement about the hash (no collision check exists). -/
theorem validation_rejects_bad_specs_partial (spec : Spec) (h : validateParallelismSpec spec = []) :
    (spec.strategy = "AllSuccessful" ∨ spec.strategy = "AnySuccessful") ∧
    ((∃ n, spec.withCount = some n ∧ 0 < n ∧ spec.withKeys = [] ∧ spec.withMatrix = [] ∧
        ∃ ixs, generateIndexes (some spec) = some ixs ∧ ixs.Nodup ∧ ixs.length = n.toNat) ∨
     (spec.withCount = none ∧ spec.withKeys ≠ [] ∧ spec.withMatrix = [] ∧ (∀ k ∈ spec.withKeys, k ≠ "") ∧
        ∃ ixs, generateIndexes (some spec) = some ixs ∧ (spec.withKeys.Nodup → ixs.Nodup)) ∨
     (spec.withCount = none ∧ spec.withKeys = [] ∧ spec.withMatrix ≠ [] ∧
        (∀ kv ∈ spec.withMatrix, matrixKeyOk kv.1 = true ∧ ∀ v ∈ kv.2, v ≠ "") ∧
        (KeysNodup spec.withMatrix → (∀ kv ∈ spec.withMatrix, kv.2 ≠ [] ∧ kv.2.Nodup) →
          ∃ ixs, generateIndexes (some spec) = some ixs ∧ ixs.Nodup))) := by
  obtain ⟨hst, hcases⟩ := validateSpecWith_nil h
  refine ⟨hst, ?_⟩
  rcases hcases with ⟨n, hc, hn, hk, hm⟩ | ⟨hc, hk, hne, hm⟩ | ⟨hc, hk, hm, hv⟩
  · refine Or.inl ⟨n, hc, hn, hk, hm, _, withCount_exact spec n hc (by omega), ?_, by simp⟩
    exact nodup_map_of_inj List.nodup_range (fun a _ b _ e => numIndex_injective a b e)
  · refine Or.inr (Or.inl ⟨hc, hk, hm, hne, _, withKeys_exact spec hc hk, ?_⟩)
    intro hnd
    exact nodup_map_of_inj hnd (fun a _ b _ e => by simpa using e)
  · refine Or.inr (Or.inr ⟨hc, hk, hm, validateMatrix_nil hv, ?_⟩)
    intro hkn hvals
    refine ⟨_, matrix_is_product spec hc hk hm hkn (fun kv h => (hvals kv h).1), ?_⟩
    exact nodup_map_of_inj (matrix_exactly_once _ hkn (fun kv h => (hvals kv h).2)).1
      (fun a _ b _ e => by simpa using e)

/-- the repaired validator never meets a panicking expansion -/
theorem fixed_validator_never_panics (spec : Spec) (hkn : KeysNodup spec.withMatrix)
    (h : validateSpecWith validateMatrixFixed spec = []) : ∃ ixs, generateIndexes (some spec) = some ixs := by
  obtain ⟨_, hcases⟩ := validateSpecWith_nil h
  rcases hcases with ⟨n, hc, hn, _, _⟩ | ⟨hc, hk, _, _⟩ | ⟨hc, hk, hm, hv⟩
  · exact ⟨_, withCount_exact spec n hc (by omega)⟩
  · exact ⟨_, withKeys_exact spec hc hk⟩
  · exact ⟨_, matrix_is_product spec hc hk hm hkn (fun kv h => (validateMatrixFixed_nil hv kv h).2.1)⟩

/-- **validation_rejects_bad_specs_fixed** — the full clause, for the repaired validator of fix_F3.diff
(`validateParallelismSpecFixed`): whatever the hash function, an accepted spec (a Go map: distinct matrix keys)
expands without panic, independently of map iteration order, to pairwise distinct indexes on which the hash is
injective — hence (by `distinct_names_slots`) to distinct task names and status slots. -/
theorem validation_rejects_bad_specs_fixed (hash : Index → String) (spec : Spec)
    (hkn : KeysNodup spec.withMatrix) (h : validateParallelismSpecFixed hash spec = []) :
    ∃ ixs, generateIndexes (some spec) = some ixs ∧ ixs.Nodup ∧
      (∀ a ∈ ixs, ∀ b ∈ ixs, hash a = hash b → a = b) ∧
      (∀ m', spec.withMatrix.Perm m' → generateIndexes (some { spec with withMatrix := m' }) = some ixs) := by
  simp only [validateParallelismSpecFixed] at h
  split at h
  · rename_i hlen
    have herrs : validateSpecWith validateMatrixFixed spec = [] := List.length_eq_zero_iff.1 hlen
    split at h
    · cases h
    · rename_i ixs hgen
      split at h
      · cases h
      · rename_i hdup
        obtain ⟨hnd, hinj⟩ := nodup_map_hash ((firstDup_none _).1 hdup)
        refine ⟨ixs, hgen, hnd, hinj, ?_⟩
        intro m' hperm
        obtain ⟨_, hcases⟩ := validateSpecWith_nil herrs
        have hpos : ∀ kv ∈ spec.withMatrix, kv.2 ≠ [] := by
          rcases hcases with ⟨_, _, _, _, hm⟩ | ⟨_, _, _, hm⟩ | ⟨_, _, _, hv⟩
          · simp [hm]
          · simp [hm]
          · exact fun kv h => (validateMatrixFixed_nil hv kv h).2.1
        rw [order_deterministic spec m' hperm hkn hpos, hgen]
  · rename_i hlen
    exact absurd (by rw [h]; rfl) hlen

example : validateParallelismSpecFixed (fun ix => toString (ix.num.getD 0)) { withCount := some 3, strategy := "AllSuccessful" } = [] := by
  have hg := withCount_exact { withCount := some 3, strategy := "AllSuccessful" } 3 rfl (by decide)
  simp [validateParallelismSpecFixed, validateSpecWith, validateStrategy, hg, firstDup, firstDupFrom, List.range,
    List.range.loop, List.idxOf?, List.findIdx?, List.findIdx?.go]

/-- the repaired validator rejects the F3a witness -/
theorem fixed_rejects_colliding_witness :
    validateParallelismSpecFixed f3Hash { withCount := some 70, strategy := "AllSuccessful" } ≠ [] := by
  intro h
  obtain ⟨ixs, hg, _, hinj, _⟩ := validation_rejects_bad_specs_fixed f3Hash _ (by simp [KeysNodup]) h
  rw [withCount_exact _ 70 rfl (by decide)] at hg
  cases hg
  have := hinj { num := some 58 } (List.mem_map.2 ⟨58, by simp, rfl⟩) { num := some 69 }
    (List.mem_map.2 ⟨69, by simp, rfl⟩) (by simp [f3Hash, f3WitnessHashes])
  simp at this

end Furiko.Props.C14
