/-
C11 — "Job status only moves forward …": HISTORY-level theorems, i.e. invariants over every state
reachable in the transition system of `Proofs/JobCtlSys.lean` (one Job; controller passes with any
fault pattern, informer lag per resource, resync, restart, clock, kubelet under the kubelet
contract, external pod deletion, user kill / delete, foreign pods).

`Reach ok j0 s`: `s` is reachable from the creation of the well-formed Job `j0` (`WF`: no task
recorded yet, not being deleted) by allowed actions satisfying the filter `ok`.  Theorems stated for
an arbitrary `ok` allow EVERY action.  Envelopes: `E-API`, `E-ErrNotApplied` (+ the `applied-err`
fault), `E-SingleLeader` as built into the model; nothing else unless stated.
-/
import FurikoModel.Proofs.JobCtlInvExamples

namespace Furiko.Props.C11Hist
open Furiko Furiko.JobCtl

/-- `rv_identifies_version`: in every reachable state, a Job version the controller holds in its
cache — or will receive by an undelivered watch event — whose resourceVersion equals the
authoritative object's IS that object.  (So a write that passes the optimistic-concurrency check was
computed from exactly the object it overwrites.)  All actions allowed. -/
theorem rv_identifies_version {ok : Sys → Action → Prop} {j0 : JobObj} {s : Sys} (hr : Reach ok j0 s)
    (j : JobObj) (hj : s.job = some j) (v : JobObj) (hv : v ∈ seenVers s) (hrv : v.rv = j.rv) : v = j :=
  (base_of_reach hr).rvId j hj v hv hrv

/-- … in particular for the cached version. -/
theorem rv_identifies_cached {ok : Sys → Action → Prop} {j0 : JobObj} {s : Sys} (hr : Reach ok j0 s)
    (j c : JobObj) (hj : s.job = some j) (hc : s.jobCache = some c) (hrv : c.rv = j.rv) : c = j :=
  rv_identifies_version hr j hj c (mem_seenVers_cache hc) hrv

example : ∃ j c, Ex.sA.job = some j ∧ Ex.sA.jobCache = some c ∧ c.rv = j.rv ∧ j.job.status.tasks ≠ [] :=
  ⟨Ex.jobOf Ex.sA, Ex.cachedOf Ex.sA, by decide +kernel, by decide +kernel, by decide +kernel, by decide +kernel⟩
/-- (a stale cached version exists in a reachable state: the hypothesis `c.rv = j.rv` matters) -/
example : ∃ j c, Ex.sB.job = some j ∧ Ex.sB.jobCache = some c ∧ c.rv ≠ j.rv :=
  ⟨Ex.jobOf Ex.sB, Ex.cachedOf Ex.sB, by decide +kernel, by decide +kernel, by decide +kernel⟩

/-- `startTime_stable`, one step: no action whatsoever changes `status.startTime` of the
authoritative Job while the object exists (the controller's status writes copy it from the version
they were computed from, which `rv_identifies_version` shows is the one overwritten; user kill /
delete and TTL deletion keep the status).  All actions allowed, any fault pattern. -/
theorem startTime_stable_step {ok : Sys → Action → Prop} {j0 : JobObj} {s : Sys} (hr : Reach ok j0 s) (a : Action)
    (hal : Allowed j0 s a) (j j' : JobObj) (hj : s.job = some j) (hj' : (step s a).job = some j') :
    j'.job.status.startTime = j.job.status.startTime :=
  step_rel (fun x y => y.status.startTime = x.status.startTime) (fun _ => rfl)
    (fun _ _ _ h1 h2 => h2.trans h1) (fun jo sp => (sync_spec sp jo sp (CreatePhase.refl _)).2.startTime)
    (fun _ _ _ h1 h2 => by rw [h2]; exact h1) hr a hal j j' hj hj'

/-- `startTime_stable`: once the authoritative Job has `status.startTime = some t` it keeps it for as
long as the object exists, along every continuation of the history.  All actions allowed. -/
theorem startTime_stable {ok : Sys → Action → Prop} {j0 : JobObj} {s s' : Sys} (hr : Reach ok j0 s)
    (hs : Steps ok j0 s s') (j j' : JobObj) (hj : s.job = some j) (hj' : s'.job = some j') (t : Time)
    (ht : j.job.status.startTime = some t) : j'.job.status.startTime = some t := by
  have := steps_rel (fun x y => y.status.startTime = x.status.startTime) (fun _ => rfl)
    (fun _ _ _ h1 h2 => h2.trans h1)
    (fun s a _ hr _ hal j j' => startTime_stable_step hr a hal j j') hr hs j j' hj hj'
  rw [this, ht]

example : ∃ j j', Ex.sA.job = some j ∧ Ex.sC.job = some j' ∧ Steps anyAction Ex.job Ex.sA Ex.sC ∧
    j.job.status.startTime = some 0 ∧ j.rv ≠ j'.rv :=
  ⟨Ex.jobOf Ex.sA, Ex.jobOf Ex.sC, by decide +kernel, by decide +kernel, Ex.sA_sC, by decide +kernel,
    by decide +kernel⟩

/-! ### `timestamps_never_cleared`, `created_nondecreasing`

ALL actions are allowed: any fault pattern, informer lag, restart, clock, kubelet, external pod
deletion, user kill / delete — and, since the repair of F22, foreign pods on any name (before the repair
these were `*_partial`, proved only for histories without foreign pods: a pod that is not controlled by
the Job but took the name of a recorded task was read by `getTaskForRef` as that task; now no lookup
reads it, `C09Hist.foreign_never_read`).  Job: index hashes pairwise distinct and free of `-` (`WF2`,
cf. C14). -/

/-- `timestamps_never_cleared`, one step: every ref of the authoritative status is still there after
the step, under the same name, and none of its creation / running / finish timestamps that was set has
been cleared (while the Job object exists). -/
theorem timestamps_never_cleared_step {ok : Sys → Action → Prop} {j0 : JobObj}
    {s : Sys} (hr : Reach ok j0 s) (hwf : WF2 j0 s.d) (a : Action) (hal : Allowed j0 s a) (j j' : JobObj)
    (hj : s.job = some j) (hj' : (step s a).job = some j') :
    RefsKeep j.job.status.tasks j'.job.status.tasks :=
  jobMoves_rel (fun x y => RefsKeep x.status.tasks y.status.tasks) (fun _ => RefsKeep.refl _)
    (fun _ _ _ h1 h2 => h1.trans h2) (fun _ _ h => by rw [h]; exact RefsKeep.refl _)
    (fun jo sp hc hf => (sync_good_of_reach hr hwf jo sp hc hf).2.2)
    (fun _ _ _ h1 h2 => by rw [h2]; exact h1) (job_moves (base_of_reach hr) a hal) j j' hj hj'

/-- `timestamps_never_cleared` along every continuation of the history -/
theorem timestamps_never_cleared {ok : Sys → Action → Prop} {j0 : JobObj}
    {s s' : Sys} (hr : Reach ok j0 s) (hwf : WF2 j0 s.d) (hs : Steps ok j0 s s') (j j' : JobObj)
    (hj : s.job = some j) (hj' : s'.job = some j') :
    RefsKeep j.job.status.tasks j'.job.status.tasks := by
  refine steps_rel (fun x y => RefsKeep x.status.tasks y.status.tasks)
    (fun _ => RefsKeep.refl _) (fun _ _ _ h1 h2 => h1.trans h2) ?_ hr hs j j' hj hj'
  intro s1 a hs1 hr1 _ hal j1 j1' h1 h1'
  exact timestamps_never_cleared_step hr1 (by rw [steps_d hs1]; exact hwf) a hal j1 j1' h1 h1'

example : ∃ j j', Ex.sA.job = some j ∧ Ex.sC.job = some j' ∧ Steps anyAction Ex.job Ex.sA Ex.sC ∧
    WF2 Ex.job Ex.sA.d ∧ (j.job.status.tasks.map (·.finishTimestamp) = [none]) ∧
    (j'.job.status.tasks.map (·.finishTimestamp) = [some 0]) :=
  ⟨Ex.jobOf Ex.sA, Ex.jobOf Ex.sC, by decide +kernel, by decide +kernel, Ex.sA_sC, Ex.wf2_job,
    by decide +kernel, by decide +kernel⟩

/-- `created_nondecreasing`, one step: `status.createdTasks` of the authoritative Job never decreases
(while the object exists). -/
theorem created_nondecreasing_step {ok : Sys → Action → Prop} {j0 : JobObj}
    {s : Sys} (hr : Reach ok j0 s) (hwf : WF2 j0 s.d) (a : Action) (hal : Allowed j0 s a) (j j' : JobObj)
    (hj : s.job = some j) (hj' : (step s a).job = some j') :
    j.job.status.createdTasks ≤ j'.job.status.createdTasks := by
  refine jobMoves_rel (fun x y => x.status.createdTasks ≤ y.status.createdTasks) (fun _ => Int.le_refl _)
    (fun _ _ _ h1 h2 => Int.le_trans h1 h2) (fun _ _ h => by rw [h]; exact Int.le_refl _) ?_
    (fun _ _ _ h1 h2 => by rw [h2]; exact h1) (job_moves (base_of_reach hr) a hal) j j' hj hj'
  intro jo sp hc hf
  obtain ⟨hg, hgk⟩ := sync_good_of_reach hr hwf jo sp hc hf
  have hsub := (sync_spec sp jo sp (CreatePhase.refl _)).2.names
  have hlen := hg.nodup.length_le_of_subset (fun n hn => hsub n hn)
  unfold refNames at hlen
  simp only [List.length_map] at hlen
  rw [hg.created, hgk.1.created]
  exact Int.ofNat_le.mpr hlen

/-- `created_nondecreasing` along every continuation of the history -/
theorem created_nondecreasing {ok : Sys → Action → Prop} {j0 : JobObj}
    {s s' : Sys} (hr : Reach ok j0 s) (hwf : WF2 j0 s.d) (hs : Steps ok j0 s s') (j j' : JobObj)
    (hj : s.job = some j) (hj' : s'.job = some j') :
    j.job.status.createdTasks ≤ j'.job.status.createdTasks := by
  refine steps_rel (fun x y => x.status.createdTasks ≤ y.status.createdTasks)
    (fun _ => Int.le_refl _) (fun _ _ _ h1 h2 => Int.le_trans h1 h2) ?_ hr hs j j' hj hj'
  intro s1 a hs1 hr1 _ hal j1 j1' h1 h1'
  exact created_nondecreasing_step hr1 (by rw [steps_d hs1]; exact hwf) a hal j1 j1' h1 h1'

example : ∃ j j', Ex.s0.job = some j ∧ Ex.sA.job = some j' ∧ j.job.status.createdTasks = 0 ∧
    j'.job.status.createdTasks = 1 :=
  ⟨Ex.jobOf Ex.s0, Ex.jobOf Ex.sA, by decide +kernel, by decide +kernel, by decide +kernel, by decide +kernel⟩

/-! ### `finished_stays_finished` / `result_and_finishTime_stable`

Planned statement: once the authoritative status condition is `finished` with result `r` and finish
time `f`, every later authoritative status of the (non-deleted, non-killed) Job is finished with the
same `r`, `f`.

History of the clause on this model.
* F16 (tree before commit dd0515d): refuted with informer lag alone — a finished ref was refreshed
  from a STALE cached pod.  Repaired (`getTaskForRef` re-reads a finished ref's pod from the apiserver
  when the cached pod is not finished); replay: `f16_regression`.
* F17 (tree before commit 6ab84c2): refuted with a pod that vanishes while its events are undelivered
  — a ref recorded LOST was overwritten when the pod's old Succeeded event reached the cache.  Repaired
  (`GetTaskRef`: first terminal observation wins); replays: `f17_regression_result`,
  `f17_regression_finished`.
* CURRENT model: both clauses are still FALSE (witnesses below; filter `lagAndLoss`: controller passes,
  informer deliveries, kubelet progress, a pod object vanishing from the server, clock advance — no
  fault, no restart, no user kill / delete, no foreign pod).  Mechanism: the Job cache lags behind the
  authoritative Job, so a pass computes `ComputeMissingIndexesForCreation` from a status that does not
  yet list a task the server already records; if that task's pod has vanished meanwhile, the create
  succeeds a SECOND time under the same name.  Refs are keyed by name, so the pod cache's copy of the
  first incarnation (Succeeded) and the live second incarnation are taken for one task.
A restricted version (`*_partial`) is proved below for histories in which no pod object is ever
removed from the server. -/

/-- `finished_stays_finished_partial` / `result_and_finishTime_stable_partial`.
Histories inside the envelope `stabEnvF` (`Proofs/JobCtlInvStabInv.lean`):
* no foreign pod is created, the user neither sets a kill timestamp nor deletes the Job;
* `E-NoStaleCopyOnCreate`: whenever a controller pass starts that pops a key, while the Job object
  exists, no creation request computed from the CACHED Job (`ComputeMissingIndexesForCreation`; cached
  Job started, not being deleted, without kill timestamp / admission error) names a task that is absent
  from the server but still remembered — listed in the AUTHORITATIVE Job's `status.tasks`, present in the
  pod cache, or in an undelivered pod watch event.  This is what `checkNoStaleCopy` of
  `harness/eng/jobctl.go` evaluates at run time;
* `E-NoUnrecordedWhenFinished` (needed since the repair of F23, which makes a complete summary adopt
  the unrecorded tasks of the pod cache): whenever a controller pass starts on a cached Job that is
  recorded `Finished`, the pod cache holds no UNRECORDED task of the Job — no pod labelled with and
  controlled by the Job that the cached status does not name.  (A Job written `Finished` while a task
  whose recording status write failed was still invisible to the pod cache is un-finished when that
  pod reaches the cache; before the repair the task was never stopped instead.)  `checkEnvelope` of
  `harness/eng/jobctl.go` evaluates it at run time;
everything else is allowed: any fault pattern, informer lag, resync, restart, clock, kubelet (under the
kubelet contract), pods vanishing from the server, TTL deletion.
Job (`WF`, `WF3`, `WF2`): created without kill timestamp and admission error, with a template, not
finished; index hashes pairwise distinct and free of `-`.
Statement: if the authoritative status condition is `Finished` with result `r` and finish time `f`, then
in every later state of the history in which the Job object exists and is not being deleted, the
condition is `Finished` with the same `r` and `f`. -/
theorem finished_stays_finished_partial {ok : Sys → Action → Prop} (hok : ∀ s a, ok s a → stabEnvF s a)
    {j0 : JobObj} {s s' : Sys} (hr : Reach ok j0 s) (hwf : WF2 j0 s.d) (hwf3 : WF3 j0) (hs : Steps ok j0 s s')
    (j j' : JobObj) (hj : s.job = some j) (hj' : s'.job = some j') (hnd : j'.job.deletionTimestamp = none)
    (f : CondFinished) (hf : j.job.status.condition.finished = some f) :
    ∃ f', j'.job.status.condition.finished = some f' ∧ f'.result = f.result ∧
      f'.finishTimestamp = f.finishTimestamp := by
  obtain ⟨_, hk⟩ := stable_steps hok hr hwf hwf3 hs j j' hj hj' hnd
  have hkey : finKey j.job.status.condition = some (f.result, f.finishTimestamp) := by
    unfold finKey; rw [hf]; rfl
  obtain ⟨f', hf', he⟩ := finKey_some (hk _ hkey)
  simp only [Prod.mk.injEq] at he
  exact ⟨f', hf', he.1.symm, he.2.symm⟩

/-- the same, named after the second clause -/
theorem result_and_finishTime_stable_partial {ok : Sys → Action → Prop} (hok : ∀ s a, ok s a → stabEnvF s a)
    {j0 : JobObj} {s s' : Sys} (hr : Reach ok j0 s) (hwf : WF2 j0 s.d) (hwf3 : WF3 j0) (hs : Steps ok j0 s s')
    (j j' : JobObj) (hj : s.job = some j) (hj' : s'.job = some j') (hnd : j'.job.deletionTimestamp = none)
    (f f' : CondFinished) (hf : j.job.status.condition.finished = some f)
    (hf' : j'.job.status.condition.finished = some f') :
    f'.result = f.result ∧ f'.finishTimestamp = f.finishTimestamp := by
  obtain ⟨g, hg, h1, h2⟩ := finished_stays_finished_partial hok hr hwf hwf3 hs j j' hj hj' hnd f hf
  rw [hf'] at hg; cases hg
  exact ⟨h1, h2⟩

/-- the hypotheses are met by the F16 history (`stabCheckedF` is the decidable form of the envelope):
`Ex.sB` is reachable inside it with the Job Finished / Success, and `Ex.sC` is a later state -/
example : Reach stabCheckedF Ex.job Ex.sB ∧ Steps stabCheckedF Ex.job Ex.sB Ex.sC ∧ WF2 Ex.job Ex.sB.d ∧
    WF3 Ex.job ∧ (Ex.sB.job.bind (fun j => j.job.status.condition.finished)).map (·.result) = some .success :=
  ⟨Ex.sB_reach_stF, Ex.sB_sC_stF, ⟨by decide +kernel, by decide +kernel⟩, Ex.wf3_job, by decide +kernel⟩

/-- … while the pass of the witness `stale_job_cache_recreate_witness` that creates `job-h-0` a second
time starts in a state that violates `E-NoStaleCopyOnCreate` (the name is still in the pod cache and in
the authoritative status) -/
example : noStaleCheck (runActs Ex.v1 ((Ex.runV2 Ex.v1).take 3)) = false := by decide +kernel

/-- F16 regression: the run that refuted `finished_stays_finished` before commit dd0515d now keeps the
Job Finished / Success (both for two attempts and for one). -/
theorem f16_regression :
    Reach lagOnly Ex.job Ex.sB ∧ Steps lagOnly Ex.job Ex.sB Ex.sC ∧
    (Ex.sB.job.bind (fun j => j.job.status.condition.finished)).map (·.result) = some .success ∧
    (Ex.sC.job.bind (fun j => j.job.status.condition.finished)).map (·.result) = some .success ∧
    Steps lagOnly Ex.job1 Ex.tB Ex.tC ∧
    (Ex.tB.job.bind (fun j => j.job.status.condition.finished)).map (·.result) = some .success ∧
    (Ex.tC.job.bind (fun j => j.job.status.condition.finished)).map (·.result) = some .success :=
  ⟨Ex.sB_reach_lag, Ex.sB_sC_lag, by decide +kernel, by decide +kernel, Ex.tB_tC_lag, by decide +kernel,
    by decide +kernel⟩

/-- F17 regression (result): one index, one attempt; `job-h-0` succeeds and vanishes before any of its
events is delivered, is recorded lost (Job Finished / Failed); when its creation and Succeeded events
reach the cache the ref — and the Job's result and finish time — stay as recorded. -/
theorem f17_regression_result :
    Reach lagAndLoss Ex.job1 Ex.tL ∧ Steps lagAndLoss Ex.job1 Ex.tL Ex.tM ∧
    (Ex.tL.job.bind (fun j => j.job.status.condition.finished)).map (fun f => (f.result, f.finishTimestamp)) =
      some (.failed, some 0) ∧
    (Ex.tM.job.bind (fun j => j.job.status.condition.finished)).map (fun f => (f.result, f.finishTimestamp)) =
      some (.failed, some 0) :=
  ⟨Ex.tL_reach, Ex.tL_tM, by decide +kernel, by decide +kernel⟩

/-- F17 regression (finished): two indexes, two attempts, retry delay 10 s; the run that turned a
Finished / Failed Job unfinished before commit 6ab84c2 now leaves it Finished / Failed. -/
theorem f17_regression_finished :
    Reach lagAndLoss Ex.job2 Ex.u3 ∧ Steps lagAndLoss Ex.job2 Ex.u3 Ex.u4 ∧
    (Ex.u3.job.bind (fun j => j.job.status.condition.finished)).map (·.result) = some .failed ∧
    (Ex.u4.job.bind (fun j => j.job.status.condition.finished)).map (·.result) = some .failed :=
  ⟨Ex.u3_reach, Ex.u3_u4, by decide +kernel, by decide +kernel⟩

/-- witness (current model): the result of a finished, non-deleted, non-killed Job changes from
Success to Failed.  One index `h`, one attempt:
`deliverJob, work` (creates `job-h-0`, writes status v2; the Job cache keeps v1 = no refs)
`, deliverPod, kubelet job-h-0 ↦ Succeeded, deliverPod` (pod cache: Succeeded)
`, externalDelete job-h-0, work` (queued by the pod event; computed from the STALE cached v1: asks for
(h,0), the create succeeds again = second incarnation; the status write conflicts)
`, deliverJob` (v2: ref unfinished) `, work` (pod cache still holds the FIRST incarnation, Succeeded:
ref finished / Succeeded, Job Finished / Success — while the second incarnation is alive)
`, deliverPod, deliverPod` (delete of the first, creation of the second) `, deliverJob, work` (ref
finished, cached pod unfinished ⇒ live GET ⇒ unfinished task ⇒ `GetTaskRef` keeps the finish time but
takes Status Starting / `""` ⇒ index Failed ⇒ Job Finished / Failed). -/
theorem stale_job_cache_recreate_witness :
    ∃ (j0 : JobObj) (s s' : Sys), WF j0 ∧ WF2 j0 s.d ∧ Reach lagAndLoss j0 s ∧ Steps lagAndLoss j0 s s' ∧
      (s.job.bind (fun j => j.job.status.condition.finished)).map (·.result) = some .success ∧
      s'.job.map (fun j => (j.job.deletionTimestamp, j.job.killTimestamp,
        j.job.status.condition.finished.map (·.result))) = some (none, none, some .failed) :=
  ⟨Ex.job1, Ex.v2, Ex.v3, by decide +kernel, ⟨by decide +kernel, by decide +kernel⟩, Ex.v2_reach, Ex.v2_v3,
    by decide +kernel, by decide +kernel⟩

/-- witness (current model): with two attempts the same run turns the Finished / Success Job
UNFINISHED (phase RetryBackoff). -/
theorem stale_job_cache_recreate_unfinished_witness :
    ∃ (j0 : JobObj) (s s' : Sys), WF j0 ∧ WF2 j0 s.d ∧ Reach lagAndLoss j0 s ∧ Steps lagAndLoss j0 s s' ∧
      (s.job.bind (fun j => j.job.status.condition.finished)).map (·.result) = some .success ∧
      s'.job.map (fun j => (j.job.deletionTimestamp, j.job.killTimestamp, j.job.status.condition.finished,
        j.job.status.phase)) = some (none, none, none, phaseRetryBackoff) :=
  ⟨Ex.job, Ex.w2, Ex.w3, by decide +kernel, ⟨by decide +kernel, by decide +kernel⟩, Ex.w2_reach, Ex.w2_w3,
    by decide +kernel, by decide +kernel⟩

end Furiko.Props.C11Hist
