/-
C12 — plan level: "Kill and pending-timeout deadlines stop tasks, never early, and end the Job".
Theorems about the API calls one reconcile pass of the job controller issues (the calls appended
to `Sys.calls`), for ALL model states, cached Jobs and fault lists, over `Model/JobCtl.lean`
(validated against `jobcontroller.Reconciler` by the `jobctl` engine).

The model's calls carry no "reason" tag; a delete's reason is identified by the handler that
issues it (`handlePendingTasks` / `handleKillJob` / `handleForceDelete`), and
`pass_deletes_justified` shows that every delete of a whole `syncJobTasks` pass comes from one of
them (`DeleteReason`).  Vocabulary (Proofs/JobCtlPlan*.lean): `newCalls s s'` = the calls `s'`
logged beyond `s`; `TimerBy q k t` = a deferred add of key `k` is pending at a deadline `≤ t`;
`dueAt s t` = the deadline `AddAfter` uses for time `t` (never sooner than 1 s after the clock);
`NoFault s` = no injected API fault pending.  Times are nanoseconds.
-/
import FurikoModel.Generated.Facts
import FurikoModel.Proofs.JobCtlPlanPass

namespace Furiko.Props.C12Plan
open Furiko Furiko.JobCtl Furiko.JobCtlPlan Furiko.WQ

/-- a pod delete call (graceful when `force = false`) -/
def IsPodDelete (c : Call) (force : Bool) : Prop := c.verb = "delete" ∧ c.res = "pods" ∧ c.force = force

-- ---------------------------------------------------------------- data of the examples

private def sec (n : Int) : Int := n * 1000000000

/-- a running pod of the Job `job` (uid `u`), index hash `d`, attempt 0, created at 1 s -/
private def runningPod : PodObj :=
  { pod := { name := "job-d-0", creationTimestamp := some (sec 1), phase := .running, retryIndex := some 0,
             startTime := some (sec 1), containers := [{ running := some (some (sec 2)) }] },
    ownerUid := some "u", ownerName := some "job", jobLabel := some "u" }

/-- a pod that never left Pending, created at 1 s -/
private def pendingPod : PodObj :=
  { pod := { name := "job-d-0", creationTimestamp := some (sec 1), phase := .pending, retryIndex := some 0 },
    ownerUid := some "u", ownerName := some "job", jobLabel := some "u" }

/-- a pod being deleted since 10 s -/
private def killingPod : PodObj :=
  { pod := { name := "job-d-0", creationTimestamp := some (sec 1), deletionTimestamp := some (sec 10),
             phase := .running, retryIndex := some 0 },
    ownerUid := some "u", ownerName := some "job", jobLabel := some "u" }

private def taskOf (p : PodObj) : Task := (podTask 0 p).getD default

/-- started Job with one recorded task and the given kill timestamp -/
private def jobWithKill (k : Option Time) : Job :=
  { template := some {}, killTimestamp := k,
    status := { startTime := some (sec 1), tasks := [{ name := "job-d-0", creationTimestamp := some (sec 1) }] } }

private def sysWith (clk : Int) (p : PodObj) (j : Job) : Sys :=
  { clock := clk, rv := 5, d := { hash := "d" }, job := some ⟨"job", "u", j, true, 1⟩,
    jobCache := some ⟨"job", "u", j, true, 1⟩, pods := [p], podCache := [p], q := ({} : WQ).add "ns/job" }

private def brief (c : Call) : String × String × String × String × Bool := (c.verb, c.res, c.name, c.out, c.force)

/-- a finished Job: its only task succeeded at 50 s -/
private def finishedJob (ttl : Option Int) : Job :=
  { template := some {}, ttlSecondsAfterFinished := ttl,
    status := { startTime := some (sec 1),
                tasks := [{ name := "job-d-0", creationTimestamp := some (sec 1), runningTimestamp := some (sec 2),
                            finishTimestamp := some (sec 50), status := { state := .terminated, result := .succeeded },
                            deletedStatus := some { state := .terminated, result := .succeeded } }] } }

-- ================================================================ kill

/-- Every call appended by the kill step is a graceful pod delete of an unfinished task without
deletion timestamp, and the kill condition holds: the kill timestamp is set and `≤` the clock,
or the parallel completion strategy is already decided against the remaining tasks
(`shouldKillJobForParallel`), or the admission-error annotation is present (fix 4da8936). -/
theorem kill_reason (s : Sys) (jo : JobObj) (rj : Job) (tasks : List Task) :
    ∀ c ∈ newCalls s (handleKillJob s jo rj tasks).1,
      IsPodDelete c false ∧
      (∃ t ∈ tasks, t.name = c.name ∧ isTaskFinished t = false ∧ t.deletionTimestamp = none) ∧
      ((∃ k : Int, rj.killTimestamp = some k ∧ k ≤ s.clock) ∨ shouldKillJobForParallel rj = true ∨
        rj.admissionError = true) := by
  obtain ⟨l, e, _, hall, _⟩ := handleKillJob_ext s jo rj tasks
  intro c hc
  rw [e.newCalls] at hc
  obtain ⟨hv, hr, hf, hk, ht⟩ := hall c hc
  exact ⟨⟨hv, hr, hf⟩, ht, (shouldKillJob_iff s.clock rj).mp hk⟩

/-- `kill_not_early`: when neither completion kill nor admission error applies, a delete issued by
the kill step implies `killTimestamp = some k` with `k ≤ clock`. -/
theorem kill_not_early (s : Sys) (jo : JobObj) (rj : Job) (tasks : List Task)
    (hpar : shouldKillJobForParallel rj = false) (hadm : rj.admissionError = false) :
    ∀ c ∈ newCalls s (handleKillJob s jo rj tasks).1, ∃ k : Int, rj.killTimestamp = some k ∧ k ≤ s.clock := by
  intro c hc
  rcases (kill_reason s jo rj tasks c hc).2.2 with h | h | h
  · exact h
  · rw [hpar] at h; cases h
  · rw [hadm] at h; cases h

/-- … and while the kill timestamp is unset or later than the clock (and no completion kill, no
admission error) the kill step issues no call and returns the Job as it is; its ONLY effect on the
state is the timer it arms for a kill timestamp that is still in the future (repair of F5; before
it the state was returned untouched) — with no kill timestamp the state is returned untouched. -/
theorem kill_nothing_before (s : Sys) (jo : JobObj) (rj : Job) (tasks : List Task)
    (hk : ¬ ∃ k : Int, rj.killTimestamp = some k ∧ k ≤ s.clock)
    (hpar : shouldKillJobForParallel rj = false) (hadm : rj.admissionError = false) :
    handleKillJob s jo rj tasks =
      (match rj.killTimestamp with
        | some k => enqueueAfter s (jobKey jo) k
        | none => s, some rj) ∧
    newCalls s (handleKillJob s jo rj tasks).1 = [] := by
  have hnk : shouldKillJob s.clock rj = false := by
    cases h : shouldKillJob s.clock rj with
    | false => rfl
    | true =>
      rcases (shouldKillJob_iff s.clock rj).mp h with h | h | h
      · exact absurd h hk
      · rw [hpar] at h; cases h
      · rw [hadm] at h; cases h
  refine ⟨handleKillJob_not s jo rj tasks hnk, ?_⟩
  rw [handleKillJob_not s jo rj tasks hnk]
  cases rj.killTimestamp with
  | none => exact (Ext.refl s).newCalls
  | some k => exact (enqueueAfter_ext s (jobKey jo) k).newCalls

/-- `kill_nothing_before`: one nanosecond before the kill timestamp no call is issued; the timer
for the kill timestamp is armed (1 s floor of `enqueueAfter` ⇒ 91 s − 1 ns). -/
example :
    let s := sysWith (sec 90 - 1) runningPod (jobWithKill (some (sec 90)))
    let jo : JobObj := ⟨"job", "u", jobWithKill (some (sec 90)), true, 1⟩
    (newCalls s (handleKillJob s jo (jobWithKill (some (sec 90))) [taskOf runningPod]).1) = [] ∧
    (handleKillJob s jo (jobWithKill (some (sec 90))) [taskOf runningPod]).1.q.delayed = [("ns/job", sec 91 - 1)] := by decide

/-- `kill_sweeps_all`: when the kill timestamp has passed (more generally: `shouldKillJob`), every
task of the list that is unfinished and has no deletion timestamp gets a graceful delete call —
whatever the faults; and if no fault is pending the step succeeds with calls answered `ok` or
`notfound`.  Whenever the step succeeds the returned Job is `killMark rj tasks`, in which every
ref named after a swept task carries `deletedStatus = Killed`. -/
theorem kill_sweeps_all (s : Sys) (jo : JobObj) (rj : Job) (tasks : List Task)
    (hk : (∃ k : Int, rj.killTimestamp = some k ∧ k ≤ s.clock) ∨ shouldKillJobForParallel rj = true ∨
      rj.admissionError = true) :
    (∀ t ∈ tasks, isTaskFinished t = false → t.deletionTimestamp = none →
      ∃ c ∈ newCalls s (handleKillJob s jo rj tasks).1, IsPodDelete c false ∧ c.name = t.name) ∧
    (∀ rj', (handleKillJob s jo rj tasks).2 = some rj' →
      ∀ t ∈ tasks, isTaskFinished t = false → t.deletionTimestamp = none →
        ∀ r ∈ rj'.status.tasks, r.name = t.name → r.deletedStatus = some killedStatus) ∧
    (NoFault s → (∃ rj', (handleKillJob s jo rj tasks).2 = some rj') ∧
      ∀ c ∈ newCalls s (handleKillJob s jo rj tasks).1, c.out = "ok" ∨ c.out = "notfound") := by
  obtain ⟨l, e, _, hall, hon⟩ := handleKillJob_ext s jo rj tasks
  obtain ⟨hcov, hmark, hnf⟩ := hon ((shouldKillJob_iff s.clock rj).mpr hk)
  rw [e.newCalls]
  refine ⟨?_, ?_, ?_⟩
  · intro t ht hf hd
    obtain ⟨c, hc, hn⟩ := hcov t ht hf hd
    obtain ⟨hv, hr, hfo, _⟩ := hall c hc
    exact ⟨c, hc, ⟨hv, hr, hfo⟩, hn⟩
  · intro rj' h t ht hf hd r hr hn
    rw [hmark rj' h] at hr
    exact killMark_killed rj tasks t ht hf hd r hr hn
  · intro hno
    exact ⟨⟨_, (hnf hno).1⟩, (hnf hno).2⟩

/-- `kill_reason` / `kill_not_early` / `kill_sweeps_all`: kill timestamp 90 s, clock 100 s, one
running task: exactly one graceful delete is issued and the ref is marked Killed. -/
example :
    let s := sysWith (sec 100) runningPod (jobWithKill (some (sec 90)))
    let rj := jobWithKill (some (sec 90))
    let jo : JobObj := ⟨"job", "u", rj, true, 1⟩
    (newCalls s (handleKillJob s jo rj [taskOf runningPod]).1).map brief = [("delete", "pods", "job-d-0", "ok", false)] ∧
    ((handleKillJob s jo rj [taskOf runningPod]).2.map (fun j => j.status.tasks.map (·.deletedStatus))) =
      some [some killedStatus] ∧
    shouldKillJobForParallel rj = false ∧ rj.admissionError = false := by decide

/-- Pass level: in a `syncJobTasks` pass that returns without error on a Job whose kill timestamp
has passed, every task of the list after the creation step (cached refs found in the pod cache
or by a live GET, plus created / adopted tasks) that is unfinished and has no deletion timestamp
gets a graceful delete call in that pass. -/
theorem kill_sweeps_all_pass (s : Sys) (jo : JobObj) (rj rjOut : Job)
    (hok : (syncJobTasks s jo rj).2 = some rjOut)
    (hk : ∃ k : Int, rj.killTimestamp = some k ∧ k ≤ s.clock) :
    ∃ s1 rj1 tasks1, syncCreateTasks s jo rj (tasks0 s jo rj) = (s1, some (rj1, tasks1)) ∧
      ∀ t ∈ tasks1, isTaskFinished t = false → t.deletionTimestamp = none →
        ∃ c ∈ newCalls s (syncJobTasks s jo rj).1, IsPodDelete c false ∧ c.name = t.name := by
  obtain ⟨s1, rj1, tasks1, s2, rj2, s3, rj3, s4, rj4, s5, rj5, hc, _, _, hkj, _, _, hcalls, _, ⟨l3, e3⟩, _, hle, _,
    hs3, _⟩ := syncJobTasks_success s jo rj rjOut hok
  refine ⟨s1, rj1, tasks1, hc, ?_⟩
  intro t ht hf hd
  obtain ⟨k, hkt, hkle⟩ := hk
  have hk3 : ∃ k : Int, rj3.killTimestamp = some k ∧ k ≤ s3.clock :=
    ⟨k, by rw [hs3.killTimestamp, hle.killTimestamp]; exact hkt, by rw [e3.clock]; exact hkle⟩
  obtain ⟨c, hcm, hpd, hn⟩ := (kill_sweeps_all s3 jo rj3 tasks1 (Or.inl hk3)).1 t ht hf hd
  rw [hkj] at hcm
  refine ⟨c, ?_, hpd, hn⟩
  rw [hcalls]
  simp only [List.mem_append]
  exact Or.inr (Or.inr (Or.inl hcm))

/-- `kill_sweeps_all_pass`: the whole pass on that state issues the delete. -/
example :
    let s := sysWith (sec 100) runningPod (jobWithKill (some (sec 90)))
    (syncJobTasks s ⟨"job", "u", jobWithKill (some (sec 90)), true, 1⟩ (jobWithKill (some (sec 90)))).2.isSome = true ∧
    (newCalls s (syncJobTasks s ⟨"job", "u", jobWithKill (some (sec 90)), true, 1⟩ (jobWithKill (some (sec 90)))).1).map brief =
      [("delete", "pods", "job-d-0", "ok", false)] := by decide

/-- `future_kill_timer` (repair of F5; `kill_step_arms_no_timer`, which said that the kill step
never touches the work queue, was true of the code before it and is false now).  Kill step: while
the Job is not to be killed (`shouldKillJob` false) and its kill timestamp `k` is set — hence in
the future — the step arms a timer for the Job's key at `k` (`dueAt`: at least 1 s ahead, the
floor of `enqueueAfter`).  When the Job is to be killed, or has no kill timestamp, the queue is
left as it was. -/
theorem kill_step_arms_timer (s : Sys) (jo : JobObj) (rj : Job) (tasks : List Task) :
    (shouldKillJob s.clock rj = false → ∀ k, rj.killTimestamp = some k →
      handleKillJob s jo rj tasks = (enqueueAfter s (jobKey jo) k, some rj) ∧
      TimerBy (handleKillJob s jo rj tasks).1.q (jobKey jo) (dueAt s k)) ∧
    ((shouldKillJob s.clock rj = true ∨ rj.killTimestamp = none) → (handleKillJob s jo rj tasks).1.q = s.q) := by
  obtain ⟨_, _, ⟨hq, harm⟩, _⟩ := handleKillJob_ext s jo rj tasks
  refine ⟨fun hnk k hk => ⟨harm hnk k hk, ?_⟩, hq⟩
  rw [harm hnk k hk]
  exact enqueueAfter_timer s (jobKey jo) k

/-- **`future_kill_timer_armed`** (positive counterpart of the former F5 witness).  A
`syncJobTasks` pass — the task stage `sync` runs for a started Job that is not being deleted —
that returns without error on a Job whose kill timestamp `k` is still in the future leaves a
timer for the Job's key at a deadline `≤ dueAt s k` (= `k`, or 1 s after the clock if `k` is
closer than that), whatever else the pass did and whatever timers were armed before; or else the
kill sweep already ran in this very pass (completion decided / admission error): every task of
the list after the creation step that is unfinished and has no deletion timestamp got its
graceful delete call.  (A pass that returns an error is retried with back-off by `work`.) -/
theorem future_kill_timer_armed (s : Sys) (jo : JobObj) (rj rjOut : Job) (k : Int)
    (hok : (syncJobTasks s jo rj).2 = some rjOut)
    (hk : rj.killTimestamp = some k) (hlt : s.clock < k) :
    TimerBy (syncJobTasks s jo rj).1.q (jobKey jo) (dueAt s k) ∨
    ∃ s1 rj1 tasks1, syncCreateTasks s jo rj (tasks0 s jo rj) = (s1, some (rj1, tasks1)) ∧
      ∀ t ∈ tasks1, isTaskFinished t = false → t.deletionTimestamp = none →
        ∃ c ∈ newCalls s (syncJobTasks s jo rj).1, IsPodDelete c false ∧ c.name = t.name := by
  obtain ⟨s1, rj1, tasks1, s2, rj2, s3, rj3, s4, rj4, s5, rj5, hc, _, _, hkj, hfd, heq, hcalls, _, ⟨l3, e3⟩, _, hle, _,
    hs3, _⟩ := syncJobTasks_success s jo rj rjOut hok
  have hk3 : rj3.killTimestamp = some k := by rw [hs3.killTimestamp, hle.killTimestamp]; exact hk
  cases hsk : shouldKillJob s3.clock rj3 with
  | true =>
    right
    refine ⟨s1, rj1, tasks1, hc, ?_⟩
    intro t ht hf hd
    obtain ⟨c, hcm, hpd, hn⟩ := (kill_sweeps_all s3 jo rj3 tasks1 ((shouldKillJob_iff s3.clock rj3).mp hsk)).1 t ht hf hd
    rw [hkj] at hcm
    refine ⟨c, ?_, hpd, hn⟩
    rw [hcalls]
    simp only [List.mem_append]
    exact Or.inr (Or.inr (Or.inl hcm))
  | false =>
    left
    obtain ⟨_, htim⟩ := (kill_step_arms_timer s3 jo rj3 tasks1).1 hsk k hk3
    rw [hkj, dueAt_of_ext e3] at htim
    obtain ⟨_, ef, _⟩ := handleForceDelete_ext s4 jo rj4 tasks1
    rw [hfd] at ef
    obtain ⟨e6, _⟩ := updateTaskRefStatus_ext s5 (jobKey jo) rj5 tasks1
    rw [heq]
    exact e6.timers _ _ (ef.timers _ _ htim)

/-- … and so does the whole `sync` on the cached Job (started, not being deleted): the steps after
the task stage keep every armed timer. -/
theorem future_kill_timer_armed_sync (s : Sys) (jo : JobObj) (rjOut : Job) (k : Int)
    (hst : isStarted jo.job = true) (hnd : isDeleted jo.job = false)
    (hok : (syncJobTasks s jo jo.job).2 = some rjOut)
    (hk : jo.job.killTimestamp = some k) (hlt : s.clock < k) :
    TimerBy (sync s jo).1.q (jobKey jo) (dueAt s k) ∨
    ∃ s1 rj1 tasks1, syncCreateTasks s jo jo.job (tasks0 s jo jo.job) = (s1, some (rj1, tasks1)) ∧
      ∀ t ∈ tasks1, isTaskFinished t = false → t.deletionTimestamp = none →
        ∃ c ∈ newCalls s (syncJobTasks s jo jo.job).1, IsPodDelete c false ∧ c.name = t.name := by
  rcases future_kill_timer_armed s jo jo.job rjOut k hok hk hlt with h | h
  · left
    obtain ⟨l, e⟩ := sync_ext_after_tasks s jo
    have hstage : syncTasksStage s jo = syncJobTasks s jo jo.job := by
      unfold syncTasksStage; simp [hst, hnd]
    rw [hstage] at e
    exact e.timers _ _ h
  · exact Or.inr h

/-- a running Job in a steady state with a kill timestamp at 200 s -/
private def futureKillSys (clk : Int) : Sys :=
  let j0 := jobWithKill (some (sec 200))
  let j := (updateTaskRefStatus { clock := sec 100, d := { hash := "d" } } "ns/job" j0 [taskOf runningPod]).2
  { clock := clk, rv := 5, d := { hash := "d" }, job := some ⟨"job", "u", j, true, 1⟩,
    jobCache := some ⟨"job", "u", j, true, 1⟩, pods := [runningPod], podCache := [runningPod] }

/-- **`kill_eventually_without_resync`** (regression form of the former witness
`future_kill_no_timer_witness` for defect F5, same concrete state).  Running Job with one live
task, `spec.killTimestamp` = 200 s, steady state.  A pass at 100 s (key queued, e.g. by the update
that set the kill timestamp) issues no call and now ARMS A TIMER for 200 s — it is the only thing
left in the queue.  One nanosecond before 200 s the worker is still idle; at 200 s, and at 300 s,
the timer has fired: the worker runs a pass that deletes the pod (graceful delete, deletion
timestamp set) — with no event and NO resync in between.  (Before the repair the queue was left
empty and the worker stayed idle at 300 s with the pod running.) -/
theorem kill_eventually_without_resync :
    let s0 : Sys := { futureKillSys (sec 100) with q := ({} : WQ).add "ns/job" }
    let s1 := (work s0).1
    (work s0).2 = "ok" ∧ s1.calls = [] ∧
    s1.q.queue = [] ∧ s1.q.delayed = [("ns/job", sec 200)] ∧ s1.q.dirty = [] ∧ s1.jobEvs.length = 0 ∧ s1.podEvs.length = 0 ∧
    (work { s1 with clock := sec 200 - 1 }).2 = "idle" ∧
    (work { s1 with clock := sec 200 }).2 = "ok" ∧
    (work { s1 with clock := sec 200 }).1.calls.map brief = [("delete", "pods", "job-d-0", "ok", false), ("update", "jobs", "job", "ok", false)] ∧
    (work { s1 with clock := sec 300 }).2 = "ok" ∧
    ((work { s1 with clock := sec 300 }).1.calls.map brief).head? = some ("delete", "pods", "job-d-0", "ok", false) ∧
    (work { s1 with clock := sec 300 }).1.pods.map (fun p => (p.pod.name, p.pod.deletionTimestamp)) = [("job-d-0", some (sec 300))] := by
  refine ⟨?_, ?_, ?_, ?_, ?_, ?_, ?_, ?_, ?_, ?_, ?_, ?_, ?_⟩ <;> decide

-- ================================================================ creation stops

/-- `no_create_after_kill_set` (creation step): with a kill timestamp present — even a future one
— or the admission-error annotation, `syncCreateTasks` returns the system state untouched: no
call, no new pod.  The tasks it adds to the list (fix 5671da6) are read from the pod CACHE only:
cached pods labelled with and controlled by this Job's uid that are not yet in the list and not
recorded in the status (a recorded task that was not found is gone; the cache may hold a stale
copy of it — fix 1fc2d37 "only adopt tasks that are not recorded"). -/
theorem no_create_after_kill_set (s : Sys) (jo : JobObj) (rj : Job) (tasks : List Task)
    (h : rj.killTimestamp.isSome = true ∨ rj.admissionError = true) :
    syncCreateTasks s jo rj tasks = (s, some (rj, adoptUnrecordedTasks s jo tasks)) ∧
    (∀ t, t ∈ adoptUnrecordedTasks s jo tasks ↔
      t ∈ tasks ∨ ∃ p ∈ s.podCache, podTask s.clock p = some t ∧ p.jobLabel = some jo.uid ∧ p.ownerUid = some jo.uid ∧
        (∀ t0 ∈ tasks, t0.name ≠ p.pod.name) ∧ (∀ r ∈ jo.job.status.tasks, r.name ≠ p.pod.name)) := by
  have hcan : canCreateTask rj = false := by
    unfold canCreateTask
    rcases h with h | h
    · simp [h]
    · simp [h]
  obtain ⟨_, _, hoff, _⟩ := syncCreateTasks_ext s jo rj tasks
  exact ⟨hoff hcan, mem_adoptUnrecordedTasks s jo tasks⟩

/-- `no_create_after_kill_set` (whole pass): if the cached Job has a kill timestamp (even in the
future) or the admission-error annotation, or is not started, or is being deleted, then no call
of `sync` is a create, and the pass creates no pod: every pod on the server afterwards was there
(by name) before. -/
theorem no_create_in_pass (s : Sys) (jo : JobObj)
    (h : jo.job.killTimestamp.isSome = true ∨ jo.job.admissionError = true ∨ isStarted jo.job = false ∨
      isDeleted jo.job = true) :
    (∀ c ∈ newCalls s (sync s jo).1, c.verb ≠ "create") ∧
    (∀ p ∈ (sync s jo).1.pods, ∃ p0 ∈ s.pods, p0.pod.name = p.pod.name) := by
  obtain ⟨⟨l, e⟩, ho⟩ := sync_origin s jo
  have hnc : ∀ c ∈ newCalls s (sync s jo).1, c.verb ≠ "create" := by
    intro c hc hv
    obtain ⟨hst, hdel, hto⟩ := syncOrigin_create s jo c (ho c hc) hv
    obtain ⟨_, hcan, _⟩ := taskOrigin_create s jo jo.job c hto hv
    unfold canCreateTask at hcan
    rcases h with h | h | h | h
    · simp [h] at hcan
    · simp [h] at hcan
    · rw [hst] at h; cases h
    · rw [hdel] at h; cases h
  refine ⟨hnc, e.no_new_pods ?_⟩
  intro c hc hco
  exact hnc c (by rw [e.newCalls]; exact hc) hco.1

/-- `no_create_after_kill_set` / `no_create_in_pass`: a started Job with a FUTURE kill timestamp
whose only index has no task at all (nothing recorded, nothing on the server): a pass creates
nothing, whereas without kill timestamp the same pass creates the task. -/
example :
    let j : Job := { template := some {}, killTimestamp := some (sec 200), status := { startTime := some (sec 1) } }
    let s : Sys := { clock := sec 100, d := { hash := "d" }, job := some ⟨"job", "u", j, true, 1⟩ }
    newCalls s (sync s ⟨"job", "u", j, true, 1⟩).1 = [] ∧
    (newCalls s (sync s ⟨"job", "u", { j with killTimestamp := none }, true, 1⟩).1).map brief =
      [("create", "pods", "job-d-0", "ok", false)] := by decide

-- ================================================================ pending timeout

/-- `pending_not_early`: every call appended by the pending-timeout step is a graceful pod delete
of a task `t` of the list that carries no deletion timestamp and whose JUDGED ref `pendRef rj t` — the ref
recorded under the task's name in the status of `rj` (`jobutil.FindTaskRef`), the task's own ref when none
is recorded (repair of F32) — has `creation + T ≤ clock`, `T > 0`, no running timestamp and no
finish timestamp, where `T = getPendingTimeout rj cfg` (job value if
set and `≥ 0`, else controller default, else 0: `Props/C12.pending_timeout_value`). -/
theorem pending_not_early (s : Sys) (jo : JobObj) (rj : Job) (tasks : List Task) :
    ∀ c ∈ newCalls s (handlePendingTasks s jo rj tasks).1,
      IsPodDelete c false ∧
      ∃ T : Int, getPendingTimeout rj s.cfg = some T ∧ 0 < T ∧
        ∃ t ∈ tasks, t.name = c.name ∧ (pendRef rj t).runningTimestamp = none ∧ (pendRef rj t).finishTimestamp = none ∧
          ((pendRef rj t).creationTimestamp.getD zeroTime : Int) + T ≤ s.clock ∧ t.deletionTimestamp = none := by
  obtain ⟨l, e, hall, _⟩ := handlePendingTasks_ext s jo rj tasks
  intro c hc
  rw [e.newCalls] at hc
  obtain ⟨hv, hr, hf, T, hT, hpos, t, ht, hn, hp, hd, hdt⟩ := hall c hc
  unfold isPending at hp
  simp only [Bool.and_eq_true, Option.isNone_iff_eq_none] at hp
  exact ⟨⟨hv, hr, hf⟩, T, hT, hpos, t, ht, hn, hp.2, hp.1, hd, hdt⟩

/-- the tie for the repair of F32 (facts regenerated from the source on every run,
`harness/cmd/extract/jobctl_pending.go`): `handlePendingTasks` starts its loop with
`ref := task.GetTaskRef(); if recorded := jobutil.FindTaskRef(rj, task); recorded != nil { ref = *recorded }`
(`FindTaskRef` = the first ref of that name: `Model/Task.findTaskRef`, `Model/JobCtl.pendRef`), and
`GetContainerStartTime` reads `State.Running`, `State.Terminated` AND `LastTerminationState.Terminated`
(`Model/Task.containerStartTime`).  Reverting either hunk of the repair makes this theorem false. -/
theorem source_judges_by_recorded_ref :
    Facts.pendingConsultsRecordedRef = true ∧ Facts.startTimeReadsLastTermination = true := by decide

/-- the model's `pendRef` is that shape: the recorded ref when there is one, else the task's own -/
theorem pendRef_shape (rj : Job) (t : Task) :
    pendRef rj t = match findTaskRef rj t.name with
      | some recorded => recorded
      | none => t.ref := by
  unfold pendRef
  cases findTaskRef rj t.name <;> rfl

/-- **`pending_only_never_ran`** (step level; the statement the repair of F32 makes available, monitor
`C12:pending-only-never-ran`): a task is reaped as `PendingTimeout` only if the ref RECORDED under its name
in the Job's status — when there is one — shows neither a running nor a finish timestamp; a task that the
status records as having begun running is never reaped by this step, whatever its pod reports now (a
container waiting to be restarted reports no running container).  Only a task that is not recorded at all
is judged by its own ref. -/
theorem pending_only_never_ran (s : Sys) (jo : JobObj) (rj : Job) (tasks : List Task) :
    ∀ c ∈ newCalls s (handlePendingTasks s jo rj tasks).1,
      ∃ t ∈ tasks, t.name = c.name ∧
        (∀ r, findTaskRef rj c.name = some r → r.runningTimestamp = none ∧ r.finishTimestamp = none) ∧
        (findTaskRef rj c.name = none → t.ref.runningTimestamp = none ∧ t.ref.finishTimestamp = none) := by
  intro c hc
  obtain ⟨_, T, _, _, t, ht, hn, h1, h2, _, _⟩ := pending_not_early s jo rj tasks c hc
  refine ⟨t, ht, hn, ?_, ?_⟩
  · intro r hr
    rw [← hn] at hr
    unfold pendRef at h1 h2
    rw [hr] at h1 h2
    exact ⟨h1, h2⟩
  · intro hr
    rw [← hn] at hr
    unfold pendRef at h1 h2
    rw [hr] at h1 h2
    exact ⟨h1, h2⟩

/-- a task whose recorded ref carries a running timestamp is never reaped by the pending-timeout step -/
theorem recorded_running_not_reaped (s : Sys) (jo : JobObj) (rj : Job) (tasks : List Task) (r : TaskRef) (n : String)
    (hr : findTaskRef rj n = some r) (hrun : r.runningTimestamp.isSome = true) :
    ∀ c ∈ newCalls s (handlePendingTasks s jo rj tasks).1, c.name ≠ n := by
  intro c hc hn
  obtain ⟨t, _, _, hrec, _⟩ := pending_only_never_ran s jo rj tasks c hc
  have := (hrec r (by rw [hn]; exact hr)).1
  rw [this] at hrun; cases hrun

/-- `T = 0` (or negative, or no template) ⇒ never: the step returns state and Job untouched. -/
theorem pending_disabled (s : Sys) (jo : JobObj) (rj : Job) (tasks : List Task)
    (h : getPendingTimeout rj s.cfg = none ∨ ∃ T, getPendingTimeout rj s.cfg = some T ∧ T ≤ 0) :
    handlePendingTasks s jo rj tasks = (s, some rj) := by
  obtain ⟨_, _, _, hoff, _⟩ := handlePendingTasks_ext s jo rj tasks
  exact hoff h

/-- `pending_disabled`: timeout 0 (job value 0 overrides a controller default of 900 s). -/
example :
    let j : Job := { jobWithKill none with template := some { taskPendingTimeoutSeconds := some 0 } }
    let s : Sys := { sysWith (sec 5000) pendingPod j with cfg := { defaultPendingTimeoutSeconds := some 900 } }
    getPendingTimeout j s.cfg = some 0 ∧
    newCalls s (handlePendingTasks s ⟨"job", "u", j, true, 1⟩ j [taskOf pendingPod]).1 = [] := by decide

/-- With `T > 0`: every task that is still pending as far as its judged ref `pendRef rj t` says, past its
deadline (and not yet being deleted) gets its
delete call, whatever the faults; every still-pending task whose deadline is in the future arms
a timer for the Job's key at that deadline (`dueAt`: at least 1 s ahead), so that the pass is
repeated when it expires. -/
theorem pending_reaped_or_timer (s : Sys) (jo : JobObj) (rj : Job) (tasks : List Task) (T : Int)
    (hT : getPendingTimeout rj s.cfg = some T) (hpos : 0 < T) :
    (∀ t ∈ tasks, (pendRef rj t).runningTimestamp = none → (pendRef rj t).finishTimestamp = none →
      ((pendRef rj t).creationTimestamp.getD zeroTime : Int) + T ≤ s.clock → t.deletionTimestamp = none →
      ∃ c ∈ newCalls s (handlePendingTasks s jo rj tasks).1, IsPodDelete c false ∧ c.name = t.name) ∧
    (∀ t ∈ tasks, (pendRef rj t).runningTimestamp = none → (pendRef rj t).finishTimestamp = none →
      s.clock < ((pendRef rj t).creationTimestamp.getD zeroTime : Int) + T →
      TimerBy (handlePendingTasks s jo rj tasks).1.q (jobKey jo)
        (dueAt s (((pendRef rj t).creationTimestamp.getD zeroTime : Int) + T))) := by
  obtain ⟨l, e, hall, _, hon⟩ := handlePendingTasks_ext s jo rj tasks
  obtain ⟨hcov, htim, _⟩ := hon T hT hpos
  rw [e.newCalls]
  have hp : ∀ t : Task, (pendRef rj t).runningTimestamp = none → (pendRef rj t).finishTimestamp = none →
      isPending (pendRef rj t) = true := by
    intro t h1 h2; unfold isPending; simp [h1, h2]
  refine ⟨?_, ?_⟩
  · intro t ht h1 h2 hd hdt
    obtain ⟨c, hc, hn⟩ := hcov t ht (hp t h1 h2) hd hdt
    obtain ⟨hv, hr, hf, _⟩ := hall c hc
    exact ⟨c, hc, ⟨hv, hr, hf⟩, hn⟩
  · intro t ht h1 h2 hlt
    exact htim t ht (hp t h1 h2) hlt

/-- `pending_not_early` / `pending_reaped_or_timer`: pending timeout 60 s (job value), pod created
at 1 s and still pending: at 61 s it is deleted and marked `PendingTimeout`; at 61 s − 1 ns
nothing is deleted and a timer for 61 s is armed (1 s floor ⇒ 62 s − 1 ns). -/
example :
    let j : Job := { jobWithKill none with template := some { taskPendingTimeoutSeconds := some 60 } }
    let jo : JobObj := ⟨"job", "u", j, true, 1⟩
    getPendingTimeout j {} = some (sec 60) ∧
    (newCalls (sysWith (sec 61) pendingPod j) (handlePendingTasks (sysWith (sec 61) pendingPod j) jo j [taskOf pendingPod]).1).map brief
      = [("delete", "pods", "job-d-0", "ok", false)] ∧
    ((handlePendingTasks (sysWith (sec 61) pendingPod j) jo j [taskOf pendingPod]).2.map
      (fun j => j.status.tasks.map (·.deletedStatus))) = some [some pendingStatus] ∧
    newCalls (sysWith (sec 61 - 1) pendingPod j) (handlePendingTasks (sysWith (sec 61 - 1) pendingPod j) jo j [taskOf pendingPod]).1 = [] ∧
    (handlePendingTasks (sysWith (sec 61 - 1) pendingPod j) jo j [taskOf pendingPod]).1.q.delayed = [("ns/job", sec 62 - 1)] := by
  decide

-- ================================================================ force deletion

/-- `force_delete_gated`: every call appended by the force-delete step is a FORCED pod delete of a
task whose deletion timestamp `+ F ≤ clock`, with `F > 0` the configured force-delete timeout and
`forbidTaskForceDeletion = false` in the Job's template. -/
theorem force_delete_gated (s : Sys) (jo : JobObj) (rj : Job) (tasks : List Task) :
    ∀ c ∈ newCalls s (handleForceDelete s jo rj tasks).1,
      IsPodDelete c true ∧ 0 < getForceDeleteTimeout s.cfg ∧
      (rj.template.map (·.forbidTaskForceDeletion)).getD false = false ∧
      ∃ t ∈ tasks, t.name = c.name ∧
        ∃ dts : Int, t.deletionTimestamp = some dts ∧ dts + getForceDeleteTimeout s.cfg ≤ s.clock := by
  obtain ⟨l, e, hall, _⟩ := handleForceDelete_ext s jo rj tasks
  intro c hc
  rw [e.newCalls] at hc
  obtain ⟨hv, hr, hf, hpos, hfb, ht⟩ := hall c hc
  exact ⟨⟨hv, hr, hf⟩, hpos, hfb, ht⟩

/-- `F ≤ 0` or force deletion forbidden ⇒ never. -/
theorem force_delete_disabled (s : Sys) (jo : JobObj) (rj : Job) (tasks : List Task)
    (h : getForceDeleteTimeout s.cfg ≤ 0 ∨ (rj.template.map (·.forbidTaskForceDeletion)).getD false = true) :
    handleForceDelete s jo rj tasks = (s, some rj) := by
  obtain ⟨_, _, _, hoff, _⟩ := handleForceDelete_ext s jo rj tasks
  exact hoff h

/-- When enabled: every task whose deletion timestamp `+ F` has passed gets a forced delete;
every task being deleted whose `+ F` deadline is in the future arms a timer at that deadline. -/
theorem force_deleted_or_timer (s : Sys) (jo : JobObj) (rj : Job) (tasks : List Task)
    (hpos : 0 < getForceDeleteTimeout s.cfg)
    (hfb : (rj.template.map (·.forbidTaskForceDeletion)).getD false = false) :
    (∀ t ∈ tasks, ∀ dts : Int, t.deletionTimestamp = some dts → dts + getForceDeleteTimeout s.cfg ≤ s.clock →
      ∃ c ∈ newCalls s (handleForceDelete s jo rj tasks).1, IsPodDelete c true ∧ c.name = t.name) ∧
    (∀ t ∈ tasks, ∀ dts : Int, t.deletionTimestamp = some dts → s.clock < dts + getForceDeleteTimeout s.cfg →
      TimerBy (handleForceDelete s jo rj tasks).1.q (jobKey jo) (dueAt s (dts + getForceDeleteTimeout s.cfg))) := by
  obtain ⟨l, e, hall, _, hon⟩ := handleForceDelete_ext s jo rj tasks
  obtain ⟨hcov, htim, _⟩ := hon hpos hfb
  rw [e.newCalls]
  refine ⟨?_, htim⟩
  intro t ht dts hdt hd
  obtain ⟨c, hc, hn⟩ := hcov t ht dts hdt hd
  obtain ⟨hv, hr, hf, _⟩ := hall c hc
  exact ⟨c, hc, ⟨hv, hr, hf⟩, hn⟩

/-- `force_delete_gated` / `force_deleted_or_timer`: force-delete timeout 30 s, pod being deleted
since 10 s: at 40 s a forced delete is issued; at 39 s a timer for 40 s is armed instead; with
`forbidTaskForceDeletion` nothing happens. -/
example :
    let j := jobWithKill (some (sec 5))
    let jo : JobObj := ⟨"job", "u", j, true, 1⟩
    let cfg : ExecConfig := { forceDeleteTaskTimeoutSeconds := some 30 }
    let s40 : Sys := { sysWith (sec 40) killingPod j with cfg := cfg }
    let s39 : Sys := { sysWith (sec 39) killingPod j with cfg := cfg }
    (newCalls s40 (handleForceDelete s40 jo j [taskOf killingPod]).1).map brief = [("delete", "pods", "job-d-0", "ok", true)] ∧
    newCalls s39 (handleForceDelete s39 jo j [taskOf killingPod]).1 = [] ∧
    (handleForceDelete s39 jo j [taskOf killingPod]).1.q.delayed = [("ns/job", sec 40)] ∧
    newCalls s40 (handleForceDelete s40 jo { j with template := some { forbidTaskForceDeletion := true } } [taskOf killingPod]).1 = [] := by
  decide

-- ================================================================ the whole task pass

/-- Every delete call of a `syncJobTasks` pass — successful or not, under any faults — is a pod
delete for a task `t` of the list after the creation step, and is justified, in terms of the
ORIGINAL state and cached Job, by exactly one of the three reasons of `DeleteReason`:
pending timeout reached (graceful), kill condition (graceful), force-delete gate (forced). -/
theorem pass_deletes_justified (s : Sys) (jo : JobObj) (rj : Job) :
    ∀ c ∈ newCalls s (syncJobTasks s jo rj).1, c.verb = "delete" →
      c.res = "pods" ∧ ∃ s1 rj1 tasks1, syncCreateTasks s jo rj (tasks0 s jo rj) = (s1, some (rj1, tasks1)) ∧
        ∃ t ∈ tasks1, t.name = c.name ∧ DeleteReason s rj rj1 tasks1 c t := by
  intro c hc hv
  obtain ⟨hr, s1, rj1, tasks1, h1, _, h2⟩ := taskOrigin_delete s jo rj c ((syncJobTasks_origin s jo rj).2 c hc) hv
  exact ⟨hr, s1, rj1, tasks1, h1, h2⟩

/-- Pass-level `kill_not_early` / `pending_not_early`: a GRACEFUL pod delete of a pass on a Job
without admission error and with no completion kill pending was issued because the task's pending
deadline has passed, or because the kill timestamp is set and `≤` the clock. -/
theorem pass_graceful_delete_not_early (s : Sys) (jo : JobObj) (rj : Job) :
    ∀ c ∈ newCalls s (syncJobTasks s jo rj).1, c.verb = "delete" → c.force = false →
      (∃ T : Int, getPendingTimeout rj s.cfg = some T ∧ 0 < T) ∨
      (∃ k : Int, rj.killTimestamp = some k ∧ k ≤ s.clock) ∨
      (∃ rj' : Job, rj'.killTimestamp = rj.killTimestamp ∧ rj'.template = rj.template ∧
        (shouldKillJobForParallel rj' = true ∨ rj'.admissionError = true)) := by
  intro c hc hv hf
  obtain ⟨_, s1, rj1, tasks1, _, hle, t, _, _, hreason⟩ :=
    taskOrigin_delete s jo rj c ((syncJobTasks_origin s jo rj).2 c hc) hv
  cases hreason with
  | pendingTimeout T _ _ hT hpos _ _ _ _ => exact Or.inl ⟨T, hT, hpos⟩
  | kill rj' _ _ _ hss hk =>
    rcases (shouldKillJob_iff s.clock rj').mp hk with ⟨k, hkt, hkle⟩ | h | h
    · exact Or.inr (Or.inl ⟨k, by rw [← hkt, hss.killTimestamp, hle.killTimestamp], hkle⟩)
    · exact Or.inr (Or.inr ⟨rj', hss.killTimestamp.trans hle.killTimestamp, hss.template.trans hle.template, Or.inl h⟩)
    · exact Or.inr (Or.inr ⟨rj', hss.killTimestamp.trans hle.killTimestamp, hss.template.trans hle.template, Or.inr h⟩)
  | forceDelete dts hft _ _ _ _ => rw [hf] at hft; cases hft

/-- `pass_deletes_justified`: a pass at 100 s over the pod being deleted since 10 s with the
force-delete timeout 30 s issues exactly the forced delete. -/
example :
    let j := jobWithKill (some (sec 5))
    let s : Sys := { sysWith (sec 100) killingPod j with cfg := { forceDeleteTaskTimeoutSeconds := some 30 } }
    (newCalls s (syncJobTasks s ⟨"job", "u", j, true, 1⟩ j).1).map brief = [("delete", "pods", "job-d-0", "ok", true)] := by
  decide

-- ================================================================ TTL timer

/-- `ttl_timer_armed`, exact condition: `syncJobStatusFromTaskRefs` arms the TTL timer iff the
recomputed status is finished, the Job is not being deleted, and the JOB-LEVEL
`ttlSecondsAfterFinished` is set; the timer is for the Job's key at `finish + ttl` (`dueAt`). -/
theorem ttl_timer_armed (s : Sys) (key : String) (rj nj : Job) (fin : CondFinished) (ttl : Int)
    (hu : updateJobStatusFromTaskRefs s.clock s.d rj = some nj)
    (hf : nj.status.condition.finished = some fin) (hd : isDeleted rj = false)
    (ht : rj.ttlSecondsAfterFinished = some ttl) :
    TimerBy (syncJobStatusFromTaskRefs s key rj).1.q key (dueAt s (fin.finishTimestamp.getD zeroTime + secs ttl)) := by
  have hd' : isDeleted nj = false := by
    unfold isDeleted at *
    rw [(updateStatus_some _ _ _ _ hu).1.deletionTimestamp]; exact hd
  rw [syncJobStatus_armed s key rj nj fin ttl hu hf hd' ht]
  exact enqueueAfter_timer _ _ _

/-- `ttl_timer_armed`: job-level TTL 3600 s, finished at 50 s: a pass at 100 s arms the timer for
3650 s. -/
example :
    let s : Sys := { clock := sec 100, d := { hash := "d" } }
    (syncJobStatusFromTaskRefs s "ns/job" (finishedJob (some 3600))).1.q.delayed = [("ns/job", sec 3650)] ∧
    (sync s ⟨"job", "u", finishedJob (some 3600), true, 1⟩).1.q.delayed = [("ns/job", sec 3650)] := by decide

/-- … and `syncJobStatusFromTaskRefs` does NOT arm it otherwise.  In particular when only the
controller-level default (`defaultTTLSecondsAfterFinished`) applies — job-level value unset — it
returns the system state untouched, although `handleTTL` uses the default as the effective TTL
(`Props/C13.ttl_effective`).  This was defect F6; since its repair the timer for the EFFECTIVE TTL
is armed by the TTL step itself (`ttl_timer_armed_effective` below). -/
theorem ttl_timer_not_armed_for_config_default (s : Sys) (key : String) (rj : Job)
    (h : rj.ttlSecondsAfterFinished = none) :
    (syncJobStatusFromTaskRefs s key rj).1 = s :=
  syncJobStatus_unarmed s key rj (Or.inl h)

/-- **`ttl_timer_armed_effective`** (repair of F6; `ttl_step_arms_no_timer`, which said that the
TTL step never touches the work queue, was true of the code before it and is false now).  TTL
step on a Job that is finished, not being deleted and NOT yet expired: no call, and a timer for
the Job's key is armed at `finish + TTL` (`dueAt`) where TTL is the EFFECTIVE value
`getTTLAfterFinished`: the job-level `ttlSecondsAfterFinished` if set, else the controller default
`defaultTTLSecondsAfterFinished`, else 0. -/
theorem ttl_timer_armed_effective (s : Sys) (jo : JobObj) (rj : Job) (fin : CondFinished)
    (hf : rj.status.condition.finished = some fin) (hd : isDeleted rj = false)
    (hne : s.clock < fin.finishTimestamp.getD zeroTime + getTTLAfterFinished rj s.cfg) :
    handleTTL s jo rj =
      (enqueueAfter s (jobKey jo) (fin.finishTimestamp.getD zeroTime + getTTLAfterFinished rj s.cfg), true) ∧
    newCalls s (handleTTL s jo rj).1 = [] ∧
    TimerBy (handleTTL s jo rj).1.q (jobKey jo)
      (dueAt s (fin.finishTimestamp.getD zeroTime + getTTLAfterFinished rj s.cfg)) ∧
    getTTLAfterFinished rj s.cfg =
      secs (match rj.ttlSecondsAfterFinished with
            | some t => t
            | none => match s.cfg.defaultTTLSecondsAfterFinished with
              | some d => d
              | none => 0) := by
  obtain ⟨_, _, ⟨harm, _⟩, _⟩ := handleTTL_ext s jo rj
  have h := harm fin hf hd hne
  refine ⟨h, ?_, ?_, ?_⟩
  · rw [h]; exact (enqueueAfter_ext s _ _).newCalls
  · rw [h]; exact enqueueAfter_timer s _ _
  · unfold getTTLAfterFinished
    cases rj.ttlSecondsAfterFinished <;> cases s.cfg.defaultTTLSecondsAfterFinished <;> rfl

/-- in every other case (being deleted, not finished, or expired) the TTL step leaves the queue
as it was -/
theorem ttl_step_no_timer_otherwise (s : Sys) (jo : JobObj) (rj : Job)
    (h : isDeleted rj = true ∨ rj.status.condition.finished = none ∨
      ∃ fin, rj.status.condition.finished = some fin ∧
        ¬ (fin.finishTimestamp.getD zeroTime + getTTLAfterFinished rj s.cfg > s.clock)) :
    (handleTTL s jo rj).1.q = s.q := by
  obtain ⟨_, _, ⟨_, hq⟩, _⟩ := handleTTL_ext s jo rj
  exact hq h

/-- Pass level: whenever `sync` reaches the TTL step with a Job (`rj2`: the Job after the task
stage with its status recomputed) that is finished, not being deleted and not yet expired, the
state `sync` returns holds a timer for the Job's key at `finish + effective TTL` or sooner —
whatever the finalizer step did afterwards and whatever timers were armed before. -/
theorem ttl_timer_armed_effective_sync (s : Sys) (jo : JobObj) (rj1 : Job) (fin : CondFinished)
    (h1 : (syncTasksStage s jo).2 = some rj1)
    (hf : (syncJobStatusFromTaskRefs (syncTasksStage s jo).1 (jobKey jo) rj1).2.status.condition.finished = some fin)
    (hd : isDeleted (syncJobStatusFromTaskRefs (syncTasksStage s jo).1 (jobKey jo) rj1).2 = false)
    (hne : s.clock < fin.finishTimestamp.getD zeroTime +
      getTTLAfterFinished (syncJobStatusFromTaskRefs (syncTasksStage s jo).1 (jobKey jo) rj1).2 s.cfg) :
    TimerBy (sync s jo).1.q (jobKey jo)
      (dueAt s (fin.finishTimestamp.getD zeroTime +
        getTTLAfterFinished (syncJobStatusFromTaskRefs (syncTasksStage s jo).1 (jobKey jo) rj1).2 s.cfg)) := by
  obtain ⟨⟨l1, e1⟩, _⟩ := syncTasksStage_ext s jo
  obtain ⟨e2, _⟩ := syncJobStatus_ext (syncTasksStage s jo).1 (jobKey jo) rj1
  have e02 := e1.trans e2
  obtain ⟨l, e⟩ := sync_ext_after_ttl s jo rj1 h1
  have h := (ttl_timer_armed_effective (syncJobStatusFromTaskRefs (syncTasksStage s jo).1 (jobKey jo) rj1).1 jo
    (syncJobStatusFromTaskRefs (syncTasksStage s jo).1 (jobKey jo) rj1).2 fin hf hd
    (by rw [e02.clock, e02.cfg]; exact hne)).2.2.1
  rw [dueAt_of_ext e02, e02.cfg] at h
  exact e.timers _ _ h

/-- the same finished Job in a steady state (cached status = computed status, nothing queued,
no event in flight), TTL only from the controller default 3600 s -/
private def ttlDefaultSys (clk : Int) : Sys :=
  let j := (sync { clock := sec 100, d := { hash := "d" } } ⟨"job", "u", finishedJob none, true, 1⟩).2.1
  { clock := clk, rv := 5, d := { hash := "d" }, cfg := { defaultTTLSecondsAfterFinished := some 3600 },
    job := some ⟨"job", "u", j, true, 1⟩, jobCache := some ⟨"job", "u", j, true, 1⟩ }

/-- `ttl_timer_armed_effective`: TTL only from the controller default 3600 s, finished at 50 s: the
TTL step at 100 s arms the timer for 3650 s. -/
example :
    let s := ttlDefaultSys (sec 100)
    (s.jobCache.map (fun jo => (handleTTL s jo jo.job).1.q.delayed)) = some [("ns/job", sec 3650)] := by decide

/-- **`ttl_eventually_without_resync`** (regression form of the former witness
`ttl_timer_not_armed_for_config_default_witness` for defect F6, same concrete state).  Finished
Job (finish time 50 s), `spec.ttlSecondsAfterFinished` unset, controller default TTL 3600 s, so
the effective TTL deadline is 3650 s.  A pass at 100 s (key queued) issues no call and now ARMS A
TIMER for 3650 s — the only thing left in the queue.  One nanosecond before 3650 s the worker is
idle and the Job is there; at 3650 s, and at 4000 s, the timer has fired and the pass deletes the
Job — with no event and NO resync in between.  (Before the repair the queue was left empty and at
4000 s the worker was idle with the Job still there.) -/
theorem ttl_eventually_without_resync :
    let s0 : Sys := { ttlDefaultSys (sec 100) with q := ({} : WQ).add "ns/job" }
    let s1 := (work s0).1
    getTTLAfterFinished (finishedJob none) s0.cfg = sec 3600 ∧
    (work s0).2 = "ok" ∧ s1.calls = [] ∧
    s1.q.queue = [] ∧ s1.q.delayed = [("ns/job", sec 3650)] ∧ s1.q.dirty = [] ∧ s1.jobEvs.length = 0 ∧ s1.podEvs.length = 0 ∧
    (work { s1 with clock := sec 3650 - 1 }).2 = "idle" ∧ (work { s1 with clock := sec 3650 - 1 }).1.job.isSome = true ∧
    (work { s1 with clock := sec 3650 }).2 = "ok" ∧
    ((work { s1 with clock := sec 3650 }).1.calls.map brief).head? = some ("delete", "jobs", "job", "ok", false) ∧
    (work { s1 with clock := sec 4000 }).2 = "ok" ∧
    ((work { s1 with clock := sec 4000 }).1.calls.map brief).head? = some ("delete", "jobs", "job", "ok", false) ∧
    ((work { s1 with clock := sec 4000 }).1.job.map (fun j => j.job.deletionTimestamp)) = some (some (sec 4000)) := by
  refine ⟨?_, ?_, ?_, ?_, ?_, ?_, ?_, ?_, ?_, ?_, ?_, ?_, ?_, ?_, ?_⟩ <;> decide

end Furiko.Props.C12Plan
