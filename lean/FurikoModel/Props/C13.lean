/-
C13 — "A Job object is removed from the API only after every task listed in its status has been
removed …; a finished Job is deleted by the controller no earlier than its finish time plus the
effective TTL."  Theorems over Model/JobCtl.lean (the executable model of
jobcontroller.Reconciler validated against the Go code by the `jobctl` engine).
-/
import FurikoModel.Model.JobCtl

namespace Furiko.Props.C13
open Furiko Furiko.JobCtl

/-- The controller issues a Job delete only for a Job that is not already being deleted, is
finished, and whose finish time plus the effective TTL (job value, else controller default,
else 0) is not after the clock. -/
theorem ttl_not_early (s : Sys) (jo : JobObj) (rj : Job)
    (h : (handleTTL s jo rj).1.calls ≠ s.calls) :
    ¬ isDeleted rj = true ∧ ∃ fin, rj.status.condition.finished = some fin ∧
      fin.finishTimestamp.getD zeroTime + getTTLAfterFinished rj s.cfg ≤ s.clock := by
  unfold handleTTL at h
  by_cases hd : isDeleted rj = true
  · simp [hd] at h
  · simp only [hd] at h
    cases hf : rj.status.condition.finished with
    | none => simp [hf] at h
    | some fin =>
      simp only [hf] at h
      by_cases ht : fin.finishTimestamp.getD zeroTime + getTTLAfterFinished rj s.cfg > s.clock
      · simp [ht] at h
      · exact ⟨hd, fin, rfl, Int.not_lt.mp ht⟩

/-- The effective TTL is the job value if set, else the controller default, else 0 (seconds). -/
theorem ttl_effective (rj : Job) (cfg : ExecConfig) :
    getTTLAfterFinished rj cfg =
      secs (match rj.ttlSecondsAfterFinished with
            | some t => t
            | none => match cfg.defaultTTLSecondsAfterFinished with
              | some d => d
              | none => 0) := by
  unfold getTTLAfterFinished
  cases rj.ttlSecondsAfterFinished <;> cases cfg.defaultTTLSecondsAfterFinished <;> rfl

/-- The finalizer is dropped only in a sync in which no task listed in the status could be
found: neither in the pod cache nor — confirmed for every listed task, finished or not — on the
server. -/
theorem finalizer_removed_only_when_gone (s : Sys) (jo : JobObj) (rj : Job) (s' : Sys) (rj' : Job)
    (h : handleFinalizer s jo rj true = (s', some (rj', false))) :
    rj.deletionTimestamp.isSome = true ∧ tasksForRefsConfirmed s rj.status.tasks = [] := by
  unfold handleFinalizer at h
  by_cases hdel : rj.deletionTimestamp.isNone = true
  · simp [hdel] at h
  · simp only [hdel] at h
    by_cases ht : (tasksForRefsConfirmed s rj.status.tasks).isEmpty = true
    · refine ⟨?_, by simpa using ht⟩
      cases hdt : rj.deletionTimestamp with
      | none => simp [hdt] at hdel
      | some _ => rfl
    · simp only [ht] at h
      simp only [Bool.not_true, Bool.false_eq_true, ↓reduceIte, Bool.not_false] at h
      split at h <;> simp at h

/-- … which means that no task listed in the status exists on the server any more: the Job
object can only disappear (its last finalizer dropped) after its tasks are gone — whatever the
pod cache holds or lacks. -/
theorem confirmed_empty_means_gone (s : Sys) (refs : List TaskRef)
    (h : tasksForRefsConfirmed s refs = []) :
    ∀ r ∈ refs, liveGetTask s r.name = none := by
  intro r hr
  unfold tasksForRefsConfirmed at h
  rw [List.filterMap_eq_nil_iff] at h
  have := h r hr
  unfold getTaskForRefConfirmed at this
  split at this
  · cases this
  · exact this

theorem job_gone_implies_tasks_gone (s : Sys) (jo : JobObj) (rj : Job) (s' : Sys) (rj' : Job)
    (h : handleFinalizer s jo rj true = (s', some (rj', false))) :
    ∀ r ∈ rj.status.tasks, ∀ p, findPod s.pods r.name = some p → podTask p = none := by
  intro r hr p hp
  have := confirmed_empty_means_gone s _ (finalizer_removed_only_when_gone s jo rj s' rj' h).2 r hr
  unfold liveGetTask at this
  rw [hp] at this
  exact this

/-- … and a task that is listed, not recorded finished, and still exists on the server is
always found (live GET), so the finalizer stays. -/
theorem existing_unfinished_task_found (s : Sys) (ref : TaskRef) (p : PodObj) (t : Task)
    (hfin : ref.finishTimestamp = none) (hp : findPod s.pods ref.name = some p)
    (hc : findPod s.podCache ref.name = none) (ht : podTask p = some t) :
    getTaskForRef s ref = some t := by
  unfold getTaskForRef liveGetTask
  simp [hc, hfin, hp, ht]

example : ∃ s jo rj, (handleTTL s jo rj).1.calls ≠ s.calls := by
  refine ⟨{ clock := 10000000000, job := some ⟨"job", "u", {}, true, 1⟩ }, ⟨"job", "u", {}, true, 1⟩,
    { status := { condition := { finished := some { finishTimestamp := some 5000000000 } } } }, ?_⟩
  decide

end Furiko.Props.C13
