/-
C13 — "A Job object is removed from the API only after every task listed in its status has been
removed …; a finished Job is deleted by the controller no earlier than its finish time plus the
effective TTL."  Theorems over Model/JobCtl.lean (the executable model of
jobcontroller.Reconciler validated against the Go code by the `jobctl` engine).
-/
import FurikoModel.Model.JobCtl
import FurikoModel.Proofs.JobCtlPlanCreate

namespace Furiko.Props.C13
open Furiko Furiko.JobCtl

/-- The controller issues a Job delete only for a Job that is not already being deleted, is
finished, and whose finish time plus the effective TTL (job value, else controller default,
else 0) is not after the clock. -/
theorem ttl_not_early (s : Sys) (jo : JobObj) (rj : Job)
    (h : (handleTTL s jo rj).1.calls ≠ s.calls) :
    ¬ isDeleted rj = true ∧ ∃ fin, rj.status.condition.finished = some fin ∧
      fin.finishTimestamp.getD zeroTime + getTTLAfterFinished rj s.cfg ≤ s.clock := by
  unfold handleTTL at h
  by_cases hd : isDeleted rj = true
  · simp [hd] at h
  · simp only [hd] at h
    cases hf : rj.status.condition.finished with
    | none => simp [hf] at h
    | some fin =>
      simp only [hf] at h
      by_cases ht : fin.finishTimestamp.getD zeroTime + getTTLAfterFinished rj s.cfg > s.clock
      · simp [ht, enqueueAfter] at h
      · exact ⟨hd, fin, rfl, Int.not_lt.mp ht⟩

/-- The effective TTL is the job value if set, else the controller default, else 0 (seconds). -/
theorem ttl_effective (rj : Job) (cfg : ExecConfig) :
    getTTLAfterFinished rj cfg =
      secs (match rj.ttlSecondsAfterFinished with
            | some t => t
            | none => match cfg.defaultTTLSecondsAfterFinished with
              | some d => d
              | none => 0) := by
  unfold getTTLAfterFinished
  cases rj.ttlSecondsAfterFinished <;> cases cfg.defaultTTLSecondsAfterFinished <;> rfl

/-- a cached pod is an UNRECORDED task of the Job: labelled with the Job's uid, controlled by it,
and not named by any task of the status (what `adoptUnrecordedTasks` looks for: a task that was
created but whose recording status update failed) -/
def UnrecordedTaskPod (jo : JobObj) (rj : Job) (p : PodObj) : Prop :=
  p.jobLabel = some jo.uid ∧ p.ownerUid = some jo.uid ∧ ∀ r ∈ rj.status.tasks, r.name ≠ p.pod.name

/-- `finalizerTasks` is empty exactly when no task listed in the status can be found (cache, else
live GET) and the pod cache holds no unrecorded task of the Job -/
theorem finalizerTasks_nil_iff (s : Sys) (jo : JobObj) (rj : Job) :
    finalizerTasks s jo rj = [] ↔
      tasksForRefsConfirmed s jo rj.status.tasks = [] ∧
      ∀ p ∈ s.podCache, UnrecordedTaskPod jo rj p → podTask s.clock p = none := by
  constructor
  · intro h
    have hall : ∀ t, ¬ t ∈ finalizerTasks s jo rj := by rw [h]; simp
    have hc : tasksForRefsConfirmed s jo rj.status.tasks = [] := by
      cases hx : tasksForRefsConfirmed s jo rj.status.tasks with
      | nil => rfl
      | cons t rest =>
        exact absurd ((Furiko.JobCtlPlan.mem_finalizerTasks s jo rj t).mpr (Or.inl (by rw [hx]; simp))) (hall t)
    refine ⟨hc, ?_⟩
    intro p hp ⟨h1, h2, h3⟩
    cases ht : podTask s.clock p with
    | none => rfl
    | some t =>
      exact absurd ((Furiko.JobCtlPlan.mem_finalizerTasks s jo rj t).mpr
        (Or.inr ⟨p, hp, ht, h1, h2, by rw [hc]; simp, h3⟩)) (hall t)
  · rintro ⟨hc, hu⟩
    cases hx : finalizerTasks s jo rj with
    | nil => rfl
    | cons t rest =>
      have hm : t ∈ finalizerTasks s jo rj := by rw [hx]; simp
      rcases (Furiko.JobCtlPlan.mem_finalizerTasks s jo rj t).mp hm with h | ⟨p, hp, ht, h1, h2, _, h3⟩
      · rw [hc] at h; cases h
      · rw [hu p hp ⟨h1, h2, h3⟩] at ht; cases ht

/-- The finalizer is dropped only in a sync in which no task listed in the status could be
found — neither in the pod cache nor, confirmed for every listed task, finished or not, on the
server — AND (repair of F-C20-1) the pod cache holds no unrecorded task of the Job: no pod labelled
with and controlled by the Job that the status does not list. -/
theorem finalizer_removed_only_when_gone (s : Sys) (jo : JobObj) (rj : Job) (s' : Sys) (rj' : Job)
    (h : handleFinalizer s jo rj true = (s', some (rj', false))) :
    rj.deletionTimestamp.isSome = true ∧ tasksForRefsConfirmed s jo rj.status.tasks = [] ∧
    (∀ p ∈ s.podCache, UnrecordedTaskPod jo rj p → podTask s.clock p = none) ∧
    finalizerTasks s jo rj = [] := by
  unfold handleFinalizer at h
  by_cases hdel : rj.deletionTimestamp.isNone = true
  · simp [hdel] at h
  · simp only [hdel] at h
    by_cases ht : (finalizerTasks s jo rj).isEmpty = true
    · have hnil : finalizerTasks s jo rj = [] := by simpa using ht
      refine ⟨?_, ((finalizerTasks_nil_iff s jo rj).mp hnil).1, ((finalizerTasks_nil_iff s jo rj).mp hnil).2, hnil⟩
      cases hdt : rj.deletionTimestamp with
      | none => simp [hdt] at hdel
      | some _ => rfl
    · simp only [ht] at h
      simp only [Bool.not_true, Bool.false_eq_true, ↓reduceIte, Bool.not_false] at h
      split at h <;> simp at h

/-- … which means that no task listed in the status exists on the server any more: the Job
object can only disappear (its last finalizer dropped) after its tasks are gone — whatever the
pod cache holds or lacks.  (`liveGetTask s jo n = none`: the server holds no pod named `n` that is
controlled by the Job and is a task — since the repair of F22 an object of that name that is not
controlled by the Job is not the task.) -/
theorem confirmed_empty_means_gone (s : Sys) (jo : JobObj) (refs : List TaskRef)
    (h : tasksForRefsConfirmed s jo refs = []) :
    ∀ r ∈ refs, liveGetTask s jo r.name = none := by
  intro r hr
  unfold tasksForRefsConfirmed at h
  rw [List.filterMap_eq_nil_iff] at h
  have := h r hr
  unfold getTaskForRefConfirmed at this
  split at this
  · cases this
  · exact this

/-- When the finalizer is dropped, no pod CONTROLLED BY THE JOB that carries the name of a task
listed in the status exists on the server any more, and no unrecorded task of the Job (created,
recording failed) is visible in the pod cache. -/
theorem job_gone_implies_tasks_gone (s : Sys) (jo : JobObj) (rj : Job) (s' : Sys) (rj' : Job)
    (h : handleFinalizer s jo rj true = (s', some (rj', false))) :
    (∀ r ∈ rj.status.tasks, ∀ p, findPod s.pods r.name = some p → p.ownerUid = some jo.uid → podTask s.clock p = none) ∧
    (∀ p ∈ s.podCache, UnrecordedTaskPod jo rj p → podTask s.clock p = none) := by
  refine ⟨?_, (finalizer_removed_only_when_gone s jo rj s' rj' h).2.2.1⟩
  intro r hr p hp hown
  have := confirmed_empty_means_gone s jo _ (finalizer_removed_only_when_gone s jo rj s' rj' h).2.1 r hr
  unfold liveGetTask isControlledByJob at this
  rw [hp] at this
  simpa [hown] using this

/-- F22, the finalizer: an object that is not controlled by the Job does not keep the finalizer,
whatever name it carries.  If every pod of the pod cache and of the server that carries the name of
a listed task is NOT controlled by the Job (the tasks themselves are gone; something else took their
names) and the pod cache holds no unrecorded task of the Job, the finalizer is dropped — and no call
is issued: the foreign pods are not deleted. -/
theorem foreign_pod_does_not_block_finalizer (s : Sys) (jo : JobObj) (rj : Job)
    (hdel : rj.deletionTimestamp.isSome = true)
    (hcache : ∀ r ∈ rj.status.tasks, ∀ p, findPod s.podCache r.name = some p → p.ownerUid ≠ some jo.uid)
    (hsrv : ∀ r ∈ rj.status.tasks, ∀ p, findPod s.pods r.name = some p → p.ownerUid ≠ some jo.uid)
    (hun : ∀ p ∈ s.podCache, UnrecordedTaskPod jo rj p → podTask s.clock p = none) :
    (handleFinalizer s jo rj true).2.map (·.2) = some false ∧ (handleFinalizer s jo rj true).1.calls = s.calls := by
  have hlive : ∀ r ∈ rj.status.tasks, liveGetTask s jo r.name = none := by
    intro r hr
    unfold liveGetTask isControlledByJob
    cases hp : findPod s.pods r.name with
    | none => rfl
    | some p => simp [hsrv r hr p hp]
  have hget : ∀ r ∈ rj.status.tasks, getTaskForRef s jo r = none := by
    intro r hr
    unfold getTaskForRef isControlledByJob
    cases hp : findPod s.podCache r.name with
    | none => simp only; split
              · rfl
              · exact hlive r hr
    | some p =>
      simp only [hcache r hr p hp, decide_false, Bool.not_false, ↓reduceIte]
      split
      · rfl
      · exact hlive r hr
  have hconf : tasksForRefsConfirmed s jo rj.status.tasks = [] := by
    unfold tasksForRefsConfirmed
    rw [List.filterMap_eq_nil_iff]
    intro r hr
    unfold getTaskForRefConfirmed
    rw [hget r hr]
    exact hlive r hr
  have hnil : finalizerTasks s jo rj = [] := (finalizerTasks_nil_iff s jo rj).mpr ⟨hconf, hun⟩
  have hdn : rj.deletionTimestamp.isNone = false := by
    cases hd : rj.deletionTimestamp with
    | none => rw [hd] at hdel; cases hdel
    | some _ => rfl
  unfold handleFinalizer
  simp only [hdn, Bool.false_eq_true, ↓reduceIte, Bool.not_true, hnil, List.isEmpty_nil]
  refine ⟨rfl, ?_⟩
  unfold updateTaskRefStatus syncJobStatusFromTaskRefs
  split
  · rfl
  · split
    · split
      · split
        · rfl
        · rfl
      · rfl
    · rfl

/-- conversely, an unrecorded task of the Job that the pod cache holds keeps the finalizer: the
step does not return "finalizer dropped" -/
theorem unrecorded_task_keeps_finalizer (s : Sys) (jo : JobObj) (rj : Job) (p : PodObj) (t : Task)
    (hp : p ∈ s.podCache) (hu : UnrecordedTaskPod jo rj p) (ht : podTask s.clock p = some t) :
    ∀ s' rj', handleFinalizer s jo rj true ≠ (s', some (rj', false)) := by
  intro s' rj' h
  have := (finalizer_removed_only_when_gone s jo rj s' rj' h).2.2.1 p hp hu
  rw [ht] at this; cases this

/-- … and a task that is listed, not recorded finished, and still exists on the server (a pod of
that name controlled by the Job) is always found (live GET), so the finalizer stays. -/
theorem existing_unfinished_task_found (s : Sys) (jo : JobObj) (ref : TaskRef) (p : PodObj) (t : Task)
    (hfin : ref.finishTimestamp = none) (hp : findPod s.pods ref.name = some p)
    (hown : p.ownerUid = some jo.uid)
    (hc : findPod s.podCache ref.name = none) (ht : podTask s.clock p = some t) :
    getTaskForRef s jo ref = some t := by
  unfold getTaskForRef liveGetTask isControlledByJob
  simp [hc, hfin, hp, ht, hown]

/-- `unrecorded_task_keeps_finalizer` / `finalizer_removed_only_when_gone`: a Job deleted by the
user whose status lists nothing while the pod cache holds a pod it created (recording failed):
the pod is deleted and the finalizer kept; without that pod the finalizer is dropped. -/
example :
    let p : PodObj := { pod := { name := "job-d-0", creationTimestamp := some 1000000000, retryIndex := some 0 },
                        ownerUid := some "u", ownerName := some "job", jobLabel := some "u" }
    let rj : Job := { template := some {}, deletionTimestamp := some 90000000000, status := { startTime := some 1000000000 } }
    let jo : JobObj := ⟨"job", "u", rj, true, 1⟩
    let s : Sys := { clock := 100000000000, d := { hash := "d" }, pods := [p], podCache := [p] }
    UnrecordedTaskPod jo rj p ∧ (podTask s.clock p).isSome = true ∧
    (handleFinalizer s jo rj true).2.map (·.2) = some true ∧
    (handleFinalizer s jo rj true).1.calls.map (fun c => (c.verb, c.res, c.name, c.out)) = [("delete", "pods", "job-d-0", "ok")] ∧
    (handleFinalizer { s with pods := [], podCache := [] } jo rj true).2.map (·.2) = some false := by
  refine ⟨⟨rfl, rfl, by intro r hr; cases hr⟩, by decide, by decide, by decide, by decide⟩

/-- `foreign_pod_does_not_block_finalizer` / `job_gone_implies_tasks_gone`: the status lists
`job-d-0`, whose pod is gone; a pod controlled by another Job carries that name on the server and in
the pod cache: the finalizer is dropped and nothing is deleted.  With the Job's own pod under that
name the finalizer stays and the pod is deleted. -/
example :
    let f : PodObj := { pod := { name := "job-d-0", creationTimestamp := some 1000000000, phase := .succeeded },
                        ownerUid := some "other-uid", ownerName := some "other" }
    let own : PodObj := { pod := { name := "job-d-0", creationTimestamp := some 1000000000, retryIndex := some 0 },
                          ownerUid := some "u", ownerName := some "job", jobLabel := some "u" }
    let ref : TaskRef := { name := "job-d-0", creationTimestamp := some 1000000000, retryIndex := 0 }
    let rj : Job := { template := some {}, deletionTimestamp := some 90000000000,
                      status := { startTime := some 1000000000, tasks := [ref], createdTasks := 1 } }
    let jo : JobObj := ⟨"job", "u", rj, true, 1⟩
    let s : Sys := { clock := 100000000000, d := { hash := "d" }, pods := [f], podCache := [f] }
    (podTask s.clock f).isSome = true ∧
    (handleFinalizer s jo rj true).2.map (·.2) = some false ∧ (handleFinalizer s jo rj true).1.calls = [] ∧
    (handleFinalizer { s with pods := [own], podCache := [own] } jo rj true).2.map (·.2) = some true ∧
    (handleFinalizer { s with pods := [own], podCache := [own] } jo rj true).1.calls.map
      (fun c => (c.verb, c.res, c.name, c.out)) = [("delete", "pods", "job-d-0", "ok")] := by
  refine ⟨by decide, by decide, by decide, by decide, by decide⟩

example : ∃ s jo rj, (handleTTL s jo rj).1.calls ≠ s.calls := by
  refine ⟨{ clock := 10000000000, job := some ⟨"job", "u", {}, true, 1⟩ }, ⟨"job", "u", {}, true, 1⟩,
    { status := { condition := { finished := some { finishTimestamp := some 5000000000 } } } }, ?_⟩
  decide

end Furiko.Props.C13
