/-
C20 / C10 / C08, the LIVENESS half for the job controller ("for any finite pattern of failed, conflicting
or timed-out API calls, once calls succeed again … every Job reaches the result its tasks imply"; C10:
"once the strategy is decided the Job ends with the implied result"; C08: "a failed index is retried
until it succeeds or uses maxAttempts") — for a SIMPLE Job: started, not parallel (one index, the default
one), no kill timestamp, no admission error, not being deleted.

The environment is a deterministic FAIR ROUND over the transition system of `Proofs/JobCtlSys.lean`
(`Live.round orc`, `Proofs/JobCtlLive7.lean`), composed of existing `Action`s only:

    deliverAll ; sweep orc ; deliverAll ; jump ; work ; deliverAll

* `deliverAll` — both informers deliver every pending watch event (`deliverJob` / `deliverPod`);
* `sweep orc`  — the kubelet finishes every pod that is not finished: `kubelet` status writes to phase
                 Succeeded / Failed as the oracle `orc : pod name → Outcome` says;
* `jump`       — while the Job is unfinished the clock advances (`advance`) until every armed timer of the
                 work queue (`AddAfter`: retry delay, pending timeout, back-off) has fired;
* `work`       — one step of `reconciler.Controller.work` (pop the key, `Reconciler.SyncOne`, forget / done).
`roundF orc fs` is the same round with `setFaults fs` before and `setFaults []` after the `work` step: the
API calls of that pass consume the fault list `fs` (`err` / `timeout` / `conflict`: not applied, reported
failed; `applied-err`: applied, reported failed; anything else: applied).  Every round is a `Steps` path
(`round_is_path`), so every `Reach` invariant of the safety theorems (C08–C13) holds along the runs.

Theorems (helper files `Proofs/JobCtlLive0 … 36.lean`):
* `single_task_job_converges`  (L1 without faults): from the creation of the Job, at most
  `3·maxAttempts + 2` rounds reach a state whose authoritative Job is `Finished` with result `Success` if
  the oracle lets some attempt `≤ maxAttempts` succeed — the first such attempt is the last one created,
  its number plus one is the number of task refs — and `Failed` with exactly `maxAttempts` refs otherwise;
  every ref and pod is finished; further rounds change neither Job nor pods nor resourceVersion nor clock.
* `single_task_job_converges_under_faults` (L1 with faults): the same verdict after ANY finite sequence
  of rounds whose passes run under arbitrary fault lists, followed by at most `3·maxAttempts + 3`
  fault-free rounds — the faulty run ends with the outcome of the run without faults.
* `single_task_job_converges_from_invariant_partial`: from any REACHABLE state that satisfies the round
  invariant `Live.Canon` with an unfinished Job; `_partial` because the invariant is not derived from
  reachability alone (see its docstring).
-/
import FurikoModel.Proofs.JobCtlLive36

set_option linter.unusedVariables false
set_option linter.unusedSimpArgs false

namespace Furiko.Props.C20Live
open Furiko Furiko.JobCtl Furiko.JobCtl.Live

/-- a fair round, with or without a fault list for its pass, is a path of the transition system of the job
controller whose actions are controller passes, informer deliveries, kubelet status writes, clock
advances and replacements of the fault list: no user kill / delete, no foreign pod, no pod vanishing -/
theorem round_is_path (j0 : JobObj) (orc : String → Outcome) (fs : List String) (s : Sys) :
    Steps faultEnv j0 s (round orc s) ∧ Steps faultEnv j0 s (roundF orc fs s) :=
  ⟨round_steps (fun _ a h => by cases a <;> first | exact h | trivial) orc s s (.refl s),
   roundF_steps (fun _ a h => by cases a <;> first | exact h | trivial) (fun _ _ => trivial) orc fs s s (.refl s)⟩

/-- **single_task_job_converges** (L1, no fault).  Go: `jobcontroller.Reconciler.SyncOne` driven by
`reconciler.Controller.work` for a Job whose `Spec.Template.Parallelism` is nil, `Status.StartTime` set,
no `Spec.KillTimestamp`, no admission-error annotation, no deletion timestamp, `GetMaxAttempts() = n ≥ 1`,
any retry delay and pending timeout; informers, kubelet and clock as in the fair round; `orc` fixes how
each pod (by name) ends.  From the state right after the Job's creation event was delivered, at most
`3·n + 2` rounds (per attempt: arm the retry timer, create the task, record its outcome) reach a state
in which the authoritative Job carries `Condition.Finished` with `Result = Success` and `k+1` task refs,
`k` the first attempt the oracle lets succeed, or `Result = Failed` and exactly `n` refs when the oracle
fails them all; every ref has a finish timestamp, every pod is finished, nothing is in flight; and every
further round leaves Job, pods, resourceVersion counter and clock as they are (the pass of a final state
issues no API call: `Live.round_done`).  Hypothesis `hT`: the TTL after finish, counted from a lower
bound `F0` on all finish times (`F0 ≤` creation second), has not elapsed when a round's pass runs —
otherwise `handleTTLAfterFinished` deletes the Job in the very pass that finishes it. -/
theorem single_task_job_converges (orc : String → Outcome) (clock : Int) (cfg : ExecConfig) (d : PIndex) (j0 : JobObj)
    (hwf : WF j0) (hspec : SimpleSpec j0.job) (hn : 1 ≤ j0.job.maxAttempts)
    (hunf : j0.job.status.condition.finished = none) (hdash : '-' ∉ d.hash.toList) (F0 : Int)
    (hF0 : F0 ≤ secs (clock / 1000000000))
    (hT : ∀ k, k < 3 * j0.job.maxAttempts.toNat + 2 →
      (roundN orc (k + 1) (startState clock cfg d j0)).clock < F0 + getTTLAfterFinished j0.job cfg) :
    ∃ k, 1 ≤ k ∧ k ≤ 3 * j0.job.maxAttempts.toNat + 2 ∧
      Steps faultEnv j0 (startState clock cfg d j0) (roundN orc k (startState clock cfg d j0)) ∧
      Final orc j0 (roundN orc k (startState clock cfg d j0)) ∧
      ∀ n, (roundN orc n (roundN orc k (startState clock cfg d j0))).job = (roundN orc k (startState clock cfg d j0)).job ∧
        (roundN orc n (roundN orc k (startState clock cfg d j0))).pods = (roundN orc k (startState clock cfg d j0)).pods ∧
        (roundN orc n (roundN orc k (startState clock cfg d j0))).rv = (roundN orc k (startState clock cfg d j0)).rv ∧
        (roundN orc n (roundN orc k (startState clock cfg d j0))).clock = (roundN orc k (startState clock cfg d j0)).clock := by
  obtain ⟨hcan, hbusy⟩ := init_canon fair_in_faultEnv clock cfg d j0 hwf hspec hn hunf hdash F0 hF0
  have hmu : mu { j0 with rv := 1 } (startState clock cfg d j0) ≤ 3 * j0.job.maxAttempts.toNat + 2 := by
    unfold mu
    have : ({ j0 with rv := 1 } : JobObj).job.status.tasks = [] := hwf.noTasks
    rw [this]
    simp only [List.all_nil, ↓reduceIte, List.length_nil]
    show 3 * (j0.job.maxAttempts - 0).toNat + 2 - _ ≤ _
    split <;> omega
  obtain ⟨k, hk, hk1, jo', hn', hcan', hdone, htruth, httl⟩ := rounds_converge_with fair_in_faultEnv orc (Truth orc)
    (fun jo jo' s h hb ht hn hcw hrs hpods hd hps => truth_preserved fair_in_faultEnv orc jo jo' s h hb ht hn hcw hrs hpods hd hps)
    (3 * j0.job.maxAttempts.toNat + 2) _ _ hcan hbusy (truth_start orc clock cfg d j0 hwf) hmu hT
  have hd : (roundN orc k (startState clock cfg d j0)).d = d :=
    steps_d (j0 := j0) (roundN_steps fair_in_faultEnv orc k _ _ (.refl _))
  refine ⟨k, hk1, Nat.le_trans hk hmu, roundN_steps fair_in_faultEnv orc k _ _ (.refl _),
    final_of orc hcan' hdone htruth hn', ?_⟩
  intro n
  have hclk : (roundN orc k (startState clock cfg d j0)).clock <
      F0 + getTTLAfterFinished jo'.job (roundN orc k (startState clock cfg d j0)).cfg := by
    rw [httl]
    obtain ⟨k', rfl⟩ : ∃ k', k = k' + 1 := ⟨k - 1, by omega⟩
    exact hT k' (by omega)
  obtain ⟨_, _, i3, i4, i5, i6⟩ := done_forever fair_in_faultEnv orc jo' n _ hcan' hdone hclk
  exact ⟨i3, i4, i5, i6⟩

/-- **single_task_job_converges_under_faults** (L1 with faults; the job-controller instance of C20's
convergence claim).  The Job and the oracle as in `single_task_job_converges`.  Let `fss` be ANY finite
list of fault lists; the `i`-th round's pass runs under the `i`-th list (`roundF`: failed or
applied-but-reported-failed pod creates, failed / conflicting / timed-out status updates, in any
combination — every string is allowed), then the passes run without faults.  After at most
`3·n + 3` fault-free rounds the state is final with the oracle's verdict — Success with the first
successful attempt as the last ref, or Failed with `n` refs — i.e. the outcome of the run without any
fault: a failed create is retried, a pod created by a pass that failed before recording it is adopted
(create ↦ AlreadyExists ↦ `getTaskForAdoption`) with the outcome it has, a failed status update is
recomputed.  `hTF` / `hT`: the TTL has not elapsed when a pass runs (as above). -/
theorem single_task_job_converges_under_faults (orc : String → Outcome) (clock : Int) (cfg : ExecConfig) (d : PIndex)
    (j0 : JobObj) (hwf : WF j0) (hspec : SimpleSpec j0.job) (hn : 1 ≤ j0.job.maxAttempts)
    (hunf : j0.job.status.condition.finished = none) (hdash : '-' ∉ d.hash.toList) (F0 : Int)
    (hF0 : F0 ≤ secs (clock / 1000000000)) (fss : List (List String))
    (hTF : ∀ pre suf, fss = pre ++ suf → pre ≠ [] →
      (roundsF orc pre (startState clock cfg d j0)).clock < F0 + getTTLAfterFinished j0.job cfg)
    (hT : ∀ k, k < 3 * j0.job.maxAttempts.toNat + 3 →
      (roundN orc (k + 1) (roundsF orc fss (startState clock cfg d j0))).clock < F0 + getTTLAfterFinished j0.job cfg) :
    ∃ k, k ≤ 3 * j0.job.maxAttempts.toNat + 3 ∧
      Steps faultEnv j0 (startState clock cfg d j0) (roundN orc k (roundsF orc fss (startState clock cfg d j0))) ∧
      Final orc j0 (roundN orc k (roundsF orc fss (startState clock cfg d j0))) := by
  obtain ⟨hcan, hbusy⟩ := init_canon fair_in_faultEnv clock cfg d j0 hwf hspec hn hunf hdash F0 hF0
  have hsound : Sound faultEnv j0 F0 orc (getTTLAfterFinished j0.job cfg) j0.name (startState clock cfg d j0) :=
    ⟨{ j0 with rv := 1 }, rfl, hcan, Or.inl hbusy, truth_start orc clock cfg d j0 hwf, rfl⟩
  obtain ⟨k, hk, hsteps, jo', hn', hcan', hdone, htruth⟩ := faulty_then_fair fair_in_faultEnv (fun _ _ => trivial) orc
    (getTTLAfterFinished j0.job cfg) j0.name fss _ hsound hTF hT
  exact ⟨k, hk, hsteps, final_of orc hcan' hdone htruth hn'⟩

/-- **single_task_job_converges_from_invariant_partial**.  From ANY state `s` reachable by actions of a
filter `ok` that admits the actions of the fair round (`hok`; `ok` may admit more: faults, restarts, pods
vanishing, arbitrary kubelet writes, …) which satisfies the round invariant `Canon` with an unfinished Job
(`Busy`), at most `mu ≤ 3·n + 3` fair rounds reach a final state (`Done`: Finished with `Success` iff a ref
succeeded, `Failed` otherwise; every ref and pod finished; every pod recorded; the recorded status a
fixpoint of the recomputation), which further rounds leave as it is.
MISSING (hence `_partial`) for "any reachable quiesced state after an arbitrary prefix": `Canon` asks, beyond
reachability and quiescence (caches = server, no event pending, no fault queued), that (a) the recorded
refs carry the retry numbers `0 … m-1` and each is dead (finished, no success) or live (unfinished, no
deletion marker); (b) every pod of the server is controlled by the Job, carries no deletion timestamp, cannot
make `PodTask.GetTaskRef` panic, and is recorded or is THE pod of attempt `m` created while all refs were
dead; (c) the work queue is idle and well-formed with the key ready or a timer armed.  These do not follow
from reachability: they fail after a stale-cache re-create (known finding F19: two live pods of one
index), while a pending-timeout delete is in progress (a pod with a deletion timestamp), and for the panic
shape of `GetTaskRef` (DeadlineExceeded without start time).  They ARE kept by fair rounds under arbitrary
fault lists (`Live.roundF_keeps`); prefixes with informer lag, process restarts or vanishing pods are not
covered by a theorem. -/
theorem single_task_job_converges_from_invariant_partial {ok : Sys → Action → Prop} (hok : ∀ s a, fairEnv s a → ok s a)
    (orc : String → Outcome) (j0 jo : JobObj) (F0 : Int) (s : Sys) (h : Canon ok j0 jo F0 s) (hb : Busy jo s)
    (hT : ∀ k, k < mu jo s → (roundN orc (k + 1) s).clock < F0 + getTTLAfterFinished jo.job s.cfg) :
    ∃ k, 1 ≤ k ∧ k ≤ mu jo s ∧ mu jo s ≤ 3 * jo.job.maxAttempts.toNat + 3 ∧
      Steps ok j0 s (roundN orc k s) ∧
      ∃ jo', jo'.name = jo.name ∧ Canon ok j0 jo' F0 (roundN orc k s) ∧ Done jo' (roundN orc k s) ∧
        ∀ n, (roundN orc n (roundN orc k s)).job = (roundN orc k s).job ∧
          (roundN orc n (roundN orc k s)).pods = (roundN orc k s).pods ∧
          (roundN orc n (roundN orc k s)).rv = (roundN orc k s).rv ∧
          (roundN orc n (roundN orc k s)).clock = (roundN orc k s).clock :=
  converges_from_canon hok orc jo s h hb hT

/-! ### non-vacuity: the Job of `JobCtlInvExamples` (two attempts, TTL 1000 s) -/

/-- every attempt fails -/
def orcFail : String → Outcome := fun _ => .fail
/-- the second attempt succeeds -/
def orcSecond : String → Outcome := fun n => if n = "job-h-1" then .succeed else .fail

def start : Sys := startState 0 {} Ex.d Ex.job

/-- the hypotheses of `single_task_job_converges` hold for `Ex.job` and both oracles; the run with two
failures needs 4 of the at most 8 rounds (create, record, create, record: the retry delay is 0) and ends
Failed with 2 refs; the third round has not finished it; with the second attempt succeeding it ends
Success with 2 refs; the fifth round is a fixpoint whose pass issues no call -/
example :
    WF Ex.job ∧ SimpleSpec Ex.job.job ∧ 1 ≤ Ex.job.job.maxAttempts ∧ '-' ∉ Ex.d.hash.toList ∧
    (∀ k, k < 3 * Ex.job.job.maxAttempts.toNat + 2 →
      (roundN orcFail (k + 1) start).clock < 0 + getTTLAfterFinished Ex.job.job {}) ∧
    (∀ k, k < 3 * Ex.job.job.maxAttempts.toNat + 2 →
      (roundN orcSecond (k + 1) start).clock < 0 + getTTLAfterFinished Ex.job.job {}) ∧
    (roundN orcFail 4 start).job.map (fun j => (j.job.status.condition.finished.map (·.result), j.job.status.tasks.length)) =
      some (some .failed, 2) ∧
    (roundN orcFail 3 start).job.map (fun j => j.job.status.condition.finished.isSome) = some false ∧
    (roundN orcSecond 4 start).job.map (fun j => (j.job.status.condition.finished.map (·.result), j.job.status.tasks.length)) =
      some (some .success, 2) ∧
    (roundN orcFail 5 start).job = (roundN orcFail 4 start).job ∧
    (JobCtl.work (roundN orcFail 4 start)).1.calls = [] :=
  ⟨Ex.wf_job, ex_spec, by decide, by decide, by decide +kernel, by decide +kernel, by decide +kernel, by decide +kernel,
   by decide +kernel, by decide +kernel, by decide +kernel⟩

/-- three faulted rounds — the create fails; the create succeeds but the status update conflicts (the pod
exists unrecorded); the create is answered AlreadyExists, the adoption is recorded by a status update that is
applied but reported failed — and the fault-free rounds still end Failed with 2 refs (both attempts fail),
resp. Success with 2 refs when the second attempt succeeds: the outcome of the run without faults -/
def faults3 : List (List String) := [["err"], ["", "conflict"], ["", "applied-err"]]

example :
    (∀ pre suf, faults3 = pre ++ suf → pre ≠ [] → (roundsF orcFail pre start).clock < 0 + getTTLAfterFinished Ex.job.job {}) ∧
    (∀ k, k < 3 * Ex.job.job.maxAttempts.toNat + 3 →
      (roundN orcFail (k + 1) (roundsF orcFail faults3 start)).clock < 0 + getTTLAfterFinished Ex.job.job {}) ∧
    (roundsF orcFail [["err"]] start).pods.map (·.pod.name) = [] ∧
    ((roundsF orcFail [["err"], ["", "conflict"]] start).pods.map (·.pod.name),
      (roundsF orcFail [["err"], ["", "conflict"]] start).job.map (fun j => j.job.status.tasks.length)) = (["job-h-0"], some 0) ∧
    (roundsF orcFail faults3 start).job.map (fun j => j.job.status.tasks.map (fun r => (r.name, r.status.result))) =
      some [("job-h-0", .failed)] ∧
    (roundN orcFail 2 (roundsF orcFail faults3 start)).job.map
        (fun j => (j.job.status.condition.finished.map (·.result), j.job.status.tasks.length)) = some (some .failed, 2) ∧
    (roundN orcSecond 2 (roundsF orcSecond faults3 start)).job.map
        (fun j => (j.job.status.condition.finished.map (·.result), j.job.status.tasks.length)) = some (some .success, 2) := by
  refine ⟨?_, by decide +kernel, by decide +kernel, by decide +kernel, by decide +kernel, by decide +kernel, by decide +kernel⟩
  intro pre suf e hne
  -- the three non-empty prefixes of `faults3`
  have : pre = [["err"]] ∨ pre = [["err"], ["", "conflict"]] ∨ pre = faults3 := by
    unfold faults3 at e
    match pre, suf, e, hne with
    | [a], suf, e, _ => simp at e; exact Or.inl (by rw [← e.1])
    | [a, b], suf, e, _ => simp at e; exact Or.inr (Or.inl (by rw [← e.1, ← e.2.1]))
    | [a, b, c], suf, e, _ => simp at e; exact Or.inr (Or.inr (by rw [← e.1, ← e.2.1, ← e.2.2.1]; rfl))
    | a :: b :: c :: x :: r, suf, e, _ => simp at e
  rcases this with rfl | rfl | rfl <;> decide +kernel

end Furiko.Props.C20Live
