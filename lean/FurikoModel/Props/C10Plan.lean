/-
C10 — plan level: "A Job's final result is exactly what its tasks' outcomes and strategy imply":
the clause `decided_then_reached`, first half — once the outcome of a parallel Job is decided
against continuing (or the Job ended with an AdmissionError, fix 4da8936), the pass deletes the
tasks that are still alive.  Theorems over `Model/JobCtl.lean` for ALL states, Jobs and faults.
Vocabulary as in `Props/C12Plan.lean`.
-/
import FurikoModel.Proofs.JobCtlPlanPass

namespace Furiko.Props.C10Plan
open Furiko Furiko.JobCtl Furiko.JobCtlPlan Furiko.WQ

-- ---------------------------------------------------------------- data of the examples

private def sec (n : Int) : Int := n * 1000000000
private def brief (c : Call) : String × String × String × String × Bool := (c.verb, c.res, c.name, c.out, c.force)

private def mkPod (name hash : String) (ph : PodPhase) (fin : Option Time) : PodObj :=
  { pod := { name := name, creationTimestamp := some (sec 1), phase := ph, retryIndex := some 0,
             parallelIndex := some { hash := hash }, startTime := some (sec 1),
             containers := [match fin with
               | some f => { terminated := some { startedAt := some (sec 2), finishedAt := some f } }
               | none => { running := some (some (sec 2)) }] },
    ownerUid := some "u", ownerName := some "job", jobLabel := some "u" }

/-- AnySuccessful over indexes `a`, `b`; both tasks recorded running -/
private def anyJob : Job :=
  { template := some { parallelism := some { strategy := .anySuccessful, indexes := [{ hash := "a" }, { hash := "b" }] } },
    status := { startTime := some (sec 1),
                tasks := [{ name := "job-a-0", parallelIndex := some { hash := "a" }, creationTimestamp := some (sec 1),
                            runningTimestamp := some (sec 2) },
                          { name := "job-b-0", parallelIndex := some { hash := "b" }, creationTimestamp := some (sec 1),
                            runningTimestamp := some (sec 2) }] } }

/-- When the kill step runs on a Job whose recorded parallel summary is complete and decided
against continuing (`shouldKillJobForParallel`: AllSuccessful already failed / AnySuccessful
already succeeded), or that carries the admission-error annotation, every task of the list that
is unfinished and has no deletion timestamp gets a graceful pod delete — whatever the faults —
and on success its refs are marked `deletedStatus = Killed`; with no fault pending the step
succeeds. -/
theorem decided_then_kill (s : Sys) (jo : JobObj) (rj : Job) (tasks : List Task)
    (h : shouldKillJobForParallel rj = true ∨ rj.admissionError = true) :
    (∀ t ∈ tasks, isTaskFinished t = false → t.deletionTimestamp = none →
      ∃ c ∈ newCalls s (handleKillJob s jo rj tasks).1,
        c.verb = "delete" ∧ c.res = "pods" ∧ c.force = false ∧ c.name = t.name) ∧
    (∀ rj', (handleKillJob s jo rj tasks).2 = some rj' →
      ∀ t ∈ tasks, isTaskFinished t = false → t.deletionTimestamp = none →
        ∀ r ∈ rj'.status.tasks, r.name = t.name → r.deletedStatus = some killedStatus) ∧
    (NoFault s → ∃ rj', (handleKillJob s jo rj tasks).2 = some rj') := by
  obtain ⟨l, e, _, hall, hon⟩ := handleKillJob_ext s jo rj tasks
  obtain ⟨hcov, hmark, hnf⟩ := hon ((shouldKillJob_iff s.clock rj).mpr (Or.inr h))
  rw [e.newCalls]
  refine ⟨?_, ?_, fun hno => ⟨_, (hnf hno).1⟩⟩
  · intro t ht hf hd
    obtain ⟨c, hc, hn⟩ := hcov t ht hf hd
    obtain ⟨hv, hr, hfo, _⟩ := hall c hc
    exact ⟨c, hc, hv, hr, hfo, hn⟩
  · intro rj' h' t ht hf hd r hr hn
    rw [hmark rj' h'] at hr
    exact killMark_killed rj tasks t ht hf hd r hr hn

/-- `decided_then_kill` with the admission-error annotation: the live task is deleted. -/
example :
    let pb := mkPod "job-b-0" "b" .running none
    let j : Job := { anyJob with admissionError := true }
    let s : Sys := { clock := sec 60, d := { hash := "d" }, pods := [pb], podCache := [pb] }
    (newCalls s (handleKillJob s ⟨"job", "u", j, true, 1⟩ j ((podTask s.clock pb).toList)).1).map brief = [("delete", "pods", "job-b-0", "ok", false)] := by
  decide

/-- what "decided against continuing" means, exactly -/
theorem decided_iff (rj : Job) :
    shouldKillJobForParallel rj = true ↔
      ∃ t spec st b, rj.template = some t ∧ t.parallelism = some spec ∧ rj.status.parallelStatus = some st ∧
        st.summary.complete = true ∧ st.summary.successful = some b ∧
        ((spec.strategy.get = .allSuccessful ∧ b = false) ∨ (spec.strategy.get = .anySuccessful ∧ b = true)) :=
  shouldKillJobForParallel_iff rj

/-- decided: AnySuccessful with a successful summary; not decided: the same summary under
AllSuccessful (everything succeeded — nothing is left to stop) -/
example :
    let st : ParallelStatus := { summary := { complete := true, successful := some true } }
    shouldKillJobForParallel { anyJob with status := { anyJob.status with parallelStatus := some st } } = true ∧
    shouldKillJobForParallel { template := some { parallelism := some { strategy := .allSuccessful } },
                               status := { parallelStatus := some st } } = false := by
  decide

/-- Pass level: in a `syncJobTasks` pass that returns without error, let `tasks1` be the task list
after the creation step and `rj2` the Job refreshed from it (whose parallel status is computed
from the refreshed refs: `refreshed_parallelStatus`).  If `rj2` is decided against continuing, or
the admission error is present after the creation step, then every task of `tasks1` that is
unfinished and has no deletion timestamp gets a graceful delete call in this very pass. -/
theorem decided_then_kill_pass (s : Sys) (jo : JobObj) (rj rjOut : Job)
    (hok : (syncJobTasks s jo rj).2 = some rjOut) :
    ∃ s1 rj1 tasks1, syncCreateTasks s jo rj (tasks0 s jo rj) = (s1, some (rj1, tasks1)) ∧
      (shouldKillJobForParallel (updateTaskRefStatus s1 (jobKey jo) rj1 tasks1).2 = true ∨ rj1.admissionError = true →
        ∀ t ∈ tasks1, isTaskFinished t = false → t.deletionTimestamp = none →
          ∃ c ∈ newCalls s (syncJobTasks s jo rj).1,
            c.verb = "delete" ∧ c.res = "pods" ∧ c.force = false ∧ c.name = t.name) := by
  obtain ⟨s1, rj1, tasks1, s2, rj2, s3, rj3, s4, rj4, s5, rj5, hc, hu, _, hkj, _, _, hcalls, _, _, _, _, hs2,
    hs3, _, hps⟩ := syncJobTasks_success s jo rj rjOut hok
  refine ⟨s1, rj1, tasks1, hc, ?_⟩
  intro hdec t ht hf hd
  rw [hu] at hdec
  have h3 : shouldKillJobForParallel rj3 = true ∨ rj3.admissionError = true := by
    rcases hdec with h | h
    · left
      rw [shouldKillJobForParallel_congr (hs3.template.trans hs2.template.symm) hps]
      exact h
    · right; rw [hs3.admissionError]; exact h
  obtain ⟨c, hcm, hrest⟩ := (decided_then_kill s3 jo rj3 tasks1 h3).1 t ht hf hd
  rw [hkj] at hcm
  refine ⟨c, ?_, hrest⟩
  rw [hcalls]
  simp only [List.mem_append]
  exact Or.inr (Or.inr (Or.inl hcm))

/-- `decided_then_kill_pass`: index `a` has just succeeded (pod phase Succeeded at 50 s), index `b`
is still running: the refreshed summary is complete/successful under AnySuccessful, and the same
pass deletes the running task of `b` (and only it). -/
example :
    let pa := mkPod "job-a-0" "a" .succeeded (some (sec 50))
    let pb := mkPod "job-b-0" "b" .running none
    let s : Sys := { clock := sec 60, d := { hash := "d" }, pods := [pa, pb], podCache := [pa, pb] }
    (syncJobTasks s ⟨"job", "u", anyJob, true, 1⟩ anyJob).2.isSome = true ∧
    (newCalls s (syncJobTasks s ⟨"job", "u", anyJob, true, 1⟩ anyJob).1).map brief =
      [("delete", "pods", "job-b-0", "ok", false)] ∧
    shouldKillJobForParallel (updateTaskRefStatus s "ns/job" anyJob (tasks0 s ⟨"job", "u", anyJob, true, 1⟩ anyJob)).2 = true := by
  decide

/-- **`decided_then_kill_covers_unrecorded`** (repair of F23).  Pass level, on the cached Job: when
the creation step does not create — the refreshed summary of the recorded tasks is already
complete, or `canCreateTask` is false — the task list the handlers work on is
`adoptUnrecordedTasks` of the found tasks, so it contains every UNRECORDED task of the Job that
the pod cache holds (a pod labelled with and controlled by the Job that the status does not name:
created while the status write that records it failed).  Hence, in a pass that returns without
error and in which the Job refreshed from that list is decided against continuing (or carries the
admission error), every such pod whose task is unfinished and has no deletion timestamp gets a
graceful delete call in that very pass.  Before the repair a complete summary returned the list as
it was: the unrecorded task was never stopped and the Job was reported finished while it ran. -/
theorem decided_then_kill_covers_unrecorded (s : Sys) (jo : JobObj) (rjOut : Job)
    (hok : (syncJobTasks s jo jo.job).2 = some rjOut)
    (hstop : canCreateTask jo.job = false ∨ (refreshedSummary s jo.job (tasks0 s jo jo.job)).complete = true) :
    syncCreateTasks s jo jo.job (tasks0 s jo jo.job) =
      (s, some (jo.job, adoptUnrecordedTasks s jo (tasks0 s jo jo.job))) ∧
    (shouldKillJobForParallel
        (updateTaskRefStatus s (jobKey jo) jo.job (adoptUnrecordedTasks s jo (tasks0 s jo jo.job))).2 = true ∨
      jo.job.admissionError = true →
      ∀ p ∈ s.podCache, p.jobLabel = some jo.uid → p.ownerUid = some jo.uid →
        (∀ r ∈ jo.job.status.tasks, r.name ≠ p.pod.name) →
        ∀ t, podTask s.clock p = some t → isTaskFinished t = false → t.deletionTimestamp = none →
          ∃ c ∈ newCalls s (syncJobTasks s jo jo.job).1,
            c.verb = "delete" ∧ c.res = "pods" ∧ c.force = false ∧ c.name = p.pod.name) := by
  have hcr : syncCreateTasks s jo jo.job (tasks0 s jo jo.job) =
      (s, some (jo.job, adoptUnrecordedTasks s jo (tasks0 s jo jo.job))) := by
    obtain ⟨_, _, hoff, hdone, _⟩ := syncCreateTasks_ext s jo jo.job (tasks0 s jo jo.job)
    by_cases hcan : canCreateTask jo.job = true
    · rcases hstop with h | h
      · rw [hcan] at h; cases h
      · exact hdone hcan h
    · exact hoff (by simpa using hcan)
  refine ⟨hcr, ?_⟩
  intro hdec p hp hl ho hu t hpt hf hd
  obtain ⟨s1, rj1, tasks1, hc, hkill⟩ := decided_then_kill_pass s jo jo.job rjOut hok
  rw [hcr] at hc
  simp only [Prod.mk.injEq, Option.some.injEq] at hc
  obtain ⟨rfl, rfl, rfl⟩ := hc
  have hmem : t ∈ adoptUnrecordedTasks s jo (tasks0 s jo jo.job) := by
    refine (mem_adoptUnrecordedTasks s jo _ t).mpr (Or.inr ⟨p, hp, hpt, hl, ho, ?_, hu⟩)
    intro t0 ht0 hn
    obtain ⟨r, hr, hrn⟩ := tasksForRefs_name ht0
    exact hu r hr (hrn ▸ hn)
  obtain ⟨c, hc, hv, hr, hfo, hn⟩ := hkill hdec t hmem hf hd
  exact ⟨c, hc, hv, hr, hfo, hn.trans (podTask_name hpt)⟩

/-- `decided_then_kill_covers_unrecorded` (the F23 history): AnySuccessful over `a`, `b`; `job-b-0`
is recorded and has SUCCEEDED (the summary of the recorded tasks is complete); the status does not
list `job-a-0` although the pod exists and runs (its recording failed): the pass deletes it. -/
example :
    let pa := mkPod "job-a-0" "a" .running none
    let pb := mkPod "job-b-0" "b" .succeeded (some (sec 50))
    let j : Job := { anyJob with status := { anyJob.status with tasks := anyJob.status.tasks.filter (·.name = "job-b-0") } }
    let jo : JobObj := ⟨"job", "u", j, true, 1⟩
    let s : Sys := { clock := sec 60, d := { hash := "d" }, pods := [pa, pb], podCache := [pa, pb] }
    (refreshedSummary s j (tasks0 s jo j)).complete = true ∧ canCreateTask j = true ∧
    (syncJobTasks s jo j).2.isSome = true ∧
    (newCalls s (syncJobTasks s jo j).1).map brief = [("delete", "pods", "job-a-0", "ok", false)] := by
  decide

/-- for a parallel Job the refreshed Job's parallel status is the one computed from the refreshed
refs -/
theorem refreshed_status (s : Sys) (key : String) (rj : Job) (tasks : List Task) (t : Template) (spec : ParSpec)
    (ht : rj.template = some t) (hp : t.parallelism = some spec) :
    (updateTaskRefStatus s key rj tasks).2.status.parallelStatus =
      some (getParallelStatus s.d (updateJobTaskRefs s.clock rj tasks) (generateTaskRefs s.clock rj.status.tasks tasks)) :=
  refreshed_parallelStatus s key rj tasks t spec ht hp

/-- both tasks of `anyJob` still running: the refreshed parallel status is recorded, not complete -/
example :
    let pa := mkPod "job-a-0" "a" .running none
    let pb := mkPod "job-b-0" "b" .running none
    let s : Sys := { clock := sec 60, d := { hash := "d" }, pods := [pa, pb], podCache := [pa, pb] }
    ((updateTaskRefStatus s "ns/job" anyJob (tasks0 s ⟨"job", "u", anyJob, true, 1⟩ anyJob)).2.status.parallelStatus.map (·.summary.complete)) =
      some false := by
  decide

end Furiko.Props.C10Plan
