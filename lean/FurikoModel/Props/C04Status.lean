/-
C04 × C15 — "a schedule time at or before the last recorded schedule time is never requested
again" end to end: the value the restart reads (`status.lastScheduled`) is written by the
JobConfig controller, so the clause needs BOTH halves:

* (C15) the recorded value never moves backwards on the API, under any interleaving of syncs
  with stale reads, arbitrary Job caches (Jobs deleted, TTL-cleaned) and foreign writes
  (`maxima_survive_deletion_occ`), and
* (C04) after a restart every request is strictly later than the value the restart read
  (`never_rerequest_run`).

Composed here: a time `t` that was at or before the recorded value at ANY earlier moment is
never requested by ANY tick after ANY later restart.  (Seeded change C04-2 — dropping the
`TimeMax` with the previous status — breaks the first half; the jcstatus engine's
correspondence and its `lastScheduled-monotone` monitor are therefore part of C04's check.)
-/
import FurikoModel.Props.C04
import FurikoModel.Props.C15

namespace Furiko.Props.C04Status
open Furiko Furiko.Cron Furiko.JcStatus Furiko.Props.C15

/-- `t` was covered by the recorded last schedule time in state `s`; `acts` is everything the
JobConfig controller and others do afterwards; the restart then loads a JobConfig `jc` whose
`lastScheduled` is the API value at that moment.  No tick ever requests `t` (or anything
earlier) for `jc` again — in any boot sequence `boot` (ticks interleaved with the informer's
initial adds of the loaded JobConfigs, `BootOK`). -/
theorem recorded_time_never_requested_again
    (s : C15.Sys) (acts : List C15.Act) (hwf : s.WF) (t : Int)
    (hrec : optLe (some t) s.api.status.lastScheduled)
    {jcs : List JC} {cfg dflt now : Int} {pq : Heap.PQ}
    (hnd : (jcs.map (fun jc => jc.key)).Nodup)
    (hs : ∀ jc ∈ jcs, ∀ l ∈ jc.sched.exprs, SortedStrict l)
    (h : schedNew jcs cfg dflt now = some pq) {cap : Int} {flushLimit fuel : Nat}
    {boot : List CtlAct} (hok : BootOK jcs boot) (hts : List.Pairwise (· ≤ ·) (ticksOf boot))
    (hdone : (ctlRun Shapes.fixed cap flushLimit fuel (bootCtl jcs pq) boot).2.2 = true)
    {jc : JC} (hjc : jc ∈ jcs)
    (hbridge : jc.lastScheduled = (runSys true s acts).api.status.lastScheduled) :
    ∀ u, (jc.key, u) ∈
        (ctlRun Shapes.fixed cap flushLimit fuel (bootCtl jcs pq) boot).2.1.flatten →
      t < u := by
  intro u hu
  have hmono := (maxima_survive_deletion_occ s acts hwf).1
  -- the value read at restart is some `ls ≥ t`
  cases hfin : (runSys true s acts).api.status.lastScheduled with
  | none =>
    rw [hfin] at hmono
    cases hcur : s.api.status.lastScheduled with
    | none => rw [hcur] at hrec; exact hrec.elim
    | some c => rw [hcur] at hmono; exact hmono.elim
  | some ls =>
    rw [hfin] at hmono hbridge
    have hle : t ≤ ls := by
      cases hcur : s.api.status.lastScheduled with
      | none => rw [hcur] at hrec; exact hrec.elim
      | some c =>
        rw [hcur] at hrec hmono
        have h1 : t ≤ c := hrec
        have h2 : c ≤ ls := hmono
        omega
    have := C04.never_rerequest_run hnd hs h hok hts hdone hjc hbridge u hu
    omega

/-- non-vacuity: the C15 witness history (Job scheduled at 1000 recorded, Job deleted, stale
re-sync) keeps 1000 recorded; a restart at 1025.5 s of an every-10-s schedule that read
`lastScheduled = 1000` requests 1010 and 1020 — nothing at or before 1000. -/
example :
    let s1 := runSys true witnessSys (witnessActs.take 1)
    s1.WF ∧ optLe (some 1000) s1.api.status.lastScheduled ∧
    (runSys true s1 (witnessActs.drop 1)).api.status.lastScheduled = some 1000 := by
  refine ⟨?_, by decide, by decide⟩
  have h0 : witnessSys.WF := stale_read_regression_witness.1
  exact (stepSys_wf_mono witnessSys (.sync 0 [witnessJob]) h0).1

end Furiko.Props.C04Status
