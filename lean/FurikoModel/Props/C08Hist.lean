/-
C08 — "Per parallel index: one live task, ordered bounded retries, then stop": HISTORY-level theorems
over every state reachable in the transition system of `Proofs/JobCtlSys.lean` (conventions as in
`Props/C11Hist.lean`).
-/
import FurikoModel.Proofs.JobCtlInvCreate
import FurikoModel.Proofs.JobCtlInvExamples
import FurikoModel.Proofs.JobCtlInvStabThm
import FurikoModel.Proofs.JobCtlInvOneLive
import FurikoModel.Proofs.JobCtlInvC12Calls
import FurikoModel.Props.C08Plan

namespace Furiko.Props.C08Hist
open Furiko Furiko.JobCtl Furiko.ParallelLemmas

/-- `create_requires_no_live_recorded`: in every reachable state (ALL actions allowed, any fault
pattern), every pod name that a controller pass adds to the server is `taskName job.name idx.hash retry`
for a request computed from the CACHED Job `jo`, and (index hashes pairwise distinct) at that moment
* the cached Job is started, not being deleted, has no kill timestamp and no admission error;
* `idx` is one of the Job's indexes and every ref of that index in the CACHED status is finished and
  not succeeded (no recorded live or successful task of that index);
* `retry` is the next retry number of that index over the cached refs, `0 ≤ retry < maxAttempts`.
(What the cached status does not show — a stale Job cache — is not excluded: see
`C11Hist.stale_job_cache_recreate_witness`.) -/
theorem create_requires_no_live_recorded {ok : Sys → Action → Prop} {j0 : JobObj} {s : Sys} (hr : Reach ok j0 s)
    (hnc : NoCollision (j0.job.indexes s.d)) (n : String) (hn : n ∈ podNames (step s .work).pods)
    (hnew : n ∉ podNames s.pods) :
    ∃ jo idx retry, s.jobCache = some jo ∧ n = taskName j0.name idx.hash retry ∧
      isStarted jo.job = true ∧ isDeleted jo.job = false ∧ canCreateTask jo.job = true ∧
      idx ∈ j0.job.indexes s.d ∧
      (∀ t ∈ jo.job.status.tasks, t.hash s.d = idx.hash →
        t.finishTimestamp.isSome = true ∧ t.status.result ≠ .succeeded) ∧
      retry = nextRetryIndex s.d jo.job.status.tasks idx.hash ∧ 0 ≤ retry ∧ retry < j0.job.maxAttempts := by
  obtain ⟨jo, idx, retry, hc, hreq, he⟩ := work_new_pod_names s n hn hnew
  have hjo := ((base_of_reach hr).seenOK jo (mem_seenVers_cache hc)).1
  have hidx := indexes_of_template hjo.template s.d
  have hs := createReq_sound hreq (by rw [hidx]; exact hnc)
  refine ⟨jo, idx, retry, hc, by rw [he, hjo.name], hs.1, hs.2.1, hs.2.2.1, by rw [← hidx]; exact hs.2.2.2.1,
    hs.2.2.2.2.1, hs.2.2.2.2.2.1, hs.2.2.2.2.2.2.1, ?_⟩
  rw [← maxAttempts_of_template hjo.template]; exact hs.2.2.2.2.2.2.2

/-- … and no other action than a controller pass and `createForeign` adds a pod name to the server. -/
theorem pods_created_only_by_pass_or_foreign (s : Sys) (a : Action) (hw : a ≠ .work)
    (hf : ∀ p, a ≠ .createForeign p) : ∀ n ∈ podNames (step s a).pods, n ∈ podNames s.pods :=
  step_pod_names s a hw hf

/-- `canCreateTask`: … in particular no task is created once a kill timestamp or the admission error
is present. -/
theorem no_create_when_killed_or_refused {ok : Sys → Action → Prop} {j0 : JobObj} {s : Sys} (hr : Reach ok j0 s)
    (jo : JobObj) (hc : s.jobCache = some jo)
    (hstop : jo.job.killTimestamp.isSome = true ∨ jo.job.admissionError = true ∨
      jo.job.deletionTimestamp.isSome = true ∨ jo.job.status.startTime = none) :
    ∀ n ∈ podNames (step s .work).pods, n ∈ podNames s.pods := by
  intro n hn
  by_cases hnew : n ∈ podNames s.pods
  · exact hnew
  · obtain ⟨jo', idx, retry, hc', hreq, _⟩ := work_new_pod_names s n hn hnew
    rw [hc] at hc'; cases hc'
    obtain ⟨h1, h2, h3, _⟩ := hreq
    exfalso
    rcases hstop with h | h | h | h
    · unfold canCreateTask at h3; simp [h] at h3
    · unfold canCreateTask at h3
      cases hk : jo.job.killTimestamp <;> simp [hk, h] at h3
    · unfold isDeleted at h2; rw [h] at h2; cases h2
    · unfold isStarted at h1; rw [h] at h1; cases h1

/-- `one_live_per_index_partial` (histories inside the envelope `stabEnv` of
`C11Hist.finished_stays_finished_partial`: no foreign pods, no user kill / delete,
`E-NoStaleCopyOnCreate`; everything else allowed — faults, informer lag, restart, clock, kubelet,
external pod deletion, TTL; Job `WF3`, index hashes `WF2`): in every reachable state in which the Job
object exists, two pods on the server that carry the same parallel index and are both not finished
(phase neither Succeeded nor Failed) are one and the same pod (same name; names are unique,
`C09Hist.at_most_one_pod_per_name`).  "Not finished" includes pods that are being deleted, so this is
stronger than "neither terminal nor being deleted".
Outside the envelope the statement is false on the model: `C11Hist.stale_job_cache_recreate_witness`
(a second incarnation of `job-h-0` is created while … the first one has vanished; with a lagging pod
cache the Job then reports Finished while that pod is alive). -/
theorem one_live_per_index_partial {ok : Sys → Action → Prop} (hok : ∀ s a, ok s a → stabEnv s a) {j0 : JobObj}
    {s : Sys} (hr : Reach ok j0 s) (hwf : WF2 j0 s.d) (hwf3 : WF3 j0) (hj : s.job.isSome = true)
    (p q : PodObj) (hp : p ∈ s.pods) (hq : q ∈ s.pods) (hpf : p.pod.isFinished = false)
    (hqf : q.pod.isFinished = false) (idx : PIndex) (hpi : p.pod.parallelIndex = some idx)
    (hqi : (q.pod.parallelIndex.map (·.hash)) = some idx.hash) : p.pod.name = q.pod.name := by
  refine oneLive_of_reach hok hr hwf hwf3 hj p hp q hq hpf hqf ?_ ?_
  · unfold podHash; rw [hpi, hqi]; rfl
  · unfold podHash; rw [hpi]; simp

/-- the creation guard behind it: when a controller pass adds a pod for index `idx` (same envelope, Job
object present), EVERY pod of that index on the server is finished at that moment — recorded in the
cached status or not. -/
theorem create_requires_index_idle_partial {ok : Sys → Action → Prop} (hok : ∀ s a, ok s a → stabEnv s a)
    {j0 : JobObj} {s : Sys} (hr : Reach ok j0 s) (hwf : WF2 j0 s.d) (hwf3 : WF3 j0) (hoka : ok s .work)
    (j : JobObj) (hj : s.job = some j) (n : String) (hn : n ∈ podNames (step s .work).pods)
    (hnew : n ∉ podNames s.pods) :
    ∃ idx retry, n = taskName j0.name idx.hash retry ∧ idx ∈ j0.job.indexes s.d ∧
      ∀ q ∈ s.pods, (q.pod.parallelIndex.map (·.hash)) = some idx.hash → q.pod.isFinished = true := by
  obtain ⟨jo, idx, retry, hc, hreq, he⟩ := work_new_pod_names s n hn hnew
  have hb := base_of_reach hr
  have hnf : ∀ s a, ok s a → noForeign s a := fun s a h => (hok s a h).1
  have hjo := (hb.seenOK jo (mem_seenVers_cache hc)).1
  have hidx := (createReq_facts hreq).1
  refine ⟨idx, retry, by rw [he, hjo.name], by rw [← indexes_of_template hjo.template]; exact hidx, ?_⟩
  have hns : NoStale s := by
    refine (hok s .work hoka).2.2 rfl (by rw [hj]; rfl) ?_
    cases hget : (s.q.advance s.clock).get with
    | some _ => rfl
    | none =>
      exfalso
      have : (step s .work).pods = s.pods := (work_idle s hget).pods
      rw [this] at hn; exact hnew hn
  exact create_guard hb (inv2_of_reach hr hwf) (owned_of_reach hnf hr) (inv3_of_reach hok hr hwf hwf3 (by rw [hj]; rfl))
    (inv4_of_reach hr hwf) hwf hc j hj hns idx retry hreq (he ▸ hnew)

/-- `retries_contiguous` (ALL actions allowed — any fault pattern, informer lag, restart, clock,
kubelet, external pod deletion, user kill / delete, and, since the repair of F22, FOREIGN PODS on any
name, recorded ones included; index hashes `WF2`): in every reachable state
* every ref of the authoritative status carries a retry number `0 ≤ r < maxAttempts`, and all lower retry
  numbers of ITS index are recorded too (so the refs of an index carry exactly `0 … k-1`,
  `k ≤ maxAttempts`; with `C09Hist.recorded_refs_wellformed` their names are
  `taskName job.name hash 0 … taskName job.name hash (k-1)`);
* for every pod on the server that is CONTROLLED BY THE JOB, `taskName job.name hash retry`, all lower
  retry numbers of its index are recorded in the authoritative status (a pod for retry `r` only ever
  exists after `0 … r-1` were recorded; pods of lower retry numbers may be gone by then).
(Before the repair this was `retries_contiguous_partial`, proved only for histories without foreign
pods: a foreign pod on a recorded name was read as the task.) -/
theorem retries_contiguous {ok : Sys → Action → Prop} {j0 : JobObj}
    {s : Sys} (hr : Reach ok j0 s) (hwf : WF2 j0 s.d) (j : JobObj) (hj : s.job = some j) :
    (∀ r ∈ j.job.status.tasks, 0 ≤ r.retryIndex ∧ r.retryIndex < j0.job.maxAttempts ∧
      ∀ i, 0 ≤ i → i < r.retryIndex → ∃ r' ∈ j.job.status.tasks, r'.hash s.d = r.hash s.d ∧ r'.retryIndex = i) ∧
    (∀ p ∈ s.pods, p.ownerUid = some j0.uid → ∀ idx retry, p.pod.parallelIndex = some idx →
      p.pod.retryIndex = some retry →
      ∀ i, 0 ≤ i → i < retry → ∃ r' ∈ j.job.status.tasks, r'.hash s.d = idx.hash ∧ r'.retryIndex = i) := by
  have h4 := inv4_of_reach hr hwf
  exact ⟨h4.contig j (Or.inl hj), fun p hp ho => h4.down j hj p (Or.inl hp) ho⟩

example : Reach stabChecked Ex.job Ex.sA ∧ Ex.sA.job.isSome = true ∧ WF2 Ex.job Ex.sA.d ∧ WF3 Ex.job ∧
    Ex.sA.pods.map (fun p => (p.pod.name, p.pod.isFinished)) = [("job-h-0", false)] :=
  ⟨Ex.sA_reach_st, by decide +kernel, ⟨by decide +kernel, by decide +kernel⟩, Ex.wf3_job, by decide +kernel⟩

example : Reach anyAction Ex.job2 Ex.u3 ∧
    Ex.u3.job.map (fun j => j.job.status.tasks.map (fun r => (r.name, r.retryIndex))) =
      some [("job-a-0", 0), ("job-b-0", 0), ("job-a-1", 1)] :=
  ⟨Ex.u3_reach.mono (fun _ _ _ => trivial), by decide +kernel⟩

/-- hypotheses are satisfiable: the first pass of the example history creates `job-h-0` for index
`h`, retry 0 -/
example : "job-h-0" ∈ podNames (step (step Ex.s0 .deliverJob) .work).pods ∧
    "job-h-0" ∉ podNames (step Ex.s0 .deliverJob).pods ∧ NoCollision (Ex.job.job.indexes Ex.s0.d) :=
  ⟨by decide +kernel, by decide +kernel, by decide +kernel⟩

/-! ### the finish time recorded for an attempt whose pod does not tell one (F30 repaired)

The retry delay is counted from the RECORDED finish time (`C08.earliest_respects_delay`,
`C08Plan.create_only_missing`).  For a pod that tells when it finished that is the pod's own time; for
one that does not (evicted, node lost, …) it is, since the repair of F30, the clock of the pass that FIRST
read it finished: `recorded_finish_not_before` — that clock is not before the clock of ANY earlier state
of the history, in particular the state in which the kubelet ended the attempt — and
`recorded_finish_frozen_by_pass` — the passes that read the pod again, at later clocks, keep the value
(together with `C11Hist.timestamps_never_cleared`: it is never cleared either). -/

/-- `recorded_finish_not_before` (ALL actions allowed): whatever earlier state `s0` of the history, the
finish time a pass running in `s` reads for a finished pod that does not tell when it finished is the
clock of `s`, which is not before the clock of `s0`.  With `s0` the state in which the kubelet wrote the
terminal phase: the finish time recorded by the first observing pass is not before the true end of the
attempt, and `retryDelaySeconds` counted from it has really elapsed since that end. -/
theorem recorded_finish_not_before {ok : Sys → Action → Prop} {j0 : JobObj} {s0 s : Sys} (hs : Steps ok j0 s0 s)
    {p : PodObj} {t : Task} (h : podTask s.clock p = some t) (hfin : p.pod.isFinished = true)
    (hnr : p.pod.hasFinishTimestamp = false)
    (hst : p.pod.startTime.isSome = true ∨ p.pod.creationTimestamp.isSome = true) :
    t.ref.finishTimestamp = some s.clock ∧ s0.clock ≤ s.clock :=
  ⟨Furiko.Props.C08Plan.finish_recorded_is_observation h hfin hnr hst, steps_clock_le hs⟩

/-- `recorded_finish_frozen_by_pass`: under the invariants of a pass inside the stability envelope
(`sync_res`: the cached Job carries no kill timestamp and no admission error; `RS` on every recorded ref)
every ref of the cached status that is finished is still recorded by the Job value the pass computes,
under its name and WITH ITS FINISH TIME — whatever the clock of the pass, i.e. whatever finish time a pod
that does not tell one is read with this time. -/
theorem recorded_finish_frozen_by_pass {j0 : JobObj} (sp : Sys) (jo : JobObj) (ctx : PassCtx j0 sp) (hwf : WF2 j0 sp.d)
    (hjo : VerOK j0 jo) (hg : Good j0 sp.d jo.job) (hrs : ∀ r ∈ jo.job.status.tasks, RS r)
    (hfin : ∀ r ∈ jo.job.status.tasks, r.finishTimestamp.isSome = true → PodFinIn sp.pods r.name)
    (hcan : canCreateTask jo.job = true) (hcoh : Coh sp.d jo.job) (hadm : jo.job.admissionError = false)
    (htm : jo.job.template.isSome = true) :
    ∀ ex ∈ jo.job.status.tasks, ex.finishTimestamp.isSome = true →
      ∃ r ∈ (sync sp jo).2.1.status.tasks, r.name = ex.name ∧ r.finishTimestamp = ex.finishTimestamp := by
  intro ex hex hf
  obtain ⟨r, hr, h1, h2, _⟩ := (sync_res sp jo ctx hwf hjo hg hrs hfin hcan hcoh hadm htm).1.froz ex hex hf
  exact ⟨r, hr, h1, h2⟩

/-- the regression history of `C08Side.evicted_retry_respects_delay`, pass level: the evicted pod of the
scenario (phase Failed, start time 5 s, no container status) read at 3605 s and again at 3607 s -/
example :
    let p : PodObj := { pod := { name := "job-h-0", creationTimestamp := some 0, phase := .failed,
                                 startTime := some (secs 5), retryIndex := some 0 } }
    ((podTask (secs 3605) p).map (·.ref.finishTimestamp) = some (some (secs 3605))) ∧
    (((podTask (secs 3605) p).bind (fun t1 => (podTask (secs 3607) p).map (fun t2 =>
        (getTaskRef (some (getTaskRef none t1)) t2).finishTimestamp))) = some (some (secs 3605))) := by
  decide

end Furiko.Props.C08Hist
