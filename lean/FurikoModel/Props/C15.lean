/-
C15 — JobConfig status reports the true queued/active Jobs and last schedule time.

Property theorems over Model/JobConfigStatus.lean (helper lemmas: Proofs/JcStatusLemmas.lean).
`computeStatus jc (listJobs cache jc)` is the status `Reconciler.SyncOne` computes when it reads
the JobConfig `jc` and the Job cache `cache`; `syncCore` adds the equality check and the
`UpdateStatus` call against the authoritative object (optimistic concurrency iff `occ`).
-/
import FurikoModel.Proofs.JcStatusLemmas

namespace Furiko.Props.C15
open Furiko Furiko.JcStatus

/-! ## which Jobs a sync looks at -/

/-- the listing is exactly the cached Jobs in the JobConfig's namespace carrying its uid label -/
theorem listing_exact (jc : JobConfig) (cache : List Job) (j : Job) :
    j ∈ listJobs cache jc ↔ j ∈ cache ∧ j.ns = jc.ns ∧ j.labelUid = some jc.uid := by
  simp [listJobs]

/-- `IsTerminal` (regenerated table) is true exactly for the five finished phases -/
theorem terminal_table (p : String) :
    isTerminal p = true ↔ p ∈ ["Succeeded", "Failed", "Killed", "AdmissionError", "FinishedUnknown"] := by
  simp [isTerminal, Facts.terminalPhases]

/-! ## clause 1: the lists are exact and the counts match -/

/-- `activeJobs` / `queuedJobs` are, up to order, the references of exactly the listed Jobs that
are active / queued, and both are sorted by creation time. -/
theorem status_lists_exact (jc : JobConfig) (cache : List Job) :
    let rjs := listJobs cache jc
    let st := computeStatus jc rjs
    st.activeJobs.Perm ((rjs.filter isActive).map toRef) ∧
    st.queuedJobs.Perm ((rjs.filter isQueued).map toRef) ∧
    st.activeJobs.Pairwise (fun a b => a.created ≤ b.created) ∧
    st.queuedJobs.Pairwise (fun a b => a.created ≤ b.created) :=
  ⟨toJobReferences_perm _, toJobReferences_perm _, sortRefs_sorted _, sortRefs_sorted _⟩

/-- element-wise reading of `status_lists_exact`: a reference is listed as active iff it is the
reference of a cached Job of this JobConfig that is started and not terminal; as queued iff not
started and not terminal. -/
theorem status_lists_exact_mem (jc : JobConfig) (cache : List Job) (r : JobRef) :
    let st := computeStatus jc (listJobs cache jc)
    (r ∈ st.activeJobs ↔ ∃ j ∈ cache, j.ns = jc.ns ∧ j.labelUid = some jc.uid ∧
        isStarted j = true ∧ isTerminal j.phase = false ∧ toRef j = r) ∧
    (r ∈ st.queuedJobs ↔ ∃ j ∈ cache, j.ns = jc.ns ∧ j.labelUid = some jc.uid ∧
        isStarted j = false ∧ isTerminal j.phase = false ∧ toRef j = r) := by
  have h := status_lists_exact jc cache
  simp only at h
  refine ⟨?_, ?_⟩
  · rw [h.1.mem_iff]
    simp only [List.mem_map, List.mem_filter, listing_exact, isActive, Bool.and_eq_true, Bool.not_eq_true']
    constructor
    · rintro ⟨j, ⟨⟨hc, hn, hl⟩, hs, ht⟩, rfl⟩; exact ⟨j, hc, hn, hl, hs, ht, rfl⟩
    · rintro ⟨j, hc, hn, hl, hs, ht, rfl⟩; exact ⟨j, ⟨⟨hc, hn, hl⟩, hs, ht⟩, rfl⟩
  · rw [h.2.1.mem_iff]
    simp only [List.mem_map, List.mem_filter, listing_exact, isQueued, Bool.and_eq_true, Bool.not_eq_true']
    constructor
    · rintro ⟨j, ⟨⟨hc, hn, hl⟩, hs, ht⟩, rfl⟩; exact ⟨j, hc, hn, hl, hs, ht, rfl⟩
    · rintro ⟨j, hc, hn, hl, hs, ht, rfl⟩; exact ⟨j, ⟨⟨hc, hn, hl⟩, hs, ht⟩, rfl⟩

/-- the counts are the lengths of the lists, which are the numbers of active / queued Jobs
listed; no Job is both. -/
theorem counts_match (jc : JobConfig) (rjs : List Job) :
    let st := computeStatus jc rjs
    st.active = st.activeJobs.length ∧ st.queued = st.queuedJobs.length ∧
    st.active = (rjs.filter isActive).length ∧ st.queued = (rjs.filter isQueued).length ∧
    ∀ j : Job, ¬ (isActive j = true ∧ isQueued j = true) := by
  refine ⟨rfl, rfl, ?_, ?_, ?_⟩
  · simp [computeStatus, toJobReferences_length]
  · simp [computeStatus, toJobReferences_length]
  · intro j; simp [isActive, isQueued]; intro h; simp [h]

/-! ## clause 2: the state -/

/-- `GetState` with the case order regenerated from the source: Executing > JobQueued >
ReadyDisabled / ReadyEnabled (cron schedule present) > Ready. -/
theorem state_table (jc : JobConfig) (rjs : List Job) :
    let st := computeStatus jc rjs
    st.state =
      if 0 < st.active then "Executing"
      else if 0 < st.queued then "JobQueued"
      else if jc.sched.hasSchedule && jc.sched.hasCron then
        (if jc.sched.disabled then "ReadyDisabled" else "ReadyEnabled")
      else "Ready" := by
  have table : ∀ (ap qp hs hc d : Bool),
      getStateB ap qp { hasSchedule := hs, hasCron := hc, disabled := d } =
        if ap then "Executing" else if qp then "JobQueued"
        else if hs && hc then (if d then "ReadyDisabled" else "ReadyEnabled") else "Ready" := by decide
  show getState _ _ jc.sched = _
  unfold getState
  have hs : jc.sched = { hasSchedule := jc.sched.hasSchedule, hasCron := jc.sched.hasCron, disabled := jc.sched.disabled } := rfl
  rw [hs, table]
  simp only [gt_iff_lt, decide_eq_true_eq]
  rfl

/-- the counts that drive the state are positive iff such a Job is listed -/
theorem state_reflects_jobs (jc : JobConfig) (rjs : List Job) :
    let st := computeStatus jc rjs
    (0 < st.active ↔ ∃ j ∈ rjs, isActive j = true) ∧ (0 < st.queued ↔ ∃ j ∈ rjs, isQueued j = true) := by
  have h := counts_match jc rjs
  simp only at h
  refine ⟨?_, ?_⟩
  · rw [h.2.2.1]
    simp [List.length_pos_iff_exists_mem]
  · rw [h.2.2.2.1]
    simp [List.length_pos_iff_exists_mem]

/-! ## clause 3: the maxima, one sync -/

/-- after a sync, `lastScheduled` is at least the schedule time of every LISTED Job, i.e. of every
Job that is in the Job cache when the sync runs (annotation parsed by `Atoi`; instants at or before
Go's zero time are ignored by the code).  Nothing is said about Jobs that are not in `rjs`: the
property's "any of its Jobs" is covered only as far as `maxima_cover_observed_partial` goes. -/
theorem lastScheduled_ge_listed (jc : JobConfig) (rjs : List Job) (j : Job) (t : Int)
    (hj : j ∈ rjs) (ht : labelScheduleTime j = some t) (hz : zeroUnix < t) :
    optLe (some t) (computeStatus jc rjs).lastScheduled := by
  rw [computeStatus_lastScheduled, getLastScheduleTime_eq]
  refine optLe_trans (lastOf_ge _ t ?_ hz) (bump_ge_jobs _ _)
  exact List.mem_filterMap.mpr ⟨j, hj, ht⟩

/-- … and at least the value on the object the sync read -/
theorem lastScheduled_monotone (jc : JobConfig) (rjs : List Job) :
    optLe jc.status.lastScheduled (computeStatus jc rjs).lastScheduled := by
  rw [computeStatus_lastScheduled]; exact bump_ge_old _ _

/-- after a sync, `lastExecuted` is at least the start time of every LISTED started Job (same
restriction as `lastScheduled_ge_listed`) -/
theorem lastExecuted_ge_listed (jc : JobConfig) (rjs : List Job) (j : Job) (t : Int)
    (hj : j ∈ rjs) (ht : j.startTime = some t) (hz : zeroUnix < t) :
    optLe (some t) (computeStatus jc rjs).lastExecuted := by
  rw [computeStatus_lastExecuted, getLastStartTime_eq]
  refine optLe_trans (lastOf_ge _ t ?_ hz) (bump_ge_jobs _ _)
  refine List.mem_filterMap.mpr ⟨j, hj, ?_⟩
  have hne : t ≠ zeroUnix := by omega
  simp [countedStartTime, isStarted, tIsZero, ht, hne]

theorem lastExecuted_monotone (jc : JobConfig) (rjs : List Job) :
    optLe jc.status.lastExecuted (computeStatus jc rjs).lastExecuted := by
  rw [computeStatus_lastExecuted]; exact bump_ge_old _ _

/-- the maxima never come from nowhere: a value that was not on the object read is the
schedule time of a listed Job -/
theorem lastScheduled_sound (jc : JobConfig) (rjs : List Job) (v : Int)
    (h : (computeStatus jc rjs).lastScheduled = some v) :
    jc.status.lastScheduled = some v ∨ ∃ j ∈ rjs, labelScheduleTime j = some v := by
  rw [computeStatus_lastScheduled, getLastScheduleTime_eq] at h
  cases hl : lastOf (rjs.filterMap labelScheduleTime) with
  | none => rw [hl] at h; exact Or.inl h
  | some m =>
    rw [hl] at h
    have hm := (lastOf_some_mem _ _ hl).1
    cases ho : jc.status.lastScheduled with
    | none =>
      rw [ho] at h
      simp [bump, timeMax] at h
      subst h
      obtain ⟨j, hj, hjt⟩ := List.mem_filterMap.mp hm
      exact Or.inr ⟨j, hj, hjt⟩
    | some o =>
      rw [ho] at h
      simp only [bump, timeMax_some_some] at h
      split at h
      · left; exact h
      · injection h with h
        subst h
        obtain ⟨j, hj, hjt⟩ := List.mem_filterMap.mp hm
        exact Or.inr ⟨j, hj, hjt⟩

/-! ## quiescence is a fixpoint -/

/-- a sync that reads what the previous sync wrote (same Jobs) computes the same status again,
i.e. issues no `UpdateStatus` -/
theorem sync_fixpoint (jc : JobConfig) (rjs : List Job) :
    computeStatus { jc with status := computeStatus jc rjs } rjs = computeStatus jc rjs := by
  have h1 := computeStatus_lastScheduled { jc with status := computeStatus jc rjs } rjs
  have h2 := computeStatus_lastExecuted { jc with status := computeStatus jc rjs } rjs
  simp only [computeStatus_lastScheduled jc, computeStatus_lastExecuted jc, bump_idem] at h1 h2
  have e1 : (computeStatus { jc with status := computeStatus jc rjs } rjs).lastScheduled =
      (computeStatus jc rjs).lastScheduled := by rw [h1, computeStatus_lastScheduled]
  have e2 : (computeStatus { jc with status := computeStatus jc rjs } rjs).lastExecuted =
      (computeStatus jc rjs).lastExecuted := by rw [h2, computeStatus_lastExecuted]
  calc computeStatus { jc with status := computeStatus jc rjs } rjs
      = { computeStatus { jc with status := computeStatus jc rjs } rjs with
            lastScheduled := (computeStatus jc rjs).lastScheduled,
            lastExecuted := (computeStatus jc rjs).lastExecuted } := by rw [← e1, ← e2]
    _ = computeStatus jc rjs := rfl

theorem sync_fixpoint_noop (occ : Bool) (api : Option JobConfig) (jc : JobConfig) (cache : List Job) (n : Nat) :
    (syncCore occ api { jc with status := computeStatus jc (listJobs cache jc) } cache n).2.1 = Outcome.noop := by
  have hl : listJobs cache { jc with status := computeStatus jc (listJobs cache jc) } = listJobs cache jc := rfl
  unfold syncCore
  simp only [hl, sync_fixpoint, ↓reduceIte]

/-- E-OwnerLabel for one Job w.r.t. one JobConfig: it carries the uid label (in the namespace)
iff its controller owner reference names this JobConfig -/
def OwnerLabel (jc : JobConfig) (j : Job) : Prop :=
  (j.ns = jc.ns ∧ j.labelUid = some jc.uid) ↔
  (j.ns = jc.ns ∧ j.owner = some { kind := "JobConfig", name := jc.name, uid := jc.uid })

/-- cache = server and every Job inside E-OwnerLabel ⇒ the lists are the authoritative sets of
owned active / owned queued Jobs -/
theorem quiescent_status_true (jc : JobConfig) (jobs : List Job) (r : JobRef)
    (henv : ∀ j ∈ jobs, OwnerLabel jc j) :
    let st := computeStatus jc (listJobs jobs jc)
    let owned := fun (j : Job) => j.ns = jc.ns ∧ j.owner = some { kind := "JobConfig", name := jc.name, uid := jc.uid }
    (r ∈ st.activeJobs ↔ ∃ j ∈ jobs, owned j ∧ isActive j = true ∧ toRef j = r) ∧
    (r ∈ st.queuedJobs ↔ ∃ j ∈ jobs, owned j ∧ isQueued j = true ∧ toRef j = r) := by
  have h := status_lists_exact_mem jc jobs r
  simp only at h
  refine ⟨?_, ?_⟩
  · rw [h.1]
    constructor
    · rintro ⟨j, hj, hn, hl, hs, ht, hr⟩
      exact ⟨j, hj, (henv j hj).mp ⟨hn, hl⟩, by simp [isActive, hs, ht], hr⟩
    · rintro ⟨j, hj, ho, ha, hr⟩
      obtain ⟨hn, hl⟩ := (henv j hj).mpr ho
      simp [isActive] at ha
      exact ⟨j, hj, hn, hl, ha.1, ha.2, hr⟩
  · rw [h.2]
    constructor
    · rintro ⟨j, hj, hn, hl, hs, ht, hr⟩
      exact ⟨j, hj, (henv j hj).mp ⟨hn, hl⟩, by simp [isQueued, hs, ht], hr⟩
    · rintro ⟨j, hj, ho, ha, hr⟩
      obtain ⟨hn, hl⟩ := (henv j hj).mpr ho
      simp [isQueued] at ha
      exact ⟨j, hj, hn, hl, ha.1, ha.2, hr⟩

/-! ## clause 3 over histories -/

/-- one sync whose JobConfig cache is up to date: it reads the authoritative object itself -/
def freshSync (jc : JobConfig) (cache : List Job) : JobConfig :=
  ((syncCore true (some jc) jc cache (jc.rv + 1)).1).getD jc

/-- a history of syncs with arbitrary Job caches (Jobs appear, change and disappear freely
between syncs), each reading what the previous one left on the API -/
def runFresh (jc : JobConfig) : List (List Job) → JobConfig
  | [] => jc
  | cache :: rest => runFresh (freshSync jc cache) rest

theorem freshSync_cases (jc : JobConfig) (cache : List Job) :
    freshSync jc cache = jc ∨
    freshSync jc cache = { jc with status := computeStatus jc (listJobs cache jc), rv := jc.rv + 1 } := by
  unfold freshSync
  rcases syncCore_api true jc jc cache (jc.rv + 1) with h | ⟨h, _⟩
  · left; rw [h]; rfl
  · right; rw [h]; rfl

theorem freshSync_ident (jc : JobConfig) (cache : List Job) :
    (freshSync jc cache).ns = jc.ns ∧ (freshSync jc cache).uid = jc.uid := by
  rcases freshSync_cases jc cache with h | h <;> rw [h] <;> exact ⟨rfl, rfl⟩

theorem freshSync_mono (jc : JobConfig) (cache : List Job) :
    optLe jc.status.lastScheduled (freshSync jc cache).status.lastScheduled ∧
    optLe jc.status.lastExecuted (freshSync jc cache).status.lastExecuted := by
  rcases freshSync_cases jc cache with h | h <;> rw [h]
  · exact ⟨optLe_refl _, optLe_refl _⟩
  · exact ⟨lastScheduled_monotone _ _, lastExecuted_monotone _ _⟩

/-- the maxima never move backwards over any history of syncs, whatever happens to the Jobs
(in particular after the Job that carried the maximum is deleted) -/
theorem maxima_survive_deletion (jc : JobConfig) (caches : List (List Job)) :
    optLe jc.status.lastScheduled (runFresh jc caches).status.lastScheduled ∧
    optLe jc.status.lastExecuted (runFresh jc caches).status.lastExecuted := by
  induction caches generalizing jc with
  | nil => exact ⟨optLe_refl _, optLe_refl _⟩
  | cons c rest ih =>
    have h1 := freshSync_mono jc c
    have h2 := ih (freshSync jc c)
    exact ⟨optLe_trans h1.1 h2.1, optLe_trans h1.2 h2.2⟩

/-- prefix form: every intermediate value is below every later value -/
theorem maxima_survive_deletion_prefix (jc : JobConfig) (pre post : List (List Job)) :
    optLe (runFresh jc pre).status.lastScheduled (runFresh jc (pre ++ post)).status.lastScheduled ∧
    optLe (runFresh jc pre).status.lastExecuted (runFresh jc (pre ++ post)).status.lastExecuted := by
  have happ : ∀ (jc : JobConfig) (pre post : List (List Job)),
      runFresh jc (pre ++ post) = runFresh (runFresh jc pre) post := by
    intro jc pre post
    induction pre generalizing jc with
    | nil => rfl
    | cons c rest ih => exact ih (freshSync jc c)
  rw [happ]
  exact maxima_survive_deletion _ _

/-- a sync that completes covers what it LISTED: right after it the API value is at least the
schedule time of every Job in its listing (and of no Job outside it) -/
theorem freshSync_covers_listed (jc : JobConfig) (cache : List Job) (j : Job) (t : Int)
    (hj : j ∈ listJobs cache jc) (ht : labelScheduleTime j = some t) (hz : zeroUnix < t) :
    optLe (some t) (freshSync jc cache).status.lastScheduled := by
  unfold freshSync syncCore
  simp only
  split
  · rename_i heq
    simp only [Option.getD_some]
    rw [← heq]
    exact lastScheduled_ge_listed jc _ j t hj ht hz
  · simp only [writeStatus, bne_self_eq_false, Bool.and_false, Bool.false_eq_true, ↓reduceIte, Option.getD_some]
    exact lastScheduled_ge_listed jc _ j t hj ht hz

/-- … and keeps covering it for ever, also after the Job has been deleted: any Job LISTED BY SOME
SYNC of the history is covered by the final value.

PARTIAL with respect to the property's clause "at least the latest schedule time of ANY of its
Jobs, even after those Jobs are deleted": the hypothesis `hj` (the Job was in the Job cache at a
completed sync — envelope `E-JobObservedBeforeGone`) cannot be dropped.  A Job that is created and
deleted between two syncs of its JobConfig (both events reach the cache while the key waits in
the work queue, or the controller restarts in between) is never in any listing, and the status
stays below its schedule time for ever: `job_never_observed_witness` (known finding F33;
`Compose.unobserved_job_rerequested_witness` shows the schedule time being requested again after a
restart). -/
theorem maxima_cover_observed_partial (jc : JobConfig) (pre post : List (List Job)) (cache : List Job)
    (j : Job) (t : Int) (hj : j ∈ listJobs cache (runFresh jc pre))
    (ht : labelScheduleTime j = some t) (hz : zeroUnix < t) :
    optLe (some t) (runFresh jc (pre ++ cache :: post)).status.lastScheduled := by
  have happ : ∀ (jc : JobConfig) (pre post : List (List Job)),
      runFresh jc (pre ++ post) = runFresh (runFresh jc pre) post := by
    intro jc pre post
    induction pre generalizing jc with
    | nil => rfl
    | cons c rest ih => exact ih (freshSync jc c)
  rw [happ]
  show optLe (some t) (runFresh (freshSync (runFresh jc pre) cache) post).status.lastScheduled
  exact optLe_trans (freshSync_covers_listed _ cache j t hj ht hz) (maxima_survive_deletion _ post).1

/-! ### stale reads: the JobConfig cache may lag behind the controller's own writes -/

/-- the API object together with every version a lagging cache may still hold -/
structure Sys where
  api : JobConfig
  versions : List JobConfig

inductive Act where
  /-- a sync that reads version number `idx` (any older version: stale cache) with an arbitrary Job cache -/
  | sync (idx : Nat) (cache : List Job)
  /-- another writer (a user editing the spec) bumps the resourceVersion -/
  | edit (s : Sched)

def stepSys (occ : Bool) (s : Sys) : Act → Sys
  | .sync idx cache =>
    match s.versions[idx]? with
    | none => s
    | some read =>
      let api' := ((syncCore occ (some s.api) read cache (s.api.rv + 1)).1).getD s.api
      { api := api', versions := api' :: s.versions }
  | .edit sc =>
    let api' := { s.api with sched := sc, rv := s.api.rv + 1 }
    { api := api', versions := api' :: s.versions }

def runSys (occ : Bool) (s : Sys) : List Act → Sys
  | [] => s
  | a :: rest => runSys occ (stepSys occ s a) rest

/-- resourceVersions identify versions: no retained version is newer than the API object, and
one with the current resourceVersion has the current status -/
def Sys.WF (s : Sys) : Prop :=
  ∀ v ∈ s.versions, v.rv ≤ s.api.rv ∧ (v.rv = s.api.rv → v.status = s.api.status)

theorem stepSys_wf_mono (s : Sys) (a : Act) (h : s.WF) :
    (stepSys true s a).WF ∧
    optLe s.api.status.lastScheduled (stepSys true s a).api.status.lastScheduled ∧
    optLe s.api.status.lastExecuted (stepSys true s a).api.status.lastExecuted := by
  cases a with
  | edit sc =>
    refine ⟨?_, optLe_refl _, optLe_refl _⟩
    intro v hv
    simp only [stepSys] at hv ⊢
    rcases List.mem_cons.mp hv with rfl | hv'
    · exact ⟨Nat.le_refl _, fun _ => rfl⟩
    · have := (h v hv').1
      exact ⟨by show v.rv ≤ s.api.rv + 1; omega,
        fun he => by have he' : v.rv = s.api.rv + 1 := he; omega⟩
  | sync idx cache =>
    simp only [stepSys]
    cases hr : s.versions[idx]? with
    | none => exact ⟨h, optLe_refl _, optLe_refl _⟩
    | some read =>
      simp only
      have hmem : read ∈ s.versions := List.mem_of_getElem? hr
      rcases syncCore_api true s.api read cache (s.api.rv + 1) with he | ⟨he, hrv⟩
      · rw [he]
        simp only [Option.getD_some]
        refine ⟨?_, optLe_refl _, optLe_refl _⟩
        intro v hv
        rcases List.mem_cons.mp hv with rfl | hv'
        · exact ⟨Nat.le_refl _, fun _ => rfl⟩
        · exact h v hv'
      · rw [he]
        simp only [Option.getD_some]
        have hst : read.status = s.api.status := (h read hmem).2 (hrv rfl)
        refine ⟨?_, ?_, ?_⟩
        · intro v hv
          rcases List.mem_cons.mp hv with rfl | hv'
          · exact ⟨Nat.le_refl _, fun _ => rfl⟩
          · have := (h v hv').1
            exact ⟨by show v.rv ≤ s.api.rv + 1; omega,
              fun he => by have he' : v.rv = s.api.rv + 1 := he; omega⟩
        · rw [← hst]; exact lastScheduled_monotone read _
        · rw [← hst]; exact lastExecuted_monotone read _

/-- with the API server's optimistic concurrency, the maxima on the API never move backwards
under ANY interleaving of syncs reading arbitrarily stale JobConfig versions, arbitrary Job
caches, and foreign writes -/
theorem maxima_survive_deletion_occ (s : Sys) (acts : List Act) (h : s.WF) :
    optLe s.api.status.lastScheduled (runSys true s acts).api.status.lastScheduled ∧
    optLe s.api.status.lastExecuted (runSys true s acts).api.status.lastExecuted := by
  induction acts generalizing s with
  | nil => exact ⟨optLe_refl _, optLe_refl _⟩
  | cons a rest ih =>
    obtain ⟨hwf, h1, h2⟩ := stepSys_wf_mono s a h
    have := ih (stepSys true s a) hwf
    exact ⟨optLe_trans h1 this.1, optLe_trans h2 this.2⟩

/-- refutation of the regression under E-API: a sync that read a version with another
resourceVersion than the current one changes nothing on the API (its write conflicts) -/
theorem stale_write_conflicts (cur read : JobConfig) (cache : List Job) (n : Nat)
    (hstale : read.rv ≠ cur.rv) :
    (syncCore true (some cur) read cache n).1 = some cur := by
  rcases syncCore_api true cur read cache n with h | ⟨_, hrv⟩
  · exact h
  · exact absurd (hrv rfl) hstale

/-- the concrete history of the witness below -/
def witnessJC : JobConfig :=
  { ns := "nsa", name := "jc0", uid := "jc-1", sched := { hasSchedule := true, hasCron := true }, rv := 1 }
def witnessJob : Job :=
  { ns := "nsa", name := "j1", uid := "job-2", created := 1000, labelUid := some "jc-1",
    owner := some { kind := "JobConfig", name := "jc0", uid := "jc-1" }, startTime := none,
    phase := "Queued", deletion := none, schedAnn := some "1000" }
def witnessSys : Sys := { api := witnessJC, versions := [witnessJC] }
/-- sync with the Job cached (reads the only version); the Job is deleted; sync again while the
JobConfig cache still holds the first version (now at the end of `versions`) -/
def witnessActs : List Act := [.sync 0 [witnessJob], .sync 1 []]

/-- WITHOUT resourceVersion checking (what the default fake clientset does) a stale read after
the deletion of the Job that carried the maximum moves `lastScheduled` backwards on the API:
1000 → never.  With the check the same history keeps 1000.  The property therefore rests on the
API server's optimistic concurrency (assumption E-API); scenarios `stale-read-no-occ` /
`stale-read-occ` replay both on the real reconciler. -/
theorem stale_read_regression_witness :
    witnessSys.WF ∧
    (runSys false witnessSys (witnessActs.take 1)).api.status.lastScheduled = some 1000 ∧
    (runSys false witnessSys witnessActs).api.status.lastScheduled = none ∧
    (runSys true witnessSys witnessActs).api.status.lastScheduled = some 1000 := by
  refine ⟨?_, by decide, by decide, by decide⟩
  intro v hv
  simp only [witnessSys, List.mem_singleton] at hv
  subst hv
  exact ⟨Nat.le_refl _, fun _ => rfl⟩

/-! ## F33: the clause "… of ANY of its Jobs, even after those Jobs are deleted", with ground truth

A history model that — unlike `runFresh` / `runSys`, whose Job caches are arbitrary — knows which
Jobs exist: the server's Jobs, the Job informer (undelivered events, then the cache, then the
handler that enqueues the JobConfig's key), the work queue (one key) and every Job that ever
existed.  The JobConfig cache is taken to be fresh (`freshSync`); a sync that writes the status
triggers its own JobConfig update event, which enqueues the key once more. -/

structure World where
  /-- the JobConfig on the server -/
  api : JobConfig
  /-- the Jobs on the server -/
  jobs : List Job := []
  /-- undelivered Job watch events, oldest first -/
  pending : List (EvKind × Job) := []
  /-- the controller's Job cache -/
  cache : List Job := []
  /-- the JobConfig's key is in the work queue -/
  queued : Bool := false
  /-- ground truth: every Job that ever existed on the server -/
  ever : List Job := []
deriving DecidableEq

inductive WAct where
  /-- a Job appears on the server (cron controller, user) -/
  | create (j : Job)
  /-- a Job disappears from the server (user, TTL after finishing) -/
  | delete (name : String)
  /-- the informer applies the oldest event to the cache and runs the handler -/
  | deliver
  /-- a worker takes the key (if queued) and runs `SyncOne` -/
  | sync
  /-- the controller process restarts: undelivered notifications are lost, the new process lists
  the server's Jobs and enqueues every JobConfig -/
  | restart

def wStep (w : World) : WAct → World
  | .create j =>
    { w with jobs := j :: w.jobs, pending := w.pending ++ [(.add, j)], ever := j :: w.ever }
  | .delete n =>
    match w.jobs.find? (fun j => j.name == n) with
    | none => w
    | some j => { w with jobs := w.jobs.filter (fun x => x.name != n), pending := w.pending ++ [(.delete, j)] }
  | .deliver =>
    match w.pending with
    | [] => w
    | (k, j) :: rest =>
      let others := w.cache.filter (fun x => x.name != j.name)
      { w with pending := rest,
               cache := if k == .delete then others else j :: others,
               queued := w.queued || (onJobEvent k [w.api] j).isSome }
  | .sync =>
    if w.queued then
      let api' := freshSync w.api w.cache
      { w with api := api', queued := decide (api' ≠ w.api) }
    else w
  | .restart => { w with pending := [], cache := w.jobs, queued := true }

def wRun (w : World) : List WAct → World
  | [] => w
  | a :: rest => wRun (wStep w a) rest

/-- everything delivered, nothing queued -/
def World.quiet (w : World) : Bool := w.pending.isEmpty && !w.queued

def f33JC : JobConfig := witnessJC
/-- scheduled at 1000, observed -/
def f33J1 : Job := witnessJob
/-- scheduled at 1010, created and deleted between two syncs -/
def f33J2 : Job := { witnessJob with name := "j2", uid := "job-3", created := 1010, schedAnn := some "1010" }

/-- `j1` is created, delivered and counted (the second sync is the no-op that follows the
controller's own status write); `j2` is created and deleted, both events are delivered while the
key waits for a worker; the sync lists `j1` only -/
def f33Hist : List WAct :=
  [.create f33J1, .deliver, .sync, .sync, .create f33J2, .delete "j2", .deliver, .deliver, .sync, .sync]

/-- the same with one sync between the two deliveries: `j2` is observed before it is gone -/
def f33HistObserved : List WAct :=
  [.create f33J1, .deliver, .sync, .sync, .create f33J2, .deliver, .sync, .sync, .delete "j2", .deliver, .sync, .sync]

/-- the state `f33Hist` ends in -/
def f33W : World := wRun { api := f33JC } f33Hist

/-- KNOWN FINDING F33 (replayed on the real reconciler by the jcstatus scenario
`f33-job-never-observed-misses-lastScheduled`, monitor `lastScheduled-ge-any-job`): the unrestricted
clause "lastScheduled is at least the schedule time of ANY of the JobConfig's Jobs, even after those
Jobs are deleted" is FALSE for the controller as it is.  In `f33Hist` the Job `j2` (inside
E-OwnerLabel, schedule time 1010) existed on the server and was deleted; at quiescence — every
event delivered, the work queue empty, one more sync a no-op — `status.lastScheduled` is 1000;
with no earlier Job it stays unset; the same after a controller restart (the deleted Job gets no
notification in the new process).  Had a sync run while `j2` was cached (`f33HistObserved`), 1010
would be recorded for ever (`maxima_cover_observed_partial`). -/
theorem job_never_observed_witness :
    f33W.quiet = true ∧ f33W.jobs = [f33J1] ∧ f33J2 ∈ f33W.ever ∧ wStep (wStep f33W .sync) .sync = f33W ∧
    labelScheduleTime f33J2 = some 1010 ∧ onJobEvent .add [f33JC] f33J2 = some "nsa/jc0" ∧
    f33W.api.status.lastScheduled = some 1000 ∧
    (wRun { api := f33JC } [.create f33J2, .delete "j2", .deliver, .deliver, .sync, .sync]).api.status.lastScheduled = none ∧
    (wRun { api := f33JC } [.create f33J2, .delete "j2", .restart, .sync, .sync]).api.status.lastScheduled = none ∧
    (wRun { api := f33JC } [.create f33J2, .delete "j2", .restart, .sync, .sync]).quiet = true ∧
    (wRun { api := f33JC } f33HistObserved).quiet = true ∧
    (wRun { api := f33JC } f33HistObserved).api.status.lastScheduled = some 1010 := by
  decide +kernel

/-- `j2` is inside E-OwnerLabel: the finding does not lean on the label-without-owner corner -/
example : OwnerLabel f33JC f33J2 := by
  simp [OwnerLabel, f33JC, f33J2, witnessJC, witnessJob]

/-! ## informer side: which key an event enqueues -/

/-- inside E-OwnerLabel, every Job event (add, update, delete) enqueues the key of the owning
JobConfig, provided that JobConfig (same uid) is in the JobConfig cache -/
theorem job_event_enqueues_owner (k : EvKind) (jcCache : List JobConfig) (jc : JobConfig) (j : Job)
    (hfind : jcCache.find? (fun c => c.ns == j.ns && c.name == jc.name) = some jc)
    (hown : j.owner = some { kind := "JobConfig", name := jc.name, uid := jc.uid })
    (hlab : j.labelUid = some jc.uid) :
    onJobEvent k jcCache j = some (keyOf jc.ns jc.name) := by
  have hreg : handlerRegistered Facts.jcInformerJobHandlers k = true := by cases k <;> rfl
  simp [onJobEvent, hreg, handleJob, hown, hfind, hlab]

/-- every JobConfig event enqueues its own key -/
theorem jobconfig_event_enqueues_self (k : EvKind) (jc : JobConfig) :
    onJobConfigEvent k jc = some (keyOf jc.ns jc.name) := by
  have hreg : handlerRegistered Facts.jcInformerJobConfigHandlers k = true := by cases k <;> rfl
  simp [onJobConfigEvent, hreg]

/-- outside E-OwnerLabel (recorded, not claimed): a Job that carries the label but no controller
owner reference is listed by `SyncOne` yet its own events enqueue nothing; only another event
or the informer resync brings the status up to date. -/
theorem label_without_owner_listed_not_enqueued (k : EvKind) (jcCache : List JobConfig) (jc : JobConfig)
    (cache : List Job) (j : Job) (hj : j ∈ cache) (hn : j.ns = jc.ns) (hlab : j.labelUid = some jc.uid)
    (hown : j.owner = none) :
    j ∈ listJobs cache jc ∧ onJobEvent k jcCache j = none := by
  refine ⟨(listing_exact jc cache j).mpr ⟨hj, hn, hlab⟩, ?_⟩
  simp [onJobEvent, handleJob, hown]

def loJC : JobConfig := { ns := "nsa", name := "jc0", uid := "jc-1", rv := 1 }
def loJob : Job :=
  { ns := "nsa", name := "j1", uid := "job-2", created := 1000, labelUid := some "jc-1", owner := none,
    startTime := none, phase := "Queued", deletion := none, schedAnn := none }

/-- KNOWN FINDING C15-label-only-job-not-routed, concrete history (replayed on the real code by
scenario `label-without-owner`): the creation of a label-only Job enqueues nothing; an
unrelated sync lists it as queued; its deletion enqueues nothing either, so with every event
delivered and the queue empty the status still names the deleted Job, although a sync — had
one been triggered — would clear it. -/
theorem label_only_stale_witness :
    onJobEvent .add [loJC] loJob = none ∧
    (freshSync loJC [loJob]).status.queuedJobs.map (·.name) = ["j1"] ∧
    (freshSync loJC [loJob]).status.state = "JobQueued" ∧
    onJobEvent .delete [freshSync loJC [loJob]] loJob = none ∧
    (freshSync (freshSync loJC [loJob]) []).status.queuedJobs = [] := by decide

/-- the deletion timestamp of a Job plays no role: a Job being deleted is reported by its phase
and start time until the object is gone -/
theorem deletion_ignored (jc : JobConfig) (rjs : List Job) (d : Job → Option Int) :
    computeStatus jc (rjs.map fun j => { j with deletion := d j }) = computeStatus jc rjs := by
  have hA : ∀ p : Job → Bool, (∀ j, p { j with deletion := d j } = p j) →
      ((rjs.map fun j => { j with deletion := d j }).filter p).map toRef = (rjs.filter p).map toRef := by
    intro p hp
    rw [List.filter_map, List.map_map]
    have h1 : (p ∘ fun j => { j with deletion := d j }) = p := funext hp
    have h2 : (toRef ∘ fun j => { j with deletion := d j }) = toRef := funext fun _ => rfl
    rw [h1, h2]
  have hS : (rjs.map fun j => { j with deletion := d j }).filterMap labelScheduleTime
      = rjs.filterMap labelScheduleTime := by
    rw [List.filterMap_map]
    have h : (labelScheduleTime ∘ fun j => { j with deletion := d j }) = labelScheduleTime := funext fun _ => rfl
    rw [h]
  have hE : (rjs.map fun j => { j with deletion := d j }).filterMap countedStartTime
      = rjs.filterMap countedStartTime := by
    rw [List.filterMap_map]
    have h : (countedStartTime ∘ fun j => { j with deletion := d j }) = countedStartTime := funext fun _ => rfl
    rw [h]
  simp only [computeStatus, toJobReferences, getLastScheduleTime, getLastStartTime, hS, hE,
    hA isActive (fun _ => rfl), hA isQueued (fun _ => rfl)]

/-! ## non-vacuity: the hypotheses above are met by concrete, non-trivial instances -/

section Examples

def exJC : JobConfig :=
  { ns := "nsa", name := "jc0", uid := "U", sched := { hasSchedule := true, hasCron := true, disabled := true },
    rv := 7, status := { lastScheduled := some 500, lastExecuted := some 90 } }
def exJob (name : String) (created : Int) (start : Option Int) (phase : String) (ann : Option String) : Job :=
  { ns := "nsa", name := name, uid := "u-" ++ name, created := created, labelUid := some "U",
    owner := some { kind := "JobConfig", name := "jc0", uid := "U" }, startTime := start, phase := phase,
    deletion := none, schedAnn := ann }
/-- unsorted cache: an active Job, a queued one, a finished one, a Job of another JobConfig, and
a malformed annotation -/
def exCache : List Job :=
  [ exJob "c" 30 (some 100) "Running" (some "700"),
    exJob "a" 10 none "Queued" (some "x12"),
    exJob "b" 20 (some 95) "Succeeded" (some "+650"),
    { exJob "z" 5 (some 999) "Running" (some "9999") with
        labelUid := some "OTHER", owner := some { kind := "JobConfig", name := "other", uid := "OTHER" } },
    exJob "d" 15 (some 80) "Pending" none ]

example : (computeStatus exJC (listJobs exCache exJC)) =
    { state := "Executing", queued := 1, active := 2,
      queuedJobs := [{ uid := "u-a", name := "a", created := 10, phase := "Queued", startTime := none }],
      activeJobs := [{ uid := "u-d", name := "d", created := 15, phase := "Pending", startTime := some 80 },
                     { uid := "u-c", name := "c", created := 30, phase := "Running", startTime := some 100 }],
      lastScheduled := some 700, lastExecuted := some 100 } := by decide

-- lastScheduled_ge_listed / lastExecuted_ge_listed: hypotheses satisfiable
example : exJob "c" 30 (some 100) "Running" (some "700") ∈ listJobs exCache exJC ∧
    labelScheduleTime (exJob "c" 30 (some 100) "Running" (some "700")) = some 700 ∧ zeroUnix < 700 := by decide
-- monotone with an old value above every Job: old value kept
example : (computeStatus { exJC with status := { lastScheduled := some 5000 } } (listJobs exCache exJC)).lastScheduled
    = some 5000 := by decide
-- Atoi model on odd spellings
example : [atoi "12", atoi "+12", atoi "-0", atoi "007", atoi "", atoi "+", atoi "1_0", atoi " 1", atoi "1e3",
    atoi "9223372036854775807", atoi "9223372036854775808", atoi "-9223372036854775808", atoi "-9223372036854775809"]
    = [some 12, some 12, some 0, some 7, none, none, none, none, none,
       some 9223372036854775807, none, some (-9223372036854775808), none] := by decide
-- state table rows
example : [getState 1 1 {}, getState 0 1 {}, getState 0 0 { hasSchedule := true, hasCron := true, disabled := true },
    getState 0 0 { hasSchedule := true, hasCron := true }, getState 0 0 { hasSchedule := true, disabled := true },
    getState 0 0 {}] = ["Executing", "JobQueued", "ReadyDisabled", "ReadyEnabled", "Ready", "Ready"] := by decide
-- maxima_survive_deletion on a history where the carrier of both maxima disappears
example : ((runFresh exJC [exCache, [], [exJob "q" 40 none "Queued" (some "600")]]).status.lastScheduled,
    (runFresh exJC [exCache, [], []]).status.lastExecuted, (runFresh exJC [exCache, []]).status.state,
    (runFresh exJC [exCache, []]).rv) = (some 700, some 100, "ReadyDisabled", 9) := by decide
-- maxima_survive_deletion_occ: WF holds for the witness system and is not vacuous
example : witnessSys.WF ∧ (runSys true witnessSys witnessActs).versions.length = 3 := by
  refine ⟨stale_read_regression_witness.1, by decide⟩
-- stale_write_conflicts: a stale version exists in the witness history
example : (syncCore true (some { witnessJC with rv := 2 }) witnessJC [] 3).2.1 = Outcome.conflict := by decide
-- job_event_enqueues_owner: hypotheses satisfiable
example : onJobEvent .delete [exJC] (exJob "c" 30 none "Queued" none) = some "nsa/jc0" := by decide
-- quiescent_status_true: E-OwnerLabel holds for every Job of exCache except none (z belongs to another JobConfig)
example : ∀ j ∈ exCache, OwnerLabel exJC j := by
  intro j hj
  simp only [exCache, List.mem_cons, List.not_mem_nil, or_false] at hj
  rcases hj with rfl | rfl | rfl | rfl | rfl <;> simp [OwnerLabel, exJob, exJC]
-- events of the differ
example : diffEvents [exJob "b" 20 (some 95) "Succeeded" none]
    [{ uid := "u-b", name := "b", created := 20, phase := "Running", startTime := some 95 },
     { uid := "u-g", name := "gone", created := 21, phase := "Running", startTime := some 96 }] = ["F:b", "D:gone"] := by decide

end Examples

end Furiko.Props.C15
