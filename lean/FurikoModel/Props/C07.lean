/-
C07 property theorems: `startAfter` is honoured (no start before it, a timer is armed for it),
independent Jobs are enqueued on creation and started by the independent worker.
All statements are about the functions of `Model/Queue.lean` for every input.
-/
import FurikoModel.Proofs.QueueCor
import FurikoModel.Proofs.QueueSys

set_option linter.unusedSimpArgs false
set_option linter.unusedVariables false

namespace Furiko.Props.C07
open Furiko Furiko.Queue Furiko.WQ Furiko.Queue.Scen

/-! ### 1. never started before `startAfter` -/

/-- per-config worker: every `start` call is for a cached queued Job that is due; for a
well-formed Job (`startAfter` only with a start policy) the clock has reached `startAfter`; an
applied start writes `startTime = now` to the authoritative Job. -/
theorem never_before_startAfter (s : Sys) (c : Call) (hc : c ∈ (workConfig s).1.calls)
    (hv : c.verb = "start") :
    ∃ j ∈ s.jobCache, j.name = c.job ∧ j.isQueued = true ∧ due j s.clock ∧
      ((j.hasPolicy = false → j.startAfter = none) →
        ∀ t, j.startAfter = some t → t * 1000000000 ≤ s.clock) ∧
      (c.res = "ok" → ∃ a, findJob (workConfig s).1.jobs c.job = some a ∧
        a.startTime = some (s.clock / 1000000000)) := by
  rcases workConfig_Run s with ⟨h, _⟩ | ⟨jc, ok, acf, hr, _, _, hw, hclk⟩
  · rw [h] at hc; simp at hc
  · obtain ⟨j, hj, hn, ac', _, ⟨hrej, _⟩ | ⟨_, hsv⟩⟩ := hr.call_spec c hc
    · rw [hv] at hrej; exact absurd hrej (by decide)
    · have hm := mem_listQueued.mp hj
      refine ⟨j, hm.1, hn.symm, hm.2.2, hsv.1, due_startAfter hsv.1, fun hok => ?_⟩
      obtain ⟨a, ha, h1, _⟩ := hw c hc hok
      exact ⟨a, ha, by rw [← hclk]; exact h1 hv⟩

/-- non-vacuous: `a` and `d` are started at clock 0 with `startTime = 0` -/
example : (⟨"start", "a", "ok"⟩ : Call) ∈ (workConfig s4).1.calls ∧
    (findJob (workConfig s4).1.jobs "a").map (·.startTime) = some (some 0) := by decide

/-- the well-formedness hypothesis is needed: the model reads `startAfter` only under a start
policy, so a (malformed) Job with `startAfter` but `hasPolicy = false` starts at once -/
example : (canStartJob {} (jcN 1) (mk "x" false 0 (some 5)) 0).2 = .start := by decide

/-- non-vacuous the other way: a Job with `startAfter = 5 s` is not started at clock 1 s -/
example : (workConfig sLater).2 = "ok" ∧ (workConfig sLater).1.calls = [] := by decide

/-- independent worker: every call is a `start` of a cached queued due Job, with the same
consequences -/
theorem never_before_startAfter_independent (s : Sys) (c : Call)
    (hc : c ∈ (workIndependent s).1.calls) :
    c.verb = "start" ∧
    ∃ j ∈ s.jobCache, j.name = c.job ∧ j.isQueued = true ∧ due j s.clock ∧
      ((j.hasPolicy = false → j.startAfter = none) →
        ∀ t, j.startAfter = some t → t * 1000000000 ≤ s.clock) ∧
      (c.res = "ok" → ∃ a, findJob (workIndependent s).1.jobs c.job = some a ∧
        a.startTime = some (s.clock / 1000000000)) := by
  rcases workIndependent_cases s with ⟨_, hw⟩ | ⟨k, q1, _, ⟨_, hw⟩ | ⟨j, _, _, _, _, hw⟩ |
      ⟨j, hj, hq, hd, ⟨res, hres, _, hw⟩ | ⟨cur, hcur, _, _, hw⟩⟩⟩
  · rw [hw] at hc; simp at hc
  · rw [hw] at hc; simp [indPost, indPre] at hc
  · rw [hw] at hc; simp [indPost, indLater, indPre] at hc
  · rw [hw] at hc ⊢
    simp only [indPost, failWrite, indPre, List.nil_append, List.mem_singleton] at hc
    subst hc
    exact ⟨rfl, j, findJob_some_mem hj, rfl, hq, hd, due_startAfter hd, fun h => absurd h hres⟩
  · rw [hw] at hc ⊢
    simp only [indPost, applyWrite, indPre, List.nil_append, List.mem_singleton] at hc
    subst hc
    refine ⟨rfl, j, findJob_some_mem hj, rfl, hq, hd, due_startAfter hd, fun _ => ?_⟩
    have hn : (startedJob s j cur).name = j.name := (findJob_some_name hcur : cur.name = j.name)
    exact ⟨startedJob s j cur, by simp [indPost, applyWrite, indPre, findJob_setJob, hn], rfl⟩

example : (workIndependent sInd).1.calls = [⟨"start", "i", "ok"⟩] ∧
    (findJob (workIndependent sInd).1.jobs "i").map (·.startTime) = some (some 0) := by decide

/-! ### 2. a timer is armed for a deferred Job -/

/-- per-config worker returned "ok": the JobConfig's key is scheduled no later than the
`startAfter` of every deferred Job (and not earlier than 1 s from now) -/
theorem timer_armed (s : Sys) (k : String) (q1 : WQ) (jc : JCV) (j : JobV) (t : Int)
    (hg : (s.cfgQ.advance s.clock).get = some (k, q1))
    (hjc : findJC s.jcCache (keyName k) = some jc)
    (hj : j ∈ listQueued s.jobCache jc) (hp : j.hasPolicy = true)
    (hl : startAfterLater j s.clock = true) (ht : j.startAfter = some t)
    (hok : (workConfig s).2 = "ok") :
    HasDeadline (workConfig s).1.cfgQ.delayed ("ns/" ++ jc.name)
      (max (s.clock + 1000000000) (t * 1000000000)) := by
  obtain ⟨s1, ok, hpass, hw⟩ := workConfig_Pass hg hjc
  rw [hw] at hok ⊢
  cases ok with
  | false => simp at hok
  | true =>
    rw [cfgPost_delayed_ok]
    have := hpass.deferred_deadline rfl j hj hp hl
    rw [ht] at this
    exact this

/-- per-config worker returned "err": the key itself is re-queued with the rate limiter, at most
320 ms ahead (whatever the pass did) -/
theorem err_requeued (s : Sys) (k : String) (q1 : WQ)
    (hg : (s.cfgQ.advance s.clock).get = some (k, q1)) (herr : (workConfig s).2 = "err") :
    HasDeadline (workConfig s).1.cfgQ.delayed k (s.clock + 320000000) := by
  cases hjc : findJC s.jcCache (keyName k) with
  | none => rw [workConfig_noJC hg hjc] at herr; simp at herr
  | some jc =>
    obtain ⟨s1, ok, hpass, hw⟩ := workConfig_Pass hg hjc
    rw [hw] at herr ⊢
    cases ok with
    | true => simp at herr
    | false =>
      have := cfgPost_delayed_err s1 k
      rw [hpass.frame.clock] at this
      exact this

/-- non-vacuous: `a` must wait until 5 s; at clock 1 s the pass arms `ns/c` for 5 s -/
example :
    let j : JobV := { mk "a" true 0 (some 5) with rv := 2 }
    (sLater.cfgQ.advance sLater.clock).get.map (·.1) = some "ns/c" ∧
    j ∈ listQueued sLater.jobCache (jcN 1) ∧ startAfterLater j sLater.clock = true ∧
    (workConfig sLater).2 = "ok" ∧
    (workConfig sLater).1.cfgQ.delayed = [("ns/c", 5000000000)] := by decide

example : (workConfig s4err).2 = "err" ∧
    (workConfig s4err).1.cfgQ.delayed = [("ns/c", 5000000)] := by decide

/-- independent worker: a queued Job whose `startAfter` is in the future is not written; its
key is scheduled no later than `startAfter` -/
theorem timer_armed_independent (s : Sys) (k : String) (q1 : WQ) (j : JobV) (t : Int)
    (hg : (s.indQ.advance s.clock).get = some (k, q1))
    (hj : findJob s.jobCache (keyName k) = some j) (hq : j.isQueued = true)
    (hp : j.hasPolicy = true) (hl : startAfterLater j s.clock = true)
    (ht : j.startAfter = some t) :
    (workIndependent s).2 = "ok" ∧ (workIndependent s).1.calls = [] ∧
    (workIndependent s).1.jobs = s.jobs ∧
    HasDeadline (workIndependent s).1.indQ.delayed ("ns/" ++ keyName k)
      (max (s.clock + 1000000000) (t * 1000000000)) := by
  rcases workIndependent_cases_of_get hg with ⟨h, _⟩ | ⟨j', hj', _, _, _, hw⟩ |
      ⟨j', hj', _, hd, _⟩
  · rcases h with h | ⟨j', hj', hq'⟩
    · rw [hj] at h; cases h
    · rw [hj] at hj'; cases hj'; rw [hq] at hq'; cases hq'
  · rw [hj] at hj'; cases hj'
    rw [hw]
    refine ⟨rfl, rfl, rfl, ?_⟩
    rw [indPost_delayed_ok]
    simp only [indLater, ht, Option.getD_some]
    exact HasDeadline.weaken (hasDeadline_addAfter_self q1 _ _ _) (by split <;> omega)
  · rw [hj] at hj'; cases hj'
    exact absurd ⟨hp, hl⟩ hd

theorem err_requeued_independent (s : Sys) (k : String) (q1 : WQ)
    (hg : (s.indQ.advance s.clock).get = some (k, q1))
    (herr : (workIndependent s).2 = "err") :
    HasDeadline (workIndependent s).1.indQ.delayed k (s.clock + 320000000) := by
  rcases workIndependent_cases_of_get hg with ⟨_, hw⟩ | ⟨_, _, _, _, _, hw⟩ |
      ⟨j, _, _, _, ⟨res, _, _, hw⟩ | ⟨cur, _, _, _, hw⟩⟩
  · rw [hw] at herr; simp at herr
  · rw [hw] at herr; simp at herr
  · rw [hw]; exact indPost_delayed_err _ k
  · rw [hw] at herr ⊢
    by_cases ha : nextFault s = "applied-err"
    · simp only [ha, ne_eq, not_true_eq_false, decide_false]
      exact indPost_delayed_err _ k
    · simp [ha] at herr

example :
    let s := { sInd with faults := ["err"] }
    (workIndependent s).2 = "err" ∧ (workIndependent s).1.calls = [⟨"start", "i", "err"⟩] ∧
    (workIndependent s).1.indQ.delayed = [("ns/i", 5000000)] := by decide

example : (workIndependent sIndLater).2 = "ok" ∧ (workIndependent sIndLater).1.calls = [] ∧
    (workIndependent sIndLater).1.indQ.delayed = [("ns/i", 5000000000)] := by decide

/-! ### 3. an independent Job is enqueued when its create event is delivered -/

theorem independent_starts_on_create (s : Sys) (j : JobV) (rest : List Ev)
    (hev : s.jobEvs = .add j :: rest) (ho : j.ownerName = none) :
    ("ns/" ++ j.name) ∈ (drainCtrl (deliverJob s)).indQ.dirty := by
  obtain ⟨note, hn, hq, hc⟩ := deliverJob_add hev
  have := (drainCtrl_wakes (deliverJob s) note (by rw [hq]; simp)).2
  rw [hn] at this
  exact this (lookupOwner_independent _ ho)

/-- with no older notification pending, one handler run suffices -/
theorem independent_starts_on_create_now (s : Sys) (j : JobV) (rest : List Ev)
    (hev : s.jobEvs = .add j :: rest) (ho : j.ownerName = none) (hq : s.ctrlQ = []) :
    ("ns/" ++ j.name) ∈ (notifyCtrl (deliverJob s)).indQ.dirty := by
  obtain ⟨note, hn, hq', hc⟩ := deliverJob_add hev
  rw [hq, List.nil_append] at hq'
  rw [notifyCtrl_cons hq', hn]
  exact (ctrlNotify_wakes _ j).2 (lookupOwner_independent _ ho)

example :
    let s := userAddJob {} (mkInd "i" false none)
    s.jobEvs.length = 1 ∧ s.ctrlQ = [] ∧
    (notifyCtrl (deliverJob s)).indQ.dirty = ["ns/i"] ∧
    (notifyCtrl (deliverJob s)).indQ.queue = ["ns/i"] := by decide

/-- the independent worker, no faults, cached version current: it starts the Job exactly when the
Job is queued and due -/
theorem independent_starts_iff (s : Sys) (k : String) (q1 : WQ) (j cur : JobV)
    (hf : s.faults = []) (hg : (s.indQ.advance s.clock).get = some (k, q1))
    (hj : findJob s.jobCache (keyName k) = some j)
    (hcur : findJob s.jobs j.name = some cur) (hrv : cur.rv = j.rv) :
    ⟨"start", j.name, "ok"⟩ ∈ (workIndependent s).1.calls ↔
      (j.isQueued = true ∧ due j s.clock) := by
  rcases workIndependent_cases_of_get hg with ⟨h, hw⟩ | ⟨j', hj', _, hp, hl, hw⟩ |
      ⟨j', hj', hq, hd, ⟨res, _, hwhy, _⟩ | ⟨cur', _, _, _, hw⟩⟩
  · rw [hw]
    rcases h with h | ⟨j', hj', hq'⟩
    · rw [hj] at h; cases h
    · rw [hj] at hj'; cases hj'
      simp [indPost, indPre, hq']
  · rw [hj] at hj'; cases hj'
    rw [hw]
    simp only [indPost, indLater, indPre, List.not_mem_nil, false_iff, not_and]
    exact fun _ hd => hd ⟨hp, hl⟩
  · rw [hj] at hj'; cases hj'
    exact absurd hwhy (not_writeRefused hf hcur hrv)
  · rw [hj] at hj'; cases hj'
    rw [hw]
    simp [indPost, applyWrite, indPre, hq, hd]

/-! ### 4. a queued due independent Job is started by its worker step -/

theorem eventually_starts (s : Sys) (k : String) (q1 : WQ) (j cur : JobV)
    (hf : s.faults = []) (hg : (s.indQ.advance s.clock).get = some (k, q1))
    (hj : findJob s.jobCache (keyName k) = some j)
    (hcur : findJob s.jobs j.name = some cur) (hrv : cur.rv = j.rv)
    (hq : j.isQueued = true) (hd : due j s.clock) :
    (workIndependent s).2 = "ok" ∧
    (∃ a, findJob (workIndependent s).1.jobs j.name = some a ∧
      a.startTime = some (s.clock / 1000000000)) ∧
    (workIndependent s).1.indQ.delayed = (s.indQ.advance s.clock).delayed := by
  rcases workIndependent_cases_of_get hg with ⟨h, hw⟩ | ⟨j', hj', _, hp, hl, hw⟩ |
      ⟨j', hj', _, _, ⟨res, _, hwhy, _⟩ | ⟨cur', hcur', _, _, hw⟩⟩
  · rcases h with h | ⟨j', hj', hq'⟩
    · rw [hj] at h; cases h
    · rw [hj] at hj'; cases hj'; rw [hq] at hq'; cases hq'
  · rw [hj] at hj'; cases hj'
    exact absurd ⟨hp, hl⟩ hd
  · rw [hj] at hj'; cases hj'
    exact absurd hwhy (not_writeRefused hf hcur hrv)
  · rw [hj] at hj'; cases hj'
    rw [hw]
    have hnf : nextFault s ≠ "applied-err" := by rw [nextFault_of_nil hf]; decide
    have hn : (startedJob s j cur').name = j.name := (findJob_some_name hcur' : cur'.name = j.name)
    refine ⟨by simp [hnf], ⟨startedJob s j cur', ?_, rfl⟩, ?_⟩
    · simp [indPost, applyWrite, indPre, findJob_setJob, hn]
    · simp only [hnf, ne_eq, not_false_eq_true, decide_true, indPost_delayed_ok]
      exact get_delayed hg

/-- non-vacuous: the independent Job `i` is started by one worker step -/
example :
    let j : JobV := { mkInd "i" false none with rv := 1 }
    sInd.faults = [] ∧ (sInd.indQ.advance sInd.clock).get.map (·.1) = some "ns/i" ∧
    findJob sInd.jobCache (keyName "ns/i") = some j ∧ findJob sInd.jobs "i" = some j ∧
    j.isQueued = true ∧ due j sInd.clock ∧
    (workIndependent sInd).2 = "ok" ∧
    ⟨"start", "i", "ok"⟩ ∈ (workIndependent sInd).1.calls ∧
    (findJob (workIndependent sInd).1.jobs "i").map (·.startTime) = some (some 0) := by decide


/-! ### 5. reachable-state corollaries (envelope and `Reachable`: `Proofs/QueueEnv.lean`) -/

/-- an independent Job `i` with `startAfter = 5 s` and a JobConfig Job `a` with `startAfter = 5 s`,
both delivered; `sDue` is the same history with the clock advanced to 5 s and the timers'
keys re-delivered by a resync -/
def jcC : JCV := { name := "c", uid := "u", maxConc := 1, rv := 0 }
def flush : List Act := [.deliverJob, .notifyStore, .notifyCtrl]
def histWait : List Act :=
  [.addJC jcC, .deliverJC, .addJob (mk "a" true 1 (some 5))] ++ flush ++
  [.addJob (mkInd "i" true (some 5))] ++ flush
def sWait : Sys := runActs {} histWait
def sDue : Sys := runActs {} (histWait ++ [.workConfig, .workIndependent, .tick 5000000000])
theorem sWait_reachable : Reachable sWait := reachable_runB _ (by decide)
theorem sDue_reachable : Reachable sDue := reachable_runB _ (by decide)

/-- `never_before_startAfter` on reachable states, against the AUTHORITATIVE Job (no
well-formedness hypothesis: it is an invariant): every start logged "ok" by the per-config worker
is of a Job that is authoritatively unstarted and not terminal and whose `startAfter`, if any, has
been reached; the write sets `startTime` to the clock and leaves the spec unchanged -/
theorem never_before_startAfter_reachable {s : Sys} (h : Reachable s) (n : String)
    (hc : ⟨"start", n, "ok"⟩ ∈ (workConfig s).1.calls) :
    ∃ j, findJob s.jobs n = some j ∧ j.isQueued = true ∧ due j s.clock ∧
      (∀ t, j.startAfter = some t → t * 1000000000 ≤ s.clock) ∧
      ∃ a, findJob (workConfig s).1.jobs n = some a ∧ sameSpec j a ∧
        a.startTime = some (s.clock / 1000000000) ∧ a.terminal = false := h.start_ok_sound n hc

/-- the same for the independent worker; moreover the Job carries no JobConfig label -/
theorem never_before_startAfter_independent_reachable {s : Sys} (h : Reachable s) (n r : String)
    (hc : ⟨r, n, "ok"⟩ ∈ (workIndependent s).1.calls) :
    r = "start" ∧
    ∃ j, findJob s.jobs n = some j ∧ j.isQueued = true ∧ j.label = none ∧ due j s.clock ∧
      (∀ t, j.startAfter = some t → t * 1000000000 ≤ s.clock) ∧
      ∃ a, findJob (workIndependent s).1.jobs n = some a ∧ sameSpec j a ∧
        a.startTime = some (s.clock / 1000000000) ∧ a.terminal = false :=
  h.start_ok_sound_independent n r hc

/-- before 5 s nothing is started and both timers are armed for 5 s; at 5 s the timers fire and
both Jobs are started, without any user action in between -/
example : Reachable sWait ∧ (workConfig sWait).1.calls = [] ∧ (workIndependent sWait).1.calls = [] ∧
    (workConfig sWait).1.cfgQ.delayed = [("ns/c", 5000000000)] ∧
    (workIndependent sWait).1.indQ.delayed = [("ns/i", 5000000000)] :=
  ⟨sWait_reachable, by decide, by decide, by decide, by decide⟩

example : Reachable sDue ∧ (workConfig sDue).1.calls = [⟨"start", "a", "ok"⟩] ∧
    (workIndependent sDue).1.calls = [⟨"start", "i", "ok"⟩] ∧
    (findJob (workConfig sDue).1.jobs "a").map (·.startTime) = some (some 5) :=
  ⟨sDue_reachable, by decide, by decide, by decide⟩

/-- `eventually_starts` on reachable states: when all events are delivered and no fault is
injected, a worker step on the key of an authoritatively queued, due independent Job starts it -/
theorem eventually_starts_reachable {s : Sys} (h : Reachable s) (hev : s.jobEvs = [])
    (hf : s.faults = []) {k : String} {q1 : WQ} {j : JobV}
    (hg : (s.indQ.advance s.clock).get = some (k, q1))
    (hj : findJob s.jobs (keyName k) = some j) (hq : j.isQueued = true) (hd : due j s.clock) :
    (workIndependent s).2 = "ok" ∧
    ∃ a, findJob (workIndependent s).1.jobs j.name = some a ∧
      a.startTime = some (s.clock / 1000000000) := by
  have hcache := h.inv.cache_eq_jobs hev
  have hjn : j.name = keyName k := findJob_some_name hj
  obtain ⟨h1, h2, _⟩ := eventually_starts s k q1 j j hf hg (by rw [hcache]; exact hj)
    (by rw [hjn]; exact hj) rfl hq hd
  exact ⟨h1, h2⟩

example : Reachable sDue ∧ sDue.jobEvs = [] ∧ sDue.faults = [] ∧
    (sDue.indQ.advance sDue.clock).get.map (·.1) = some "ns/i" ∧
    (findJob sDue.jobs (keyName "ns/i")).map (fun j => (j.isQueued, decide (due j sDue.clock)))
      = some (true, true) := ⟨sDue_reachable, by decide, by decide, by decide, by decide⟩

/-! ### 6. `startAfter` postponed by the user while the controller's cache is stale

`Act.editStartAfter` (Proofs/QueueEnv.lean): the user may set, clear, postpone or advance
`spec.startPolicy.startAfter` of a Job as long as it is not started.  The reconcilers decide on the
CACHED copy; what keeps a start write from landing before the NEW `startAfter` is the
resourceVersion the write carries (`apiWriteJob`: `cur.rv ≠ cached.rv` ⇒ conflict).  Gap exposed by
seeded change C07w2-2 (a `StartJob` that re-reads the Job from the server and writes on that copy):
before, no action of the envelope changed `startAfter`, so the theorems above could not tell the
cached from the authoritative value. -/

/-- whatever the cache holds: a Job whose AUTHORITATIVE `startAfter` is still in the future is not
started by either worker in a reachable state (no start call for it is logged "ok") -/
theorem postponed_never_started_reachable {s : Sys} (h : Reachable s) {n : String} {cur : JobV}
    {t : Int} (hcur : findJob s.jobs n = some cur) (ht : cur.startAfter = some t)
    (hl : s.clock < t * 1000000000) :
    ⟨"start", n, "ok"⟩ ∉ (workConfig s).1.calls ∧
    ⟨"start", n, "ok"⟩ ∉ (workIndependent s).1.calls := by
  constructor
  · intro hc
    obtain ⟨j, hf, _, _, hsa, _⟩ := never_before_startAfter_reachable h n hc
    rw [hcur] at hf; cases hf
    have := hsa t ht; omega
  · intro hc
    obtain ⟨_, j, hf, _, _, _, hsa, _⟩ := never_before_startAfter_independent_reachable h n "start" hc
    rw [hcur] at hf; cases hf
    have := hsa t ht; omega

/-- in a reachable state a cached version whose `startAfter` differs from the authoritative one
carries a stale resourceVersion ((name, rv) identifies the version) -/
theorem stale_startAfter_stale_rv {s : Sys} (h : Reachable s) {j cur : JobV} (hj : j ∈ s.jobCache)
    (hcur : findJob s.jobs j.name = some cur) (hne : cur.startAfter ≠ j.startAfter) :
    cur.rv ≠ j.rv :=
  fun hrv => hne (by rw [h.inv.cached_eq_cur hj hcur hrv])

/-- a start write computed from a cached copy with a stale resourceVersion is refused with a
conflict (no fault injected): nothing is written -/
theorem stale_start_conflict (s : Sys) (hf : s.faults = []) {j cur : JobV}
    (hcur : findJob s.jobs j.name = some cur) (hrv : cur.rv ≠ j.rv) :
    startJobWrite s j = (failWrite s "start" j.name "conflict", false) := by
  unfold startJobWrite apiWriteJob popFault
  simp [hf, hcur, hrv, failWrite]

/-- independent worker, reachable state, no fault injected: the cached copy of the Job is queued
and DUE, but the user has moved `startAfter` on the server and the update has not reached the
cache.  The step logs exactly one start call, refused with a conflict, returns an error (so the key
is re-queued: `err_requeued_independent`) and leaves every authoritative Job as it is. -/
theorem postponed_stale_cache_conflict_independent {s : Sys} (h : Reachable s) (hf : s.faults = [])
    {k : String} {q1 : WQ} {j cur : JobV}
    (hg : (s.indQ.advance s.clock).get = some (k, q1))
    (hj : findJob s.jobCache (keyName k) = some j) (hq : j.isQueued = true) (hd : due j s.clock)
    (hcur : findJob s.jobs j.name = some cur) (hne : cur.startAfter ≠ j.startAfter) :
    (workIndependent s).2 = "err" ∧
    (workIndependent s).1.calls = [⟨"start", j.name, "conflict"⟩] ∧
    (workIndependent s).1.jobs = s.jobs := by
  have hrv := stale_startAfter_stale_rv h (findJob_some_mem hj) hcur hne
  have hsync : syncIndependent (indPre s q1) (keyName k) =
      (failWrite (indPre s q1) "start" j.name "conflict", false) := by
    rw [syncIndependent_due (s := indPre s q1) hj hq hd]
    exact stale_start_conflict (indPre s q1) hf hcur hrv
  rw [workIndependent_get hg, hsync]
  exact ⟨rfl, rfl, rfl⟩

/-- the postponed history: `histWait` (owned Job `a` and independent Job `i`, both with
`startAfter = 5 s`, delivered), both workers run and arm their timers for 5 s, then the user
postpones both Jobs to 3600 s; the two update events are NOT delivered; the clock reaches 5 s -/
def histPostponed : List Act :=
  histWait ++ [.workConfig, .workIndependent, .editStartAfter "a" (some 3600),
    .editStartAfter "i" (some 3600), .tick 5000000000]
def sPostponed : Sys := runActs {} histPostponed
theorem sPostponed_reachable : Reachable sPostponed := reachable_runB _ (by decide)

/-- non-vacuous: in the reachable state `sPostponed` the cache holds the old `startAfter = 5 s`
(due at clock 5 s) and the server the later one; both timers fire; each worker logs a refused
start (conflict), returns an error, and no Job is started -/
example : Reachable sPostponed ∧ sPostponed.clock = 5000000000 ∧ sPostponed.faults = [] ∧
    (findJob sPostponed.jobCache "a").map (·.startAfter) = some (some 5) ∧
    (findJob sPostponed.jobs "a").map (·.startAfter) = some (some 3600) ∧
    (findJob sPostponed.jobCache "i").map (·.startAfter) = some (some 5) ∧
    (findJob sPostponed.jobs "i").map (·.startAfter) = some (some 3600) ∧
    (workConfig sPostponed).2 = "err" ∧
    (workConfig sPostponed).1.calls = [⟨"start", "a", "conflict"⟩] ∧
    (workIndependent sPostponed).2 = "err" ∧
    (workIndependent sPostponed).1.calls = [⟨"start", "i", "conflict"⟩] ∧
    (findJob (workConfig sPostponed).1.jobs "a").map (·.startTime) = some none ∧
    (findJob (workIndependent sPostponed).1.jobs "i").map (·.startTime) = some none :=
  ⟨sPostponed_reachable, by decide, by decide, by decide, by decide, by decide, by decide,
    by decide, by decide, by decide, by decide, by decide, by decide⟩

/-- … and the hypotheses of `postponed_stale_cache_conflict_independent` are met there -/
example : (sPostponed.indQ.advance sPostponed.clock).get.map (·.1) = some "ns/i" ∧
    (findJob sPostponed.jobCache (keyName "ns/i")).map
      (fun j => (j.isQueued, decide (due j sPostponed.clock))) = some (true, true) := by decide

/-- the updates delivered and both keys worked once more (the event's pass and, one second later,
the rate-limited retry) -/
def sPostponedSeen : Sys :=
  runActs sPostponed ([.workConfig, .workIndependent] ++ flush ++ flush ++
    [.workConfig, .workIndependent, .tick 1000000000])

/-- once the updates are delivered the Jobs wait for the new time: nothing is started and the
timers are armed for 3600 s -/
example : (workConfig sPostponedSeen).1.calls = [] ∧ (workIndependent sPostponedSeen).1.calls = [] ∧
    (workConfig sPostponedSeen).1.cfgQ.delayed = [("ns/c", 3600000000000)] ∧
    (workIndependent sPostponedSeen).1.indQ.delayed = [("ns/i", 3600000000000)] :=
  ⟨by decide +kernel, by decide +kernel, by decide +kernel, by decide +kernel⟩

end Furiko.Props.C07
