/-
C08 — pure clauses (every input): which (index, retry) `ComputeMissingIndexesForCreation`
hands out, and when an index counts as failed.  System-level theorems (one live task per index
over histories, …) are added by the job-controller slice in a separate module.

`NoCollision` = the hashes of the index list are pairwise distinct (DESIGN §6/C08, cf. C14/F3).
-/
import FurikoModel.Model.ParallelStatus
import FurikoModel.Proofs.ParallelLemmas

namespace Furiko.Props.C08
open Furiko Furiko.ParallelLemmas

/-- a ref that blocks creation for its index: unfinished, or succeeded -/
def Blocking (t : TaskRef) : Prop := t.finishTimestamp = none ∨ t.status.result = .succeeded

theorem refActiveOrSuccessful_iff (t : TaskRef) : refActiveOrSuccessful t = true ↔ Blocking t := by
  unfold refActiveOrSuccessful Blocking
  cases t.finishTimestamp <;> simp

/-- Soundness: under `NoCollision`, every request is for an index of the list that has no
unfinished and no succeeded ref; its retry index is the next one of that index and stays below
`maxAttempts`; its earliest time is the latest finish of that index plus the retry delay. -/
theorem computeMissing_sound (d : PIndex) (job : Job) (indexes : List PIndex) (reqs : List CreationRequest)
    (hnc : NoCollision indexes)
    (h : computeMissingIndexesForCreation d job indexes = some reqs) :
    ∀ r ∈ reqs,
      r.index ∈ indexes ∧
      (∀ t ∈ job.status.tasks, t.hash d = r.index.hash → ¬ Blocking t) ∧
      r.retryIndex = nextRetryIndex d job.status.tasks r.index.hash ∧
      r.retryIndex < job.maxAttempts ∧
      r.earliest = latestFinishTime d job.status.tasks r.index.hash + job.retryDelay := by
  intro r hr
  unfold computeMissingIndexesForCreation at h
  split at h
  · cases h
  · cases h
    obtain ⟨k, hk, hf, hm, rfl⟩ := (mem_missingFrom d job indexes indexes 0 r).mp hr
    refine ⟨List.getElem_mem hk, ?_, rfl, hm, rfl⟩
    intro t ht hh hb
    simp only [Nat.zero_add] at hf
    have : foundAt d indexes job.status.tasks k = true := by
      unfold foundAt
      rw [List.any_eq_true]
      refine ⟨t, ht, ?_⟩
      simp only [Bool.and_eq_true, beq_iff_eq]
      refine ⟨(refActiveOrSuccessful_iff t).mpr hb, ?_⟩
      simp only [mkReq] at hh
      rw [hh]
      exact hashesIdx_getElem indexes hnc k hk
    rw [this] at hf
    cases hf

/-- Completeness: under `NoCollision`, and when no *blocking* ref carries a hash outside the
index list (such a ref is written to position 0 by the code — see
`foreign_blocking_ref_hides_first_index`), every index without blocking ref whose next retry
index is below `maxAttempts` is requested. -/
theorem computeMissing_complete (d : PIndex) (job : Job) (indexes : List PIndex) (reqs : List CreationRequest)
    (hnc : NoCollision indexes)
    (hforeign : ∀ t ∈ job.status.tasks, Blocking t → t.hash d ∈ indexes.map (·.hash))
    (h : computeMissingIndexesForCreation d job indexes = some reqs)
    (i : PIndex) (hi : i ∈ indexes)
    (hfree : ∀ t ∈ job.status.tasks, t.hash d = i.hash → ¬ Blocking t)
    (hretry : nextRetryIndex d job.status.tasks i.hash < job.maxAttempts) :
    mkReq d job i ∈ reqs := by
  unfold computeMissingIndexesForCreation at h
  split at h
  · cases h
  · cases h
    obtain ⟨k, hk, rfl⟩ := List.mem_iff_getElem.mp hi
    refine (mem_missingFrom d job indexes indexes 0 _).mpr ⟨k, hk, ?_, hretry, rfl⟩
    simp only [Nat.zero_add]
    rw [Bool.eq_false_iff]
    intro hfound
    unfold foundAt at hfound
    obtain ⟨t, ht, hc⟩ := List.any_eq_true.mp hfound
    simp only [Bool.and_eq_true, beq_iff_eq] at hc
    have hb := (refActiveOrSuccessful_iff t).mp hc.1
    obtain ⟨j, hj, hjh⟩ := List.mem_map.mp (hforeign t ht hb)
    obtain ⟨q, hq, rfl⟩ := List.mem_iff_getElem.mp hj
    have hidx := hashesIdx_getElem indexes hnc q hq
    rw [hjh, hc.2] at hidx
    subst hidx
    exact hfree t ht hjh.symm hb

/-- The next retry index equals the number of existing refs of the index when their retry
indexes are pairwise distinct and all within `0 .. count-1` (i.e. contiguous from 0). -/
theorem nextRetry_eq_count (d : PIndex) (tasks : List TaskRef) (h : String)
    (hnd : ((tasksOfHash d tasks h).map (·.retryIndex)).Nodup)
    (hrange : ∀ t ∈ tasksOfHash d tasks h, 0 ≤ t.retryIndex ∧ t.retryIndex < (tasksOfHash d tasks h).length) :
    nextRetryIndex d tasks h = (tasksOfHash d tasks h).length := by
  rw [nextRetryIndex_eq_maxSucc]
  have := maxSucc_eq_length ((tasksOfHash d tasks h).map (·.retryIndex)) hnd (by
    intro x hx
    obtain ⟨t, ht, rfl⟩ := List.mem_map.mp hx
    simpa using hrange t ht)
  simpa using this

/-- An index is reported `Failed` exactly when none of its refs succeeded and at least
`maxAttempts` of them are finished. -/
theorem indexStatus_failed_iff (index : PIndex) (hash : String) (tasks : List TaskRef) (maxAttempts : Int) :
    (getIndexStatus index hash tasks maxAttempts).result = .failed ↔
      (∀ t ∈ tasks, t.status.result ≠ .succeeded) ∧ ((tasks.countP refTerminal : Nat) : Int) ≥ maxAttempts := by
  unfold getIndexStatus
  simp only
  by_cases hs : tasks.any refSucceeded = true
  · simp only [hs, if_true, Bool.not_true, Bool.false_and]
    constructor
    · intro h; cases h
    · rintro ⟨h, _⟩
      obtain ⟨t, ht, hr⟩ := List.any_eq_true.mp hs
      exact absurd (by simpa [refSucceeded] using hr) (h t ht)
  · have hs' : tasks.any refSucceeded = false := by simpa using hs
    have hall : ∀ t ∈ tasks, t.status.result ≠ .succeeded := by
      intro t ht he
      have : tasks.any refSucceeded = true := List.any_eq_true.mpr ⟨t, ht, by simp [refSucceeded, he]⟩
      rw [hs'] at this; cases this
    simp only [hs', Bool.not_false, Bool.true_and, Bool.false_eq_true, if_false]
    by_cases hm : ((tasks.countP refTerminal : Nat) : Int) ≥ maxAttempts
    · simp only [hm, decide_true, if_true, true_iff, and_true]
      exact hall
    · simp [hm]

/-- No request for an index that has a succeeded ref (under `NoCollision`). -/
theorem no_missing_when_succeeded (d : PIndex) (job : Job) (indexes : List PIndex) (reqs : List CreationRequest)
    (hnc : NoCollision indexes)
    (h : computeMissingIndexesForCreation d job indexes = some reqs)
    (t : TaskRef) (ht : t ∈ job.status.tasks) (hs : t.status.result = .succeeded) :
    ∀ r ∈ reqs, r.index.hash ≠ t.hash d := by
  intro r hr he
  exact (computeMissing_sound d job indexes reqs hnc h r hr).2.1 t ht he.symm (Or.inr hs)

/-- No request carries a retry index at or beyond `maxAttempts` (no hypothesis), and none is
negative. -/
theorem no_missing_beyond_maxAttempts (d : PIndex) (job : Job) (indexes : List PIndex) (reqs : List CreationRequest)
    (h : computeMissingIndexesForCreation d job indexes = some reqs) :
    ∀ r ∈ reqs, 0 ≤ r.retryIndex ∧ r.retryIndex < job.maxAttempts := by
  intro r hr
  unfold computeMissingIndexesForCreation at h
  split at h
  · cases h
  · cases h
    obtain ⟨k, hk, _, hm, rfl⟩ := (mem_missingFrom d job indexes indexes 0 r).mp hr
    refine ⟨?_, hm⟩
    rw [show (mkReq d job indexes[k]).retryIndex = nextRetryIndex d job.status.tasks indexes[k].hash from rfl,
      nextRetryIndex_eq_maxSucc]
    exact (foldl_maxSucc_ge _ 0).1

/-- The earliest creation time of a request is at least `finish + retryDelay` for every
finished ref of that index; with no finished ref it is Go's zero time plus the delay
(Appendix A item 5). -/
theorem earliest_respects_delay (d : PIndex) (job : Job) (indexes : List PIndex) (reqs : List CreationRequest)
    (h : computeMissingIndexesForCreation d job indexes = some reqs) :
    ∀ r ∈ reqs,
      (∀ t ∈ job.status.tasks, t.hash d = r.index.hash → ∀ f, t.finishTimestamp = some f →
        f + job.retryDelay ≤ r.earliest) ∧
      ((∀ t ∈ job.status.tasks, t.hash d = r.index.hash → t.finishTimestamp = none) →
        r.earliest = zeroTime + job.retryDelay) := by
  intro r hr
  unfold computeMissingIndexesForCreation at h
  split at h
  · cases h
  · cases h
    obtain ⟨k, hk, _, _, rfl⟩ := (mem_missingFrom d job indexes indexes 0 r).mp hr
    constructor
    · intro t ht hh f hf
      have hmem : t ∈ tasksOfHash d job.status.tasks indexes[k].hash := by
        unfold tasksOfHash
        exact List.mem_filter.mpr ⟨ht, by simpa [mkReq] using hh⟩
      have := (foldl_latest_ge (tasksOfHash d job.status.tasks indexes[k].hash) zeroTime).2 t hmem f hf
      show f + job.retryDelay ≤ latestFinishTime d job.status.tasks indexes[k].hash + job.retryDelay
      unfold latestFinishTime
      exact Int.add_le_add_right this _
    · intro hn
      show latestFinishTime d job.status.tasks indexes[k].hash + job.retryDelay = zeroTime + job.retryDelay
      unfold latestFinishTime
      rw [foldl_latest_none]
      intro t ht
      have := List.mem_filter.mp ht
      exact hn t this.1 (by simpa [mkReq] using this.2)

-- ---------------------------------------------------------------- witnesses / non-vacuity

/-- Observation (outside the hypotheses of `computeMissing_complete`): a blocking ref whose hash
is not in the index list is booked on position 0, so index 0 is not requested although it has no
ref at all.  Replayed on the real code in corpus scenario `foreign-hash-hides-index0`. -/
theorem foreign_blocking_ref_hides_first_index :
    let d : PIndex := { hash := "d" }
    let job : Job := { template := some { maxAttempts := some 3 },
                       status := { tasks := [{ name := "x", parallelIndex := some { hash := "foreign" } }] } }
    computeMissingIndexesForCreation d job [{ hash := "a" }, { hash := "b" }] =
      some [{ index := { hash := "b" }, retryIndex := 0, earliest := zeroTime }] := by
  decide

/-- an empty index list with a blocking ref is an index-out-of-range panic in the source -/
example : computeMissingIndexesForCreation { hash := "d" } { status := { tasks := [{ name := "x" }] } } [] = none := by
  decide

/-- hypotheses of `computeMissing_sound` / `_complete` are satisfiable with a non-empty result:
index `a` failed once (retry 1 requested, earliest = finish 100 + 60 s), index `b` is running. -/
example :
    let d : PIndex := { hash := "d" }
    let job : Job := { template := some { maxAttempts := some 3, retryDelaySeconds := some 60 },
                       status := { tasks := [
                         { name := "a0", parallelIndex := some { hash := "a" }, finishTimestamp := some 100,
                           status := { state := .terminated, result := .failed } },
                         { name := "b0", parallelIndex := some { hash := "b" }, runningTimestamp := some 50 }] } }
    NoCollision [{ hash := "a" }, { hash := "b" }] ∧
    computeMissingIndexesForCreation d job [{ hash := "a" }, { hash := "b" }] =
      some [{ index := { hash := "a" }, retryIndex := 1, earliest := 100 + 60 * 1000000000 }] := by
  refine ⟨by decide, by decide⟩

example : nextRetryIndex { hash := "d" }
    [{ name := "a1", retryIndex := 1 }, { name := "a0", retryIndex := 0 }, { name := "o", parallelIndex := some { hash := "o" } }] "d" = 2 := by
  decide

example : (getIndexStatus { hash := "a" } "a"
    [{ name := "a0", finishTimestamp := some 5 }, { name := "a1", finishTimestamp := some 9 }] 2).result = .failed := by decide

end Furiko.Props.C08
