/-
Cross-component ("end-to-end") theorems: each composes theorems that were proved on the separate
component models (cron scheduling `Model/Cron`, cron reconciler `Model/CronRec`, job queue
`Model/Queue`, job controller `Model/JobCtl` + `Model/JobStatus`, JobConfig controller
`Model/JobConfigStatus`).  The models have their own state types; the hypotheses that identify an
object of one model with an object of another ("bridges") are explicit and named `hbridge…` /
`hkey`.  Helper lemmas: `Proofs/ComposeLemmas.lean`.  Every theorem is followed by an `example`
on a concrete non-trivial instance.
-/
import FurikoModel.Proofs.ComposeLemmas

namespace Furiko.Props.Compose

/-! ## 1. C04 × C02 (× C20): restart end to end -/

section Restart
open Furiko Furiko.Str Furiko.Cron Furiko.CronRec

/-- **restart_end_to_end.**

*Cron reconciler before the crash*: `s0` is ANY reachable state of the reconciler's transition
system (`C02`: requests, passes with arbitrary cache views and create faults, crashes, deletions),
in a world of JobConfig versions whose identities behave (`WorldOK`), without zero-time Jobs
(finding C02-F1).
*The restart*: the cron worker loads the JobConfigs `jcs` (`schedNew`; `bootCtl jcs pq` is the
state `Init` leaves), then runs ANY boot sequence `boot`: ticks at non-decreasing instants
interleaved with the informer's add notifications for the loaded JobConfigs, each handled at most
once, whenever (`BootOK`; finding F24); `reqs` is everything it requests (`ctlRun`, flattened).
*Bridge*: the loaded `jc : Cron.JC` and the reconciler's `c : CronRec.JobConfig` are the same
object: `jc.key` is `c`'s store key `ns/name` (`hkey`); requested times are Unix seconds other
than Go's zero time (`hrq`).
*Processing*: `acts` is ANY legal run of the reconciler from the crashed state inside the
catch-up envelope (`CatchUp`: only requested items are enqueued, no Job deletion, no second
crash): items are enqueued and processed in any order, any number of times, with any cache views
and any create faults; the only demand is that every requested item of `c` is eventually settled
by some pass (`Served`).

Then, with `R` = the times requested for `c`:
1. `R` is strictly increasing (no time is requested twice) and every `t ∈ R` is later than the
   `lastScheduled` the restart read (`C04.never_rerequest_run`);
2. the server's Jobs afterwards are the Jobs before the restart followed by new ones, and every
   new Job owned by `c` is the Job of a requested time (annotation, namespace, name);
3. for every `t ∈ R` EXACTLY one Job owned by `c` carries schedule time `t` — also when that Job
   already existed before the crash because `lastScheduled` had not been written yet
   (`C02.process_idempotent`), and
4. for every uid and time at most one (`C02.at_most_one`). -/
theorem restart_end_to_end
    {world : JobConfig → Prop} (hW : WorldOK world) (s0 : Sys) (hr0 : Reachable world s0)
    (hz0 : ∀ j ∈ s0.api, j.schedAnnot ≠ some (showInt zeroUnix))
    {jcs : List JC} {cfg dflt now : Int} {pq : Heap.PQ}
    (hnd : (jcs.map (fun jc => jc.key)).Nodup)
    (hs : ∀ jc ∈ jcs, ∀ l ∈ jc.sched.exprs, SortedStrict l)
    (h : schedNew jcs cfg dflt now = some pq) {cap : Int} {flushLimit fuel : Nat}
    {boot : List CtlAct} (hok : BootOK jcs boot) (hts : List.Pairwise (· ≤ ·) (ticksOf boot))
    (hdone : (ctlRun Shapes.fixed cap flushLimit fuel (bootCtl jcs pq) boot).2.2 = true)
    (reqs : List (String × Int))
    (hreqs : reqs = (ctlRun Shapes.fixed cap flushLimit fuel (bootCtl jcs pq) boot).2.1.flatten)
    {jc : JC} (hjc : jc ∈ jcs)
    (c : JobConfig) (hc : world c) (hkey : jc.key = String.ofList (metaNsKey c.ns c.name))
    (hrq : ∀ p ∈ reqs, p.2 ≠ zeroUnix ∧ InInt64 p.2)
    (acts : List Action) (hlegal : Legal world (applyAct s0 .crash) acts) (hcu : CatchUp reqs acts)
    (hserved : ∀ t, (jc.key, t) ∈ reqs → Served c t (applyAct s0 .crash) acts) :
    let R := outk reqs jc.key
    let sF := runActs (applyAct s0 .crash) acts
    (SortedStrict R ∧ ∀ ls, jc.lastScheduled = some ls → ∀ t ∈ R, ls < t) ∧
    (∃ new, sF.api = s0.api ++ new ∧ ∀ j ∈ new, j.ownerUid = some c.uid →
        ∃ t ∈ R, j.schedAnnot = some (showInt t) ∧ j.ns = c.ns ∧ j.name = jobName c.name t) ∧
    (∀ t ∈ R, (sF.api.filter (fun j => j.ownerUid = some c.uid ∧
        j.schedAnnot = some (showInt t))).length = 1) ∧
    (∀ u t, t ≠ zeroUnix → (sF.api.filter (fun j => j.ownerUid = some u ∧
        j.schedAnnot = some (showInt t))).length ≤ 1) := by
  intro R sF
  -- late initial adds are invisible: the boot sequence requests what its ticks request
  have hboot := (ctlRun_bootCtl cap flushLimit fuel pq hnd hok).2
  rw [hboot] at hdone hreqs
  have hrz : ∀ p ∈ reqs, p.2 ≠ zeroUnix := fun p hp => (hrq p hp).1
  -- the crashed state satisfies the catch-up invariant
  have hcr : Reachable world (applyAct s0 .crash) :=
    .step .crash hr0 ((step_iff world s0 .crash _).2 ⟨trivial, rfl⟩)
  have hI0 : CInv world c reqs s0.api (applyAct s0 .crash) :=
    ⟨hcr, hz0, (by intro k hk; cases hk), ⟨[], by simp [applyAct], by intro j hj; cases hj⟩⟩
  have hI : CInv world c reqs s0.api sF := CInv.run hW hc hrz acts _ hI0 hlegal hcu
  have hinvF := inv_reachable hI.reach
  have hUF : C02.UidFunctional world := hW.uid_fun
  refine ⟨⟨?_, ?_⟩, ?_, ?_, ?_⟩
  · show SortedStrict (outk reqs jc.key)
    rw [hreqs]; exact restart_requests_sorted hnd hs h _ hts hdone hjc
  · intro ls hls t ht
    have ht' : (jc.key, t) ∈ reqs := mem_outk.1 ht
    rw [hreqs] at ht'
    exact never_rerequest_run_lemma hnd hs h _ hts hdone hjc hls t ht'
  · obtain ⟨new, hnew, hprop⟩ := hI.grow
    refine ⟨new, hnew, fun j hj ho => ?_⟩
    obtain ⟨t, ht, h1, h2, h3⟩ := hprop j hj ho
    exact ⟨t, mem_outk.2 (by rw [hkey]; exact ht), h1, h2, h3⟩
  · intro t ht
    have ht' : (jc.key, t) ∈ reqs := mem_outk.1 ht
    obtain ⟨htz, hti⟩ := hrq _ ht'
    have hhas := served_has hW hc (rq := reqs) htz hti acts _ hcr hlegal hcu (hserved t ht')
    obtain ⟨j, hj, hns, hname⟩ := has_true_iff.1 hhas
    obtain ⟨ho, ha⟩ := job_at_name hW hc hinvF hI.clean hj hns hname
    have hle := (C02.at_most_one world hUF sF hI.reach c.uid t htz).1
    have hpos : 0 < (sF.api.filter (fun j => j.ownerUid = some c.uid ∧
        j.schedAnnot = some (showInt t))).length :=
      List.length_pos_of_mem (List.mem_filter.2 ⟨hj, by simp [ho, ha]⟩)
    omega
  · intro u t ht
    exact (C02.at_most_one world hUF sF hI.reach u t ht).1

/-- … and when the boot sequence has ONE tick (at `n1`; the initial adds of loaded JobConfigs may
be handled before or after it) the requested times of `c` are exactly the
`min cap |D|` earliest elements of `D = {m | Eligible jc cfg dflt now m ∧ m ≤ floorSec n1}`
(`C04.catch_up_exact`), so the new Jobs of `c` are exactly the Jobs of those times:
"Jobs after restart + quiescence = Jobs before ∪ Jobs for `catch_up_exact`'s times". -/
theorem restart_end_to_end_first_tick
    {world : JobConfig → Prop} (hW : WorldOK world) (s0 : Sys) (hr0 : Reachable world s0)
    (hz0 : ∀ j ∈ s0.api, j.schedAnnot ≠ some (showInt zeroUnix))
    {jcs : List JC} {cfg dflt now : Int} {pq : Heap.PQ}
    (hnd : (jcs.map (fun jc => jc.key)).Nodup)
    (hs : ∀ jc ∈ jcs, ∀ l ∈ jc.sched.exprs, SortedStrict l)
    (h : schedNew jcs cfg dflt now = some pq) {n1 cap : Int} {flushLimit fuel : Nat}
    {boot : List CtlAct} (hok : BootOK jcs boot) (hticks : ticksOf boot = [n1])
    (hdone : (ctlRun Shapes.fixed cap flushLimit fuel (bootCtl jcs pq) boot).2.2 = true)
    (reqs : List (String × Int))
    (hreqs : reqs = (ctlRun Shapes.fixed cap flushLimit fuel (bootCtl jcs pq) boot).2.1.flatten)
    {jc : JC} (hjc : jc ∈ jcs) (hen : jc.sched.enabled = true) (hpe : jc.sched.parseErr = false)
    (c : JobConfig) (hc : world c) (hkey : jc.key = String.ofList (metaNsKey c.ns c.name))
    (hrq : ∀ p ∈ reqs, p.2 ≠ zeroUnix ∧ InInt64 p.2)
    (acts : List Action) (hlegal : Legal world (applyAct s0 .crash) acts) (hcu : CatchUp reqs acts)
    (hserved : ∀ t, (jc.key, t) ∈ reqs → Served c t (applyAct s0 .crash) acts) :
    ∃ D : List Int, SortedStrict D ∧
      (∀ m, m ∈ D ↔ Eligible jc cfg dflt now m ∧ m ≤ floorSec n1) ∧
      ∃ new, (runActs (applyAct s0 .crash) acts).api = s0.api ++ new ∧
        (∀ j ∈ new, j.ownerUid = some c.uid →
          ∃ t ∈ D.take cap.toNat, j.schedAnnot = some (showInt t) ∧ j.ns = c.ns ∧
            j.name = jobName c.name t) ∧
        ∀ t ∈ D.take cap.toNat, ((runActs (applyAct s0 .crash) acts).api.filter (fun j =>
          j.ownerUid = some c.uid ∧ j.schedAnnot = some (showInt t))).length = 1 := by
  have hboot := (ctlRun_bootCtl cap flushLimit fuel pq hnd hok).2
  rw [hticks] at hboot
  have hdone' : (work ⟨pq, listerOf jcs, []⟩ n1 cap flushLimit fuel).2.2 = true := by
    have := hdone
    rw [hboot] at this
    simpa [runTicks, listerOf] using this
  obtain ⟨D, hD, hmem, htake⟩ := catch_up_lemma hnd hs h hdone' hjc ⟨hen, hpe⟩
  have hR : outk reqs jc.key = D.take cap.toNat := by
    rw [hreqs, hboot]
    simpa [runTicks, listerOf] using htake
  obtain ⟨_, ⟨new, hnew, hprop⟩, hone, _⟩ :=
    restart_end_to_end hW s0 hr0 hz0 hnd hs h hok (by rw [hticks]; simp) hdone reqs hreqs hjc c hc
      hkey hrq acts hlegal hcu hserved
  refine ⟨D, hD, hmem, new, hnew, ?_, ?_⟩
  · intro j hj ho
    obtain ⟨t, ht, r⟩ := hprop j hj ho
    exact ⟨t, by rw [← hR]; exact ht, r⟩
  · intro t ht
    exact hone t (by rw [hR]; exact ht)

/-- how `Served` is discharged by the controller's own retry loop (`C20`): for the work item of
`(c, t)`, ANY finite pattern `fs` of failed create calls (E-ErrNotApplied) and any server content,
the loop `work/syncItem` (modelled by `C20.runLoop` over `C20.cronSync`: Job lister caught up with
the server) ends with a successful pass, and the server is then exactly what ONE fault-free pass
produces (`C20.cron_converges`): unchanged if the Job's name was taken (`process_idempotent`),
else extended by the Job of `(cv, t)` — provided the JobConfig lister holds a version `cv` of `c`
whose option defaults evaluate and the schedule is not skipped by policy. -/
theorem restart_item_retry_converges
    (e : C20.CronEnv) (c cv : JobConfig) (t : Int) (ht : InInt64 t) (htz : t ≠ zeroUnix)
    (hname : e.name = joinKey c.name t) (hns : e.ns = c.ns)
    (hl : e.lookup c.ns c.name = some cv) (hid : cv.ns = c.ns ∧ cv.name = c.name)
    (vars : KV) (hsub : cv.subst = some vars)
    (hforbid : ¬ (cv.policy = policyForbid ∧ e.active cv + 1 > cv.maxConc.getD Facts.defaultMaxConcurrency))
    (hq : queueFull e.mx cv.queued = false) (fs : List Bool) (api : Api) :
    (C20.runLoop (C20.cronSync e) (fs.length + 1) fs api).2 = true ∧
    (C20.runLoop (C20.cronSync e) (fs.length + 1) fs api).1 =
      (if api.has c.ns (jobName c.name t) then api else api ++ [scheduledJob e.now cv t vars]) ∧
    (C20.runLoop (C20.cronSync e) (fs.length + 1) fs api).1.has c.ns (jobName c.name t) = true := by
  have hk : splitKey e.name = .ok (c.name, t) := by rw [hname]; exact splitKey_joinKey c.name ht
  have hsub' : ∀ c', e.lookup e.ns c.name = some c' → c'.subst ≠ none := by
    intro c' hc'
    rw [hns, hl] at hc'
    injection hc' with e1
    rw [← e1, hsub]; simp
  obtain ⟨h1, h2⟩ := C20.cron_converges e c.name t hk hsub' fs api
  rw [cronSync_quiet e c cv t ht htz hname hns hl hid vars hsub hforbid hq api] at h2
  refine ⟨h1, h2, ?_⟩
  rw [h2]
  by_cases hhas : api.has c.ns (jobName c.name t) = true
  · simp [hhas]
  · simp only [hhas, Bool.false_eq_true, if_false]
    apply has_true_iff.2
    refine ⟨scheduledJob e.now cv t vars, by simp, hid.1, ?_⟩
    show generateName e.now cv.name t = _
    rw [generateName_eq_jobName e.now cv.name htz, hid.2]

/-! ### non-vacuity: a crash between the Job create of 10 and the status write -/

/-- the reconciler's JobConfig `ns/a` … -/
def cA : JobConfig :=
  { ns := "ns".toList, name := "a".toList, uid := "u1".toList, policy := "Forbid".toList, maxConc := some 5,
    queued := 0, tmplLabels := [], tmplAnnots := [], subst := some [], tmpl := none }
def worldA (c : JobConfig) : Prop := c = cA

theorem worldA_ok : WorldOK worldA := by
  refine ⟨?_, ?_, ?_, ?_⟩
  · intro a b ha hb _; rw [ha, hb]; exact ⟨rfl, rfl⟩
  · intro a b ha hb _ _; rw [ha, hb]
  · intro a ha; rw [ha]; decide
  · intro a ha; rw [ha]; decide

/-- … and the same object as the cron worker loads it: store key `ns/a`, every-5-to-10-seconds
schedule of `Cron.Ex.jcA`, `lastScheduled = 5` (the Job of 10 exists, but the JobConfig controller
had not yet recorded it when the controller crashed) -/
def jcA' : JC := { Ex.jcA with key := "ns/a", lastScheduled := some 5 }

def keyA (t : Int) : Str := jobConfigKey cA.ns cA.name t

instance : DecidablePred worldA := fun c => inferInstanceAs (Decidable (c = cA))

/-- before the crash: the item of 10 was requested and processed — the Job of 10 was created -/
def histPre : List Action :=
  [.request cA 10, .deliver [cA] [], .process (keyA 10) 0 (fun _ => 0) (some 20) .none true]
def sPre : Sys := runActs {} histPre

theorem sPre_reachable : Reachable worldA sPre :=
  reachable_runActs histPre {} .init (by refine ⟨rfl, ?_, ?_, trivial⟩ <;> decide)

example : sPre.api = [scheduledJob 0 cA 10 []] := by decide

/-- restart at 25.5 s, one tick at 26 s, cap 5: the worker requests 10, 15, 20 -/
def reqsA : List (String × Int) := [("ns/a", 10), ("ns/a", 15), ("ns/a", 20)]

/-- the reconciler after the restart: the three items are enqueued; 20 is processed first; the create
of 15 fails once and is retried; 10 is processed twice (Job lister empty: `AlreadyExists`) -/
def actsA : List Action :=
  [.request cA 10, .request cA 15, .request cA 20,
   .process (keyA 20) 26 (fun _ => 0) (some 20) .none false,
   .process (keyA 15) 26 (fun _ => 0) (some 20) .err true,
   .process (keyA 10) 26 (fun _ => 0) (some 20) .none true,
   .process (keyA 15) 27 (fun _ => 0) (some 20) .none false,
   .process (keyA 10) 27 (fun _ => 0) (some 20) .errApplied false]

theorem actsA_run :
    (runActs (applyAct sPre .crash) actsA).api
      = sPre.api ++ [scheduledJob 26 cA 20 [], scheduledJob 27 cA 15 []] := by decide

theorem actsA_legal : Legal worldA (applyAct sPre .crash) actsA := by
  refine ⟨rfl, rfl, rfl, ?_, ?_, ?_, ?_, ?_, trivial⟩ <;> decide

theorem actsA_catchUp : CatchUp reqsA actsA := by
  intro a ha
  simp only [actsA, List.mem_cons, List.not_mem_nil, or_false] at ha
  rcases ha with rfl | rfl | rfl | rfl | rfl | rfl | rfl | rfl <;>
    first | trivial | (show _ ∈ reqsA; decide)

theorem actsA_served : ∀ t, (jcA'.key, t) ∈ reqsA → Served cA t (applyAct sPre .crash) actsA := by
  intro t ht
  simp only [reqsA, jcA', List.mem_cons, Prod.mk.injEq, true_and, List.not_mem_nil, or_false] at ht
  rcases ht with rfl | rfl | rfl
  · -- 10: the Job exists already; the first pass on its key settles it
    exact Or.inr (Or.inr (Or.inr (Or.inr (Or.inr (Or.inl ⟨rfl, Or.inl (by decide)⟩)))))
  · -- 15: the first pass fails (fault), the second one creates the Job
    refine Or.inr (Or.inr (Or.inr (Or.inr (Or.inr (Or.inr (Or.inl ⟨rfl, Or.inr ⟨cA, ?_⟩⟩))))))
    refine ⟨by decide, rfl, by decide, by decide, by decide, by decide, Or.inl rfl⟩
  · -- 20
    refine Or.inr (Or.inr (Or.inr (Or.inl ⟨rfl, Or.inr ⟨cA, ?_⟩⟩)))
    refine ⟨by decide, rfl, by decide, by decide, by decide, by decide, Or.inl rfl⟩

/-- every hypothesis of `restart_end_to_end` / `restart_end_to_end_first_tick` holds on the
instance (`WorldOK`: `worldA_ok`, reachability: `sPre_reachable`) … -/
example :
    schedNew [jcA'] 0 300 25500000000 = some (Heap.new [("ns/a", 10)]) ∧
    (work ⟨Heap.new [("ns/a", 10)], [jcA'].map (fun jc => (jc.key, jc)), []⟩ 26000000000 5 1000 10).2
      = (reqsA, true) ∧
    jcA'.key = String.ofList (metaNsKey cA.ns cA.name) ∧
    (∀ p ∈ reqsA, p.2 ≠ zeroUnix ∧ InInt64 p.2) ∧
    (∀ j ∈ sPre.api, j.schedAnnot ≠ some (showInt zeroUnix)) ∧
    Legal worldA (applyAct sPre .crash) actsA ∧ CatchUp reqsA actsA ∧
    (∀ t, (jcA'.key, t) ∈ reqsA → Served cA t (applyAct sPre .crash) actsA) ∧
    ((runActs (applyAct sPre .crash) actsA).api.map (fun j => (j.name, j.schedAnnot))) =
      [("a-10".toList, some "10".toList), ("a-20".toList, some "20".toList),
       ("a-15".toList, some "15".toList)] :=
  ⟨rfl, by decide, by decide, by decide, by decide, actsA_legal, actsA_catchUp, actsA_served, by decide⟩

/-- … so the theorem applies: the requested times are `[10, 15, 20]`, all after the recorded 5, and
for each of them exactly one Job of `u1` exists — the Job of 10 is the one from before the crash -/
example :
    let sF := runActs (applyAct sPre .crash) actsA
    outk reqsA jcA'.key = [10, 15, 20] ∧ (∀ t ∈ outk reqsA jcA'.key, 5 < t) ∧
    ∀ t ∈ outk reqsA jcA'.key, (sF.api.filter (fun j => j.ownerUid = some cA.uid ∧
      j.schedAnnot = some (showInt t))).length = 1 := by
  have hs : ∀ jc ∈ [jcA'], ∀ l ∈ jc.sched.exprs, SortedStrict l := by
    intro jc hjc; rw [List.mem_singleton.1 hjc]; exact Ex.jcA_sorted
  -- the informer's add notification for `ns/a` is handled between `Init` and the first tick
  have hok : BootOK [jcA'] [.initialAdd jcA', .tick 26000000000] :=
    ⟨by decide, by simp [initialAddsOf], by simp [initialAddsOf]⟩
  have hreqs : reqsA = (ctlRun Shapes.fixed 5 1000 10 (bootCtl [jcA'] (Heap.new [("ns/a", 10)]))
      [.initialAdd jcA', .tick 26000000000]).2.1.flatten := by decide
  obtain ⟨⟨_, h1⟩, _, h3, _⟩ := restart_end_to_end worldA_ok sPre sPre_reachable (by decide)
    (jcs := [jcA']) (cfg := 0) (dflt := 300) (now := 25500000000) (pq := Heap.new [("ns/a", 10)])
    (cap := 5) (flushLimit := 1000) (fuel := 10) (by decide) hs rfl hok (by simp [ticksOf]) (by decide)
    reqsA hreqs (jc := jcA') (by simp) cA rfl (by decide) (by decide) actsA actsA_legal actsA_catchUp
    actsA_served
  exact ⟨by decide, h1 5 rfl, h3⟩

/-- the envelope clause "a (namespace, name) has one uid" (`WorldOK.name_fun`) cannot be dropped from
the model-level statement: if a Job of an OLDER JobConfig of the same name (uid `u0`) still occupies
the name `a-10`, the item `(ns/a, 10)` of the re-created JobConfig `u1` is answered `AlreadyExists`
on every pass — no Job of `u1` for 10 ever exists.  (Not reachable in the real system with a
monotone clock: the re-created JobConfig has no `lastScheduled` and is never back-filled —
`C04.never_scheduled_no_backfill`.) -/
theorem name_reuse_blocks_schedule_witness :
    let cOld : JobConfig := { cA with uid := "u0".toList }
    let api0 : Api := [scheduledJob 0 cOld 10 []]
    let o := syncItem 26 api0 (listerGet [cA]) (fun _ => 0) (some 20) (jobLister []) .none (keyA 10)
    o.api = api0 ∧ o.resp = some .exists ∧ o.result = .err ∧
    (o.api.filter (fun j => j.ownerUid = some cA.uid ∧ j.schedAnnot = some (showInt 10))).length = 0 := by
  decide

/-- "the sync returned nil" is NOT enough for `Served`: with an empty JobConfig lister (or a Forbid
JobConfig at its limit, or `MaxEnqueuedJobs` reached, or a create rejected as Invalid) the pass
reports success — so the retry loop forgets the key (`C20.retry_success_forgets`) — and no Job
exists.  All four are the code's documented behaviour; they are why `Effective` spells out the
conditions of a pass that reaches a successful create. -/
theorem ok_without_job_witness :
    (let o := syncItem 26 [] (listerGet []) (fun _ => 0) (some 20) (jobLister []) .none (keyA 10)
     o.result = .ok ∧ o.api = []) ∧
    (let o := syncItem 26 [] (listerGet [cA]) (fun _ => 5) (some 20) (jobLister []) .none (keyA 10)
     o.result = .ok ∧ o.api = [] ∧ o.events = [.skipped]) ∧
    (let o := syncItem 26 [] (listerGet [cA]) (fun _ => 0) (some 0) (jobLister []) .none (keyA 10)
     o.result = .ok ∧ o.api = [] ∧ o.events = [.skipped]) ∧
    (let o := syncItem 26 [] (listerGet [cA]) (fun _ => 0) (some 20) (jobLister []) .invalid (keyA 10)
     o.result = .ok ∧ o.api = [] ∧ o.events = [.createFailed]) := by decide

/-- `restart_item_retry_converges` on the instance: the item of 15, three failed creates, then
success, starting from the server content before the crash -/
example :
    let e : C20.CronEnv := { now := 27, lookup := listerGet [cA], active := fun _ => 0, mx := some 20,
                             ns := cA.ns, name := joinKey cA.name 15 }
    e.lookup cA.ns cA.name = some cA ∧ queueFull e.mx cA.queued = false ∧
    ¬ (cA.policy = policyForbid ∧ e.active cA + 1 > cA.maxConc.getD Facts.defaultMaxConcurrency) ∧
    (C20.cronSync e sPre.api true) = (sPre.api, false) ∧
    (C20.runLoop (C20.cronSync e) 4 [true, true, true] sPre.api) =
      (sPre.api ++ [scheduledJob 27 cA 15 []], true) := by decide

end Restart

/-! ## 2. C06 × C12 (× C08): a Forbid Job rejected at the limit never runs -/

section Reject
open Furiko Furiko.Queue Furiko.JobCtl Furiko.JobCtlPlan Furiko.WQ

/-- **forbid_rejected_never_runs.**

*Queue controller* (`Model/Queue`): the Forbid Job `j` (cached version) is evaluated in state
`qs` with `ac + 1 > maxConcurrency` and its `startAfter` not in the future, and the `RejectJob`
write is acknowledged by the server (`hok`: the call is logged `"ok"`).
*Job controller* (`Model/JobCtl`): ANY system state `s` and ANY version `jo` of that Job that it
may hold in its cache afterwards.
*Bridge* (`hbridge`): the job controller's version carries the admission-error annotation iff the
queue model's authoritative Job does.

Then (a) the queue controller does not start the Job in that evaluation, (b) a pass of the job
controller on `jo` issues no pod create and every pod on the server after the pass was there (by
name) before, and (c) `GetCondition` of `jo` is `Finished` with result `AdmissionError`, at any
clock reading, and the phase computed from any status carrying that condition is terminal.
(b) and (c) do not use `startTime = none`: they hold also if a later queue pass "starts" the
rejected Job (`C06.rejected_then_started_witness`), as long as the annotation is there. -/
theorem forbid_rejected_never_runs
    (qs : Queue.Sys) (jc : JCV) (j : JobV) (ac : Int)
    (h1 : j.hasPolicy = true) (h2 : j.policy = 1) (h3 : ac + 1 > jc.maxConc)
    (h4 : startAfterLater j qs.clock = false)
    (hok : (canStartJob qs jc j ac).1.calls = qs.calls ++ [⟨"reject", j.name, "ok"⟩])
    (s : JobCtl.Sys) (jo : JobObj)
    (hbridge : ∀ a, findJob (canStartJob qs jc j ac).1.jobs j.name = some a →
      (jo.job.admissionError = true ↔ a.admErr = true)) :
    (canStartJob qs jc j ac).2 ≠ .start ∧
    ((∀ c ∈ newCalls s (sync s jo).1, c.verb ≠ "create") ∧
     (∀ p ∈ (sync s jo).1.pods, ∃ p0 ∈ s.pods, p0.pod.name = p.pod.name)) ∧
    (∀ (now : Time) (d : PIndex),
      (∃ f, (getCondition now d jo.job).finished = some f ∧ f.result = .admissionError) ∧
      ∀ (now' : Time) (rj' : Job), rj'.status.condition = getCondition now d jo.job →
        phaseIsTerminal (getPhase now' rj') = true) := by
  obtain ⟨hns, res, hcalls, _, _, hres⟩ := C06.forbid_rejected qs jc j ac h1 h2 h3 h4
  have hr : res = "ok" := by
    rw [hok] at hcalls
    have := List.append_cancel_left hcalls
    simp only [List.cons.injEq, and_true] at this
    injection this with _ _ e
    exact e.symm
  obtain ⟨cur, a, _, _, hfa, hadm, _, _⟩ := hres hr
  have hjo : jo.job.admissionError = true := (hbridge a hfa).2 hadm
  refine ⟨hns, C12Plan.no_create_in_pass s jo (Or.inr (Or.inl hjo)), fun now d => ?_⟩
  exact ⟨C12.admission_error_condition now d jo.job hjo,
    fun now' rj' hc => (admission_error_phase now now' d jo.job rj' hjo hc).2⟩

/-- the history-level form on the job controller's transition system (`Proofs/JobCtlSys`): in
every state reachable from the creation of the Job by ANY allowed actions (faults, informer lag,
restarts, clock, kubelet, user kill / delete, foreign pods), if the cached Job carries the
annotation — bridged as above to a rejection applied by the queue controller — a controller pass
adds no pod name to the server (`C08Hist.no_create_when_killed_or_refused`). -/
theorem forbid_rejected_never_runs_hist
    (qs : Queue.Sys) (jc : JCV) (j : JobV) (ac : Int)
    (h1 : j.hasPolicy = true) (h2 : j.policy = 1) (h3 : ac + 1 > jc.maxConc)
    (h4 : startAfterLater j qs.clock = false)
    (hok : (canStartJob qs jc j ac).1.calls = qs.calls ++ [⟨"reject", j.name, "ok"⟩])
    {ok : JobCtl.Sys → JobCtl.Action → Prop} {j0 : JobObj} {s : JobCtl.Sys} (hr : Reach ok j0 s)
    (jo : JobObj) (hc : s.jobCache = some jo)
    (hbridge : ∀ a, findJob (canStartJob qs jc j ac).1.jobs j.name = some a →
      (jo.job.admissionError = true ↔ a.admErr = true)) :
    ∀ n ∈ podNames (JobCtl.step s .work).pods, n ∈ podNames s.pods := by
  obtain ⟨_, res, hcalls, _, _, hres⟩ := C06.forbid_rejected qs jc j ac h1 h2 h3 h4
  have hr' : res = "ok" := by
    rw [hok] at hcalls
    have := List.append_cancel_left hcalls
    simp only [List.cons.injEq, and_true] at this
    injection this with _ _ e
    exact e.symm
  obtain ⟨cur, a, _, _, hfa, hadm, _, _⟩ := hres hr'
  exact C08Hist.no_create_when_killed_or_refused hr jo hc (Or.inr (Or.inl ((hbridge a hfa).2 hadm)))

/-- closing the loop back into the queue controller: once the job controller has written the
status of the rejected Job (condition from `GetCondition`, phase from `GetPhase`) and the queue
model's authoritative Job reflects that phase (`hbridge`: its `terminal` flag is
`JobPhase.IsTerminal` of the written phase), no worker step of the queue controller — per-config
or independent, whatever its caches say — starts the Job (`C06.not_queued_never_started`). -/
theorem rejected_terminal_never_started
    {qs : Queue.Sys} (hq : Queue.Reachable qs) {n : String} {cur : JobV}
    (hcur : findJob qs.jobs n = some cur)
    (now now' : Time) (d : PIndex) (rj rj' : Job) (hadm : rj.admissionError = true)
    (hcond : rj'.status.condition = getCondition now d rj)
    (hbridge : cur.terminal = phaseIsTerminal (getPhase now' rj')) :
    ⟨"start", n, "ok"⟩ ∉ (workConfig qs).1.calls ∧ ⟨"start", n, "ok"⟩ ∉ (workIndependent qs).1.calls := by
  have ht : cur.terminal = true := by
    rw [hbridge]; exact (admission_error_phase now now' d rj rj' hadm hcond).2
  exact C06.not_queued_never_started hq hcur (by simp [JobV.isQueued, ht])

/-! ### non-vacuity -/

open Furiko.Queue.Scen in
/-- queue side: `C06`'s scenario `s4` (Forbid Job `b`, one active Job, limit 1): the rejection is
logged ok and the authoritative `b` carries the annotation.  Job-controller side: Job `b`, started
(as after `C06.rejected_then_started_witness`), one index, nothing recorded, nothing on the
server: with the annotation the pass creates nothing — WITHOUT it the same pass creates `b-d-0`. -/
example :
    let jb : JobV := { mk "b" true 1 none with rv := 3 }
    let rj : Job := { template := some {}, admissionError := true, status := { startTime := some 1000000000 } }
    let sys (r : Job) : JobCtl.Sys := { clock := 100000000000, d := { hash := "d" }, job := some ⟨"b", "u", r, true, 1⟩ }
    jb.hasPolicy = true ∧ jb.policy = 1 ∧ (1 : Int) + 1 > (jcN 1).maxConc ∧
    startAfterLater jb s4.clock = false ∧
    (canStartJob s4 (jcN 1) jb 1).1.calls.map (fun c => (c.verb, c.job, c.res)) =
      s4.calls.map (fun c => (c.verb, c.job, c.res)) ++ [("reject", "b", "ok")] ∧
    ((findJob (canStartJob s4 (jcN 1) jb 1).1.jobs "b").map (·.admErr)) = some rj.admissionError ∧
    ((newCalls (sys rj) (sync (sys rj) ⟨"b", "u", rj, true, 1⟩).1).all (·.verb ≠ "create")) = true ∧
    (sync (sys rj) ⟨"b", "u", rj, true, 1⟩).1.pods.length = 0 ∧
    (newCalls (sys rj) (sync (sys rj) ⟨"b", "u", { rj with admissionError := false }, true, 1⟩).1).map
      (fun c => (c.verb, c.res, c.name, c.out)) = [("create", "pods", "b-d-0", "ok")] ∧
    ((getCondition 5 { hash := "d" } rj).finished.map (·.result)) = some .admissionError ∧
    getPhase 7 { rj with status := { rj.status with condition := getCondition 5 { hash := "d" } rj } }
      = "AdmissionError" := by decide

/-- history level: the Job is created with the annotation already applied, the creation event is
delivered; the controller pass adds no pod name, whereas without the annotation it adds `b-d-0` -/
example :
    let rj : Job := { template := some {}, admissionError := true, status := { startTime := some 1000000000 } }
    let j0 (r : Job) : JobObj := ⟨"b", "u", r, true, 1⟩
    let s (r : Job) : JobCtl.Sys := JobCtl.step (initSys 100000000000 {} { hash := "d" } (j0 r)) .deliverJob
    Reach anyAction (j0 rj) (s rj) ∧ (s rj).jobCache = some (j0 rj) ∧
    podNames (JobCtl.step (s rj) .work).pods = [] ∧
    podNames (JobCtl.step (s { rj with admissionError := false }) .work).pods = ["b-d-0"] := by
  refine ⟨?_, by decide, by decide, by decide⟩
  exact .step .deliverJob (.init _ _ _ (by decide)) trivial trivial

/-- `rejected_terminal_never_started`: `C06`'s history `histTerminal` (`b` rejected, the job
controller has made it terminal, the queue controller's cache still shows it queued): reachable,
the authoritative `b` is terminal — the flag the bridge equates with `IsTerminal("AdmissionError")`
— and the next pass gets a conflict instead of a start -/
example :
    let qs := Queue.runActs {} C06.histTerminal
    Queue.Reachable qs ∧
    (findJob qs.jobs "b").map (fun j => (j.admErr, j.terminal)) = some (true, phaseIsTerminal "AdmissionError") ∧
    (workConfig qs).1.calls.map (fun c => (c.verb, c.job, c.res)) = [("start", "b", "conflict")] :=
  ⟨Queue.reachable_runB _ (by decide), by decide, by decide⟩

end Reject

/-! ## 3. C02 × C15 × C04: a scheduled Job is counted, and its time is never requested again -/

section Counted
open Furiko Furiko.Str Furiko.Cron Furiko.Compose Furiko.Props.C15

/-- **scheduled_job_counted_partial.**

*Cron reconciler*: `j` is the Job `NewJobFromJobConfig(c, Scheduled, t)` builds (`C02`), for a
representable Unix time `t` after Go's zero time.
*JobConfig controller*: in the system of `C15` (API object + every version a lagging cache may
hold, optimistic concurrency), a sync reads the current version `read` of the JobConfig with a Job
cache `cache`.
*Bridge*: `cache` contains the translation `toJcJob j m` of `j` (reconciler-set fields translated
character by character, server-set fields `m` arbitrary); `read` is `c`'s object: same namespace
and uid.
*Afterwards*: any interleaving `acts` of further syncs (stale reads, arbitrary Job caches — `j` may
have been deleted) and foreign writes; then a restart whose loaded `jc` carries the
`lastScheduled` then on the API (`hbridge2`, as in `C04Status`), followed by any boot sequence
`boot` (ticks interleaved with the informer's initial adds of the loaded JobConfigs).

Then the Job is listed by `listJobs` for `read` and its annotation reads back as `t` (across the
two models' independent `Atoi`/`%v` implementations); right after the sync the recorded
`status.lastScheduled` is `≥ t`; and no tick after the restart ever requests `t` (or anything
earlier) for `jc` again.

PARTIAL: the hypothesis `hseen` (the Job is in the Job cache when a sync of its JobConfig reads the
current version — envelope `E-JobObservedBeforeGone`) cannot be dropped.  A scheduled Job that is
created and deleted between two syncs of its JobConfig is never counted, and its schedule time IS
requested again after a restart: `unobserved_job_rerequested_witness` (known finding F33). -/
theorem scheduled_job_counted_partial
    (now0 : Int) (c : CronRec.JobConfig) (t : Int) (ht : InInt64 t) (hz : JcStatus.zeroUnix < t)
    (j : CronRec.Job) (hj : CronRec.newJobFromJobConfig now0 c CronRec.typeScheduled t = some j)
    (s : C15.Sys) (hwf : s.WF) (idx : Nat) (cache : List JcStatus.Job) (read : JcStatus.JobConfig)
    (hread : s.versions[idx]? = some read) (hcur : read.rv = s.api.rv)
    (m : JobMeta) (hseen : toJcJob j m ∈ cache)
    (hns : read.ns = String.ofList c.ns) (huid : read.uid = String.ofList c.uid)
    (acts : List C15.Act)
    {jcs : List JC} {cfg dflt now : Int} {pq : Heap.PQ}
    (hnd : (jcs.map (fun jc => jc.key)).Nodup)
    (hs : ∀ jc ∈ jcs, ∀ l ∈ jc.sched.exprs, SortedStrict l)
    (h : schedNew jcs cfg dflt now = some pq) {cap : Int} {flushLimit fuel : Nat}
    {boot : List CtlAct} (hok : BootOK jcs boot) (hts : List.Pairwise (· ≤ ·) (ticksOf boot))
    (hdone : (ctlRun Shapes.fixed cap flushLimit fuel (bootCtl jcs pq) boot).2.2 = true)
    {jc : JC} (hjc : jc ∈ jcs)
    (hbridge2 : jc.lastScheduled =
      (runSys true (stepSys true s (.sync idx cache)) acts).api.status.lastScheduled) :
    (toJcJob j m ∈ JcStatus.listJobs cache read ∧ JcStatus.labelScheduleTime (toJcJob j m) = some t) ∧
    JcStatus.optLe (some t) (stepSys true s (.sync idx cache)).api.status.lastScheduled ∧
    ∀ u, (jc.key, u) ∈
        (ctlRun Shapes.fixed cap flushLimit fuel (bootCtl jcs pq) boot).2.1.flatten →
      t < u := by
  obtain ⟨hlist, hlab, _⟩ := toJcJob_scheduled now0 c t ht j hj m read hns huid cache hseen
  have hcov := sync_current_covers s hwf idx cache read hread hcur _ t hlist hlab hz
  refine ⟨⟨hlist, hlab⟩, hcov, ?_⟩
  exact C04Status.recorded_time_never_requested_again _ acts
    (stepSys_wf_mono s (.sync idx cache) hwf).1 t hcov hnd hs h hok hts hdone hjc hbridge2

/-! ### non-vacuity -/

/-- the JobConfig `ns/a` of §1 as the JobConfig controller sees it -/
def readA : JcStatus.JobConfig := { ns := "ns", name := "a", uid := "u1", rv := 1 }
def sysA : C15.Sys := { api := readA, versions := [readA] }
def metaA : JobMeta := { uid := "job-2", created := 1000, phase := "Queued" }
/-- `ns/a` as the cron worker loads it after the history below: matches every 10 s, recorded 1000 -/
def jcB : JC :=
  { key := "ns/a"
    sched := { enabled := true, parseErr := false, exprs := [[990, 1000, 1010, 1020, 1030]],
               notBefore := none, notAfter := none, lastUpdated := none, specId := 0 }
    lastScheduled := some 1000 }

/-- server-set fields of the second Job -/
def metaA2 : JobMeta := { uid := "job-3", created := 1010, phase := "Queued" }
/-- `C15`'s ground-truth history: `a` observed; `b` created and deleted between two syncs -/
def histF33 (a b : JcStatus.Job) : List C15.WAct :=
  [.create a, .deliver, .sync, .sync, .create b, .delete b.name, .deliver, .deliver, .sync, .sync]
/-- the Job `NewJobFromJobConfig(cA, Scheduled, t)` builds (`C02`) … -/
def jobF33 (t : Int) : Option CronRec.Job := CronRec.newJobFromJobConfig 0 cA CronRec.typeScheduled t
/-- … as the JobConfig controller sees it (server-set fields `m`) -/
def jcJobF33 (t : Int) (m : JobMeta) : JcStatus.Job :=
  match jobF33 t with
  | some j => toJcJob j m
  | none => default
/-- the state `histF33` ends in, for the Jobs of 1000 and 1010 of `ns/a` -/
def worldF33 : C15.World :=
  C15.wRun { api := readA } (histF33 (jcJobF33 1000 metaA) (jcJobF33 1010 metaA2))
/-- the cron reconciler's side: the Job of 1010 is created, deleted, and — after the restart that
requests 1010 again — created a second time -/
def histTwice : List CronRec.Action :=
  [.request cA 1010, .deliver [cA] [], .process (keyA 1010) 1010 (fun _ => 0) (some 20) .none false,
   .delete cA.ns "a-1010".toList, .crash,
   .request cA 1010, .process (keyA 1010) 1026 (fun _ => 0) (some 20) .none false]

/-- the Job of `(cA, 1000)` is cached when the JobConfig controller syncs: listed, read back as
1000, recorded; the Job is then deleted and a sync with a stale JobConfig version runs (conflict):
still 1000; a restart at 1025.5 s that reads 1000 requests 1010 and 1020 only. -/
example : ∃ j, CronRec.newJobFromJobConfig 0 cA CronRec.typeScheduled 1000 = some j ∧
    InInt64 1000 ∧ sysA.WF ∧ sysA.versions[0]? = some readA ∧
    readA.ns = String.ofList cA.ns ∧ readA.uid = String.ofList cA.uid ∧
    toJcJob j metaA ∈ JcStatus.listJobs [toJcJob j metaA] readA ∧
    (toJcJob j metaA).schedAnn = some "1000" ∧ (toJcJob j metaA).name = "a-1000" ∧
    (stepSys true sysA (.sync 0 [toJcJob j metaA])).api.status.lastScheduled = some 1000 ∧
    (runSys true (stepSys true sysA (.sync 0 [toJcJob j metaA])) [.sync 1 []]).api.status.lastScheduled
      = jcB.lastScheduled ∧
    schedNew [jcB] 0 300 1025500000000 = some (Heap.new [("ns/a", 1010)]) ∧
    (runTicks 5 1000 10 ⟨Heap.new [("ns/a", 1010)], [jcB].map (fun jc => (jc.key, jc)), []⟩
      [1026000000000]).2 = ([[("ns/a", 1010), ("ns/a", 1020)]], true) := by
  refine ⟨_, rfl, by decide, ?_, rfl, by decide, by decide, by decide, by decide, by decide, by decide,
    by decide, rfl, by decide⟩
  intro v hv
  simp only [sysA, List.mem_singleton] at hv
  subst hv
  exact ⟨Nat.le_refl _, fun _ => rfl⟩

/-- **F33 (known finding), composed: a scheduled Job that was never observed is requested again.**

`ns/a` matches every 10 s.  The cron reconciler builds the Jobs of 1000 and 1010
(`NewJobFromJobConfig`, `C02`).  In the ground-truth history model of `C15` (`World`): the Job of
1000 is created, delivered and counted; the Job of 1010 is created and deleted (user, or TTL after
finishing quickly) and both events reach the Job cache while the JobConfig's key waits for a
worker; the sync lists the Job of 1000 only.  With every event delivered and the queue empty,
`status.lastScheduled` is 1000 although a Job with schedule time 1010 existed.  A restart at
1025.5 s loads that value (`jcB`) and its first tick requests 1010 AGAIN (and 1020); the cron
reconciler finds no Job `a-1010` on the server and creates it a second time (`histTwice`: create,
delete, crash, request, create) — at most one exists at a time (`C02.at_most_one`), but the Job of
1010 runs twice.  Replayed on the real controllers by the `system` scenario
`f33-job-never-observed-rerequested-after-restart`. -/
theorem unobserved_job_rerequested_witness :
    ((jobF33 1000).isSome = true ∧ (jobF33 1010).isSome = true ∧
      (jcJobF33 1010 metaA2).schedAnn = some "1010" ∧ (jcJobF33 1010 metaA2).name = "a-1010" ∧
      worldF33.quiet = true ∧ jcJobF33 1010 metaA2 ∈ worldF33.ever ∧
      worldF33.jobs.map (·.name) = ["a-1000"] ∧
      worldF33.api.status.lastScheduled = jcB.lastScheduled ∧ jcB.lastScheduled = some 1000) ∧
    schedNew [jcB] 0 300 1025500000000 = some (Heap.new [("ns/a", 1010)]) ∧
    ((runTicks 5 1000 10 ⟨Heap.new [("ns/a", 1010)], [jcB].map (fun jc => (jc.key, jc)), []⟩
        [1026000000000]).2 = ([[("ns/a", 1010), ("ns/a", 1020)]], true) ∧
      ((CronRec.runActs {} (histTwice.take 3)).api.map (·.name)) = ["a-1010".toList] ∧
      ((CronRec.runActs {} (histTwice.take 4)).api.map (·.name)) = [] ∧
      ((CronRec.runActs {} histTwice).api.map (fun j => (j.name, j.schedAnnot))) =
        [("a-1010".toList, some "1010".toList)]) :=
  ⟨by decide +kernel, rfl, by decide +kernel⟩

end Counted

/-! ## 4. C05 × C15 (× C10/C11): one notion of "active" -/

section Active
open Furiko Furiko.Compose

/-- **started_job_counts_against_limit.**  `q`, `r`, `rj` are the queue model's, the
JobConfig-status model's and the job-status model's view of ONE Job object (*bridge*: `SameJob q r`
— same uid label, same `status.startTime`, `q.terminal` is `IsTerminal` of the phase — and `rj`
has the same start time set / unset and the same phase).  All three models regenerate the
terminal-phase table from `Facts.terminalPhases`.  Then the three `IsStarted`, `IsActive` and
`IsQueued` coincide; in particular a Job with `startTime` set and a non-terminal phase is active
for the store that enforces `maxConcurrency` (C05), for `status.active` of the JobConfig (C15) and
for the job controller. -/
theorem started_job_counts_against_limit
    (q : Queue.JobV) (r : JcStatus.Job) (rj : Job) (hqr : SameJob q r)
    (hstart : rj.status.startTime.isSome = q.startTime.isSome) (hphase : rj.status.phase = r.phase) :
    (q.isActive = JcStatus.isActive r ∧ q.isActive = isActive rj) ∧
    (q.isQueued = JcStatus.isQueued r ∧ q.isQueued = isQueued rj) ∧
    (q.startTime.isSome = true → JcStatus.isTerminal r.phase = false →
      q.isActive = true ∧ JcStatus.isActive r = true ∧ isActive rj = true) := by
  have h1 : isActive rj = q.isActive := by
    unfold isActive isStarted phaseIsTerminal Queue.JobV.isActive Queue.JobV.isStarted
    rw [hstart, hphase, hqr.terminal]; rfl
  have h2 : isQueued rj = q.isQueued := by
    unfold isQueued isStarted phaseIsTerminal Queue.JobV.isQueued Queue.JobV.isStarted
    rw [hstart, hphase, hqr.terminal]; rfl
  refine ⟨⟨hqr.isActive.symm, h1.symm⟩, ⟨hqr.isQueued.symm, h2.symm⟩, fun hs ht => ?_⟩
  have : q.isActive = true := by
    simp [Queue.JobV.isActive, Queue.JobV.isStarted, hs, hqr.terminal, ht]
  exact ⟨this, by rw [hqr.isActive]; exact this, by rw [h1]; exact this⟩

/-- the hypothesis "not the pointer-to-zero-time" of the bridge cannot be dropped: the
JobConfig-status model keeps Go's distinction between a nil `*metav1.Time` and a pointer to the
zero time (`IsStarted = !StartTime.IsZero()` is false for both), the queue model's `startTime` is
"set" as soon as it is `some` -/
example :
    let q : Queue.JobV :=
      { name := "a", label := some "u", ownerName := none, ownerUid := none, created := 0,
        hasPolicy := false, policy := 0, startAfter := none, startTime := some JcStatus.zeroUnix,
        terminal := false, admErr := false, rv := 0 }
    let r : JcStatus.Job :=
      { ns := "ns", name := "a", uid := "x", created := 0, labelUid := some "u", owner := none,
        startTime := some JcStatus.zeroUnix, phase := "Queued", deletion := none, schedAnn := none }
    r.labelUid = q.label ∧ r.startTime = q.startTime ∧ q.terminal = JcStatus.isTerminal r.phase ∧
    q.isActive = true ∧ JcStatus.isActive r = false := by decide

/-- … and over a whole population: if the JobConfig controller's Job cache `cache` holds exactly the
authoritative Jobs `qs.jobs` of the queue model (pairwise the same objects, all in the JobConfig's
namespace — cache = server, as at quiescence), then `status.active` computed by `SyncOne` equals the
queue model's ground truth `trueActive` for the JobConfig's uid; and if moreover the queue
model's state is reachable and quiescent (no undelivered Job event, store handler idle), it
equals the counter that `CheckAndAdd` compares with `maxConcurrency`
(`C05.quiescent_exact` ∘ `C15.counts_match`). -/
theorem status_active_is_counted (qs : Queue.Sys) (jc : JcStatus.JobConfig)
    (views : List (Queue.JobV × JcStatus.Job))
    (hq : qs.jobs = views.map (·.1)) (cache : List JcStatus.Job) (hc : cache = views.map (·.2))
    (hviews : ∀ p ∈ views, SameJob p.1 p.2 ∧ p.2.ns = jc.ns) :
    (JcStatus.computeStatus jc (JcStatus.listJobs cache jc)).active = (Queue.trueActive qs jc.uid : Int) ∧
    (Queue.Reachable qs → qs.jobEvs = [] → qs.storeQ = [] →
      (JcStatus.computeStatus jc (JcStatus.listJobs cache jc)).active = Queue.getCtr qs.counter jc.uid) := by
  have h1 : (JcStatus.computeStatus jc (JcStatus.listJobs cache jc)).active
      = (Queue.trueActive qs jc.uid : Int) := by
    rw [(C15.counts_match jc (JcStatus.listJobs cache jc)).2.2.1, hc,
      active_count_agree jc views hviews, Queue.trueActive_eq, hq]
  refine ⟨h1, fun hr hev hsq => ?_⟩
  rw [h1, C05.quiescent_exact hr hev hsq jc.uid]

open Furiko.Props.C05 Furiko.Queue in
/-- non-vacuity: `C05`'s quiescent state `sQuiet` (JobConfig `c`, uid `u`, limit 1, Job `a` started
and everything delivered) seen by the JobConfig controller: one active Job, counter 1 -/
example :
    let r : JcStatus.Job :=
      { ns := "ns", name := "a", uid := "x", created := 0, labelUid := some "u", owner := none,
        startTime := some 0, phase := "Running", deletion := none, schedAnn := none }
    let jc : JcStatus.JobConfig := { ns := "ns", name := "c", uid := "u" }
    Reachable sQuiet ∧ sQuiet.jobEvs = [] ∧ sQuiet.storeQ = [] ∧
    (∃ q, sQuiet.jobs = [q] ∧ r.labelUid = q.label ∧ r.startTime = q.startTime ∧
      q.startTime ≠ some JcStatus.zeroUnix ∧ q.terminal = JcStatus.isTerminal r.phase) ∧
    (JcStatus.computeStatus jc (JcStatus.listJobs [r] jc)).active = 1 ∧
    getCtr sQuiet.counter "u" = 1 :=
  ⟨sQuiet_reachable, by decide, by decide, ⟨_, rfl, by decide, by decide, by decide, by decide⟩,
    by decide, by decide⟩

end Active

end Furiko.Props.Compose
