/-
C05  "A Job whose start policy is Forbid or Enqueue is never started at a moment when its JobConfig
already has maxConcurrency Jobs that are started and not finished. This holds across lagging
caches, failed or conflicting API writes, Job deletions and controller restarts."

Model: `Model/Queue.lean`.  Envelope, reachability and the invariant: `Proofs/QueueEnv.lean`
(`Act`, `step`, `Allowed`, `Reachable`, `Inv`).  `Reachable` starts from ANY state whose API part is
sane (`ApiOK`) by a `restart`, in particular from the empty system (`reachable_init`), and is closed
under the allowed actions.
-/
import FurikoModel.Proofs.QueueReach

namespace Furiko.Props.C05
open Furiko.Queue Furiko.WQ

/-! ### concrete data used by the examples -/

def jcC : JCV := { name := "c", uid := "u", maxConc := 1, rv := 0 }

/-- a Job of JobConfig `c` (`owned`), with/without the uid label, policy `pol`, `startAfter` -/
def mkJob (n : String) (owned label : Bool) (pol : Nat) (sa : Option Int) : JobV :=
  { name := n, label := if label then some "u" else none, ownerName := if owned then some "c" else none, ownerUid := if owned then some "u" else none, created := 0, hasPolicy := true, policy := pol, startAfter := sa, startTime := none, terminal := false, admErr := false, rv := 0 }

/-- deliver one watch event and run both handlers -/
def flush : List Act := [.deliverJob, .notifyStore, .notifyCtrl]

/-- JobConfig `c` (limit 1) and a Forbid Job `a`, everything delivered, `a` not yet started -/
def hist1 : List Act := [.addJC jcC, .deliverJC, .addJob (mkJob "a" true true 1 none)] ++ flush
def sQueued : Sys := runActs {} hist1
/-- … after the pass that starts `a`: the start event is still undelivered -/
def sStarted : Sys := runActs {} (hist1 ++ [.workConfig])
/-- … after the start event went through the whole pipeline -/
def sQuiet : Sys := runActs {} (hist1 ++ [.workConfig] ++ flush)

theorem sQueued_reachable : Reachable sQueued := reachable_runB _ (by decide)
theorem sStarted_reachable : Reachable sStarted := reachable_runB _ (by decide)
theorem sQuiet_reachable : Reachable sQuiet := reachable_runB _ (by decide)

/-! ### (a) local lemmas, every input -/

/-- `startJob`: success ⇒ the counter was `oldCount` and is `oldCount + 1`; failure ⇒ every counter
is unchanged overall; CAS failure ⇒ the state is untouched (no API call); other keys are never
touched. -/
theorem startJob_counter (s : Sys) (jc : JCV) (j : JobV) (old : Int) :
    ((startJob s jc j old).2 = true →
        getCtr s.counter jc.uid = old ∧ getCtr (startJob s jc j old).1.counter jc.uid = old + 1) ∧
    ((startJob s jc j old).2 = false →
        ∀ k, getCtr (startJob s jc j old).1.counter k = getCtr s.counter k) ∧
    (getCtr s.counter jc.uid ≠ old → startJob s jc j old = (s, false)) ∧
    (∀ k, k ≠ jc.uid → getCtr (startJob s jc j old).1.counter k = getCtr s.counter k) :=
  Furiko.Queue.startJob_counter s jc j old

example : (startJob sQueued jcC (mkJob "a" true true 1 none) 0).2 = false := by decide  -- stale rv
example : (startJob sQueued jcC { mkJob "a" true true 1 none with rv := 2 } 0).2 = true := by decide
example : (startJob sQueued jcC { mkJob "a" true true 1 none with rv := 2 } 5).1.calls = [] := by
  decide  -- CAS failure: no API call

/-- `Store.OnUpdate` / `OnDelete` / add change the counter of `old.label` by exactly `noteDelta`
(`updDelta_spec`: −1 active→inactive, 0 unstarted→started, +1 any other inactive→active, 0
otherwise; −1 for deleting an active Job) and touch no other key. -/
theorem store_delta (c : List (String × Int)) (n : Note) (k : String) :
    getCtr (storeNotify c n) k = getCtr c k + noteDelta n k :=
  Furiko.Queue.store_delta c n k

theorem store_delta_spec (old new : JobV) :
    updDelta old new =
      if old.isActive = true ∧ new.isActive = false then -1
      else if old.isStarted = false ∧ new.isStarted = true then 0
      else if old.isActive = false ∧ new.isActive = true then 1
      else 0 :=
  updDelta_spec old new

theorem store_delta_other (c : List (String × Int)) (n : Note) (k : String)
    (h : match n with
      | .add _ => True | .update o _ => o.label ≠ some k | .delete j => j.label ≠ some k) :
    getCtr (storeNotify c n) k = getCtr c k :=
  Furiko.Queue.store_delta_other c n k h

example : getCtr (storeNotify [("u", 1)] (.update (mkJob "a" true true 1 none) (mkJob "b" true true 1 none))) "v"
    = getCtr [("u", 1)] "v" := store_delta_other _ _ _ (by decide)

/-- `Store.Recover` counts exactly the active labelled Jobs -/
theorem recover_counts (jobs : List JobV) (uid : String) :
    getCtr (storeRecover jobs) uid = (jobs.filter (fun j => j.label = some uid && j.isActive)).length :=
  Furiko.Queue.recover_counts jobs uid

/-! ### (b) the global invariant and `counter_upper` -/

/-- every reachable state satisfies the invariant `Inv` (pipeline consistency, counter equation
`counter + Σ pending deltas = trueActive`, pending deltas never positive, (name, rv) identifies a
version, specs are immutable, independent-queue keys name unlabelled Jobs, faults in the envelope) -/
theorem reachable_inv {s : Sys} (h : Reachable s) : Inv s := h.inv

/-- the counter never undercounts: key safety fact -/
theorem counter_upper {s : Sys} (h : Reachable s) (uid : String) :
    (trueActive s uid : Int) ≤ getCtr s.counter uid := h.counter_upper uid

example : Reachable sStarted ∧ sStarted.jobEvs.length = 1 ∧ trueActive sStarted "u" = 1 ∧
    getCtr sStarted.counter "u" = 1 := ⟨sStarted_reachable, by decide, by decide, by decide⟩

/-! ### (c) `never_over_limit` -/

/-- erasure: the instrumented pass is the pass -/
theorem obs_erasure (s : Sys) : (workConfigObs s).1 = workConfig s := workConfigObs_fst s

theorem obs_erasure_loop (jc : JCV) (rjs : List JobV) (s : Sys) (ac : Int) :
    (passLoopObs jc rjs s ac).1 = passLoop jc rjs s ac := passLoopObs_fst jc rjs s ac

/-- In every reachable state, every start write applied by a per-config pass for a Job with policy
Forbid (1) or Enqueue (2) happens when the number of started-and-unfinished Jobs with the
JobConfig's uid label, in the authoritative state just before the write, is below `maxConc`. -/
theorem never_over_limit {s : Sys} (h : Reachable s) :
    ∀ o ∈ (workConfigObs s).2, o.job.hasPolicy = true → (o.job.policy = 1 ∨ o.job.policy = 2) →
      (o.activeBefore : Int) + 1 ≤ o.maxConc := h.never_over_limit

/-- the started Job carries the label whose counter was used -/
theorem obs_label {s : Sys} (h : Reachable s) :
    ∀ o ∈ (workConfigObs s).2, o.job.label = some o.uid := h.obs_label

example : Reachable sQueued ∧
    (workConfigObs sQueued).2.map (fun o => (o.job.name, o.job.policy, o.activeBefore, o.maxConc))
      = [("a", 1, 0, 1)] := ⟨sQueued_reachable, by decide⟩

/-- the other start path: in a reachable state the independent reconciler only starts Jobs without
the uid label, so it never changes the number of active Jobs of any JobConfig -/
theorem independent_never_counts {s : Sys} (h : Reachable s) (uid : String) :
    trueActive (workIndependent s).1 uid = trueActive s uid := h.independent_trueActive uid

/-- an independent Job `y` is delivered and started by the independent reconciler -/
def histInd : List Act := hist1 ++ [.addJob (mkJob "y" false false 0 none)] ++ flush

example : Reachable (runActs {} histInd) ∧
    (workIndependent (runActs {} histInd)).1.calls.map (fun c => (c.verb, c.job, c.res))
      = [("start", "y", "ok")] := ⟨reachable_runB _ (by decide), by decide⟩

/-! ### (d) `quiescent_exact` -/

theorem quiescent_exact {s : Sys} (h : Reachable s) (hev : s.jobEvs = []) (hsq : s.storeQ = [])
    (uid : String) : getCtr s.counter uid = trueActive s uid := h.quiescent_exact hev hsq uid

example : Reachable sQuiet ∧ sQuiet.jobEvs = [] ∧ sQuiet.storeQ = [] ∧ trueActive sQuiet "u" = 1 :=
  ⟨sQuiet_reachable, by decide, by decide, by decide⟩

/-! ### (e) `restart_recounts` -/

/-- from ANY state (even a corrupted one) the recount after `restart` is exact -/
theorem restart_recounts (s : Sys) (uid : String) :
    getCtr (restart s).counter uid = trueActive s uid ∧
    trueActive (restart s) uid = trueActive s uid := Furiko.Queue.restart_recounts s uid

/-- from ANY state whose API part is sane (unique names, rv bounded, well-formed Jobs; caches,
queues, counter arbitrarily corrupted) `restart` re-establishes the invariant; the result is a
reachable state -/
theorem restart_reestablishes {s : Sys} (h : ApiOK s) : Inv (restart s) ∧ Reachable (restart s) :=
  Furiko.Queue.restart_reestablishes h

/-- a corrupted state: counter garbage, stale cache, junk notifications -/
def sCorrupt : Sys :=
  { sQuiet with counter := [("u", -7), ("zz", 3)], jobCache := [], storeQ := [.delete (mkJob "q" true true 1 none)] }

example : getCtr sCorrupt.counter "u" = -7 ∧ getCtr (restart sCorrupt).counter "u" = 1 := by decide
example : ApiOK sCorrupt := by
  refine ⟨by decide, ?_, ?_⟩
  · intro j hj
    have : j ∈ sQuiet.jobs := hj
    exact sQuiet_reachable.inv.verRv j (Or.inl this)
  · intro j hj
    have : j ∈ sQuiet.jobs := hj
    exact sQuiet_reachable.inv.verWf j (Or.inl this)

/-! ### (f) outside the envelope: the counter undercounts and a Forbid/Enqueue Job starts over the limit -/

/-- E-OwnerLabel violated: Job `x` carries the uid label but has no owner reference, so the
independent reconciler starts it without the compare-and-swap.  After everything is delivered the
counter says 0 while one Job is active; the Forbid Job `b` is then started over the limit. -/
def histLabel : List Act :=
  [.addJC jcC, .deliverJC, .addJob (mkJob "x" false true 1 none)] ++ flush ++ [.workIndependent] ++ flush ++
  [.addJob (mkJob "b" true true 1 none)] ++ flush

theorem undercount_witness_label :
    let s := runActs {} histLabel
    allowedAllB {} histLabel = false ∧                      -- outside the envelope
    s.jobEvs = [] ∧ s.storeQ = [] ∧                         -- quiescent
    getCtr s.counter "u" = 0 ∧ trueActive s "u" = 1 ∧        -- undercount
    (workConfigObs s).2.map (fun o => (o.job.name, o.job.policy, o.activeBefore, o.maxConc))
      = [("b", 1, 1, 1)] ∧                                  -- Forbid Job started with 1 active, limit 1
    trueActive (workConfig s).1 "u" = 2 := by decide

/-- E-ErrNotApplied violated: the start write of `a` is applied but reported as failed; the
rollback makes the counter 0 while `a` is active; the Forbid Job `b` is then started over the
limit. -/
def histApplied : List Act :=
  [.addJC jcC, .deliverJC, .addJob (mkJob "a" true true 1 none)] ++ flush ++ [.fault "applied-err", .workConfig] ++ flush ++
  [.addJob (mkJob "b" true true 1 none)] ++ flush

theorem undercount_witness_applied_error :
    let s := runActs {} histApplied
    allowedAllB {} histApplied = false ∧
    s.jobEvs = [] ∧ s.storeQ = [] ∧
    getCtr s.counter "u" = 0 ∧ trueActive s "u" = 1 ∧
    (workConfigObs s).2.map (fun o => (o.job.name, o.job.policy, o.activeBefore, o.maxConc))
      = [("b", 1, 1, 1)] ∧
    trueActive (workConfig s).1 "u" = 2 := by decide

/-- E-FreshName violated: the independent Job `x` (startAfter = 1000 s) leaves a delayed key in the
independent queue; `x` is deleted and an Enqueue Job of JobConfig `c` is created under the same
name while `c` is at its limit.  When the timer fires the independent reconciler starts the new
`x` without consulting the counter: 2 active Jobs, limit 1. -/
def histReuse : List Act :=
  [.addJC jcC, .deliverJC, .addJob (mkJob "a" true true 2 none)] ++ flush ++ [.workConfig] ++ flush ++
  [.addJob (mkJob "x" false false 0 (some 1000))] ++ flush ++ [.workIndependent, .removeJob "x"] ++ flush ++
  [.workIndependent, .addJob (mkJob "x" true true 2 none)] ++ flush ++
  [.workConfig, .tick 1000000000000, .workIndependent]

theorem undercount_witness_name_reuse :
    let s := runActs {} histReuse
    allowedAllB {} histReuse = false ∧
    allowedAllB {} (histReuse.take 20) = true ∧             -- everything before the re-creation is allowed
    freshNameB (runActs {} (histReuse.take 20)) "x" = false ∧
    s.calls.map (fun c => (c.verb, c.job, c.res)) = [("start", "x", "ok")] ∧
    getCtr s.counter "u" = 1 ∧ trueActive s "u" = 2 := by decide

end Furiko.Props.C05
