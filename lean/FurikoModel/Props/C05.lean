/-
C05  "A Job whose start policy is Forbid or Enqueue is never started at a moment when its JobConfig
already has maxConcurrency Jobs that are started and not finished. This holds across lagging
caches, failed or conflicting API writes, Job deletions and controller restarts."

Model: `Model/Queue.lean`.  Envelope, reachability and the invariant: `Proofs/QueueEnv.lean`
(`Act`, `step`, `Allowed`, `Reachable`, `Inv`).  `Reachable` starts from ANY state whose API part is
sane (`ApiOK`) by a `restart`, in particular from the empty system (`reachable_init`), and is closed
under the allowed actions.
-/
import FurikoModel.Proofs.QueueReach

namespace Furiko.Props.C05
open Furiko.Queue Furiko.WQ

/-! ### concrete data used by the examples -/

def jcC : JCV := { name := "c", uid := "u", maxConc := 1, rv := 0 }

/-- a Job of JobConfig `c` (`owned`), with/without the uid label, policy `pol`, `startAfter` -/
def mkJob (n : String) (owned label : Bool) (pol : Nat) (sa : Option Int) : JobV :=
  { name := n, label := if label then some "u" else none, ownerName := if owned then some "c" else none, ownerUid := if owned then some "u" else none, created := 0, hasPolicy := true, policy := pol, startAfter := sa, startTime := none, terminal := false, admErr := false, rv := 0 }

/-- deliver one watch event and run both handlers -/
def flush : List Act := [.deliverJob, .notifyStore, .notifyCtrl]

/-- JobConfig `c` (limit 1) and a Forbid Job `a`, everything delivered, `a` not yet started -/
def hist1 : List Act := [.addJC jcC, .deliverJC, .addJob (mkJob "a" true true 1 none)] ++ flush
def sQueued : Sys := runActs {} hist1
/-- … after the pass that starts `a`: the start event is still undelivered -/
def sStarted : Sys := runActs {} (hist1 ++ [.workConfig])
/-- … after the start event went through the whole pipeline -/
def sQuiet : Sys := runActs {} (hist1 ++ [.workConfig] ++ flush)

theorem sQueued_reachable : Reachable sQueued := reachable_runB _ (by decide)
theorem sStarted_reachable : Reachable sStarted := reachable_runB _ (by decide)
theorem sQuiet_reachable : Reachable sQuiet := reachable_runB _ (by decide)

/-! ### (a) local lemmas, every input -/

/-- `startJob`: success ⇒ the counter was `oldCount` and is `oldCount + 1`; failure ⇒ every counter
is unchanged overall; CAS failure ⇒ the state is untouched (no API call); other keys are never
touched. -/
theorem startJob_counter (s : Sys) (jc : JCV) (j : JobV) (old : Int) :
    ((startJob s jc j old).2 = true →
        getCtr s.counter jc.uid = old ∧ getCtr (startJob s jc j old).1.counter jc.uid = old + 1) ∧
    ((startJob s jc j old).2 = false →
        ∀ k, getCtr (startJob s jc j old).1.counter k = getCtr s.counter k) ∧
    (getCtr s.counter jc.uid ≠ old → startJob s jc j old = (s, false)) ∧
    (∀ k, k ≠ jc.uid → getCtr (startJob s jc j old).1.counter k = getCtr s.counter k) :=
  Furiko.Queue.startJob_counter s jc j old

example : (startJob sQueued jcC (mkJob "a" true true 1 none) 0).2 = false := by decide  -- stale rv
example : (startJob sQueued jcC { mkJob "a" true true 1 none with rv := 2 } 0).2 = true := by decide
example : (startJob sQueued jcC { mkJob "a" true true 1 none with rv := 2 } 5).1.calls = [] := by
  decide  -- CAS failure: no API call

/-- `Store.OnUpdate` / `OnDelete` / add change the counter of `old.label` by exactly `noteDelta`
(`updDelta_spec`: −1 active→inactive, 0 unstarted→started, +1 any other inactive→active, 0
otherwise; −1 for deleting an active Job) and touch no other key. -/
theorem store_delta (c : List (String × Int)) (n : Note) (k : String) :
    getCtr (storeNotify c n) k = getCtr c k + noteDelta n k :=
  Furiko.Queue.store_delta c n k

theorem store_delta_spec (old new : JobV) :
    updDelta old new =
      if old.isActive = true ∧ new.isActive = false then -1
      else if old.isStarted = false ∧ new.isStarted = true then 0
      else if old.isActive = false ∧ new.isActive = true then 1
      else 0 :=
  updDelta_spec old new

theorem store_delta_other (c : List (String × Int)) (n : Note) (k : String)
    (h : match n with
      | .add _ => True | .update o _ => o.label ≠ some k | .delete j => j.label ≠ some k) :
    getCtr (storeNotify c n) k = getCtr c k :=
  Furiko.Queue.store_delta_other c n k h

example : getCtr (storeNotify [("u", 1)] (.update (mkJob "a" true true 1 none) (mkJob "b" true true 1 none))) "v"
    = getCtr [("u", 1)] "v" := store_delta_other _ _ _ (by decide)

/-- `Store.Recover` counts exactly the active labelled Jobs -/
theorem recover_counts (jobs : List JobV) (uid : String) :
    getCtr (storeRecover jobs) uid = (jobs.filter (fun j => j.label = some uid && j.isActive)).length :=
  Furiko.Queue.recover_counts jobs uid

/-! ### (b) the global invariant and `counter_upper` -/

/-- every reachable state satisfies the invariant `Inv` (pipeline consistency, counter equation
`counter + Σ pending deltas = trueActive`, pending deltas never positive, (name, rv) identifies a
version, specs are immutable, independent-queue keys name unlabelled Jobs, faults in the envelope) -/
theorem reachable_inv {s : Sys} (h : Reachable s) : Inv s := h.inv

/-- the counter never undercounts: key safety fact -/
theorem counter_upper {s : Sys} (h : Reachable s) (uid : String) :
    (trueActive s uid : Int) ≤ getCtr s.counter uid := h.counter_upper uid

example : Reachable sStarted ∧ sStarted.jobEvs.length = 1 ∧ trueActive sStarted "u" = 1 ∧
    getCtr sStarted.counter "u" = 1 := ⟨sStarted_reachable, by decide, by decide, by decide⟩

/-! ### (c) `never_over_limit` -/

/-- erasure: the instrumented pass is the pass -/
theorem obs_erasure (s : Sys) : (workConfigObs s).1 = workConfig s := workConfigObs_fst s

theorem obs_erasure_loop (jc : JCV) (rjs : List JobV) (s : Sys) (ac : Int) :
    (passLoopObs jc rjs s ac).1 = passLoop jc rjs s ac := passLoopObs_fst jc rjs s ac

/-- In every reachable state, every start write applied by a per-config pass for a Job with policy
Forbid (1) or Enqueue (2) happens when the number of started-and-unfinished Jobs with the
JobConfig's uid label, in the authoritative state just before the write, is below `maxConc`. -/
theorem never_over_limit {s : Sys} (h : Reachable s) :
    ∀ o ∈ (workConfigObs s).2, o.job.hasPolicy = true → (o.job.policy = 1 ∨ o.job.policy = 2) →
      (o.activeBefore : Int) + 1 ≤ o.maxConc := h.never_over_limit

/-- the started Job carries the label whose counter was used -/
theorem obs_label {s : Sys} (h : Reachable s) :
    ∀ o ∈ (workConfigObs s).2, o.job.label = some o.uid := h.obs_label

example : Reachable sQueued ∧
    (workConfigObs sQueued).2.map (fun o => (o.job.name, o.job.policy, o.activeBefore, o.maxConc))
      = [("a", 1, 0, 1)] := ⟨sQueued_reachable, by decide⟩

/-- the other start path: in a reachable state the independent reconciler only starts Jobs without
the uid label, so it never changes the number of active Jobs of any JobConfig -/
theorem independent_never_counts {s : Sys} (h : Reachable s) (uid : String) :
    trueActive (workIndependent s).1 uid = trueActive s uid := h.independent_trueActive uid

/-- an independent Job `y` is delivered and started by the independent reconciler -/
def histInd : List Act := hist1 ++ [.addJob (mkJob "y" false false 0 none)] ++ flush

example : Reachable (runActs {} histInd) ∧
    (workIndependent (runActs {} histInd)).1.calls.map (fun c => (c.verb, c.job, c.res))
      = [("start", "y", "ok")] := ⟨reachable_runB _ (by decide), by decide⟩

/-! ### (d) `quiescent_exact` -/

theorem quiescent_exact {s : Sys} (h : Reachable s) (hev : s.jobEvs = []) (hsq : s.storeQ = [])
    (uid : String) : getCtr s.counter uid = trueActive s uid := h.quiescent_exact hev hsq uid

example : Reachable sQuiet ∧ sQuiet.jobEvs = [] ∧ sQuiet.storeQ = [] ∧ trueActive sQuiet "u" = 1 :=
  ⟨sQuiet_reachable, by decide, by decide, by decide⟩

/-! ### (e) `restart_recounts` -/

/-- from ANY state (even a corrupted one) the recount after `restart` is exact -/
theorem restart_recounts (s : Sys) (uid : String) :
    getCtr (restart s).counter uid = trueActive s uid ∧
    trueActive (restart s) uid = trueActive s uid := Furiko.Queue.restart_recounts s uid

/-- from ANY state whose API part is sane (unique names, rv bounded, well-formed Jobs; caches,
queues, counter arbitrarily corrupted) `restart` re-establishes the invariant; the result is a
reachable state -/
theorem restart_reestablishes {s : Sys} (h : ApiOK s) : Inv (restart s) ∧ Reachable (restart s) :=
  Furiko.Queue.restart_reestablishes h

/-- a corrupted state: counter garbage, stale cache, junk notifications -/
def sCorrupt : Sys :=
  { sQuiet with counter := [("u", -7), ("zz", 3)], jobCache := [], storeQ := [.delete (mkJob "q" true true 1 none)] }

example : getCtr sCorrupt.counter "u" = -7 ∧ getCtr (restart sCorrupt).counter "u" = 1 := by decide
example : ApiOK sCorrupt := by
  refine ⟨by decide, ?_, ?_⟩
  · intro j hj
    have : j ∈ sQuiet.jobs := hj
    exact sQuiet_reachable.inv.verRv j (Or.inl this)
  · intro j hj
    have : j ∈ sQuiet.jobs := hj
    exact sQuiet_reachable.inv.verWf j (Or.inl this)

/-! ### (f) outside the envelope: the counter undercounts and a Forbid/Enqueue Job starts over the limit -/

/-- E-OwnerLabel violated: Job `x` carries the uid label but has no owner reference, so the
independent reconciler starts it without the compare-and-swap.  After everything is delivered the
counter says 0 while one Job is active; the Forbid Job `b` is then started over the limit. -/
def histLabel : List Act :=
  [.addJC jcC, .deliverJC, .addJob (mkJob "x" false true 1 none)] ++ flush ++ [.workIndependent] ++ flush ++
  [.addJob (mkJob "b" true true 1 none)] ++ flush

theorem undercount_witness_label :
    let s := runActs {} histLabel
    allowedAllB {} histLabel = false ∧                      -- outside the envelope
    s.jobEvs = [] ∧ s.storeQ = [] ∧                         -- quiescent
    getCtr s.counter "u" = 0 ∧ trueActive s "u" = 1 ∧        -- undercount
    (workConfigObs s).2.map (fun o => (o.job.name, o.job.policy, o.activeBefore, o.maxConc))
      = [("b", 1, 1, 1)] ∧                                  -- Forbid Job started with 1 active, limit 1
    trueActive (workConfig s).1 "u" = 2 := by decide

/-- E-ErrNotApplied violated: the start write of `a` is applied but reported as failed; the
rollback makes the counter 0 while `a` is active; the Forbid Job `b` is then started over the
limit. -/
def histApplied : List Act :=
  [.addJC jcC, .deliverJC, .addJob (mkJob "a" true true 1 none)] ++ flush ++ [.fault "applied-err", .workConfig] ++ flush ++
  [.addJob (mkJob "b" true true 1 none)] ++ flush

theorem undercount_witness_applied_error :
    let s := runActs {} histApplied
    allowedAllB {} histApplied = false ∧
    s.jobEvs = [] ∧ s.storeQ = [] ∧
    getCtr s.counter "u" = 0 ∧ trueActive s "u" = 1 ∧
    (workConfigObs s).2.map (fun o => (o.job.name, o.job.policy, o.activeBefore, o.maxConc))
      = [("b", 1, 1, 1)] ∧
    trueActive (workConfig s).1 "u" = 2 := by decide

/-- E-FreshName violated: the independent Job `x` (startAfter = 1000 s) leaves a delayed key in the
independent queue; `x` is deleted and an Enqueue Job of JobConfig `c` is created under the same
name while `c` is at its limit.  When the timer fires the independent reconciler starts the new
`x` without consulting the counter: 2 active Jobs, limit 1. -/
def histReuse : List Act :=
  [.addJC jcC, .deliverJC, .addJob (mkJob "a" true true 2 none)] ++ flush ++ [.workConfig] ++ flush ++
  [.addJob (mkJob "x" false false 0 (some 1000))] ++ flush ++ [.workIndependent, .removeJob "x"] ++ flush ++
  [.workIndependent, .addJob (mkJob "x" true true 2 none)] ++ flush ++
  [.workConfig, .tick 1000000000000, .workIndependent]

theorem undercount_witness_name_reuse :
    let s := runActs {} histReuse
    allowedAllB {} histReuse = false ∧
    allowedAllB {} (histReuse.take 20) = true ∧             -- everything before the re-creation is allowed
    freshNameB (runActs {} (histReuse.take 20)) "x" = false ∧
    s.calls.map (fun c => (c.verb, c.job, c.res)) = [("start", "x", "ok")] ∧
    getCtr s.counter "u" = 1 ∧ trueActive s "u" = 2 := by decide

/-! ### (g) known findings F26, F27, F28 (and F35): the witnesses that delimit the enveloped theorems

`never_over_limit`, `counter_upper` and `quiescent_exact` above are theorems about `Reachable`, whose
actions (`Proofs/QueueEnv.Act`, `Allowed`) fix three assumptions about the environment that C05's
text does not grant ("all restart points (the active count is rebuilt from the API); all patterns
of failed/conflicting start writes"):

* E-ErrNotApplied     `Allowed (.fault f) = okFault f`: a write reported as failed was not applied;
* E-FreshInitialList  `Act.restart` sets the caches to the server's CURRENT state;
* E-QuiescentRecover  `Act.restart` recounts atomically: nothing reaches the cache between the
                      registration of the store's handler and the lister read of `Store.Recover`.

Each witness below is the shortest history outside exactly one of them, evaluated on the executable
model by `decide`; the harness replays the same history on the real `Store`, `PerConfigReconciler`
and `JobControl` (corpus scenarios `f26-start-write-applied-but-reported-failed`,
`f27-recover-window-double-decrement`, `f28-stale-initial-list-undercounts` of the `queue` engine,
model and code agreeing line by line) and the monitor `never-over-limit` fires there.  They are
recorded in KNOWN_FINDINGS.jsonl; none is repaired (reasons there and in DESIGN.md §6 C05). -/

/-- an Enqueue Job of JobConfig `c` -/
def enq (n : String) : JobV := mkJob n true true 2 none

/-- JobConfig `c` (limit 1) and the Enqueue Job `j01`, everything delivered, `j01` queued -/
def histE : List Act := [.addJC jcC, .deliverJC, .addJob (enq "j01")] ++ flush

/-- F26: the start write of `j01` is applied but reported as failed (rollback); the start event
goes through the pipeline (the store does not count unstarted → started); `j02` is created and
delivered.  (The harness scenario also runs the rate-limited retry between the failed pass and the
delivery; its body is `syncConfig s1 "c"` below: Conflict on the cached copy, rolled back again.) -/
def histF26 : List Act :=
  histE ++ [.fault "applied-err", .workConfig] ++ flush ++ [.addJob (enq "j02")] ++ flush

/-- F26 (outside E-ErrNotApplied): the start write of `j01` is applied but reported as failed; the
rollback and the retry's Conflict leave the counter at 0 while `j01` is active, the informer's
unstarted → started is not counted, and the Enqueue Job `j02` is started with 1 active Job and
limit 1. -/
theorem f26_applied_but_reported_failed_witness :
    let s1 := runActs {} (histE ++ [.fault "applied-err", .workConfig])
    let s := runActs {} histF26
    allowedAllB {} histE = true ∧                            -- inside the envelope up to the fault
    allowedAllB {} histF26 = false ∧                         -- E-ErrNotApplied is the assumption left
    -- the write was applied, the pass failed, the reservation was rolled back
    s1.calls.map (fun c => (c.verb, c.job, c.res)) = [("start", "j01", "ok")] ∧
    trueActive s1 "u" = 1 ∧ getCtr s1.counter "u" = 0 ∧
    -- the retry submits the cached copy: Conflict (stale resourceVersion), rolled back again
    (syncConfig s1 "c").2 = false ∧
    (syncConfig s1 "c").1.calls.map (fun c => (c.verb, c.job, c.res))
      = [("start", "j01", "ok"), ("start", "j01", "conflict")] ∧
    getCtr (syncConfig s1 "c").1.counter "u" = 0 ∧
    -- quiescent, the counter is 0, one Job is active
    s.jobEvs = [] ∧ s.storeQ = [] ∧ getCtr s.counter "u" = 0 ∧ trueActive s "u" = 1 ∧
    -- the Enqueue Job j02 is started with 1 active Job and limit 1
    (workConfigObs s).2.map (fun o => (o.job.name, o.job.policy, o.activeBefore, o.maxConc))
      = [("j02", 2, 1, 1)] ∧
    trueActive (workConfig s).1 "u" = 2 := by decide

/-- the state just before the new process starts in F28: `j01` was started by the pass, its update
event has not been delivered to anybody -/
def histF28pre : List Act := histE ++ [.workConfig]

/-- F28: the process dies right after starting `j01`; the new process's initial LIST is the old
cache (`restartStale 0 0`: `j01` unstarted), the watch replays unstarted → started (ignored by the
store: "CheckAndAdd did it" — in the dead process), `j02` is created and delivered. -/
theorem f28_stale_initial_list_witness :
    let s0 := runActs {} histF28pre
    let s1 := restartStale s0 0 0
    let post : List Act := [.addJob (enq "j02")] ++ flush ++ flush
    let s := runActs s1 post
    allowedAllB {} histF28pre = true ∧                       -- `s0` is a reachable state
    allowedAllB s1 post = true ∧                             -- and so is every later action
    trueActive s0 "u" = 1 ∧ s0.jobEvs.length = 1 ∧
    getCtr (restart s0).counter "u" = 1 ∧                    -- a fresh LIST would count j01
    getCtr s1.counter "u" = 0 ∧ s1.jobEvs.length = 1 ∧       -- the stale LIST does not; the event is replayed
    s.jobEvs = [] ∧ s.storeQ = [] ∧ getCtr s.counter "u" = 0 ∧ trueActive s "u" = 1 ∧
    (workConfigObs s).2.map (fun o => (o.job.name, o.job.policy, o.activeBefore, o.maxConc))
      = [("j02", 2, 1, 1)] ∧
    trueActive (workConfig s).1 "u" = 2 := by decide

/-- the state just before the new process starts in F27: `j01` is active, everything has been
delivered, and the previous leader's last write has just finished `j01` (event undelivered) -/
def histF27pre : List Act := histE ++ [.workConfig] ++ flush ++ [.finishJob "j01"]

/-- … or a user has just removed the active `j01` (it carries no finalizer) -/
def histF27preDel : List Act := histE ++ [.workConfig] ++ flush ++ [.removeJob "j01"]

/-- F27: the new process's initial LIST is older than that write (`j01` active), the store's
handler registers, the watch delivers the write inside `Recover`'s window (`restartStaleWin 0 0 1`),
then `Recover` reads the lister: `j01` is not counted AND is decremented by its notification.
Counter −1; `j02` and `j03` both start with limit 1.  Same for the removal. -/
theorem f27_recover_window_witness :
    let post : List Act :=
      [.notifyStore, .addJob (enq "j02")] ++ flush ++ [.addJob (enq "j03")] ++ flush
    (∀ pre ∈ [histF27pre, histF27preDel],
      let s0 := runActs {} pre
      let s1 := restartStaleWin s0 0 0 1
      let s := runActs s1 post
      allowedAllB {} pre = true ∧ allowedAllB s1 post = true ∧
      getCtr s0.counter "u" = 1 ∧ s0.jobEvs.length = 1 ∧
      -- atomic Recover on the same stale LIST is right (the event then arrives as a notification
      -- for a Job that WAS counted), and so is a fresh LIST
      getCtr (runActs (restartStale s0 0 0) [.deliverJob, .notifyStore]).counter "u" = 0 ∧
      getCtr (restart s0).counter "u" = 0 ∧
      -- the window: not counted by the list, notification pending
      getCtr s1.counter "u" = 0 ∧ s1.storeQ.length = 1 ∧ s1.ctrlQ = [] ∧ s1.jobEvs = [] ∧
      getCtr (notifyStore s1).counter "u" = -1 ∧ trueActive s1 "u" = 0 ∧
      -- both Enqueue Jobs are started in one pass, the second one with 1 active Job and limit 1
      s.jobEvs = [] ∧ s.storeQ = [] ∧ getCtr s.counter "u" = -1 ∧
      (workConfigObs s).2.map (fun o => (o.job.name, o.job.policy, o.activeBefore, o.maxConc))
        = [("j02", 2, 0, 1), ("j03", 2, 1, 1)] ∧
      trueActive (workConfig s).1 "u" = 2) := by decide

/-- inside E-FreshInitialList ∧ E-QuiescentRecover (`kj` = all undelivered Job events, `w = 0`) the
new process start IS `restart` on everything that concerns Jobs, in every state whose pipeline is
consistent (`Inv.pipe`, in particular every reachable state); the two JobConfig fields are the only
difference (the model keeps no pipeline invariant for JobConfigs). -/
theorem restartStaleWin_fresh_jobs (s : Sys) (h : applyEvs s.jobCache s.jobEvs = s.jobs) (kc : Nat) :
    restartStaleWin s s.jobEvs.length kc 0 =
      { restart s with jcEvs := s.jcEvs.drop kc,
                       jcCache := (s.jcEvs.take kc).foldl cacheApplyJC s.jcCache } := by
  have hc : cacheApplyJob = applyEv := by
    funext c e; cases e <;> rfl
  have h' : List.foldl cacheApplyJob s.jobCache s.jobEvs = s.jobs := by rw [hc]; exact h
  simp [restartStaleWin, restart, iterN, h']

/-- … hence the recount of such a start is exact in every reachable state (the analogue of
`restart_recounts` for the extended start, inside E-FreshInitialList ∧ E-QuiescentRecover) -/
theorem restartStaleWin_fresh_recounts {s : Sys} (hr : Reachable s) (kc : Nat) (uid : String) :
    getCtr (restartStaleWin s s.jobEvs.length kc 0).counter uid = trueActive s uid := by
  rw [restartStaleWin_fresh_jobs s hr.inv.pipe kc]
  exact (Furiko.Queue.restart_recounts s uid).1

example : Reachable (runActs {} histF28pre) ∧
    getCtr (restartStaleWin (runActs {} histF28pre) 1 0 0).counter "u" = 1 :=
  ⟨reachable_runB _ (by decide), by decide⟩

/-! ### (h) relist after a watch failure (`relist`, ops `q.outage` / `q.relist`) -/

/-- JobConfigs `c` (uid `u`) and `d` (uid `v`), both limit 1 -/
def jcD : JCV := { name := "d", uid := "v", maxConc := 1, rv := 0 }
def enqD (n : String) : JobV :=
  { enq n with label := some "v", ownerName := some "d", ownerUid := some "v" }

/-- `j01` of `c` and `j02` of `d` are running, everything delivered -/
def histTwo : List Act :=
  [.addJC jcC, .addJC jcD, .deliverJC, .deliverJC, .addJob (enq "j01")] ++ flush ++
  [.addJob (enqD "j02")] ++ flush ++ [.workConfig, .workConfig] ++ flush ++ flush

/-- The relist pairs cached and listed objects BY NAME: while the watch is down `j01` (active, of
`c`) is removed and a new, queued `j01` is created for `d`.  The store is handed
`OnUpdate(old = j01 of c, new = j01 of d)` and releases the slot of the OLD object's JobConfig: the
counters end at c = 0, d = 1 and nothing of `d` may start.  (Seeded changes C05w3-2 / C07w3-1 read
the key from the new object: d = 0 with `j02` active.  Corpus scenario
`relist-pairs-recreated-job-of-other-jobconfig`.) -/
theorem relist_pairs_by_name_releases_old_jobconfig :
    let s0 := runActs {} histTwo
    let s1 := runActs s0 [.removeJob "j01", .addJob (enqD "j01")]    -- inside the outage: nothing delivered
    let s2 := relist s1
    let s := runActs s2 [.notifyStore, .notifyCtrl]
    allowedAllB {} histTwo = true ∧
    getCtr s0.counter "u" = 1 ∧ getCtr s0.counter "v" = 1 ∧
    s2.jobEvs = [] ∧ s2.jobCache = s1.jobs ∧
    s2.storeQ.map (fun n => match n with
      | .update o n => (o.name, o.label, o.isActive, n.label, n.isActive)
      | _ => ("", none, false, none, false)) = [("j01", some "u", true, some "v", false)] ∧
    getCtr s.counter "u" = 0 ∧ getCtr s.counter "v" = 1 ∧
    trueActive s "u" = 0 ∧ trueActive s "v" = 1 ∧
    (workConfigObs s).2 = [] := by decide

/-- F35 (outside E-FinalizerPresent): the watch is down when the pass starts `j01`, so the cache keeps
the unstarted copy; a user removes `j01` (no finalizer) inside the outage; the relist sends the
tombstone with the last CACHED state (unstarted) and `Store.OnDelete` does not release the slot
`CheckAndAdd` reserved.  Counter 1 with no active Job: the Enqueue Job `j02` waits for ever. -/
theorem f35_relist_leak_witness :
    let s0 := runActs {} (histE ++ [.workConfig, .removeJob "j01", .addJob (enq "j02")])
    let s1 := relist s0
    let s := runActs s1 [.notifyStore, .notifyCtrl, .notifyStore, .notifyCtrl, .workConfig]
    allowedAllB {} (histE ++ [.workConfig, .removeJob "j01", .addJob (enq "j02")]) = true ∧
    s1.storeQ.map (fun n => match n with
      | .add j => ("add", j.name, j.isStarted)
      | .delete j => ("delete", j.name, j.isStarted)
      | .update _ j => ("update", j.name, j.isStarted)) = [("add", "j02", false), ("delete", "j01", false)] ∧
    s.jobEvs = [] ∧ s.storeQ = [] ∧ s.calls = [] ∧           -- quiescent; the pass started nothing
    getCtr s.counter "u" = 1 ∧ trueActive s "u" = 0 ∧          -- a slot is reserved for nobody
    (s.jobs.filter (·.isQueued)).map (·.name) = ["j02"] := by decide

end Furiko.Props.C05
