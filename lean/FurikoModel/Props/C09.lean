/-
C09 — "… after recovery the same task is adopted rather than a second one being created for that
attempt, and every task the Job ever created stays listed in its status with its last known
state …  An existing object that occupies a task's name but does not belong to the Job is never
adopted and makes the Job end in AdmissionError …; a task whose object still exists is never
recorded as lost."  Theorems over Model/JobCtl.lean (validated against the Go code by the
`jobctl` engine) and the pure layer (Model/Task.lean).
-/
import FurikoModel.Model.JobCtl

namespace Furiko.Props.C09
open Furiko Furiko.JobCtl

theorem nextFault_pods (s : Sys) : (nextFault s).2.pods = s.pods := by
  unfold nextFault popFault
  cases s.faults <;> rfl

/-- A create call that is answered `AlreadyExists` creates nothing: the set of pods on the
server is unchanged (name uniqueness: never a second object for one attempt). -/
theorem create_exists_creates_nothing (s s1 : Sys) (jo : JobObj) (idx : PIndex) (retry : Int)
    (h : apiCreatePod s jo idx retry = (s1, .exists)) : s1.pods = s.pods := by
  unfold apiCreatePod at h
  have hp := nextFault_pods s
  generalize nextFault s = r at h hp
  obtain ⟨f, s0⟩ := r
  simp only at h hp
  by_cases h1 : isFailFault f = true
  · simp [h1] at h
  · simp only [h1] at h
    by_cases h2 : (findPod s0.pods (taskName jo.name idx.hash retry)).isSome = true
    · simp only [h2, if_true, Bool.false_eq_true, if_false] at h
      obtain ⟨rfl, _⟩ := Prod.mk.inj h
      simpa [log] using hp
    · simp only [h2, Bool.false_eq_true, if_false] at h
      split at h <;> simp at h

/-- An object on the task's name that is NOT controlled by this Job is never adopted: the task
list is unchanged and the Job is marked with the admission error (so that it ends in
AdmissionError instead of retrying forever). -/
theorem foreign_not_adopted (s s1 : Sys) (jo : JobObj) (rj : Job) (tasks : List Task)
    (idx : PIndex) (retry : Int) (p : PodObj)
    (hc : apiCreatePod s jo idx retry = (s1, .exists))
    (hp : findPod s1.podCache (taskName jo.name idx.hash retry) = some p)
    (hown : p.ownerUid ≠ some jo.uid) :
    syncCreateTask s jo rj tasks idx retry = (s1, some ({ rj with admissionError := true }, tasks)) := by
  unfold syncCreateTask
  simp [hc, hp, hown]

/-- An existing task that IS controlled by this Job (created by an earlier pass that crashed or
failed before recording it) is adopted: it is appended to the task list, no admission error. -/
theorem adopt_not_duplicate (s s1 : Sys) (jo : JobObj) (rj : Job) (tasks : List Task)
    (idx : PIndex) (retry : Int) (p : PodObj) (t : Task)
    (hc : apiCreatePod s jo idx retry = (s1, .exists))
    (hp : findPod s1.podCache (taskName jo.name idx.hash retry) = some p)
    (hown : p.ownerUid = some jo.uid) (ht : podTask s.clock p = some t) :
    syncCreateTask s jo rj tasks idx retry = (s1, some (rj, tasks ++ [t])) ∧ s1.pods = s.pods := by
  refine ⟨?_, create_exists_creates_nothing s s1 jo idx retry hc⟩
  unfold syncCreateTask
  simp [hc, hp, hown, ht]

/-- If the existing object is not yet visible in the pod cache the pass fails (and is retried)
instead of guessing. -/
theorem exists_but_uncached_retries (s s1 : Sys) (jo : JobObj) (rj : Job) (tasks : List Task)
    (idx : PIndex) (retry : Int)
    (hc : apiCreatePod s jo idx retry = (s1, .exists))
    (hp : findPod s1.podCache (taskName jo.name idx.hash retry) = none) :
    syncCreateTask s jo rj tasks idx retry = (s1, none) := by
  unfold syncCreateTask
  simp [hc, hp]

/-- A task listed in the status that is not recorded finished and whose object — controlled by the
Job — still exists on the server is always found by the sync (cache, else live GET) — it is never
treated as lost.  Since the repair of F22 an object that is not controlled by the Job is not the
task; a cached object of that name that is NOT controlled by the Job is a cache miss (the live GET
finds the task), so the hypothesis on the pod cache only concerns cached pods of the Job. -/
theorem existing_task_never_lost (s : Sys) (jo : JobObj) (ref : TaskRef) (p : PodObj)
    (hfin : ref.finishTimestamp = none) (hp : findPod s.pods ref.name = some p)
    (hown : p.ownerUid = some jo.uid)
    (hcache : ∀ q, findPod s.podCache ref.name = some q → q.ownerUid = some jo.uid → (podTask s.clock q).isSome)
    (ht : (podTask s.clock p).isSome) :
    (getTaskForRef s jo ref).isSome := by
  unfold getTaskForRef liveGetTask isControlledByJob
  cases hc : findPod s.podCache ref.name with
  | some q =>
    by_cases hqo : q.ownerUid = some jo.uid
    · have hq := hcache q hc hqo
      cases hpt : podTask s.clock q with
      | none => rw [hpt] at hq; cases hq
      | some t => simp [hfin, hpt, hqo]
    · simpa [hqo, hfin, hp, hown] using ht
  | none => simpa [hc, hfin, hp, hown] using ht

/-- F22, one lookup: whatever `getTaskForRef` returns for a ref was read from a pod — of the pod
cache or of the server — that carries the ref's name AND is controlled by the Job.  An object that
is not controlled by the Job is never read as a task. -/
theorem read_task_is_owned (s : Sys) (jo : JobObj) (ref : TaskRef) (t : Task)
    (h : getTaskForRef s jo ref = some t) :
    ∃ p, (findPod s.podCache ref.name = some p ∨ findPod s.pods ref.name = some p) ∧
      p.ownerUid = some jo.uid ∧ podTask s.clock p = some t := by
  have live : ∀ t, liveGetTask s jo ref.name = some t →
      ∃ p, findPod s.pods ref.name = some p ∧ p.ownerUid = some jo.uid ∧ podTask s.clock p = some t := by
    intro t h
    unfold liveGetTask isControlledByJob at h
    cases hp : findPod s.pods ref.name with
    | none => simp [hp] at h
    | some p =>
      simp only [hp] at h
      by_cases ho : p.ownerUid = some jo.uid
      · simp only [ho, decide_true, Bool.not_true, Bool.false_eq_true, ↓reduceIte] at h
        exact ⟨p, rfl, ho, h⟩
      · simp [ho] at h
  unfold getTaskForRef isControlledByJob at h
  cases hc : findPod s.podCache ref.name with
  | none =>
    simp only [hc] at h
    split at h
    · cases h
    · obtain ⟨p, hp, ho, hpt⟩ := live t h
      exact ⟨p, Or.inr hp, ho, hpt⟩
  | some q =>
    simp only [hc] at h
    by_cases ho : q.ownerUid = some jo.uid
    · simp only [ho, decide_true, Bool.not_true, Bool.false_eq_true, ↓reduceIte] at h
      cases hq : podTask s.clock q with
      | none => simp [hq] at h
      | some t' =>
        simp only [hq] at h
        split at h
        · cases h; exact ⟨q, Or.inl rfl, ho, hq⟩
        · obtain ⟨p, hp, ho', hpt⟩ := live t h
          exact ⟨p, Or.inr hp, ho', hpt⟩
    · simp only [ho, decide_false, Bool.not_false, ↓reduceIte] at h
      split at h
      · cases h
      · obtain ⟨p, hp, ho', hpt⟩ := live t h
        exact ⟨p, Or.inr hp, ho', hpt⟩

/-- … and a cached object of the ref's name that is not controlled by the Job is a cache MISS: a
finished ref is gone, an unfinished one is looked up on the server; the object a live GET returns
is the task only if it is controlled by the Job. -/
theorem foreign_cached_is_cache_miss (s : Sys) (jo : JobObj) (ref : TaskRef) (q : PodObj)
    (hq : findPod s.podCache ref.name = some q) (hown : q.ownerUid ≠ some jo.uid) :
    getTaskForRef s jo ref = if ref.finishTimestamp.isSome then none else liveGetTask s jo ref.name := by
  unfold getTaskForRef isControlledByJob
  simp [hq, hown]

/-- … so a foreign object in the pod cache AND on the server (or nothing on the server) under the
ref's name means "task absent". -/
theorem foreign_means_absent (s : Sys) (jo : JobObj) (ref : TaskRef) (q : PodObj)
    (hq : findPod s.podCache ref.name = some q) (hown : q.ownerUid ≠ some jo.uid)
    (hsrv : ∀ p, findPod s.pods ref.name = some p → p.ownerUid ≠ some jo.uid) :
    getTaskForRef s jo ref = none := by
  rw [foreign_cached_is_cache_miss s jo ref q hq hown]
  split
  · rfl
  · unfold liveGetTask isControlledByJob
    cases hp : findPod s.pods ref.name with
    | none => rfl
    | some p => simp [hsrv p hp]

theorem foreign_live_means_absent (s : Sys) (jo : JobObj) (name : String) (q : PodObj)
    (hq : findPod s.pods name = some q) (hown : q.ownerUid ≠ some jo.uid) :
    liveGetTask s jo name = none := by
  unfold liveGetTask isControlledByJob
  simp [hq, hown]

example : ∃ s jo idx retry s1, apiCreatePod s jo idx retry = (s1, .exists) := by
  refine ⟨{ pods := [{ pod := { name := "job-h-0" } }] }, ⟨"job", "u", {}, true, 1⟩, { hash := "h" }, 0, _, rfl⟩

end Furiko.Props.C09
