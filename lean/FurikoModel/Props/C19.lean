/-
C19 — Dynamic configuration is layered field by field and degrades to last known good.

Theorems about `Model/Config.lean` (ConfigManager + DefaultsLoader/ConfigMapLoader/SecretLoader).
`decode` (mapstructure) is an arbitrary partial function throughout; the entry parser
(YAML/JSON/base64) is an arbitrary oracle (`Entry.2 = none` = parse error); `WF` = the keys of a
Go map are distinct.  All statements are for every number of layers / every operation sequence.
-/
import FurikoModel.Proofs.ConfigLemmas

namespace Furiko.Props.C19
open Furiko Furiko.Config

/-! ## ties to the source (regenerated facts) -/

/-- `SetUpConfigManager` registers defaults, then ConfigMap, then Secret (lowest priority first). -/
theorem loader_order_is_defaults_configmap_secret :
    loaderOrder = [LoaderId.defaults, LoaderId.configMap, LoaderId.secret] := by decide

/-- `loadConfig` calls mergo with exactly the option the model implements. -/
theorem merge_options_as_modelled : Facts.configMergeOptions = ["WithOverride"] := by decide

/-- `startInformer` registers Add and Update callbacks and no Delete callback. -/
theorem handlers_as_modelled :
    registered .add = true ∧ registered .update = true ∧ registered .delete = false := by decide

/-! ## field_priority -/

/-- Exact per-key characterisation of the layered merge, for any number of layers: the value
under `k` is obtained by folding, over the layers in priority order, "an unbound layer changes
nothing; a binding to `v` yields `mergeVal previous v`". -/
theorem field_priority_exact (layers : List CMap) (hw : ∀ l ∈ layers, WF l) (k : String) :
    lookup (mergeAll layers) k = layers.foldl (keyStep k) none :=
  lookup_foldl_mergeMap layers [] hw k

/-- **field_priority** (clause 1): for every key, the last layer (in priority order) that binds
it wins — whatever the value is, `null` and zero / false / empty (`empty = true`) included —
provided that value is not a JSON object (no config field is object-typed; see
`object_value_does_not_override` for why the proviso is needed). -/
theorem field_priority (pre post : List CMap) (l : CMap) (k : String) (v : Val)
    (hw : ∀ x ∈ pre ++ l :: post, WF x)
    (hb : lookup l k = some v) (hv : v.isObj = false)
    (hpost : ∀ p ∈ post, lookup p k = none) :
    lookup (mergeAll (pre ++ l :: post)) k = some v := by
  rw [field_priority_exact _ hw, List.foldl_append, List.foldl_cons,
    foldl_keyStep_unbound post k _ hpost]
  simp [keyStep, hb, mergeVal_nonobj _ v hv]

/-- **field_priority**, unset falls through: a key bound by no layer is unbound in the result,
and layers that do not bind a key do not disturb the value below them. -/
theorem unset_falls_through (layers : List CMap) (hw : ∀ l ∈ layers, WF l) (k : String)
    (h : ∀ l ∈ layers, lookup l k = none) : lookup (mergeAll layers) k = none := by
  rw [field_priority_exact _ hw, foldl_keyStep_unbound layers k none h]

/-- The lowest binding layer wins with any value (objects included) when no higher layer binds the key. -/
theorem lowest_binding_kept (pre post : List CMap) (l : CMap) (k : String) (v : Val)
    (hw : ∀ x ∈ pre ++ l :: post, WF x)
    (hpre : ∀ p ∈ pre, lookup p k = none) (hb : lookup l k = some v)
    (hpost : ∀ p ∈ post, lookup p k = none) :
    lookup (mergeAll (pre ++ l :: post)) k = some v := by
  rw [field_priority_exact _ hw, List.foldl_append, List.foldl_cons,
    foldl_keyStep_unbound post k _ hpost, foldl_keyStep_unbound pre k none hpre]
  simp [keyStep, hb, mergeVal_none]

/-- The manager instance: Secret over ConfigMap over defaults, key by key. -/
theorem field_priority_manager {T} (m : Mgr T) (name k : String) (hs : m.started = true)
    (hd : WF (m.loaderLoad .defaults name)) (hc : WF (m.cm.load name)) (hsec : WF (m.sec.load name)) :
    ∃ c, m.loadConfig name = some c ∧
      (∀ v, lookup (m.sec.load name) k = some v → v.isObj = false → lookup c k = some v) ∧
      (∀ v, lookup (m.sec.load name) k = none → lookup (m.cm.load name) k = some v → v.isObj = false →
        lookup c k = some v) ∧
      (lookup (m.sec.load name) k = none → lookup (m.cm.load name) k = none →
        lookup c k = lookup (m.loaderLoad .defaults name) k) := by
  refine ⟨mergeAll [m.loaderLoad .defaults name, m.loaderLoad .configMap name, m.loaderLoad .secret name],
    by simp [Mgr.loadConfig, Mgr.loadConfigWith, hs, loader_order_is_defaults_configmap_secret], ?_, ?_, ?_⟩
  all_goals
    have hw : ∀ x ∈ [m.loaderLoad .defaults name, m.loaderLoad .configMap name, m.loaderLoad .secret name], WF x := by
      intro x hx
      simp only [List.mem_cons, List.mem_nil_iff, or_false] at hx
      rcases hx with rfl | rfl | rfl
      · exact hd
      · exact hc
      · exact hsec
    rw [field_priority_exact _ hw]
    simp only [List.foldl_cons, List.foldl_nil, keyStep, Mgr.loaderLoad]
  · intro v h1 h2
    simp [h1, mergeVal_nonobj _ v h2]
  · intro v h1 h2 h3
    simp [h1, h2, mergeVal_nonobj _ v h3]
  · intro h1 h2
    simp only [h1, h2]
    cases lookup ((lookupCfg m.defaults name).getD []) k with
    | none => rfl
    | some v => simp [mergeVal_none]

/-- Why `field_priority` excludes object values (finding F-C19-2): mergo does not let an object
value override a non-empty lower value. Witness: defaults `cronFormat: "standard"`, ConfigMap
`cronFormat: {"a":1}`; the merged map keeps `"standard"` (and stays decodable). -/
theorem object_value_does_not_override :
    ∃ (lower upper : CMap) (k : String) (v : Val), WF lower ∧ WF upper ∧
      lookup upper k = some v ∧ lookup (mergeAll [lower, upper]) k ≠ some v :=
  ⟨[("cronFormat", .atom "\"standard\"" false)], [("cronFormat", .obj "{\"a\":1}" false)],
    "cronFormat", .obj "{\"a\":1}" false, by simp [WF], by simp [WF], by decide, by decide⟩

/-! ## source_atomic -/

/-- **source_atomic** (clause 2): a notification whose object has at least one entry that does
not parse leaves the loader's state exactly as it was — for every callback, every object. -/
theorem source_atomic (l : KLoader) (k : EvKind) (isTarget : Bool) (es : List Entry)
    (h : ∃ e ∈ es, e.2 = none) : onEvent l k isTarget es = l := by
  simp only [onEvent, handleUpdate, unmarshalAll_none es h]
  split <;> (try split) <;> rfl

/-- Deleting the source object, or any event about another object, changes nothing either
("unreadable" sources keep their last good content). -/
theorem delete_or_foreign_event_ignored (l : KLoader) (k : EvKind) (isTarget : Bool) (es : List Entry)
    (h : k = .delete ∨ isTarget = false) : onEvent l k isTarget es = l := by
  rcases h with rfl | rfl
  · simp [onEvent, handlers_as_modelled.2.2]
  · simp [onEvent, handleUpdate]

/-- A well-formed add/update replaces the content by exactly the new entries — nothing of the
previous content survives, whatever happened before (loader-level recovery). -/
theorem good_update_replaces (l : KLoader) (k : EvKind) (es : List Entry)
    (hk : k ≠ .delete) (h : ∀ e ∈ es, e.2 ≠ none) :
    (onEvent l k true es).cache = es.map fun e => (e.1, e.2.getD []) := by
  have hr : registered k = true := by
    cases k
    · exact handlers_as_modelled.1
    · exact handlers_as_modelled.2.1
    · exact absurd rfl hk
  simp [onEvent, hr, handleUpdate, unmarshalAll_some es h]

/-- Every operation sequence leaves each source either untouched or equal to the content of one
whole well-formed object that was delivered: no state is ever a mixture. -/
theorem source_state_is_whole_object {T} (decode : String → CMap → Option T) (ops : List Op) :
    ∀ (m : Mgr T), ((m.run decode ops).cm = m.cm ∨
      ∃ s k t es, Op.ev s k t es ∈ ops ∧ (∀ e ∈ es, e.2 ≠ none) ∧
        (m.run decode ops).cm.cache = es.map fun e => (e.1, e.2.getD [])) := by
  induction ops with
  | nil => intro m; exact Or.inl rfl
  | cons op ops ih =>
    intro m
    simp only [Mgr.run, List.foldl_cons] at ih ⊢
    rcases ih (Mgr.step decode m op) with h | ⟨s, k, t, es, hm, hg, hc⟩
    · rw [h]
      cases op with
      | read n => exact Or.inl (read_srcEq decode m n).2.2.1
      | ev s k t es =>
        cases s with
        | sec => exact Or.inl rfl
        | cm =>
          simp only [Mgr.step, Mgr.applyEv]
          by_cases hch : onEvent m.cm k t es = m.cm
          · exact Or.inl hch
          · refine Or.inr ⟨.cm, k, t, es, List.mem_cons_self, ?_, ?_⟩
            · intro e he hn
              exact hch (source_atomic _ k t es ⟨e, he, hn⟩)
            · have ht : t = true := by
                cases t
                · exact absurd (delete_or_foreign_event_ignored _ k false es (Or.inr rfl)) hch
                · rfl
              have hk : k ≠ .delete := fun e =>
                hch (delete_or_foreign_event_ignored _ k t es (Or.inl e))
              subst ht
              exact good_update_replaces _ k es hk (fun e he hn => hch (source_atomic _ k true es ⟨e, he, hn⟩))
    · exact Or.inr ⟨s, k, t, es, List.mem_cons_of_mem _ hm, hg, hc⟩

/-! ## last_known_good -/

-- `srcStep` (sources evolve, reads are invisible) and `lastGood` (most recent successfully decoded
-- value at a read of `name`, a scan over the operation sequence that never looks at the manager's
-- cache) are defined in Spec/ConfigSpec.lean; the invariant `lkg_invariant` is in Proofs/ConfigLemmas.lean.

/-- **last_known_good** (clause 3): after ANY sequence of good / malformed / deleting events on
either source and reads in between, a read of `name` returns
* the decoding of the current layered state, if that succeeds;
* else the most recent successfully decoded value of `name` (`lastGood`, which starts from what
  the cache held initially);
* else the error (`none`).
Nothing else can be returned — in particular never a partially applied configuration. -/
theorem last_known_good {T} (decode : String → CMap → Option T) (m : Mgr T) (ops : List Op) (name : String) :
    ((m.run decode ops).read decode name).2 =
      match (ops.foldl srcStep m).loadAndDecode decode name with
      | some t => some t
      | none => lastGood decode name m (lkgLookup m.lkg name) ops := by
  obtain ⟨h1, h2⟩ := lkg_invariant decode name ops m m (SrcEq.refl m)
  rw [← loadAndDecode_srcEq decode _ _ h2 name, ← h1]
  simp only [Mgr.read]
  cases (m.run decode ops).loadAndDecode decode name with
  | some t => rfl
  | none => cases lkgLookup (m.run decode ops).lkg name <;> rfl

/-- A read never fails once some read of the same config has succeeded (or the cache was primed). -/
theorem no_error_after_first_success {T} (decode : String → CMap → Option T) (m : Mgr T) (name : String)
    (ops : List Op) (t : T) (h : (m.read decode name).2 = some t) :
    (((m.read decode name).1.run decode ops).read decode name).2 ≠ none := by
  have hc : lkgLookup (m.read decode name).1.lkg name ≠ none := by
    simp only [Mgr.read] at h ⊢
    cases hd : m.loadAndDecode decode name with
    | some t' => simp [lkgLookup_store]
    | none =>
      rw [hd] at h
      cases hl : lkgLookup m.lkg name with
      | none => simp [hl] at h
      | some t' => simp [hl]
  have mono : ∀ (ops : List Op) (m' : Mgr T) (b : Option T), b ≠ none → lastGood decode name m' b ops ≠ none := by
    intro ops
    induction ops with
    | nil => intro m' b hb; exact hb
    | cons op ops ih =>
      intro m' b hb
      cases op with
      | ev s k t es => exact ih _ b hb
      | read n =>
        simp only [lastGood]
        apply ih
        split
        · split <;> simp_all
        · exact hb
  rw [last_known_good]
  split
  · simp
  · exact mono ops _ _ hc

/-! ## recovers -/

/-- **recovers** (clause 4): whatever happened before (any operation sequence, any number of
failed reads, any cached value), as soon as the layered state decodes again the very next read
returns the new value — not the cached one — and the cache is refreshed with it. -/
theorem recovers {T} (decode : String → CMap → Option T) (m : Mgr T) (ops : List Op) (name : String) (t : T)
    (h : (m.run decode ops).loadAndDecode decode name = some t) :
    ((m.run decode ops).read decode name).2 = some t ∧
      lkgLookup ((m.run decode ops).read decode name).1.lkg name = some t := by
  simp [Mgr.read, h, lkgLookup_store]

/-- Loader-level recovery: after any history, one well-formed object makes the source's content
exactly that object (so the layered state is the one `field_priority` describes). -/
theorem source_recovers {T} (decode : String → CMap → Option T) (m : Mgr T) (ops : List Op)
    (k : EvKind) (es : List Entry) (hk : k ≠ .delete) (h : ∀ e ∈ es, e.2 ≠ none) :
    (m.run decode (ops ++ [.ev .cm k true es])).cm.cache = es.map (fun e => (e.1, e.2.getD [])) ∧
    (m.run decode (ops ++ [.ev .sec k true es])).sec.cache = es.map (fun e => (e.1, e.2.getD [])) := by
  simp only [Mgr.run, List.foldl_append, List.foldl_cons, List.foldl_nil, Mgr.step, Mgr.applyEv]
  exact ⟨good_update_replaces _ k es hk h, good_update_replaces _ k es hk h⟩

/-! ## non-vacuity: concrete instances -/

section Examples

private def dflt : CMap := [("cronFormat", .atom "\"standard\"" false), ("maxMissedSchedules", .atom "5" false)]
private def cmL : CMap := [("maxMissedSchedules", .atom "0" true), ("cronFormat", .null)]
private def secL : CMap := [("cronFormat", .atom "\"\"" true)]

-- zero, null and empty values of higher layers win; hypotheses of `field_priority` are met
example : lookup (mergeAll [dflt, cmL, secL]) "maxMissedSchedules" = some (.atom "0" true) := by decide
example : lookup (mergeAll [dflt, cmL, secL]) "cronFormat" = some (.atom "\"\"" true) := by decide
example : lookup (mergeAll [dflt, cmL]) "cronFormat" = some .null := by decide
example : WF dflt ∧ WF cmL ∧ WF secL := by simp [WF, dflt, cmL, secL]
example : lookup cmL "maxMissedSchedules" = some (.atom "0" true) ∧ (Val.atom "0" true).isObj = false ∧
    (∀ p ∈ [secL], lookup p "maxMissedSchedules" = none) := by decide

-- a decode that rejects a wrong-typed cronFormat, and a manager with a history
private def dec : String → CMap → Option String := fun _ c =>
  match lookup c "cronFormat" with
  | some (.atom "5" _) => none
  | some (.atom r _) => some r
  | _ => some "unset"

private def m0 : Mgr String :=
  ({ defaultsObj := [("cron", dflt)] } : Mgr String).start

private def goodEv : Op := .ev .cm .add true [("cron", some [("cronFormat", .atom "\"quartz\"" false)])]
private def badEv : Op := .ev .cm .update true [("cron", some secL), ("jobs", none)]
private def wrongEv : Op := .ev .cm .update true [("cron", some [("cronFormat", .atom "5" false)])]

-- source_atomic has a satisfiable hypothesis and a state that would otherwise change
example : (m0.run dec [goodEv, badEv]).cm = (m0.run dec [goodEv]).cm ∧
    (m0.run dec [goodEv]).cm ≠ m0.cm := by decide
-- last_known_good: the undecodable state yields the value of the last successful read, not an error
example : ((m0.run dec [goodEv, .read "cron", wrongEv]).read dec "cron").2 = some "\"quartz\"" ∧
    (m0.run dec [goodEv, .read "cron", wrongEv]).loadAndDecode dec "cron" = none := by decide
-- ... and the error when nothing was read before
example : ((m0.run dec [goodEv, wrongEv]).read dec "cron").2 = none := by decide
-- recovers: the repairing update is visible at the next read although a stale value is cached
example : ((m0.run dec [goodEv, .read "cron", wrongEv, .read "cron",
    .ev .sec .add true [("cron", some [("cronFormat", .atom "\"sec\"" false)])]]).read dec "cron").2 = some "\"sec\"" := by decide
-- deletion of the source keeps its last content
example : (m0.run dec [goodEv, .ev .cm .delete true []]).cm = (m0.run dec [goodEv]).cm := by decide

end Examples

end Furiko.Props.C19
