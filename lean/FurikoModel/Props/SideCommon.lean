/-
Helpers shared by the witness files `C08Side`, `C09Side`, `C11Side`, `C12Side`: concrete histories of
the job-controller transition system (`Proofs/JobCtlSys.lean`) that replay, on the executable model,
behaviours of the real controller which reviewers observed on the unmodified code (DESIGN.md §0,
known findings F29–F32).  Each history is replayed line by line on the real controller by the corpus
scenario of the same name in `harness/eng/jobctl_scenarios.go`; model and code agree on every line.
No theorem here: definitions only.  Core Lean only.
-/
import FurikoModel.Proofs.JobCtlInvExamples

namespace Furiko.Props.Side
open Furiko Furiko.JobCtl

/-- the authoritative pod of that name (for the histories below) -/
def podOf (s : Sys) (n : String) : PodObj := (findPod s.pods n).getD default

/-- a kubelet status write: phase, `status.startTime`, container statuses; identity is kept -/
def withStatus (p : PodObj) (ph : PodPhase) (st : Option Time) (cs : List Container) : PodObj :=
  { p with pod := { p.pod with phase := ph, startTime := st, containers := cs } }

def sec (n : Nat) : Nat := n * 1000000000

/-- phase, admission-error annotation, `createdTasks`, (result, finish time) of the finished condition -/
def jobView (s : Sys) : Option (String × Bool × Int × Option (JobResult × Option Time)) :=
  s.job.map (fun j => (j.job.status.phase, j.job.admissionError, j.job.status.createdTasks,
    j.job.status.condition.finished.map (fun f => (f.result, f.finishTimestamp))))

/-- per recorded ref: name, state, result, running / finish timestamps -/
def refsView (s : Sys) : List (String × TaskState × TaskResult × Option Time × Option Time) :=
  match s.job with
  | some j => j.job.status.tasks.map (fun r => (r.name, r.status.state, r.status.result, r.runningTimestamp, r.finishTimestamp))
  | none => []

/-- per recorded ref: the deletion marker / recorded final status (`deletedStatus`) -/
def marksView (s : Sys) : List (Option (TaskState × TaskResult × String)) :=
  match s.job with
  | some j => j.job.status.tasks.map (fun r => r.deletedStatus.map (fun d => (d.state, d.result, d.reason)))
  | none => []

/-- the calls of the last pass -/
def callsOf (s : Sys) := s.calls.map (fun c => (c.verb, c.res, c.name, c.out, c.sub))

end Furiko.Props.Side
